import Msmart.Py.Basic
import Msmart.Model.Frame
import Msmart.Model.Command
import Msmart.Model.Response
