/-
  CRC-8 and additive checksum lemmas (against the table generated from /repo/msmart/crc8.py).
-/
import Msmart.Model.Frame
import Msmart.Spec.FrameSpec

namespace Msmart.Lemmas
open Msmart Msmart.Model

theorem u8_of_toNat (b : UInt8) : b.toNat.toUInt8 = b := by
  cases b; simp [UInt8.toNat, Nat.toUInt8]

/-- the generated table is the CRC-8/MAXIM table (all 256 entries, kernel-evaluated) -/
theorem table_is_maxim_nat : ∀ n, n < 256 → crcT n.toUInt8 = Spec.crcByte n.toUInt8 := by
  decide +kernel

theorem table_is_maxim (b : UInt8) : crcT b = Spec.crcByte b := by
  have := table_is_maxim_nat b.toNat (UInt8.toNat_lt b)
  rwa [u8_of_toNat] at this

theorem crcFold_eq_spec (l : Bytes) (c : UInt8) :
    l.foldl (fun c m => crcT (c ^^^ m)) c = l.foldl (fun c m => Spec.crcByte (c ^^^ m)) c := by
  induction l generalizing c with
  | nil => simp only [List.foldl_nil]
  | cons m t ih => simp only [List.foldl_cons, table_is_maxim]

theorem crc8_eq_spec (l : Bytes) : crc8 l = Spec.crc8 l := crcFold_eq_spec l 0

/-- left inverse of the table: the table is a permutation -/
def crcTinv (y : UInt8) : UInt8 :=
  (((List.range 256).find? (fun x => crcT x.toUInt8 = y)).getD 0).toUInt8

theorem crcTinv_T_nat : ∀ n, n < 256 → crcTinv (crcT n.toUInt8) = n.toUInt8 := by decide +kernel

theorem crcTinv_T (b : UInt8) : crcTinv (crcT b) = b := by
  have := crcTinv_T_nat b.toNat (UInt8.toNat_lt b)
  rwa [u8_of_toNat] at this

theorem crcT_inj {a b : UInt8} (h : crcT a = crcT b) : a = b := by
  have := congrArg crcTinv h; rwa [crcTinv_T, crcTinv_T] at this

theorem xor_right_cancel {a b m : UInt8} (h : a ^^^ m = b ^^^ m) : a = b := by
  have := congrArg (· ^^^ m) h
  simpa [UInt8.xor_assoc] using this

theorem xor_left_cancel {a b m : UInt8} (h : m ^^^ a = m ^^^ b) : a = b := by
  have := congrArg (m ^^^ ·) h
  simpa [← UInt8.xor_assoc] using this

theorem crcFold_inj (l : Bytes) {c d : UInt8}
    (h : l.foldl (fun c m => crcT (c ^^^ m)) c = l.foldl (fun c m => crcT (c ^^^ m)) d) : c = d := by
  induction l generalizing c d with
  | nil => simpa using h
  | cons m t ih =>
    simp only [List.foldl_cons] at h
    exact xor_right_cancel (crcT_inj (ih h))

/-- single-byte sensitivity of CRC-8: two messages differing in exactly one byte have different CRCs -/
theorem crc_single_byte (a b : Bytes) (x y : UInt8)
    (h : crc8 (a ++ [x] ++ b) = crc8 (a ++ [y] ++ b)) : x = y := by
  unfold crc8 at h
  simp only [List.append_assoc, List.foldl_append, List.foldl_cons,
    List.cons_append, List.nil_append] at h
  exact xor_left_cancel (crcT_inj (crcFold_inj b h))

theorem sumB_append (a b : Bytes) : sumB (a ++ b) = sumB a + sumB b := by simp [sumB]
theorem sumB_cons (x : UInt8) (l : Bytes) : sumB (x :: l) = x.toNat + sumB l := by simp [sumB]
theorem sumB_nil : sumB [] = 0 := rfl

theorem checksumNat_lt (l : Bytes) : checksumNat l < 256 := by
  unfold checksumNat; omega

theorem checksum_toNat (l : Bytes) : (checksum l).toNat = checksumNat l := by
  unfold checksum
  have := checksumNat_lt l
  simp [Nat.toUInt8, UInt8.toNat, UInt8.ofNat, BitVec.toNat_ofNat]
  omega

/-- appending the checksum makes the byte sum vanish mod 256 -/
theorem sum_with_checksum (l : Bytes) : (sumB l + (checksum l).toNat) % 256 = 0 := by
  rw [checksum_toNat]; unfold checksumNat; omega

/-- single-byte sensitivity of the additive checksum -/
theorem checksum_single_byte (a b : Bytes) (x y : UInt8)
    (h : checksum (a ++ [x] ++ b) = checksum (a ++ [y] ++ b)) : x = y := by
  have h' := congrArg UInt8.toNat h
  rw [checksum_toNat, checksum_toNat] at h'
  unfold checksumNat at h'
  simp only [sumB_append, sumB_cons, sumB_nil] at h'
  have hx := UInt8.toNat_lt x
  have hy := UInt8.toNat_lt y
  apply UInt8.toNat_inj.mp
  omega

end Msmart.Lemmas
