/-
  Settled states of V2 sessions (no handshake, no reassembly buffer): against a peer whose reaction to
  every write is nothing or ONE prompt event of any kind — an answer, an undecodable segment, a close —
  no exchange leaves anything behind: nothing pending on the network, nothing queued on an open
  connection.  The V2 counterpart of `SessionSettle`.
-/
import Msmart.Lemmas.SessionSettle

namespace Msmart.Lemmas.Sess
open Msmart Msmart.Model Msmart.Model.Session Msmart.Lemmas

/-- a peer whose reaction to every write is nothing, or one event (any) within the read timeout -/
def Gentle2 (p : Params) (rx : Reactions) : Prop :=
  ∀ cid idx, rx cid idx = [] ∨ ∃ d ev, rx cid idx = [(d, ev)] ∧ d ≤ p.readTimeout

/-- nothing left behind (V2 session) -/
structure Settled2 (s : S) : Prop where
  quiet : s.w.pending = []
  unarmed : s.w.cancelAt = none
  ver : s.l.version ≠ 3
  conn : ∀ c, s.l.conn = some c → c.core.v3 = false ∧ (c.closing = true ∨ c.queue = [])

theorem await_gentle2 {s1 : S} {c1 : Conn} (hc : s1.l.conn = some c1) (hv : c1.core.v3 = false) (hcl : c1.closing = false)
    (hq : c1.queue = []) (hnc : s1.w.cancelAt = none) (deadline : Nat)
    (hp : s1.w.pending = [] ∨ ∃ t ev, s1.w.pending = [⟨t, c1.core.cid, ev⟩] ∧ t ≤ deadline) :
    ∃ r s2 c2, awaitQueue (s1.w.pending.length + 1) s1 deadline = (r, s2) ∧ s2.l.conn = some c2 ∧ c2.core = c1.core ∧
      s2.w.pending = [] ∧ s2.w.cancelAt = none ∧ s2.l.version = s1.l.version ∧
      ((r = .timeout ∧ (c2.closing = true ∨ (c2.closing = false ∧ c2.queue = []))) ∨
       (∃ pkt, r = .packet pkt ∧ c2.closing = false ∧ c2.queue = [])) := by
  have hq1 : queueHead s1 = none := by simp [queueHead, hc, hq]
  rcases hp with hp | ⟨t, ev, hp, ht⟩
  · refine ⟨.timeout, setNow s1 deadline, c1, ?_, by simpa [setNow] using hc, rfl, by simpa [setNow] using hp,
      by simpa [setNow] using hnc, rfl, .inl ⟨rfl, .inr ⟨hcl, hq⟩⟩⟩
    rw [hp]
    simp [awaitQueue, hq1, hp, nextDue, cancelDue_unarmed hnc]
  · cases ev with
    | close =>
      have hdue : nextDue s1.w.pending deadline = some ⟨t, c1.core.cid, .close⟩ := by rw [hp]; simp [nextDue, ht]
      let s1' := deliverDue s1 ⟨t, c1.core.cid, .close⟩
      let c2 : Conn := { c1 with closing := true }
      have hc1' : s1'.l.conn = some c2 := by
        simp [s1', deliverDue, softConn, hc, applyEvent, hcl, c2]
      have hp1' : s1'.w.pending = [] := by
        show (deliverDue s1 _).w.pending = []
        rw [pending_deliverDue, hp]; simp [removeFirst]
      have hq1' : queueHead s1' = none := by simp [queueHead, hc1', c2, hq]
      have hnc1' : s1'.w.cancelAt = none := by show (deliverDue s1 _).w.cancelAt = none; rw [cancelAt_deliverDue]; exact hnc
      refine ⟨.timeout, setNow s1' deadline, c2, ?_, by simpa [setNow] using hc1', rfl, by simpa [setNow] using hp1',
        by simpa [setNow] using hnc1', ?_, .inl ⟨rfl, .inl rfl⟩⟩
      · have hlen : s1.w.pending.length + 1 = 1 + 1 := by rw [hp]; rfl
        rw [hlen, awaitQueue, hq1]
        simp only
        rw [hdue]
        simp only
        rw [cancelDue_unarmed hnc]
        simp only
        show awaitQueue 1 s1' deadline = _
        rw [show (1 : Nat) = 0 + 1 from rfl, awaitQueue, hq1']
        simp only
        rw [hp1']
        simp [nextDue, cancelDue_unarmed hnc1']
      · show (setNow s1' deadline).l.version = s1.l.version
        have : s1'.l.version = s1.l.version := version_of_abs (abs_deliverDue s1 _)
        simpa [setNow] using this
    | data b =>
      have hseg : segQueue c1.core.v3 c1.buffer b = b :: [] := by simp [segQueue, hv]
      obtain ⟨s2, c2, ha, hc2, hcore2, hq2, hcl2, hp2, _, _, _, _, _, _, _, _, hver2, _, _, hnc2⟩ :=
        await_single (s1 := s1) (c1 := c1) hc hq hcl t deadline b b [] hp ht hseg hnc
      exact ⟨.packet b, s2, c2, ha, hc2, hcore2, hp2, hnc2, hver2, .inr ⟨b, rfl, hcl2, hq2⟩⟩

theorem settled2_opDisconnect {s : S} (hq : s.w.pending = []) (hnc : s.w.cancelAt = none) (hver : s.l.version ≠ 3) :
    Settled2 (opDisconnect s) :=
  ⟨by rw [pending_opDisconnect]; exact hq, by rw [cancelAt_opDisconnect]; exact hnc, by rw [version_opDisconnect]; exact hver,
   by intro c hc; rw [conn_opDisconnect] at hc; cases hc⟩

theorem settled2_of_parts {s : S} {c : Conn} (hc : s.l.conn = some c) (hv : c.core.v3 = false)
    (hq : s.w.pending = []) (hnc : s.w.cancelAt = none) (hver : s.l.version ≠ 3)
    (hshape : c.closing = true ∨ c.queue = []) : Settled2 s :=
  ⟨hq, hnc, hver, by intro c' hc'; rw [hc] at hc'; cases hc'; exact ⟨hv, hshape⟩⟩

/-- one write + read attempt from an idle V2 connection -/
theorem attempt_gentle2 {p : Params} {rx : Reactions} (hg : Gentle2 p rx) {s : S} {c : Conn} (frame : Bytes)
    (hc : s.l.conn = some c) (hv : c.core.v3 = false) (hcl : c.closing = false) (hq : c.queue = [])
    (hquiet : s.w.pending = []) (hnc : s.w.cancelAt = none) :
    ∃ s1 r s2 c2, opWrite rx s frame = .ok s1 ∧
      awaitQueue (s1.w.pending.length + 1) s1 (s1.w.now + p.readTimeout) = (r, s2) ∧
      s2.l.conn = some c2 ∧ c2.core = (wrote c).core ∧ s2.w.pending = [] ∧ s2.w.cancelAt = none ∧
      s2.l.version = s.l.version ∧
      ((r = .timeout ∧ (c2.closing = true ∨ (c2.closing = false ∧ c2.queue = []))) ∨
       (∃ pkt, r = .packet pkt ∧ c2.closing = false ∧ c2.queue = [])) := by
  have hr : Ready s c := ⟨hc, hcl, hq, hquiet, (by intro h; rw [hv] at h; cases h), hnc⟩
  obtain ⟨s1, hw, hc1, hnow, hpend, _, hca⟩ := opWrite_ready (rx := rx) frame hr
  have hver1 : s1.l.version = s.l.version := version_opWrite hw
  have hp1 : s1.w.pending = [] ∨ ∃ t ev, s1.w.pending = [⟨t, (wrote c).core.cid, ev⟩] ∧ t ≤ s1.w.now + p.readTimeout := by
    rcases hg c.core.cid c.core.nWrites with h0 | ⟨d, ev, h1, hd⟩
    · left; rw [hpend, h0]; rfl
    · right; refine ⟨s.w.now + d, ev, ?_, by rw [hnow]; omega⟩
      rw [hpend, h1, wrote_cid]; rfl
  obtain ⟨r, s2, c2, ha, hc2, hcore2, hp2, hnc2, hver2, hcase⟩ :=
    await_gentle2 (s1 := s1) (c1 := wrote c) hc1 (by rw [wrote_v3]; exact hv) (by simp [wrote, hcl])
      (by simp [wrote, hq]) hca (s1.w.now + p.readTimeout) hp1
  exact ⟨s1, r, s2, c2, hw, ha, hc2, hcore2, hp2, hnc2, by rw [hver2, hver1], hcase⟩

/-- the retry loop leaves a settled V2 state behind -/
theorem sendLoop_settled2 {p : Params} {rx : Reactions} (hg : Gentle2 p rx) {frame : Bytes} (n : Nat) :
    ∀ (s s' : S) (acc : List Bytes) (r : R (List Bytes)), Settled2 s → sendLoop p rx frame n s acc = (r, s') → Settled2 s' := by
  induction n with
  | zero => intro s s' acc r hs h; unfold sendLoop at h; cases h; exact hs
  | succ n ih =>
    intro s s' acc r hs h
    cases hc : s.l.conn with
    | none =>
      unfold sendLoop at h
      have : opWrite rx s frame = .error (.py "AssertionError") := by
        unfold opWrite; simp [isV3, hc, opWriteV2]
      rw [this] at h; cases h; exact hs
    | some c =>
      obtain ⟨hv, hshape⟩ := hs.conn c hc
      cases hcl : c.closing with
      | true =>
        have hwe : opWrite rx s frame = .error .protocol := by
          unfold opWrite
          simp [isV3, hc, hv, opWriteV2, hcl]
        unfold sendLoop at h
        rw [hwe] at h; cases h
        exact hs
      | false =>
        have hq : c.queue = [] := by
          rcases hshape with h1 | h1
          · rw [hcl] at h1; cases h1
          · exact h1
        obtain ⟨s1, r1, s2, c2, hw, ha, hc2, hcore2, hp2, hnc2, hver2, hcase⟩ :=
          attempt_gentle2 (p := p) hg frame hc hv hcl hq hs.quiet hs.unarmed
        have hv2 : c2.core.v3 = false := by rw [hcore2, wrote_v3]; exact hv
        have hver2' : s2.l.version ≠ 3 := by rw [hver2]; exact hs.ver
        unfold sendLoop at h
        rw [hw] at h; simp only at h
        rw [ha] at h
        rcases hcase with ⟨rfl, hsh⟩ | ⟨pkt, rfl, hcl2, hq2⟩
        · simp only at h
          have hs2 : Settled2 s2 := settled2_of_parts hc2 hv2 hp2 hnc2 hver2' (by
            rcases hsh with h1 | ⟨_, h2⟩
            · exact .inl h1
            · exact .inr h2)
          split at h
          · exact ih s2 s' acc r hs2 h
          · simp only [Prod.mk.injEq] at h
            obtain ⟨rfl, rfl⟩ := h
            exact settled2_opDisconnect hp2 hnc2 hver2'
        · simp only at h
          have hs2 : Settled2 s2 := settled2_of_parts hc2 hv2 hp2 hnc2 hver2' (.inr hq2)
          split at h
          · simp only [Prod.mk.injEq] at h
            obtain ⟨rfl, rfl⟩ := h
            exact settled2_opDisconnect hp2 hnc2 hver2'
          · simp only [Prod.mk.injEq] at h
            obtain ⟨rfl, rfl⟩ := h
            exact settled2_opDisconnect hp2 hnc2 hver2'
          · rename_i e hne _ hd
            have hiv : isV3 s2 = true → 6 ≤ pkt.length := by
              intro hh; simp [isV3, hc2, hv2] at hh
            exact absurd (decodeRead_protocol hiv hd) hne
          · simp only [Prod.mk.injEq] at h
            obtain ⟨rfl, rfl⟩ := h
            exact hs2

theorem settled2_softConn {s : S} {f : Conn → Conn} (hs : Settled2 s)
    (hf : ∀ c, (c.closing = true ∨ c.queue = []) → ((f c).closing = true ∨ (f c).queue = [])) : Settled2 (softConn s f) := by
  refine ⟨by rw [pending_softConn]; exact hs.quiet, by rw [cancelAt_softConn]; exact hs.unarmed,
    by rw [version_of_abs (abs_softConn s f)]; exact hs.ver, ?_⟩
  intro c' hc'
  unfold softConn at hc'
  cases hc : s.l.conn with
  | none => rw [hc] at hc'; simp only at hc'; rw [hc] at hc'; cases hc'
  | some c =>
    rw [hc] at hc'
    simp only [Option.some.injEq] at hc'
    subst hc'
    obtain ⟨hv, hsh⟩ := hs.conn c hc
    exact ⟨hv, hf c hsh⟩

theorem settled2_popQueue {s : S} (hs : Settled2 s) : Settled2 (popQueue s) := by
  apply settled2_softConn hs
  intro c hsh
  rcases hsh with h | h1
  · exact .inl h
  · exact .inr (by simp [h1])

theorem readAvailable_settled2 (fuel : Nat) {s s' : S} {acc : List Bytes} {r : R (List Bytes)} (hs : Settled2 s)
    (h : readAvailable fuel s acc = (r, s')) : Settled2 s' := by
  induction fuel generalizing s acc with
  | zero => unfold readAvailable at h; cases h; exact hs
  | succ n ih =>
    unfold readAvailable at h
    split at h
    · cases h; exact hs
    · split at h
      · simp only [Prod.mk.injEq] at h
        obtain ⟨_, rfl⟩ := h
        exact settled2_popQueue hs
      · exact ih (settled2_popQueue hs) h

theorem exchange_settled2 {p : Params} {rx : Reactions} (hg : Gentle2 p rx) {s s' : S} {frame : Bytes} {n : Nat}
    {r : R (List Bytes)} (hs : Settled2 s) (h : exchange p rx s frame n = (r, s')) : Settled2 s' := by
  unfold exchange at h
  split at h
  · rename_i e s3 hpre
    simp only [Prod.mk.injEq] at h
    obtain ⟨_, rfl⟩ := h
    exact readAvailable_settled2 _ hs hpre
  · rename_i pre s3 hpre
    have hs3 := readAvailable_settled2 _ hs hpre
    split at h
    · rename_i e s4 hl
      simp only [Prod.mk.injEq] at h
      obtain ⟨_, rfl⟩ := h
      exact sendLoop_settled2 hg n s3 _ pre _ hs3 hl
    · rename_i got s4 hl
      exact readAvailable_settled2 _ (sendLoop_settled2 hg n s3 s4 pre _ hs3 hl) h

theorem settled2_pump {s : S} (t : Nat) (hs : Settled2 s) : Settled2 (pump s t) := by
  rw [pump_quiet t hs.quiet]
  exact ⟨by simpa [setNow] using hs.quiet, by simpa [setNow] using hs.unarmed, by simpa [setNow] using hs.ver,
    by simpa [setNow] using hs.conn⟩

theorem opConnect_settled2 {p : Params} {s s' : S} {r : R Unit} (hs : Settled2 s) (hn : s.l.conn = none)
    (h : opConnect p s = (r, s')) : Settled2 s' := by
  have hd : Settled2 (dropConnect s) := ⟨hs.quiet, hs.unarmed, hs.ver, hs.conn⟩
  unfold opConnect at h
  split at h
  · cases h; exact hd
  · cases h; exact hd
  · cases h; exact settled2_pump _ hd
  · cases h
    refine ⟨hs.quiet, hs.unarmed, hs.ver, ?_⟩
    intro c hc
    simp only [opConnected, logEv, dropConnect, Option.some.injEq] at hc
    subst hc
    exact ⟨by simp [hs.ver], .inr rfl⟩

theorem ensureAuth_v2 {p : Params} {rx : Reactions} {s : S} (hs : Settled2 s) : ensureAuth p rx s = (.ok (), s) := by
  unfold ensureAuth
  have : isV3 s = false := by
    unfold isV3
    cases hc : s.l.conn with
    | none => rfl
    | some c => exact (hs.conn c hc).1
  simp [this]

/-- **gentle peers leave nothing behind (V2).** -/
theorem lanSend_settled2 {p : Params} {rx : Reactions} (hg : Gentle2 p rx) {s s' : S} {frame : Bytes} {n : Nat}
    {r : R (List Bytes)} (hs : Settled2 s) (h : lanSend p rx s frame n = (r, s')) : Settled2 s' := by
  unfold lanSend at h
  split at h
  · have hs0 : Settled2 (opDisconnect s) := settled2_opDisconnect hs.quiet hs.unarmed hs.ver
    have hn0 : (opDisconnect s).l.conn = none := conn_opDisconnect s
    split at h
    · rename_i e s1 hc
      simp only [Prod.mk.injEq] at h
      obtain ⟨_, rfl⟩ := h
      exact opConnect_settled2 hs0 hn0 hc
    · rename_i s1 hc
      have hs1 := opConnect_settled2 hs0 hn0 hc
      rw [ensureAuth_v2 hs1] at h
      exact exchange_settled2 hg hs1 h
  · rw [ensureAuth_v2 hs] at h
    exact exchange_settled2 hg hs h

/-- the two situations a settled V2 session can be in: dead connection, or live and idle -/
theorem settled2_cases {s : S} (hs : Settled2 s) :
    connAlive s = false ∨ (∃ c, Ready s c ∧ c.core.v3 = false ∧ connAlive s = true) := by
  cases hal : connAlive s with
  | false => exact .inl rfl
  | true =>
    right
    cases hc : s.l.conn with
    | none => simp [connAlive, hc] at hal
    | some c =>
      obtain ⟨hv, hsh⟩ := hs.conn c hc
      have hcl : c.closing = false := by
        cases hcc : c.closing with
        | false => rfl
        | true => simp [connAlive, hc, hcc] at hal
      have hq : c.queue = [] := by
        rcases hsh with h1 | h1
        · rw [hcl] at h1; cases h1
        · exact h1
      exact ⟨c, ⟨hc, hcl, hq, hs.quiet, (by intro h; rw [hv] at h; cases h), hs.unarmed⟩, hv, rfl⟩

end Msmart.Lemmas.Sess
