/-
  Containment lemmas: which errors each response parser can return.
-/
import Msmart.Model.Device

namespace Msmart.Lemmas
open Msmart Msmart.Model

/-- the only error is IndexError -/
def OnlyIdx {α} (r : R α) : Prop := ∀ e, r = .error e → e = indexError
/-- errors are InvalidFrame, InvalidResponse or IndexError -/
def Tri {α} (r : R α) : Prop :=
  ∀ e, r = .error e → e = .invalidFrame ∨ e = .invalidResponse ∨ e = indexError

theorem OnlyIdx.tri {α} {r : R α} (h : OnlyIdx r) : Tri r := fun e he => .inr (.inr (h e he))

theorem idx_onlyIdx {α} (l : List α) (i : Nat) : OnlyIdx (Py.idx l i) := by
  intro e he; unfold Py.idx at he; split at he <;> simp_all

theorem pure_onlyIdx {α} (a : α) : OnlyIdx (pure a : R α) := by intro e he; cases he
theorem ok_onlyIdx {α} (a : α) : OnlyIdx (.ok a : R α) := by intro e he; cases he

theorem bind_onlyIdx {α β} {x : R α} {f : α → R β} (hx : OnlyIdx x) (hf : ∀ a, OnlyIdx (f a)) :
    OnlyIdx (x >>= f) := by
  intro e he
  cases x with
  | error e' => simp only [bind, Except.bind] at he; cases he; exact hx _ rfl
  | ok a => exact hf a e he

theorem bind_tri {α β} {x : R α} {f : α → R β} (hx : Tri x) (hf : ∀ a, Tri (f a)) :
    Tri (x >>= f) := by
  intro e he
  cases x with
  | error e' => simp only [bind, Except.bind] at he; cases he; exact hx _ rfl
  | ok a => exact hf a e he

macro "only_idx" : tactic =>
  `(tactic| repeat (first
      | exact pure_onlyIdx _
      | exact ok_onlyIdx _
      | exact idx_onlyIdx _ _
      | (apply bind_onlyIdx (idx_onlyIdx _ _); intro _)))

theorem parseState_onlyIdx (p : Bytes) : OnlyIdx (parseState p) := by
  unfold parseState; only_idx

theorem parseEnergy_onlyIdx (p : Bytes) : OnlyIdx (parseEnergy p) := by
  unfold parseEnergy; only_idx

theorem parseHumidity_onlyIdx (p : Bytes) : OnlyIdx (parseHumidity p) := by
  unfold parseHumidity; only_idx

theorem capTempRecord_err {d caps size e} (h : capTempRecord d caps size = .err e) : e = indexError := by
  unfold capTempRecord at h
  split at h
  · split at h
    · split at h <;> simp_all
    · simp at h
  · simp_all

theorem capStep_err {d caps e} (h : capStep d caps = .err e) : e = indexError := by
  unfold capStep at h
  split at h
  · simp at h
  · split at h
    · simp at h
    · split at h
      · simp at h
      · split at h
        · simp at h
        · split at h
          · simp_all
          · split at h
            · split at h
              · simp at h
              · exact capTempRecord_err h
            · simp at h

theorem parseCapsLoop_onlyIdx (n : Nat) (d : CapDict) (caps : Bytes) :
    OnlyIdx (parseCapsLoop n d caps) := by
  induction n generalizing d caps with
  | zero => intro e he; simp [parseCapsLoop] at he
  | succ n ih =>
    intro e he
    unfold parseCapsLoop at he
    split at he
    · simp at he
    · exact ih _ _ e he
    · rename_i e' hstep
      cases he
      exact capStep_err hstep

theorem parseCaps_onlyIdx (p : Bytes) : OnlyIdx (parseCaps p) := by
  unfold parseCaps
  apply bind_onlyIdx (idx_onlyIdx _ _); intro _
  apply bind_onlyIdx (parseCapsLoop_onlyIdx _ _ _); intro _
  exact pure_onlyIdx _

theorem propStep_err {d props e} (h : propStep d props = .err e) : e = indexError := by
  unfold propStep at h
  split at h
  · simp at h
  · split at h
    · simp at h
    · split at h
      · simp at h
      · split at h
        · simp at h
        · split at h <;> simp_all

theorem parsePropsLoop_onlyIdx (n : Nat) (d : PropDict) (props : Bytes) :
    OnlyIdx (parsePropsLoop n d props) := by
  induction n generalizing d props with
  | zero => intro e he; simp [parsePropsLoop] at he
  | succ n ih =>
    intro e he
    unfold parsePropsLoop at he
    split at he
    · simp at he
    · exact ih _ _ e he
    · rename_i e' hstep
      cases he
      exact propStep_err hstep

theorem parseProps_onlyIdx (p : Bytes) : OnlyIdx (parseProps p) := by
  unfold parseProps
  apply bind_onlyIdx (idx_onlyIdx _ _); intro _
  exact parsePropsLoop_onlyIdx _ _ _

theorem frameValidate_tri (f : Bytes) : Tri (frameValidate f) := by
  intro e he; unfold frameValidate at he
  split at he
  · cases he; exact .inr (.inr rfl)
  · split at he <;> simp_all

theorem respValidate_tri (f : Bytes) : Tri (respValidate f) := by
  intro e he; unfold respValidate at he
  split at he
  · cases he; exact .inr (.inr rfl)
  · split at he <;> simp_all

theorem respClass_onlyIdx (f : Bytes) : OnlyIdx (respClass f) := by
  unfold respClass
  apply bind_onlyIdx (idx_onlyIdx _ _); intro ft
  apply bind_onlyIdx (idx_onlyIdx _ _); intro rid
  split
  · exact pure_onlyIdx _
  · split
    · exact pure_onlyIdx _
    · split
      · exact pure_onlyIdx _
      · split
        · apply bind_onlyIdx (idx_onlyIdx _ _); intro g
          split
          · exact pure_onlyIdx _
          · split <;> exact pure_onlyIdx _
        · exact pure_onlyIdx _

theorem map_onlyIdx {α β} {x : R α} (g : α → β) (hx : OnlyIdx x) : OnlyIdx (x.map g) := by
  intro e he
  cases x with
  | error e' => simp only [Except.map] at he; cases he; exact hx _ rfl
  | ok a => simp [Except.map] at he

theorem buildResp_onlyIdx (cls : RespClass) (id : UInt8) (p : Bytes) : OnlyIdx (buildResp cls id p) := by
  cases cls
  · exact ok_onlyIdx _
  · exact map_onlyIdx _ (parseState_onlyIdx _)
  · exact map_onlyIdx _ (parseCaps_onlyIdx _)
  · exact map_onlyIdx _ (parseProps_onlyIdx _)
  · exact map_onlyIdx _ (parseEnergy_onlyIdx _)
  · exact map_onlyIdx _ (parseHumidity_onlyIdx _)

theorem validateUnlessProps_tri (cls : RespClass) (f : Bytes) : Tri (validateUnlessProps cls f) := by
  unfold validateUnlessProps
  split
  · exact respValidate_tri _
  · exact (ok_onlyIdx _).tri

theorem constructInner_tri (f : Bytes) : Tri (constructInner f) := by
  unfold constructInner
  apply bind_tri (frameValidate_tri _); intro _
  apply bind_tri (respClass_onlyIdx _).tri; intro cls
  apply bind_tri (validateUnlessProps_tri _ _); intro _
  apply bind_tri (idx_onlyIdx _ _).tri; intro id
  exact (buildResp_onlyIdx _ _ _).tri

end Msmart.Lemmas
