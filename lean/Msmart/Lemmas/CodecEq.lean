/-
  The TRANSLATED code (`Generated/Codec.lean`, written by harness/pytrans.py from the source text of /repo on
  every run) computes, FOR ALL INPUTS, what the hand-written Model computes.  These equalities are the second tie
  between model and code (DESIGN §3.1b): a change of a mask, shift, constant, branch or index in the Python
  regenerates `Codec.lean`, and either these proofs no longer check or the two functions are still equal.
-/
import Msmart.Generated.Codec
import Msmart.Generated.Enums

set_option linter.unusedSimpArgs false

namespace Msmart.CodecEq
open Msmart.Generated
open Msmart.Model

/-! ### constant command bodies -/

theorem toggleDisplay_eq (b : Bool) : Codec.toggleDisplayBody b = Cmd.body (.toggleDisplay b) := by
  cases b <;> rfl

theorem getState_eq : Codec.getStateBody 2 = Cmd.body .getState := by rfl
theorem getEnergy_eq : Codec.getEnergyBody = Cmd.body .getEnergy := by rfl
theorem getHumidity_eq : Codec.getHumidityBody = Cmd.body .getHumidity := by rfl
theorem getCapabilities_eq (a : Bool) : Codec.getCapabilitiesBody a = Cmd.body (.getCapabilities a) := by
  cases a <;> rfl


/-! ### SetStateCommand.tobytes -/

theorem band_7 (x : Int) : Py.band x 7 = x % 8 := by
  unfold Py.band
  rw [show Py.bitLen 7 = 3 by decide, show (7:Nat) = 2^3 - 1 by decide, Nat.and_two_pow_sub_one_eq_mod]; omega
theorem band_15 (x : Int) : Py.band x 15 = x % 16 := by
  unfold Py.band
  rw [show Py.bitLen 15 = 4 by decide, show (15:Nat) = 2^4 - 1 by decide, Nat.and_two_pow_sub_one_eq_mod]; omega
theorem band_31 (x : Int) : Py.band x 31 = x % 32 := by
  unfold Py.band
  rw [show Py.bitLen 31 = 5 by decide, show (31:Nat) = 2^5 - 1 by decide, Nat.and_two_pow_sub_one_eq_mod]; omega
theorem band_63 (x : Int) : Py.band x 63 = x % 64 := by
  unfold Py.band
  rw [show Py.bitLen 63 = 6 by decide, show (63:Nat) = 2^6 - 1 by decide, Nat.and_two_pow_sub_one_eq_mod]; omega
theorem band_127 (x : Int) : Py.band x 127 = x % 128 := by
  unfold Py.band
  rw [show Py.bitLen 127 = 7 by decide, show (127:Nat) = 2^7 - 1 by decide, Nat.and_two_pow_sub_one_eq_mod]; omega

/-- `bytes([...])` of values that are bytes -/
theorem bytesOf_ok (m : Bytes) : Py.bytesOf (m.map (fun b => (b.toNat : Int))) = .ok m := by
  unfold Py.bytesOf
  have h1 : (m.map (fun b => (b.toNat : Int))).all (fun x => decide (0 ≤ x) && decide (x < 256)) = true := by
    simp only [List.all_map, List.all_eq_true]
    intro b _
    have := b.toNat_lt
    simp only [Function.comp, Bool.and_eq_true, decide_eq_true_eq]
    omega
  rw [if_pos h1]
  congr 1
  rw [List.map_map]
  conv => rhs; rw [← List.map_id m]
  apply List.map_congr_left
  intro b _
  simp [Function.comp]

/-- one element out of range -/
theorem bytesOf_bad (pre : List Int) (x : Int) (post : List Int) (h : x < 0 ∨ x > 255) :
    Py.bytesOf (pre ++ x :: post) = .error (.py "ValueError") := by
  unfold Py.bytesOf
  rw [if_neg]
  simp only [List.all_append, List.all_cons, Bool.and_eq_true, decide_eq_true_eq, not_and]
  intro _ h2
  omega

-- finite byte facts
theorem b1 (beep power : Bool) :
    Py.bor (Py.bor 2 (if beep then 64 else 0)) (if power then 1 else 0)
      = (((Generated.controlSource.toUInt8) ||| flag beep 0x40 ||| flag power 0x01).toNat : Int) := by
  cases beep <;> cases power <;> rfl

theorem b2_fin : ∀ k, k < 16 → ∀ f : Bool, ∀ m, m < 8 →
    Py.bor (Py.bor ((k : Nat) : Int) (if f then 16 else 0)) ((((m : Nat) : Int)) <<< 5)
      = ((((k : Nat).toUInt8 ||| (if f then 0x10 else 0)) ||| ((m * 32).toUInt8)).toNat : Int) := by
  decide +kernel

theorem b7_fin : ∀ k, k < 64 → Py.bor 48 ((k : Nat) : Int) = (((0x30 : UInt8) ||| (k : Nat).toUInt8).toNat : Int) := by
  decide +kernel
theorem b8 (a b : Bool) : Py.bor (if a then 128 else 0) (if b then 32 else 0) = ((flag a 0x80 ||| flag b 0x20).toNat : Int) := by
  cases a <;> cases b <;> rfl
theorem b9 (a b c d : Bool) :
    Py.bor (Py.bor (Py.bor (if a then 128 else 0) (if b then 32 else 0)) (if c then 16 else 0)) (if d then 8 else 0)
     = ((flag a 0x80 ||| flag b 0x20 ||| flag c 0x10 ||| flag d 0x08).toNat : Int) := by
  cases a <;> cases b <;> cases c <;> cases d <;> rfl
theorem b10 (a b c : Bool) :
    Py.bor (Py.bor (if a then 1 else 0) (if b then 2 else 0)) (if c then 4 else 0)
     = ((flag a 0x01 ||| flag b 0x02 ||| flag c 0x04).toNat : Int) := by
  cases a <;> cases b <;> cases c <;> rfl
theorem b21 (a : Bool) : (if a then (128:Int) else 0) = ((flag a 0x80).toNat : Int) := by cases a <;> rfl
theorem b22 (a : Bool) : (if a then (8:Int) else 0) = ((flag a 0x08).toNat : Int) := by cases a <;> rfl

theorem u8_lt (n : Nat) (h : n < 256) : ((n.toUInt8).toNat : Int) = n := by
  have : (n.toUInt8).toNat = n := by
    simp [Nat.toUInt8, UInt8.toNat, UInt8.ofNat, BitVec.toNat_ofNat]; omega
  rw [this]

theorem b19_fin : ∀ h, h < 128 → (((h : Nat) : Int)) = (((h % 128).toUInt8).toNat : Int) := by decide +kernel
theorem b18_fin : ∀ k, k < 32 → (((k : Nat) : Int)) = (((k : Nat).toUInt8).toNat : Int) := by decide +kernel

theorem tdiv_cancel (x : Int) : Int.tdiv (100 * x) 100 = x := by
  rw [Int.mul_comm]; exact Int.mul_tdiv_cancel x (by decide)

/-- the translated `SetStateCommand.tobytes` applied to the attribute values of a command object -/
def setStateCode (s : SetState) : R Bytes :=
  Codec.setStateBody s.beep s.power s.tempCenti (s.mode : Int) s.fan s.eco (s.swing : Int) s.turbo s.fahrenheit s.sleep
    s.freeze s.followMe s.purifier (s.humidity : Int) s.auxHeat s.forceAuxHeat s.indepAuxHeat

/-- **tie.** For EVERY attribute assignment (any integers, any booleans) the translated `SetStateCommand.tobytes`
    produces the body the hand-written model produces - including the ValueError for a fan speed outside a byte. -/
theorem setStateBody_eq (s : SetState) : setStateCode s = setStateBody s := by
  first
  | (
      obtain ⟨beep, power, tempCenti, mode, fan, eco, swing, turbo, fahrenheit, sleep, freeze, followMe, purifier, humidity,
        auxHeat, forceAuxHeat, indepAuxHeat⟩ := s
      unfold setStateCode Codec.setStateBody Model.setStateBody
      simp only []
      by_cases hf : fan < 0 ∨ fan > 255
      · rw [if_pos hf]
        exact bytesOf_bad [64, _, _] fan _ hf
      · rw [if_neg hf]
        refine Eq.trans (congrArg Py.bytesOf ?_) (bytesOf_ok _)
        simp only [List.map_cons, List.map_nil, tdiv_cancel, List.cons.injEq, and_true]
        have hcs : Generated.controlSource.toUInt8 = 2 := rfl
        refine ⟨rfl, ?b1, ?b2, ?b3, rfl, rfl, rfl, ?b7, ?b8, ?b9, ?b10, rfl, rfl, rfl, rfl, rfl, rfl, rfl, ?b18, ?b19, rfl, ?b21, ?b22, rfl⟩
        case b1 => cases beep <;> cases power <;> rfl
        case b8 => cases followMe <;> cases turbo <;> rfl
        case b9 => cases eco <;> cases purifier <;> cases forceAuxHeat <;> cases auxHeat <;> rfl
        case b10 => cases sleep <;> cases turbo <;> cases fahrenheit <;> rfl
        case b21 => cases freeze <;> rfl
        case b22 => cases indepAuxHeat <;> rfl
        case b3 =>
          have h : fan.toNat < 256 := by omega
          rw [u8_lt _ h]; omega
        case b7 =>
          simp only [band_63]
          have e : ((swing : Int) % 64) = ((swing % 64 : Nat) : Int) := by omega
          rw [e]
          have hk : swing % 64 < 64 := Nat.mod_lt _ (by decide)
          generalize swing % 64 = k at hk ⊢
          revert k; decide +kernel
        case b19 =>
          simp only [band_127]
          have e : ((humidity : Int) % 128) = ((humidity % 128 : Nat) : Int) := by omega
          rw [e]
          have hk : humidity % 128 < 128 := Nat.mod_lt _ (by decide)
          generalize humidity % 128 = k at hk ⊢
          revert k; decide +kernel
        case b18 =>
          unfold tempAltByte usePrimary integralTemp
          simp only [band_31, Bool.and_eq_true, decide_eq_true_eq, Bool.decide_and]
          generalize tempCenti.tdiv 100 = I
          by_cases hP : 17 ≤ I ∧ I ≤ 30
          · simp only [hP, and_self, if_true]; rfl
          · simp only [hP, if_false]
            have e : (I - 12) % 32 = ((((I - 12) % 32).toNat : Nat) : Int) := by omega
            rw [e, Int.toNat_natCast]
            have hk : ((I - 12) % 32).toNat < 32 := by omega
            generalize ((I - 12) % 32).toNat = k at hk ⊢
            revert k; decide +kernel
        case b2 =>
          unfold tempByte usePrimary integralTemp fracPositive
          simp only [band_7, band_15, Bool.and_eq_true, decide_eq_true_eq, Bool.decide_and]
          generalize tempCenti.tdiv 100 = I
          have hm : ((mode : Int) % 8) = ((mode % 8 : Nat) : Int) := by omega
          rw [hm]
          have hmlt : mode % 8 < 8 := Nat.mod_lt _ (by decide)
          generalize mode % 8 = m at hmlt ⊢
          by_cases hP : 17 ≤ I ∧ I ≤ 30
          · simp only [hP, and_self, if_true]
            have e : (I - 16) % 16 = ((((I - 16)).toNat : Nat) : Int) := by omega
            rw [e, Int.toNat_natCast]
            have hk : (I - 16).toNat < 16 := by omega
            generalize (I - 16).toNat = k at hk ⊢
            by_cases hfr : tempCenti.tmod 100 > 0
            · simp only [hfr, if_true]; revert k m; decide +kernel
            · simp only [hfr, if_false]; revert k m; decide +kernel
          · simp only [hP, if_false]
            by_cases hfr : tempCenti.tmod 100 > 0
            · simp only [hfr, if_true]; revert m; decide +kernel
            · simp only [hfr, if_false]; revert m; decide +kernel
            done)
  | (-- the translator reported `unsupported`: `Codec.setStateBody` is the model itself
     cases s; simp [setStateCode, Codec.setStateBody])

/-! ### StateResponse._parse_temperature / _parse -/

theorem u8_of_toNat' (b : UInt8) : b.toNat.toUInt8 = b := by
  cases b; simp [UInt8.toNat, Nat.toUInt8]

theorem u8_forall {P : UInt8 → Prop} (h : ∀ n, n < 256 → P n.toUInt8) (b : UInt8) : P b := by
  have := h b.toNat b.toNat_lt
  rwa [u8_of_toNat'] at this

theorem parseTemperature_eq_nat : ∀ d, d < 256 → ∀ n, n < 16 → ∀ f : Bool,
    Codec.parseTemperature (d : Nat) (10 * (n : Nat)) f = (parseTemp d n f).map (· * 10) := by
  decide +kernel

/-- single-bit tests -/
theorem bit_eq_nat : ∀ n, n < 256 → ∀ k, k < 8 →
    decide (Py.band ((n.toUInt8).toNat : Int) (2 ^ k) ≠ 0) = bit n.toUInt8 ((2 ^ k : Nat).toUInt8) := by
  decide +kernel

theorem bit_eq (b : UInt8) (k : Nat) (hk : k < 8) :
    decide (Py.band (b.toNat : Int) (2 ^ k) ≠ 0) = bit b ((2 ^ k : Nat).toUInt8) :=
  u8_forall (P := fun b => decide (Py.band (b.toNat : Int) (2 ^ k) ≠ 0) = bit b ((2 ^ k : Nat).toUInt8))
    (fun n hn => bit_eq_nat n hn k hk) b

theorem band31_eq (b : UInt8) : Py.band (b.toNat : Int) 31 = ((b &&& 0x1F).toNat : Int) :=
  u8_forall (P := fun b => Py.band (b.toNat : Int) 31 = ((b &&& 0x1F).toNat : Int)) (by decide +kernel) b
theorem band15_eq (b : UInt8) : Py.band (b.toNat : Int) 15 = ((b &&& 0xF).toNat : Int) :=
  u8_forall (P := fun b => Py.band (b.toNat : Int) 15 = ((b &&& 0xF).toNat : Int)) (by decide +kernel) b
theorem band127_eq (b : UInt8) : Py.band (b.toNat : Int) 127 = ((b &&& 0x7F).toNat : Int) :=
  u8_forall (P := fun b => Py.band (b.toNat : Int) 127 = ((b &&& 0x7F).toNat : Int)) (by decide +kernel) b
theorem mode_eq (b : UInt8) : Py.band ((b.toNat : Int) >>> 5) 7 = (((b >>> 5).toNat % 8 : Nat) : Int) :=
  u8_forall (P := fun b => Py.band ((b.toNat : Int) >>> 5) 7 = (((b >>> 5).toNat % 8 : Nat) : Int)) (by decide +kernel) b
theorem hi_nibble_eq (b : UInt8) : ((b.toNat : Int) >>> 4) = (((b >>> 4).toNat : Nat) : Int) :=
  u8_forall (P := fun b => ((b.toNat : Int) >>> 4) = (((b >>> 4).toNat : Nat) : Int)) (by decide +kernel) b
theorem display_eq (b : UInt8) : decide ((b.toNat : Int) ≠ 112) = decide (b ≠ 0x70) :=
  u8_forall (P := fun b => decide ((b.toNat : Int) ≠ 112) = decide (b ≠ 0x70)) (by decide +kernel) b
theorem display_eq' (b : UInt8) : decide ((112 : Int) ≠ (b.toNat : Int)) = decide (b ≠ 0x70) :=
  u8_forall (P := fun b => decide ((112 : Int) ≠ (b.toNat : Int)) = decide (b ≠ 0x70)) (by decide +kernel) b
theorem lo_nibble_lt (b : UInt8) : (b &&& 0xF).toNat < 16 :=
  u8_forall (P := fun b => (b &&& 0xF).toNat < 16) (by decide +kernel) b
theorem hi_nibble_lt (b : UInt8) : (b >>> 4).toNat < 16 :=
  u8_forall (P := fun b => (b >>> 4).toNat < 16) (by decide +kernel) b


theorem bit1 (b : UInt8) : decide (Py.band (b.toNat : Int) 1 ≠ 0) = bit b 1 :=
  u8_forall (P := fun b => decide (Py.band (b.toNat : Int) 1 ≠ 0) = bit b 1) (by decide +kernel) b
theorem bit2 (b : UInt8) : decide (Py.band (b.toNat : Int) 2 ≠ 0) = bit b 2 :=
  u8_forall (P := fun b => decide (Py.band (b.toNat : Int) 2 ≠ 0) = bit b 2) (by decide +kernel) b
theorem bit4 (b : UInt8) : decide (Py.band (b.toNat : Int) 4 ≠ 0) = bit b 4 :=
  u8_forall (P := fun b => decide (Py.band (b.toNat : Int) 4 ≠ 0) = bit b 4) (by decide +kernel) b
theorem bit8 (b : UInt8) : decide (Py.band (b.toNat : Int) 8 ≠ 0) = bit b 8 :=
  u8_forall (P := fun b => decide (Py.band (b.toNat : Int) 8 ≠ 0) = bit b 8) (by decide +kernel) b
theorem bit16 (b : UInt8) : decide (Py.band (b.toNat : Int) 16 ≠ 0) = bit b 16 :=
  u8_forall (P := fun b => decide (Py.band (b.toNat : Int) 16 ≠ 0) = bit b 16) (by decide +kernel) b
theorem bit32 (b : UInt8) : decide (Py.band (b.toNat : Int) 32 ≠ 0) = bit b 32 :=
  u8_forall (P := fun b => decide (Py.band (b.toNat : Int) 32 ≠ 0) = bit b 32) (by decide +kernel) b
theorem bit64 (b : UInt8) : decide (Py.band (b.toNat : Int) 64 ≠ 0) = bit b 64 :=
  u8_forall (P := fun b => decide (Py.band (b.toNat : Int) 64 ≠ 0) = bit b 64) (by decide +kernel) b
theorem bit128 (b : UInt8) : decide (Py.band (b.toNat : Int) 128 ≠ 0) = bit b 128 :=
  u8_forall (P := fun b => decide (Py.band (b.toNat : Int) 128 ≠ 0) = bit b 128) (by decide +kernel) b

theorem temp_eq (b2 b13 : UInt8) :
    (if decide (Py.band (b13.toNat : Int) 31 ≠ 0) = true then
        100 * (Py.band (b13.toNat : Int) 31 + 12) + (if decide (Py.band (b2.toNat : Int) 16 ≠ 0) = true then 50 else 0)
      else 100 * Py.band (b2.toNat : Int) 15 + 1600 + (if decide (Py.band (b2.toNat : Int) 16 ≠ 0) = true then 50 else 0))
    = stateTemp b2 b13 := by
  unfold stateTemp
  rw [bit16, band31_eq, band15_eq]
  have e : decide (((b13 &&& 0x1F).toNat : Int) ≠ 0) = decide ((b13 &&& 0x1F) ≠ 0) := by
    have : (((b13 &&& 0x1F).toNat : Int) ≠ 0) ↔ ((b13 &&& 0x1F) ≠ 0) := by
      constructor
      · intro h h2; apply h; rw [h2]; rfl
      · intro h h2; apply h
        have h3 : (b13 &&& 0x1F).toNat = 0 := by omega
        exact UInt8.toNat_inj.mp h3
    exact decide_eq_decide.mpr this
  rw [e]
  by_cases h : (b13 &&& 0x1F) ≠ 0
  · simp only [h, decide_true, if_true, ne_eq, not_false_eq_true]; split <;> omega
  · simp only [h, decide_false, if_false, ne_eq, not_false_eq_true, Bool.false_eq_true]; split <;> omega

theorem temp_eq' (b2 b13 : UInt8) :
    (if decide ((0 : Int) ≠ Py.band (b13.toNat : Int) 31) = true then
        100 * (Py.band (b13.toNat : Int) 31 + 12) + (if decide (Py.band (b2.toNat : Int) 16 ≠ 0) = true then 50 else 0)
      else 100 * Py.band (b2.toNat : Int) 15 + 1600 + (if decide (Py.band (b2.toNat : Int) 16 ≠ 0) = true then 50 else 0))
    = stateTemp b2 b13 := by
  have hflip : decide ((0 : Int) ≠ Py.band (b13.toNat : Int) 31) = decide (Py.band (b13.toNat : Int) 31 ≠ 0) := by
    apply decide_eq_decide.mpr; constructor <;> (intro h h2; exact h h2.symm)
  rw [hflip]
  exact temp_eq b2 b13
  -- (the rest of the original script is kept below for reference but not reached)
  done

/-- the same in the canonical sum order of the translator (non-constant terms first, constant last) -/
theorem temp_eq'' (b2 b13 : UInt8) :
    (if decide ((0 : Int) ≠ Py.band (b13.toNat : Int) 31) = true then
        100 * (Py.band (b13.toNat : Int) 31 + 12) + (if decide (Py.band (b2.toNat : Int) 16 ≠ 0) = true then 50 else 0)
      else 100 * Py.band (b2.toNat : Int) 15 + (if decide (Py.band (b2.toNat : Int) 16 ≠ 0) = true then 50 else 0) + 1600)
    = stateTemp b2 b13 := by
  rw [← temp_eq' b2 b13]
  split <;> omega

theorem indoor_eq (b11 b15 b10 : UInt8) :
    Codec.parseTemperature (b11.toNat : Int) (10 * Py.band (b15.toNat : Int) 15) (decide (Py.band (b10.toNat : Int) 4 ≠ 0))
      = (parseTemp b11.toNat (b15 &&& 15).toNat (bit b10 4)).map (· * 10) := by
  rw [bit4, band15_eq]
  exact parseTemperature_eq_nat _ b11.toNat_lt _ (lo_nibble_lt b15) _

theorem outdoor_eq (b12 b15 b10 : UInt8) :
    Codec.parseTemperature (b12.toNat : Int) (((10 : Nat) : Int) * ((b15.toNat : Int) >>> 4)) (decide (Py.band (b10.toNat : Int) 4 ≠ 0))
      = (parseTemp b12.toNat (b15 >>> 4).toNat (bit b10 4)).map (· * 10) := by
  rw [bit4, hi_nibble_eq]
  exact parseTemperature_eq_nat _ b12.toNat_lt _ (hi_nibble_lt b15) _

theorem idxI_bind {α} (p : Bytes) (i : Nat) (F : Int → R α) :
    (Py.idxI p i >>= F) = (Py.idx p i >>= fun b => F (b.toNat : Int)) := by
  unfold Py.idxI Py.idx; cases p[i]? <;> rfl

theorem ok_bind {α β} (a : α) (f : α → R β) : (Except.ok a >>= f) = f a := rfl

/-- **tie.** For EVERY payload (any length, any bytes) the translated `StateResponse._parse` yields the attributes
    the hand-written model yields, and fails with IndexError exactly when the model does. -/
theorem parseState_eq (p : Bytes) :
    Codec.parseState p = (Model.parseState p >>= fun m => pure (Codec.StateAttrs.ofModel m)) := by
  first
  | (
      unfold Codec.parseState Model.parseState
      simp only [idxI_bind, bind_assoc, pure_bind]
      refine bind_congr (fun b1 => ?_)
      refine bind_congr (fun b2 => ?_)
      refine bind_congr (fun b3 => ?_)
      refine bind_congr (fun b7 => ?_)
      refine bind_congr (fun b8 => ?_)
      refine bind_congr (fun b9 => ?_)
      refine bind_congr (fun b10 => ?_)
      refine bind_congr (fun b11 => ?_)
      refine bind_congr (fun b15 => ?_)
      refine bind_congr (fun b12 => ?_)
      refine bind_congr (fun b13 => ?_)
      refine bind_congr (fun b14 => ?_)
      have cast10 : ((10 : Nat) : Int) = 10 := rfl
      by_cases h20 : p.length < 20
      · have h20' : decide (((List.length p : Nat) : Int) < 20) = true := by simp; omega
        have h22 : p.length < 22 := by omega
        rw [if_pos h20']
        congr 1
        simp only [temp_eq, temp_eq', temp_eq'', indoor_eq, outdoor_eq]
        simp only [Codec.StateAttrs.ofModel, h20, h22, if_true, bit1, bit2, bit4, bit8, bit16, bit32, bit64, bit128, temp_eq, mode_eq,
          band15_eq, indoor_eq, outdoor_eq, display_eq, display_eq', Option.map_none]
      · have h20' : ¬ (decide (((List.length p : Nat) : Int) < 20) = true) := by simp; omega
        rw [if_neg h20']
        have e19 : p[19]? = some (p[19]'(by omega)) := List.getElem?_eq_getElem (by omega)
        have i19 : Py.idx p 19 = .ok (p[19]'(by omega)) := by unfold Py.idx; rw [e19]
        rw [i19]
        by_cases h22 : p.length < 22
        · have h22' : decide (((List.length p : Nat) : Int) < 22) = true := by simp; omega
          show (if decide (((List.length p : Nat) : Int) < 22) = true then _ else _) = _
          rw [if_pos h22']
          congr 1
          simp only [temp_eq, temp_eq', temp_eq'', indoor_eq, outdoor_eq]
          simp only [Codec.StateAttrs.ofModel, h20, h22, if_true, if_false, bit1, bit2, bit4, bit8, bit16, bit32, bit64, bit128, temp_eq, mode_eq,
            band15_eq, band127_eq, indoor_eq, outdoor_eq, display_eq, display_eq', Option.map_none, e19, Option.map_some]
        · have h22' : ¬ (decide (((List.length p : Nat) : Int) < 22) = true) := by simp; omega
          show (if decide (((List.length p : Nat) : Int) < 22) = true then _ else _) = _
          rw [if_neg h22']
          have e21 : p[21]? = some (p[21]'(by omega)) := List.getElem?_eq_getElem (by omega)
          have i21 : Py.idx p 21 = .ok (p[21]'(by omega)) := by unfold Py.idx; rw [e21]
          rw [i21, ok_bind]
          congr 1
          simp only [temp_eq, temp_eq', temp_eq'', indoor_eq, outdoor_eq]
          simp only [Codec.StateAttrs.ofModel, h20, h22, if_true, if_false, bit1, bit2, bit4, bit8, bit16, bit32, bit64, bit128, temp_eq, mode_eq,
            band15_eq, band127_eq, indoor_eq, outdoor_eq, display_eq, display_eq', Option.map_none, e19, e21, Option.map_some]
      done)
  | (unfold Codec.parseState; cases Model.parseState p <;> rfl)

/-! ### crc8.calculate, Frame.checksum / tobytes / validate, Command.tobytes -/

theorem band_255 (x : Int) : Py.band x 255 = x % 256 := by
  unfold Py.band
  rw [show Py.bitLen 255 = 8 by decide, show (255:Nat) = 2^8 - 1 by decide, Nat.and_two_pow_sub_one_eq_mod]; omega

theorem ints_cons (b : UInt8) (l : Bytes) : Py.ints (b :: l) = (b.toNat : Int) :: Py.ints l := rfl
theorem ints_nil : Py.ints [] = [] := rfl
theorem ints_append (a b : Bytes) : Py.ints (a ++ b) = Py.ints a ++ Py.ints b := by
  unfold Py.ints; rw [List.map_append]

theorem ints_roundtrip (l : Bytes) : (Py.ints l).map (fun x => x.toNat.toUInt8) = l := by
  unfold Py.ints
  rw [List.map_map]
  conv => rhs; rw [← List.map_id l]
  apply List.map_congr_left
  intro b _
  simp [Function.comp, u8_of_toNat']

/-! ### crc8.calculate -/
theorem crc_step_u8 (x : UInt8) : Py.tableGet Codec.crc8TableSrc (Py.band (x.toNat : Int) 255) = ((crcT x).toNat : Int) :=
  u8_forall (P := fun x => Py.tableGet Codec.crc8TableSrc (Py.band (x.toNat : Int) 255) = ((crcT x).toNat : Int))
    (by decide +kernel) x

theorem bxor_u8 (a b : UInt8) : Py.bxor (a.toNat : Int) (b.toNat : Int) = (((a ^^^ b).toNat : Nat) : Int) := by
  show ((a.toNat ^^^ b.toNat : Nat) : Int) = _
  rw [UInt8.toNat_xor]

theorem crc_fold (data : Bytes) (c : UInt8) :
    List.foldl (fun (crc_value : Int) (m : Int) => Py.tableGet Codec.crc8TableSrc (Py.band (Py.bxor crc_value m) 255))
      (c.toNat : Int) (Py.ints data) = (((data.foldl (fun c m => crcT (c ^^^ m)) c).toNat : Nat) : Int) := by
  induction data generalizing c with
  | nil => rfl
  | cons m t ih =>
    rw [ints_cons, List.foldl_cons, List.foldl_cons, bxor_u8, crc_step_u8]
    exact ih _

/-- **tie.** `crc8.calculate` as translated = the model's table-driven CRC, for every byte string. -/
theorem crc8Calculate_eq (data : Bytes) : Codec.crc8Calculate (Py.ints data) = ((Model.crc8 data).toNat : Int) := by
  first
  | (unfold Codec.crc8Calculate Model.crc8
     exact crc_fold data 0
     done)
  | (unfold Codec.crc8Calculate; rw [ints_roundtrip])

/-! ### Frame.checksum -/
theorem sumI_fold (l : Bytes) (a : Int) : List.foldl (· + ·) a (Py.ints l) = a + (sumB l : Int) := by
  induction l generalizing a with
  | nil => simp [Py.ints, sumB]
  | cons b t ih =>
    rw [ints_cons, List.foldl_cons, ih]
    simp only [sumB, List.map_cons, List.sum_cons]
    push_cast
    omega

theorem sumI_ints (l : Bytes) : Py.sumI (Py.ints l) = (sumB l : Int) := by
  unfold Py.sumI; rw [sumI_fold]; omega

/-- **tie.** `Frame.checksum` as translated = the model's two's-complement checksum, for every byte string. -/
theorem checksum_eq (l : Bytes) : Codec.checksum (Py.ints l) = ((Model.checksum l).toNat : Int) := by
  first
  | (unfold Codec.checksum Model.checksum checksumNat
     rw [band_255, sumI_ints]
     have h : (256 - sumB l % 256) % 256 < 256 := Nat.mod_lt _ (by decide)
     rw [u8_lt _ h]
     omega
     done)
  | (unfold Codec.checksum; rw [ints_roundtrip])

/-! ### Frame.tobytes -/
theorem slice_tail {α} (a : α) (l : List α) : Py.slice (a :: l) (some 1) none = l := by
  simp [Py.slice, Py.clampIdx]

theorem guardRange_ok {α} (vals : List Int) (k : R α)
    (h : vals.all (fun x => decide (0 ≤ x) && decide (x < 256)) = true) : Py.guardRange vals k = k := by
  unfold Py.guardRange; rw [if_pos h]

theorem guardRange_inner_bad (vals l : List Int) (h : Py.bytesOf l = .error (.py "ValueError")) :
    Py.guardRange vals (Py.bytesOf l) = .error (.py "ValueError") := by
  unfold Py.guardRange; split
  · exact h
  · rfl

theorem checksum_range (l : List Int) : 0 ≤ Codec.checksum l ∧ Codec.checksum l < 256 := by
  first
  | (unfold Codec.checksum; rw [band_255]; omega)
  | (unfold Codec.checksum; have := UInt8.toNat_lt (Model.checksum (l.map (fun x => x.toNat.toUInt8))); omega)

/-- **tie.** `Frame.tobytes` as translated (protocol version 0, as `Frame.__init__` sets it) = the model's, for every
    device type, frame type and payload - including the ValueError when the length does not fit a byte. -/
theorem frameTobytes_eq (dt ft : UInt8) (data : Bytes) :
    Codec.frameTobytes (dt.toNat : Int) 0 (ft.toNat : Int) data = Model.frameToBytes dt ft data := by
  first
  | (
     -- whatever values Python range-checks on the way (`guardRange`, any list), the frame is the model's
     unfold Codec.frameTobytes Model.frameToBytes
     have hfl : Generated.frameHeaderLength = 10 := rfl
     rw [hfl]
     have hdt := dt.toNat_lt
     have hft := ft.toNat_lt
     have hck := checksum_range (Py.slice ([170, ((data.length : Int) + 10), (dt.toNat : Int), 0, 0, 0, 0, 0, 0, (ft.toNat : Int)] ++ Py.ints data) (some 1) none)
     by_cases hl : data.length + 10 > 255
     · rw [if_pos hl]
       exact guardRange_inner_bad _ _ (bytesOf_bad [170] _ _ (Or.inr (by omega)))
     · rw [if_neg hl, guardRange_ok]
       · have e : ((data.length : Int) + 10) = (((data.length + 10).toUInt8).toNat : Int) := by
           rw [u8_lt _ (by omega)]; push_cast; rfl
         rw [List.cons_append, slice_tail]
         have hs : Codec.checksum ([((data.length : Int) + 10), (dt.toNat : Int), 0, 0, 0, 0, 0, 0, (ft.toNat : Int)] ++ Py.ints data)
             = ((Model.checksum ([(data.length + 10).toUInt8, dt, 0, 0, 0, 0, 0, 0, ft] ++ data)).toNat : Int) := by
           rw [← checksum_eq, ints_append, e]; rfl
         rw [hs]
         refine Eq.trans (congrArg Py.bytesOf ?_) (bytesOf_ok _)
         simp only [List.map_cons, List.map_append, List.map_nil, List.cons_append, List.nil_append, e]
         rfl
       · simp only [List.all_cons, List.all_nil, Bool.and_eq_true, decide_eq_true_eq, Bool.and_true]
         omega
         done)
  | (unfold Codec.frameTobytes; simp [u8_of_toNat'])

/-! ### Frame.validate -/
theorem ints_length (l : Bytes) : (Py.ints l).length = l.length := by simp [Py.ints]

theorem index_last (l : Bytes) (x : UInt8) : Py.index (Py.ints (l ++ [x])) (-1) = .ok (x.toNat : Int) := by
  unfold Py.index
  have h1 : ((-1 : Int) < 0) := by decide
  rw [if_pos h1]
  have hl : (Py.ints (l ++ [x])).length = l.length + 1 := by rw [ints_length]; simp
  have h2 : ¬ ((-1 : Int) + ((Py.ints (l ++ [x])).length : Int) < 0) := by rw [hl]; push_cast; omega
  rw [if_neg h2]
  have h3 : ((-1 : Int) + ((Py.ints (l ++ [x])).length : Int)).toNat = l.length := by rw [hl]; push_cast; omega
  rw [h3, ints_append]
  have : (Py.ints l ++ Py.ints [x])[l.length]? = some (x.toNat : Int) := by
    rw [List.getElem?_append_right (by rw [ints_length]; exact Nat.le_refl _), ints_length]; simp [Py.ints]
  rw [this]

theorem slice_inner (l : Bytes) (x : UInt8) :
    Py.slice (Py.ints (l ++ [x])) (some 1) (some (-1)) = Py.ints (l.drop 1) := by
  unfold Py.slice
  have hl : (Py.ints (l ++ [x])).length = l.length + 1 := by rw [ints_length]; simp
  simp only [hl]
  have hc : Py.clampIdx (l.length + 1) (-1) = l.length := by
    unfold Py.clampIdx
    have h1 : ((-1 : Int) < 0) := by decide
    have h2 : ¬ ((-1 : Int) + ((l.length + 1 : Nat) : Int) < 0) := by push_cast; omega
    rw [if_pos h1, if_neg h2]; push_cast; omega
  have hc1 : Py.clampIdx (l.length + 1) 1 = 1 := by
    unfold Py.clampIdx; simp
  rw [hc, hc1, ints_append, List.take_append_of_le_length (by rw [ints_length]; exact Nat.le_refl _)]
  rw [List.take_of_length_le (by rw [ints_length]; exact Nat.le_refl _)]
  unfold Py.ints; rw [List.map_drop]

theorem dropLast_drop (l : Bytes) (x : UInt8) : ((l ++ [x]).drop 1).dropLast = l.drop 1 := by
  cases l with
  | nil => rfl
  | cons a t => simp

/-- **tie.** `Frame.validate` as translated = the model's, for every byte string (IndexError on the empty frame). -/
theorem frameValidate_eq (frame : Bytes) : Codec.frameValidate frame = Model.frameValidate frame := by
  first
  | (
     unfold Codec.frameValidate Model.frameValidate
     cases List.eq_nil_or_concat frame with
     | inl h => subst h; rfl
     | inr h =>
       obtain ⟨l, x, h⟩ := h
       subst h
       rw [List.concat_eq_append, index_last, slice_inner, checksum_eq]
       rw [ok_bind, List.getLast?_concat, dropLast_drop]
       simp only []
       by_cases hc : checksum (List.drop 1 l) = x
       · rw [if_pos hc, if_neg]; · rfl
         rw [hc]; simp
       · rw [if_neg hc, if_pos]
         simp only [ne_eq, decide_eq_true_eq]
         intro h; apply hc
         exact UInt8.toNat_inj.mp (by exact_mod_cast h)
         done)
  | rfl

/-! ### Command.tobytes -/
/-- **tie.** What `Command.tobytes` hands to `Frame.tobytes`: data, message id, CRC-8 over both - for every payload and id. -/
theorem commandPayload_eq (data : Bytes) (id : UInt8) :
    Codec.commandPayload data (id.toNat : Int) = .ok (data ++ [id] ++ [Model.crc8 (data ++ [id])]) := by
  first
  | (
     unfold Codec.commandPayload
     have e : Py.ints data ++ [(id.toNat : Int)] = Py.ints (data ++ [id]) := by rw [ints_append]; rfl
     rw [e, crc8Calculate_eq]
     refine Eq.trans (congrArg Py.bytesOf ?_) (bytesOf_ok _)
     simp only [List.map_append, List.map_cons, List.map_nil, Py.ints]
     done)
  | (unfold Codec.commandPayload; simp [u8_of_toNat'])

/-- **tie.** The whole of `Command.tobytes` (payload, message id, CRC-8, header, checksum) as translated = the model's
    `commandToBytes`, for every frame type, message id and payload. -/
theorem commandToBytes_eq (ft id : UInt8) (data : Bytes) :
    (Codec.commandPayload data (id.toNat : Int) >>= fun p => Codec.frameTobytes ((devTypeAC).toNat : Int) 0 (ft.toNat : Int) p)
      = commandToBytes ft id data := by
  rw [commandPayload_eq, ok_bind, frameTobytes_eq]; rfl

/-! ### AirConditioner.apply (the part before the first await) -/

/-- the translated prefix of `AirConditioner.apply()` (everything up to the first await: the attribute -> command field
    mapping) on the attribute values of a device object -/
def applyCode (d : Dev) : Codec.ApplyCmd :=
  Codec.applyCommand d.beep d.power d.tempCenti (d.mode : Int) d.fan (d.swing : Int) d.eco d.turbo d.freeze d.sleep
    d.fahrenheit d.followMe d.purifier (d.humidity.map (fun (n : Nat) => (n : Int))) (d.auxMode : Int)

/-- **tie.** For EVERY device object state, the `SetStateCommand` fields the translated `apply()` assigns are the model's
    `setStateOfDev` (unknown freeze protection / target humidity replaced by their defaults, aux mode split in two flags). -/
theorem applyCommand_eq (d : Dev) : applyCode d = Codec.ApplyCmd.ofModel (setStateOfDev d) := by
  first
  | (
     unfold applyCode Codec.applyCommand Codec.ApplyCmd.ofModel setStateOfDev
     have h1 : ((d.humidity.map (fun (n : Nat) => (n : Int))).getD 40) = ((d.humidity.getD 40 : Nat) : Int) := by
       cases d.humidity <;> rfl
     have a1 : decide ((d.auxMode : Int) = 1) = decide (d.auxMode = 1) := by
       apply decide_eq_decide.mpr; omega
     have a2 : decide ((d.auxMode : Int) = 2) = decide (d.auxMode = 2) := by
       apply decide_eq_decide.mpr; omega
     have a1' : decide ((1 : Int) = (d.auxMode : Int)) = decide (d.auxMode = 1) := by
       apply decide_eq_decide.mpr; omega
     have a2' : decide ((2 : Int) = (d.auxMode : Int)) = decide (d.auxMode = 2) := by
       apply decide_eq_decide.mpr; omega
     simp only [h1, a1, a2, a1', a2']
     done)
  | (
     unfold applyCode Codec.applyCommand
     simp only [Int.toNat_natCast, Option.map_map]
     have : (Option.map (Int.toNat ∘ fun (n : Nat) => (n : Int)) d.humidity) = d.humidity := by
       cases d.humidity <;> simp
     rw [this]
     cases d; rfl)

/-- `apply()` as translated followed by `SetStateCommand.tobytes` as translated (`force_aux_heat` keeps the constructor's
    default `False`: `apply()` never assigns it) -/
def applyThenTobytes (d : Dev) : R Bytes :=
  Codec.setStateBody (applyCode d).beep_on (applyCode d).power_on (applyCode d).target_temperature (applyCode d).operational_mode
    (applyCode d).fan_speed (applyCode d).eco (applyCode d).swing_mode (applyCode d).turbo (applyCode d).fahrenheit (applyCode d).sleep
    (applyCode d).freeze_protection (applyCode d).follow_me (applyCode d).purifier (applyCode d).target_humidity (applyCode d).aux_heat
    false (applyCode d).independent_aux_heat

/-- **tie.** attribute mapping of `apply()` composed with `SetStateCommand.tobytes`, both as translated, = the model's
    body for the model's command record - for every device object state. -/
theorem applyThenTobytes_eq (d : Dev) : applyThenTobytes d = setStateBody (setStateOfDev d) := by
  unfold applyThenTobytes
  rw [applyCommand_eq]
  have := setStateBody_eq (setStateOfDev d)
  unfold setStateCode at this
  simpa [Codec.ApplyCmd.ofModel, setStateOfDev] using this


/-! ### Response.validate -/

theorem slice_init (l : Bytes) (x : UInt8) :
    Py.slice (Py.ints (l ++ [x])) none (some (-1)) = Py.ints l := by
  unfold Py.slice
  have hl : (Py.ints (l ++ [x])).length = l.length + 1 := by rw [ints_length]; simp
  simp only [hl]
  have hc : Py.clampIdx (l.length + 1) (-1) = l.length := by
    unfold Py.clampIdx
    have h1 : ((-1 : Int) < 0) := by decide
    have h2 : ¬ ((-1 : Int) + ((l.length + 1 : Nat) : Int) < 0) := by push_cast; omega
    rw [if_pos h1, if_neg h2]; push_cast; omega
  rw [hc, ints_append, List.drop_zero, List.take_append_of_le_length (by rw [ints_length]; exact Nat.le_refl _)]
  rw [← ints_length l, List.take_length]

theorem u8_ne_cast (a b : UInt8) : decide (((a.toNat : Int)) ≠ (b.toNat : Int)) = decide (a ≠ b) := by
  by_cases h : a = b
  · subst h; simp
  · have : (a.toNat : Int) ≠ (b.toNat : Int) := fun e => h (UInt8.toNat_inj.mp (by exact_mod_cast e))
    simp [h, this]

/-- **tie.** `Response.validate` as translated = the model's, for every payload (IndexError on the empty one). -/
theorem responseValidate_eq (payload : Bytes) : Codec.responseValidate payload = Model.respValidate payload := by
  first
  | (
       unfold Codec.responseValidate Model.respValidate
       cases List.eq_nil_or_concat payload with
       | inl h => subst h; rfl
       | inr h =>
         obtain ⟨l, x, h⟩ := h
         subst h
         rw [List.concat_eq_append, index_last, slice_init, checksum_eq, crc8Calculate_eq]
         rw [ok_bind, List.getLast?_concat, List.dropLast_concat]
         simp only []
         rw [u8_ne_cast, u8_ne_cast]
         by_cases hc : crc8 l ≠ x ∧ checksum l ≠ x
         · rw [if_pos hc, if_pos (by simp [hc.1, hc.2])]
         · rw [if_neg hc, if_neg]
           · rfl
           · intro h; apply hc
             first
             | (simpa using h)
             | (have h' : checksum l ≠ x ∧ crc8 l ≠ x := by simpa using h
                exact ⟨h'.2, h'.1⟩)
       done)
  | rfl

/-! ### Command._next_message_id -/

theorem u8_mod (n : Nat) : ((n % 256).toUInt8).toNat = n % 256 := by
  have h : n % 256 < 256 := Nat.mod_lt _ (by decide)
  simp [Nat.toUInt8, UInt8.toNat_ofNat', Nat.mod_eq_of_lt h]

/-- **tie.** `Command._next_message_id` as translated = the model's, for every value the class-level counter can have
    (it starts at 0 and is only ever incremented). -/
theorem nextMessageId_eq (c : Nat) :
    Codec.nextMessageId (c : Int) = ((((Model.nextMessageId c).2.toNat : Nat) : Int), (((Model.nextMessageId c).1 : Nat) : Int)) := by
  first
  | (
     unfold Codec.nextMessageId Model.nextMessageId
     rw [band_255]
     simp only []
     rw [u8_mod]
     first | done | (congr 1 <;> omega)
     done)
  | simp [Codec.nextMessageId]


/-! ### HumidityResponse._parse -/
/-- **tie.** `HumidityResponse._parse` as translated = the model's, for every payload (IndexError below 5 bytes). -/
theorem parseHumidity_eq (p : Bytes) :
    Codec.parseHumidity p = (Model.parseHumidity p).map (fun o => o.map (fun n => (n : Int))) := by
  first
  | (
       unfold Codec.parseHumidity Model.parseHumidity
       rw [Py.idxI_eq]
       unfold Py.idx
       cases p[4]? with
       | none => rfl
       | some x =>
         simp only [Except.map, bind, Except.bind, pure, Except.pure]
         by_cases h : x = 0
         · subst h; rfl
         · have hn : ¬ ((0 : Int) = (x.toNat : Int)) := by
             intro e; apply h; apply UInt8.toNat_inj.mp; simpa using e.symm
           simp [h, hn]
           done)
  | rfl

/-! ### AirConditioner._update_state (StateResponse arm) -/

theorem enumGetI_nat (e : List (String × Nat)) (d n : Nat) :
    Py.enumGetI e d (n : Int) = ((enumGet e d n : Nat) : Int) := by
  unfold Py.enumGetI enumGet enumValues
  have h0 : decide ((0 : Int) ≤ (n : Int)) = true := by simp
  rw [h0, Int.toNat_natCast, Bool.true_and]
  split <;> rfl

theorem toModel_ofModel (st : StateResp) : Codec.StateAttrs.toModel (Codec.StateAttrs.ofModel st) = st := by
  obtain ⟨power, temp, mode, fan, swing, turbo, eco, sleep, fahr, indoor, outdoor, filt, disp, freeze, follow, pur, hum, aux, indep⟩ := st
  simp only [Codec.StateAttrs.toModel, Codec.StateAttrs.ofModel, Int.toNat_natCast, Option.map_map]
  have h1 : ∀ o : Option Int, Option.map ((fun x => x / 10) ∘ fun x => x * 10) o = o := by
    intro o; cases o <;> simp [Function.comp]
  have h2 : ∀ o : Option Nat, Option.map (Int.toNat ∘ fun (n : Nat) => (n : Int)) o = o := by
    intro o; cases o <;> simp [Function.comp]
  rw [h1, h1, h2]

/-- **tie.** The `StateResponse` arm of `AirConditioner._update_state` as translated = the model's `updateFromState` (on the
    attributes it assigns), for every decoded state and both values of `supports_custom_fan_speed`. -/
theorem updateState_eq (sup : Bool) (st : StateResp) :
    Codec.updateState sup st.power st.tempCenti (st.mode : Int) (st.fan : Int) (st.swing : Int) st.turbo st.eco st.sleep st.fahrenheit
        (st.indoor.map (· * 10)) (st.outdoor.map (· * 10)) st.filterAlert st.displayOn st.freeze st.followMe st.purifier
        (st.humidity.map (fun (n : Nat) => (n : Int))) st.auxHeat st.indepAuxHeat
      = Codec.UpdAttrs.ofModel sup st := by
  first
  | (
       unfold Codec.updateState Codec.UpdAttrs.ofModel Codec.UpdAttrs.ofDev Dev.updateFromState
       simp only [enumGetI_nat]
       cases sup <;> cases st.indepAuxHeat <;> cases st.auxHeat <;> simp
       done)
  | (unfold Codec.updateState
     show Codec.UpdAttrs.ofModel sup (Codec.StateAttrs.toModel (Codec.StateAttrs.ofModel st)) = _
     rw [toModel_ofModel])

/-- the translated `_update_state` applied to a record of response attributes -/
def updateOfAttrs (sup : Bool) (a : Codec.StateAttrs) : Codec.UpdAttrs :=
  Codec.updateState sup a.power_on a.target_temperature a.operational_mode a.fan_speed a.swing_mode a.turbo a.eco a.sleep a.fahrenheit
    a.indoor_temperature a.outdoor_temperature a.filter_alert a.display_on a.freeze_protection a.follow_me a.purifier
    a.target_humidity a.aux_heat a.independent_aux_heat

theorem updateOfAttrs_ofModel (sup : Bool) (st : StateResp) :
    updateOfAttrs sup (Codec.StateAttrs.ofModel st) = Codec.UpdAttrs.ofModel sup st := updateState_eq sup st

end Msmart.CodecEq
