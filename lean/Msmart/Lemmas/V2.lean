/-
  Lemmas for the V2 packet codec.
-/
import Msmart.Model.PacketV2
import Msmart.Spec.V2Spec
import Msmart.Crypto.ModeProps

namespace Msmart.Lemmas
open Msmart Msmart.Model Msmart.Crypto

/-- the key constants regenerated from /repo are the ones the format specifies
    (ENC_KEY = md5(SIGN_KEY), evaluated in the kernel) -/
theorem signKey_eq : Generated.signKey = Spec.V2.signKey := by decide +kernel
theorem encKey_eq : Generated.encKey = Spec.V2.encKey := by decide +kernel

theorem le_eq_toLE (k n : Nat) : Spec.V2.le k n = Py.toLE k n := by
  induction k generalizing n with
  | zero => rfl
  | succ k ih => simp [Spec.V2.le, Py.toLE, ih]

theorem unle_eq_fromLE (b : Bytes) : Spec.V2.unle b = Py.fromLE b := by
  induction b with
  | nil => rfl
  | cons x t ih => simp [Spec.V2.unle, Py.fromLE, ih]

theorem toLE_length (k n : Nat) : (Py.toLE k n).length = k := by
  induction k generalizing n with
  | zero => rfl
  | succ k ih => simp [Py.toLE, ih]

theorem u8_mod (n : Nat) : ((n % 256).toUInt8).toNat = n % 256 := by
  simp [Nat.toUInt8, UInt8.toNat, UInt8.ofNat, BitVec.toNat_ofNat]

theorem fromLE_toLE (k n : Nat) (h : n < 256 ^ k) : Py.fromLE (Py.toLE k n) = n := by
  induction k generalizing n with
  | zero => simp at h; subst h; rfl
  | succ k ih =>
    simp only [Py.toLE, Py.fromLE, u8_mod]
    rw [ih (n / 256) (by rw [Nat.pow_succ] at h; omega)]
    omega

theorem md5_length (m : Bytes) : (MD5.md5 m).length = 16 := MD5.md5_length m

theorem sign_length (m : Bytes) : (sign m).length = 16 := md5_length _

theorem zeros_length (n : Nat) : (Py.zeros n).length = n := by simp [Py.zeros]

theorem v2Header_length (l : Nat) (ts : Bytes) (id : Nat) (hts : ts.length = 8) :
    (v2Header l ts id).length = 40 := by
  simp [v2Header, toLE_length, zeros_length, hts]

/-- slicing a packet `hdr(40) ++ body ++ tag(16)` -/
theorem take_sub16 (hb s : Bytes) (hs : s.length = 16) :
    (hb ++ s).take ((hb ++ s).length - 16) = hb := by
  rw [List.length_append, hs, Nat.add_sub_cancel, List.take_append_of_le_length (Nat.le_refl _), List.take_length]

theorem drop_sub16 (hb s : Bytes) (hs : s.length = 16) :
    (hb ++ s).drop ((hb ++ s).length - 16) = s := by
  rw [List.length_append, hs, Nat.add_sub_cancel, List.drop_append_of_le_length (Nat.le_refl _), List.drop_length,
    List.nil_append]

theorem drop40 (h b : Bytes) (hh : h.length = 40) : (h ++ b).drop 40 = b := by
  rw [← hh, List.drop_append_of_le_length (Nat.le_refl _), List.drop_length, List.nil_append]

theorem encryptAes_length (frame : Bytes) : (encryptAes frame).length = frame.length + (16 - frame.length % 16) := by
  unfold encryptAes; rw [AES.ecbEncrypt_length, AES.pkcs7Pad_length]

theorem encryptAes_mod (frame : Bytes) : (encryptAes frame).length % 16 = 0 := by
  unfold encryptAes; rw [AES.ecbEncrypt_length]; exact AES.pkcs7Pad_length_mod frame

theorem decryptAes_encryptAes (frame : Bytes) : decryptAes (encryptAes frame) = .ok frame := by
  unfold decryptAes
  rw [if_neg (by rw [encryptAes_mod]; simp)]
  unfold encryptAes
  rw [AES.ecbDecrypt_ecbEncrypt, AES.pkcs7Unpad_pkcs7Pad]

theorem spec_body_eq (frame : Bytes) : Spec.V2.body frame = encryptAes frame := by
  unfold Spec.V2.body encryptAes; rw [encKey_eq]

end Msmart.Lemmas
