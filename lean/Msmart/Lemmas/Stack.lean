/-
  Glue: an operation of the device object over the LAN session IS the operation over some reply
  script — the script made of what `Device._send_command` returned for each command.  Hence every
  theorem of the Device model that holds "for every reply script" holds over every peer.
-/
import Msmart.Model.Stack
import Msmart.Props.C09Transport
import Msmart.Props.C14

namespace Msmart.Lemmas.Stack
open Msmart Msmart.Model Msmart.Model.Session Msmart.Model.Stack Msmart.Lemmas.Sess Msmart.Props

/-- what does not depend on the reply script -/
theorem sendGet_replies_irrelevant_err (r : Run) (c : Cmd) (e : Err) (h : (c.toBytes r.counter).1 = .error e)
    (reps : Replies) : sendGet { r with replies := reps } c = .error e := by
  unfold sendGet
  simp only [h]

theorem good_deviceSend (p : Params) (rx : Reactions) (s : S) (frame : Bytes) (hg : C09.Good s) :
    (∃ fs, (deviceSend p rx s frame).1 = .ok fs) ∧ C09.Good (deviceSend p rx s frame).2 := by
  refine ⟨C09.device_send_never_raises p rx s frame hg, ?_⟩
  unfold deviceSend
  cases hl : lanSend p rx s frame Generated.lanRetries with
  | mk r s1 =>
    have := (C09.send_contained p rx s s1 frame _ r hg hl).2
    cases r with
    | ok fs => exact this
    | error e => cases e <;> exact this

/-- **glue (one command)**: over a good session state, sending a command over the LAN is `sendGet` on the
    script whose head is what the transport returned; the session state stays good -/
theorem sendGetLan_refines (p : Params) (rx : Reactions) (r : Run) (s : S) (c : Cmd) (hg : C09.Good s) :
    ∃ fs, (sendGetLan p rx r s c).1 = sendGet { r with replies := fs :: r.replies } c ∧
      C09.Good (sendGetLan p rx r s c).2 := by
  unfold sendGetLan
  cases hb : (c.toBytes r.counter).1 with
  | error e =>
    simp only
    exact ⟨[], by rw [sendGet_replies_irrelevant_err r c e hb], hg⟩
  | ok frame =>
    simp only
    obtain ⟨⟨fs, hfs⟩, hg'⟩ := good_deviceSend p rx s frame hg
    cases hd : deviceSend p rx s frame with
    | mk res s1 =>
      rw [hd] at hfs hg'
      simp only at hfs hg'
      subst hfs
      exact ⟨fs, rfl, hg'⟩

theorem sendGet_keeps_tail' (r : Run) (fs : List Bytes) (tl : Replies) (c : Cmd) (out : Run × List Resp)
    (h : sendGet { r with replies := fs :: tl } c = .ok out) : out.1.replies = tl := by
  unfold sendGet at h
  split at h
  · cases h
  · split at h
    · cases h
    · cases h; rfl

theorem sendGet_keeps_tail (r : Run) (fs : List Bytes) (c : Cmd) (out : Run × List Resp)
    (h : sendGet { r with replies := fs :: r.replies } c = .ok out) : out.1.replies = r.replies := by
  unfold sendGet at h
  split at h
  · cases h
  · split at h
    · cases h
    · cases h; rfl

theorem sendGet_script_ext (r : Run) (reps reps' : Replies) (c : Cmd) (hh : reps.headD [] = reps'.headD []) :
    (sendGet { r with replies := reps } c).map (fun o => ({ o.1 with replies := [] }, o.2)) =
    (sendGet { r with replies := reps' } c).map (fun o => ({ o.1 with replies := [] }, o.2)) := by
  unfold sendGet
  simp only [hh]
  split
  · rfl
  · split <;> rfl

/-- **glue (totality)**: over a good session state and for commands that can be encoded, a sequence of
    commands sent over the LAN never fails, whatever the peer does, and leaves a good session state -/
theorem sendAllLan_total (p : Params) (rx : Reactions) (cs : List Cmd)
    (hcs : ∀ c ∈ cs, ∃ b, c.body = .ok b ∧ b.length ≤ 243) :
    ∀ (r : Run) (s : S), C09.Good s →
      ∃ out, (sendAllLan p rx r s cs).1 = .ok out ∧ C09.Good (sendAllLan p rx r s cs).2 := by
  induction cs with
  | nil => intro r s hg; exact ⟨_, rfl, hg⟩
  | cons c t ih =>
    intro r s hg
    obtain ⟨b, hb, hl⟩ := hcs c (by simp)
    obtain ⟨fs, hfs, hg1⟩ := sendGetLan_refines p rx r s c hg
    obtain ⟨o1, ho1⟩ := C14.sendGet_ok { r with replies := fs :: r.replies } c b hb hl
    unfold sendAllLan
    cases h1 : sendGetLan p rx r s c with
    | mk res1 s1 =>
      rw [h1] at hfs hg1
      simp only at hfs hg1
      rw [hfs, ho1]
      simp only
      obtain ⟨o2, ho2, hg2⟩ := ih (fun c hc => hcs c (by simp [hc])) o1.1 s1 hg1
      cases h2 : sendAllLan p rx o1.1 s1 t with
      | mk res2 s2 =>
        rw [h2] at ho2 hg2
        simp only at ho2 hg2
        subst ho2
        exact ⟨_, rfl, hg2⟩


/-- `sendGet` looks at the head of the script only and hands the tail on -/
theorem sendGet_cons (r : Run) (fs : List Bytes) (tl : Replies) (c : Cmd) :
    sendGet { r with replies := fs :: tl } c =
      (sendGet { r with replies := [fs] } c).map (fun o => ({ o.1 with replies := tl }, o.2)) := by
  unfold sendGet
  simp only [List.headD_cons, List.drop_one, List.tail_cons]
  split
  · rfl
  · split <;> rfl

/-- **glue (refinement)**: a command sequence sent over the LAN from a good session state is the same
    sequence run on a reply script — the list of what the transport returned, command by command -/
theorem sendAllLan_refines (p : Params) (rx : Reactions) (cs : List Cmd) :
    ∀ (r : Run) (s : S), C09.Good s →
      ∃ script : Replies, (sendAllLan p rx r s cs).1 = sendAll { r with replies := script ++ r.replies } cs ∧
        C09.Good (sendAllLan p rx r s cs).2 := by
  induction cs with
  | nil => intro r s hg; exact ⟨[], by simp [sendAllLan, sendAll], hg⟩
  | cons c t ih =>
    intro r s hg
    obtain ⟨fs, hfs, hg1⟩ := sendGetLan_refines p rx r s c hg
    cases h1 : sendGetLan p rx r s c with
    | mk res1 s1 =>
      rw [h1] at hfs hg1
      simp only at hfs hg1
      cases res1 with
      | error e =>
        refine ⟨[fs], ?_, by simp [sendAllLan, h1]; exact hg1⟩
        simp only [sendAllLan, h1, sendAll, List.cons_append, List.nil_append]
        rw [← hfs]; rfl
      | ok o1 =>
        have htail : o1.1.replies = r.replies := sendGet_keeps_tail r fs c o1 hfs.symm
        obtain ⟨script', hs', hg2⟩ := ih o1.1 s1 hg1
        refine ⟨fs :: script', ?_, by simp only [sendAllLan, h1]; cases h2 : sendAllLan p rx o1.1 s1 t with
          | mk res2 s2 => rw [h2] at hg2; cases res2 <;> exact hg2⟩
        -- the script-level run: first command on `fs`, the rest on `script'`
        have hc1 : sendGet { r with replies := fs :: (script' ++ r.replies) } c =
            .ok ({ o1.1 with replies := script' ++ r.replies }, o1.2) := by
          rw [sendGet_cons]
          have : sendGet { r with replies := [fs] } c = .ok ({ o1.1 with replies := [] }, o1.2) := by
            have := sendGet_cons r fs r.replies c
            rw [← hfs] at this
            cases hx : sendGet { r with replies := [fs] } c with
            | error e => rw [hx] at this; cases this
            | ok x =>
              rw [hx] at this
              simp only [Except.map, Except.ok.injEq] at this
              have hx0 : x.1.replies = [] := sendGet_keeps_tail' r fs [] c x hx
              obtain ⟨x1, x2⟩ := x
              obtain ⟨d, cn, rp, st⟩ := x1
              simp only at hx0
              subst hx0
              rw [this]
          rw [this]; rfl
        simp only [sendAllLan, h1, sendAll, List.cons_append]
        rw [hc1]
        simp only [bind, Except.bind]
        have hrun : ({ o1.1 with replies := script' ++ r.replies } : Run) = { o1.1 with replies := script' ++ o1.1.replies } := by
          rw [htail]
        rw [hrun, ← hs']
        cases h2 : sendAllLan p rx o1.1 s1 t with
        | mk res2 s2 => cases res2 <;> rfl

/-- **C09 / C14 composed: `refresh()` over the LAN never raises, for every peer.** From a good session
    state and a device object advertising at most 120 property ids, whatever the peer sends — at the
    transport level (C09) or inside the frames (C14) — `refresh()` returns normally and leaves a good
    session state. -/
theorem refreshLan_total (p : Params) (rx : Reactions) (r : Run) (s : S) (hg : C09.Good s)
    (hp : r.dev.supportedProps.length ≤ 120) :
    ∃ r', (refreshLan p rx r s).1 = .ok r' ∧ C09.Good (refreshLan p rx r s).2 := by
  obtain ⟨script, hs, hg'⟩ := sendAllLan_refines p rx (refreshCommands r.dev) r s hg
  obtain ⟨r', hr'⟩ := C14.refresh_total { r with replies := script ++ r.replies } hp
  unfold refreshLan
  cases h1 : sendAllLan p rx r s (refreshCommands r.dev) with
  | mk res s1 =>
    rw [h1] at hs hg'
    simp only at hs hg'
    unfold refresh at hr'
    have hdev : ({ r with replies := script ++ r.replies } : Run).dev = r.dev := rfl
    rw [hdev, ← hs] at hr'
    cases res with
    | error e => simp [bind, Except.bind] at hr'
    | ok o => exact ⟨_, rfl, hg'⟩

/-- **glue (refresh)**: `refresh()` over the LAN is `refresh()` on the script of what the transport
    returned — so everything proved for every reply script (C13 state preservation, C14 totality, C16
    bookkeeping) holds over every peer -/
theorem refreshLan_refines (p : Params) (rx : Reactions) (r : Run) (s : S) (hg : C09.Good s) :
    ∃ script : Replies, (refreshLan p rx r s).1 = refresh { r with replies := script ++ r.replies } := by
  obtain ⟨script, hs, _⟩ := sendAllLan_refines p rx (refreshCommands r.dev) r s hg
  refine ⟨script, ?_⟩
  unfold refreshLan refresh
  have hdev : ({ r with replies := script ++ r.replies } : Run).dev = r.dev := rfl
  rw [hdev, ← hs]
  cases h1 : sendAllLan p rx r s (refreshCommands r.dev) with
  | mk res s1 => cases res <;> rfl

end Msmart.Lemmas.Stack
