/-
  Refinement: every operation of the Session model (`Model/Session.lean`) is a run of the abstract
  connection automaton of `Lemmas/SessionAbs.lean`, with a trace of a known shape.  The soft
  operations (time, event delivery, queue handling, credentials) leave the abstract state alone;
  the six critical operations are exactly the six kinds of automaton steps.
-/
import Msmart.Lemmas.SessionAbs
import Msmart.Lemmas.PacketErr

namespace Msmart.Lemmas.Sess
open Msmart Msmart.Model Msmart.Model.Session

def evsOf (s : S) : List Ev := s.w.log.map Prod.snd
def coreOf (s : S) : Option Core := s.l.conn.map (·.core)

/-- abstraction map -/
def abs (s : S) : A := { evs := evsOf s, nConn := s.w.nConn, core := coreOf s, version := s.l.version }

/-- `s —tr→ s'` in the abstract automaton -/
def Tr (s : S) (tr : List Ev) (s' : S) : Prop := A.Run (abs s) tr (abs s')

theorem Tr.rfl' (s : S) : Tr s [] s := A.Run.refl _
theorem Tr.trans {s1 s2 s3 : S} {t1 t2 : List Ev} (h1 : Tr s1 t1 s2) (h2 : Tr s2 t2 s3) : Tr s1 (t1 ++ t2) s3 :=
  A.Run.trans h1 h2
theorem Tr.ofEq {s s' : S} (h : abs s' = abs s) : Tr s [] s' := by
  unfold Tr; rw [h]; exact A.Run.refl _

/-! ### soft operations -/

@[simp] theorem abs_softConn (s : S) (f : Conn → Conn) : abs (softConn s f) = abs s := by
  unfold softConn
  split
  · rename_i c hc; simp [abs, coreOf, evsOf, hc]
  · rfl

@[simp] theorem abs_setNow (s : S) (t : Nat) : abs (setNow s t) = abs s := rfl

@[simp] theorem abs_deliverDue (s : S) (e : Timed) : abs (deliverDue s e) = abs s := by
  unfold deliverDue; rw [abs_softConn]; rfl

@[simp] theorem abs_pumpUntil (fuel : Nat) (s : S) (t : Nat) : abs (pumpUntil fuel s t) = abs s := by
  induction fuel generalizing s with
  | zero => rfl
  | succ n ih =>
    unfold pumpUntil
    split
    · rfl
    · rw [ih, abs_deliverDue]

@[simp] theorem abs_pump (s : S) (t : Nat) : abs (pump s t) = abs s := abs_pumpUntil _ _ _
@[simp] theorem abs_popQueue (s : S) : abs (popQueue s) = abs s := abs_softConn _ _
@[simp] theorem abs_flush (s : S) : abs (flush s) = abs s := abs_softConn _ _
@[simp] theorem abs_react (rx : Reactions) (s : S) (cid idx : Nat) : abs (react rx s cid idx) = abs s := rfl
@[simp] theorem abs_dropConnect (s : S) : abs (dropConnect s) = abs s := rfl
@[simp] theorem abs_storeCreds (s : S) (t k : Option Bytes) : abs (storeCreds s t k) = abs s := rfl
@[simp] theorem abs_setLifetime (s : S) (m : Option Nat) : abs (setLifetime s m) = abs s := rfl

@[simp] theorem abs_awaitQueue (fuel : Nat) (s : S) (d : Nat) : abs (awaitQueue fuel s d).2 = abs s := by
  induction fuel generalizing s with
  | zero => rfl
  | succ n ih =>
    unfold awaitQueue
    split
    · simp
    · split
      · split <;> rfl
      · split
        · rfl
        · rw [ih, abs_deliverDue]

@[simp] theorem abs_cancelFired (s : S) (t : Nat) : abs (cancelFired s t) = abs s := rfl
@[simp] theorem abs_armCancel (s : S) (ms : Nat) : abs (armCancel s ms) = abs s := rfl
@[simp] theorem abs_disarmCancel (s : S) : abs (disarmCancel s) = abs s := rfl

/-! ### cancellation: nothing but `armCancel` arms it, and an unarmed read is never cancelled -/

theorem cancelAt_softConn (s : S) (f : Conn → Conn) : (softConn s f).w.cancelAt = s.w.cancelAt := by
  unfold softConn; split <;> rfl
theorem cancelAt_deliverDue (s : S) (e : Timed) : (deliverDue s e).w.cancelAt = s.w.cancelAt := by
  unfold deliverDue; rw [cancelAt_softConn]
theorem cancelAt_pumpUntil (fuel : Nat) (s : S) (t : Nat) : (pumpUntil fuel s t).w.cancelAt = s.w.cancelAt := by
  induction fuel generalizing s with
  | zero => rfl
  | succ n ih =>
    unfold pumpUntil
    split
    · rfl
    · rw [ih, cancelAt_deliverDue]
theorem cancelAt_pump (s : S) (t : Nat) : (pump s t).w.cancelAt = s.w.cancelAt := cancelAt_pumpUntil _ _ _

/-- a read is cancelled only if a cancellation was armed; otherwise the arming is untouched -/
theorem awaitQueue_cancel (fuel : Nat) {s s' : S} {d : Nat} {r : ReadRes} (h : awaitQueue fuel s d = (r, s')) :
    (r = .cancelled ∧ s.w.cancelAt.isSome = true) ∨ (r ≠ .cancelled ∧ s'.w.cancelAt = s.w.cancelAt) := by
  induction fuel generalizing s with
  | zero => unfold awaitQueue at h; cases h; exact .inr ⟨by simp, rfl⟩
  | succ n ih =>
    unfold awaitQueue at h
    split at h
    · cases h; exact .inr ⟨by simp, by unfold popQueue; rw [cancelAt_softConn]⟩
    · have hcd : ∀ lim tc, cancelDue s lim = some tc → s.w.cancelAt.isSome = true := by
        intro lim tc hc; unfold cancelDue at hc
        cases hca : s.w.cancelAt with
        | none => rw [hca] at hc; cases hc
        | some x => rfl
      split at h
      · split at h
        · rename_i tc hc; cases h; exact .inl ⟨rfl, hcd _ _ hc⟩
        · cases h; exact .inr ⟨by simp, rfl⟩
      · split at h
        · rename_i tc hc; cases h; exact .inl ⟨rfl, hcd _ _ hc⟩
        · rename_i e _ _
          rcases ih h with ⟨h1, h2⟩ | ⟨h1, h2⟩
          · exact .inl ⟨h1, by rw [cancelAt_deliverDue] at h2; exact h2⟩
          · exact .inr ⟨h1, by rw [h2, cancelAt_deliverDue]⟩

theorem awaitQueue_unarmed (fuel : Nat) {s s' : S} {d : Nat} {r : ReadRes} (hn : s.w.cancelAt = none)
    (h : awaitQueue fuel s d = (r, s')) : r ≠ .cancelled ∧ s'.w.cancelAt = none := by
  rcases awaitQueue_cancel fuel h with ⟨_, h2⟩ | ⟨h1, h2⟩
  · rw [hn] at h2; cases h2
  · exact ⟨h1, by rw [h2, hn]⟩

@[simp] theorem abs_readAvailable (fuel : Nat) (s : S) (acc : List Bytes) : abs (readAvailable fuel s acc).2 = abs s := by
  induction fuel generalizing s acc with
  | zero => rfl
  | succ n ih =>
    unfold readAvailable
    split
    · rfl
    · split
      · simp
      · rw [ih, abs_popQueue]

theorem soft_setVersion3 (s : S) : A.Soft (abs s) (abs (setVersion3 s)) := ⟨rfl, rfl, rfl, .inr rfl⟩
theorem tr_setVersion3 (s : S) : Tr s [] (setVersion3 s) := A.Run.ofSoft (soft_setVersion3 s)

/-! ### kinds of events -/

def isHs : Ev → Bool | .wrHS .. => true | _ => false
def isAccept : Ev → Bool | .accept .. => true | _ => false
def isForget : Ev → Bool | .forget .. => true | _ => false
/-- an event that only changes the session key held for the connection -/
def isKeyEv : Ev → Bool | .accept .. => true | .forget .. => true | _ => false
def isClosed : Ev → Bool | .closed .. => true | _ => false

/-- a handshake request carrying the token `tok` -/
def HsTok (tok : Option Bytes) (e : Ev) : Prop := ∃ cid ctr t, e = .wrHS cid ctr t ∧ tok = some t
/-- a data packet carrying `frame` -/
def DataOf (frame : Bytes) (e : Ev) : Prop := (∃ cid ctr k, e = .wrData cid ctr k frame) ∨ (∃ cid, e = .wrV2 cid frame)

theorem DataOf.isData {f : Bytes} {e : Ev} (h : DataOf f e) : isData e = true := by
  rcases h with ⟨_, _, _, rfl⟩ | ⟨_, rfl⟩ <;> rfl

/-! ### the six critical operations -/

theorem evsOf_logEv (s : S) (e : Ev) : evsOf (logEv s e) = evsOf s ++ [e] := by simp [evsOf, logEv]

theorem opWriteHS_tr {rx : Reactions} {s s' : S} {tok : Bytes} (h : opWriteHS rx s tok = .ok s') :
    ∃ c, coreOf s = some c ∧ Tr s [.wrHS c.cid c.packetId tok] s' ∧ coreOf s' = some (bump c) := by
  unfold opWriteHS at h
  split at h
  · cases h
  · rename_i c hc
    split at h
    · cases h
    · split at h
      · cases h
      · cases h
        refine ⟨c.core, by simp [coreOf, hc], A.Run.ofStep ⟨?_, ?_, rfl⟩, by simp [coreOf, react, setCore]⟩
        · simp [A.eff, abs, coreOf, hc, react, setCore, logEv]
        · simp [abs, react, setCore, evsOf, logEv]

theorem opWriteData_tr {rx : Reactions} {s s' : S} {f : Bytes} (h : opWriteData rx s f = .ok s') :
    ∃ c k, coreOf s = some c ∧ Tr s [.wrData c.cid c.packetId k f] s' := by
  unfold opWriteData at h
  split at h
  · cases h
  · rename_i c hc
    split at h
    · cases h
    · rename_i k hk
      split at h
      · cases h
      · cases h
        refine ⟨c.core, k, by simp [coreOf, hc], A.Run.ofStep ⟨?_, ?_, rfl⟩⟩
        · simp [A.eff, abs, coreOf, hc, react, setCore, logEv, hk]
        · simp [abs, react, setCore, evsOf, logEv]

theorem opWriteV2_tr {rx : Reactions} {s s' : S} {f : Bytes} (hv : isV3 s = false) (h : opWriteV2 rx s f = .ok s') :
    ∃ c, coreOf s = some c ∧ Tr s [.wrV2 c.cid f] s' := by
  unfold opWriteV2 at h
  split at h
  · cases h
  · rename_i c hc
    split at h
    · cases h
    · cases h
      have hv' : c.core.v3 = false := by simpa [isV3, hc] using hv
      refine ⟨c.core, by simp [coreOf, hc], A.Run.ofStep ⟨?_, ?_, rfl⟩⟩
      · simp [A.eff, abs, coreOf, hc, react, setCore, logEv, hv', bumpV2]
      · simp [abs, react, setCore, evsOf, logEv]

theorem opWrite_tr {rx : Reactions} {s s' : S} {f : Bytes} (h : opWrite rx s f = .ok s') :
    ∃ e, DataOf f e ∧ Tr s [e] s' := by
  unfold opWrite at h
  split at h
  · obtain ⟨c, k, _, ht⟩ := opWriteData_tr h
    exact ⟨_, .inl ⟨_, _, _, rfl⟩, ht⟩
  · rename_i hv
    obtain ⟨c, _, ht⟩ := opWriteV2_tr (by simpa using hv) h
    exact ⟨_, .inr ⟨_, rfl⟩, ht⟩

theorem opAccept_tr (s : S) (lk : Bytes) (exp : Nat) (c : Core) (hc : coreOf s = some c) :
    Tr s [.accept c.cid lk] (opAccept s lk exp) := by
  unfold opAccept
  cases hconn : s.l.conn with
  | none => simp [coreOf, hconn] at hc
  | some cn =>
    have : cn.core = c := by simpa [coreOf, hconn] using hc
    subst this
    refine A.Run.ofStep ⟨?_, ?_, rfl⟩
    · simp [A.eff, abs, coreOf, hconn, logEv, withKey]
    · simp [abs, evsOf, logEv]

theorem opForget_tr (s : S) :
    (∃ c, coreOf s = some c ∧ Tr s [.forget c.cid] (opForget s) ∧ coreOf (opForget s) = some (noKey c)) ∨
    (coreOf s = none ∧ opForget s = s) := by
  unfold opForget
  cases hconn : s.l.conn with
  | none => exact .inr ⟨by simp [coreOf, hconn], rfl⟩
  | some cn =>
    refine .inl ⟨cn.core, by simp [coreOf, hconn], A.Run.ofStep ⟨?_, ?_, rfl⟩, by simp [coreOf, logEv, noKey]⟩
    · simp [A.eff, abs, coreOf, hconn, logEv, noKey]
    · simp [abs, evsOf, logEv]

theorem opDisconnect_tr (s : S) :
    coreOf (opDisconnect s) = none ∧
    ((∃ c, coreOf s = some c ∧ Tr s [.closed c.cid] (opDisconnect s)) ∨ (coreOf s = none ∧ opDisconnect s = s)) := by
  unfold opDisconnect
  cases hconn : s.l.conn with
  | none => exact ⟨by simp [coreOf, hconn], .inr ⟨by simp [coreOf, hconn], rfl⟩⟩
  | some cn =>
    refine ⟨by simp [coreOf, logEv], .inl ⟨cn.core, by simp [coreOf, hconn], A.Run.ofStep ⟨?_, ?_, rfl⟩⟩⟩
    · simp [A.eff, abs, coreOf, hconn, logEv]
    · simp [abs, evsOf, logEv]

theorem opDisconnect_tr' (s : S) : ∃ tr, Tr s tr (opDisconnect s) ∧ (∀ e ∈ tr, isClosed e = true) := by
  rcases (opDisconnect_tr s).2 with ⟨c, _, ht⟩ | ⟨_, he⟩
  · exact ⟨_, ht, by simp [isClosed]⟩
  · exact ⟨[], by rw [he]; exact Tr.rfl' s, by simp⟩

theorem opConnected_tr (s : S) (hc : coreOf s = none) :
    Tr s [.connect (s.w.nConn + 1) (decide (s.l.version = 3))] (opConnected s) := by
  have h1 : (abs s).core = none := hc
  refine A.Run.ofStep ⟨?_, ?_, rfl⟩
  · unfold A.eff
    rw [h1]
    simp [abs, opConnected, logEv, coreOf, freshCore]
    rfl
  · simp [abs, evsOf, logEv, opConnected]

theorem coreOf_opConnected (s : S) : coreOf (opConnected s) = some (freshCore (s.w.nConn + 1) (decide (s.l.version = 3))) := by
  simp [opConnected, coreOf, logEv, freshCore]

/-- `_connect()` without a current connection: either a connect step, or nothing -/
theorem opConnect_tr {p : Params} {s s' : S} {r : R Unit} (hc : coreOf s = none) (h : opConnect p s = (r, s')) :
    (r = .ok () ∧ Tr s [.connect (s.w.nConn + 1) (decide (s.l.version = 3))] s' ∧ s' = opConnected (dropConnect s)) ∨
    ((∃ e, r = .error e ∧ (e = .protocol ∨ e = .timeout)) ∧ abs s' = abs s) := by
  unfold opConnect at h
  split at h
  · cases h; exact .inr ⟨⟨_, rfl, .inl rfl⟩, by simp⟩
  · cases h; exact .inr ⟨⟨_, rfl, .inl rfl⟩, by simp⟩
  · cases h; exact .inr ⟨⟨_, rfl, .inr rfl⟩, by simp⟩
  · cases h
    refine .inl ⟨rfl, ?_, rfl⟩
    have := opConnected_tr (dropConnect s) (by simpa [coreOf, dropConnect] using hc)
    unfold Tr at this ⊢
    rw [abs_dropConnect] at this
    exact this


/-! ### authentication -/

theorem coreOf_of_abs {s s' : S} (h : abs s' = abs s) : coreOf s' = coreOf s := congrArg A.core h

theorem Tr.congr_left {s0 s s' : S} {tr : List Ev} (he : abs s0 = abs s) (h : Tr s0 tr s') : Tr s tr s' := by
  unfold Tr at *; rw [← he]; exact h

theorem Tr.congr_right {s s0 s' : S} {tr : List Ev} (he : abs s' = abs s0) (h : Tr s tr s0) : Tr s tr s' := by
  unfold Tr at *; rw [he]; exact h

theorem HsTok.notClosed {t : Option Bytes} {e : Ev} (h : HsTok t e) : isClosed e = false := by
  obtain ⟨_, _, _, rfl, _⟩ := h; rfl
theorem notClosed_of_isAccept {e : Ev} (h : isKeyEv e = true) : isClosed e = false := by
  cases e <;> simp_all [isKeyEv, isClosed]

theorem acceptReply_tr {p : Params} {s s' : S} {key raw : Bytes} {r : R Unit} (c : Core) (hc : coreOf s = some c)
    (h : acceptReply p s key raw = (r, s')) :
    (r = .ok () ∧ ∃ lk, Tr s [.accept c.cid lk] s') ∨ ((∃ e, r = .error e) ∧ s' = s) := by
  unfold acceptReply at h
  split at h
  · cases h; exact .inr ⟨⟨_, rfl⟩, rfl⟩
  · cases h; exact .inr ⟨⟨_, rfl⟩, rfl⟩
  · split at h
    · cases h; exact .inr ⟨⟨_, rfl⟩, rfl⟩
    · cases h; exact .inl ⟨rfl, _, opAccept_tr s _ _ c hc⟩

/-- one handshake attempt: the previous key is forgotten, at most one handshake request carrying the
    token is written, then possibly an acceptance -/
theorem protoAuthenticate_tr {p : Params} {rx : Reactions} {s s' : S} {token key : Option Bytes} {r : R Unit}
    (h : protoAuthenticate p rx s token key = (r, s')) :
    ∃ tr, Tr s tr s' ∧ (∀ e ∈ tr, HsTok token e ∨ isKeyEv e = true) ∧
      (r = .ok () → ∃ e ∈ tr, isAccept e = true) := by
  unfold protoAuthenticate at h
  split at h
  · rename_i tk ky
    split at h
    · cases h; exact ⟨[], Tr.rfl' _, by simp, by intro h; cases h⟩
    · -- the state after flush + forget, and its trace
      have hf : ∃ tf, Tr s tf (opForget (flush s)) ∧ (∀ e ∈ tf, HsTok (some tk) e ∨ isKeyEv e = true) ∧
          (∀ c', coreOf (opForget (flush s)) = some c' → ∃ c, tf = [.forget c.cid] ∧ c' = noKey c) := by
        rcases opForget_tr (flush s) with ⟨c, hc, ht, hc'⟩ | ⟨hc, he⟩
        · refine ⟨_, Tr.congr_left (abs_flush s) ht, ?_, ?_⟩
          · intro e he; simp only [List.mem_singleton] at he; subst he; exact .inr rfl
          · intro c' hcc; rw [hc'] at hcc; cases hcc; exact ⟨c, rfl, rfl⟩
        · refine ⟨[], ?_, by simp, ?_⟩
          · rw [he]; exact Tr.ofEq (abs_flush s)
          · intro c' hcc; rw [he, hc] at hcc; cases hcc
      obtain ⟨tf, htf, hshapef, hcoref⟩ := hf
      split at h
      · cases h; exact ⟨tf, htf, hshapef, by intro h; cases h⟩
      · cases h; exact ⟨tf, htf, hshapef, by intro h; cases h⟩
      · rename_i s1 hw
        obtain ⟨c', hc', ht, hc1⟩ := opWriteHS_tr hw
        obtain ⟨c, rfl, rfl⟩ := hcoref c' hc'
        have ht : Tr s ([.forget c.cid] ++ [.wrHS (noKey c).cid (noKey c).packetId tk]) s1 := htf.trans ht
        have hshape1 : ∀ e ∈ [Ev.forget c.cid] ++ [Ev.wrHS (noKey c).cid (noKey c).packetId tk],
            HsTok (some tk) e ∨ isKeyEv e = true := by
          intro e he
          simp only [List.cons_append, List.nil_append, List.mem_cons, List.not_mem_nil, or_false] at he
          rcases he with rfl | rfl
          · exact .inr rfl
          · exact .inl ⟨_, _, _, rfl, rfl⟩
        split at h
        · rename_i s2 hq
          simp only [Prod.mk.injEq] at h
          obtain ⟨rfl, rfl⟩ := h
          have ha : abs s2 = abs s1 := by
            have := abs_awaitQueue (s1.w.pending.length + 1) s1 (s1.w.now + p.readTimeout)
            rw [hq] at this; exact this
          exact ⟨_, Tr.congr_right ha ht, hshape1, by intro h; cases h⟩
        · rename_i s2 hq
          simp only [Prod.mk.injEq] at h
          obtain ⟨rfl, rfl⟩ := h
          have ha : abs s2 = abs s1 := by
            have := abs_awaitQueue (s1.w.pending.length + 1) s1 (s1.w.now + p.readTimeout)
            rw [hq] at this; exact this
          exact ⟨_, Tr.congr_right ha ht, hshape1, by intro h; cases h⟩
        · rename_i raw s2 hq
          have ha : abs s2 = abs s1 := by
            have := abs_awaitQueue (s1.w.pending.length + 1) s1 (s1.w.now + p.readTimeout)
            rw [hq] at this; exact this
          have hc2 : coreOf s2 = some (bump (noKey c)) := by rw [coreOf_of_abs ha]; exact hc1
          rcases acceptReply_tr (bump (noKey c)) hc2 h with ⟨rfl, lk, hta⟩ | ⟨⟨e, rfl⟩, rfl⟩
          · refine ⟨_, (Tr.congr_right ha ht).trans hta, ?_, fun _ => ⟨.accept (bump (noKey c)).cid lk, by simp, rfl⟩⟩
            intro e he
            rcases List.mem_append.1 he with he | he
            · exact hshape1 e he
            · simp only [List.mem_singleton] at he; subst he; exact .inr rfl
          · exact ⟨_, Tr.congr_right ha ht, hshape1, by intro h; cases h⟩
  · cases h; exact ⟨[], Tr.rfl' _, by simp, by intro h; cases h⟩

/-- the retry loop of `LAN.authenticate` -/
theorem authLoop_tr {p : Params} {rx : Reactions} {token key : Option Bytes} (n : Nat) {s s' : S} {r : R Unit}
    (h : authLoop p rx token key n s = (r, s')) :
    ∃ tr, Tr s tr s' ∧ (∀ e ∈ tr, HsTok token e ∨ isKeyEv e = true ∨ isClosed e = true) ∧
      (r = .ok () → (∀ e ∈ tr, isClosed e = false) ∧ ((n = 0 ∧ s' = s) ∨ ∃ e ∈ tr, isAccept e = true)) := by
  induction n generalizing s with
  | zero =>
    unfold authLoop at h; cases h
    exact ⟨[], Tr.rfl' _, by simp, fun _ => ⟨by simp, .inl ⟨rfl, rfl⟩⟩⟩
  | succ n ih =>
    unfold authLoop at h
    split at h
    · rename_i s1 hp
      cases h
      obtain ⟨tr, ht, hshape, hok⟩ := protoAuthenticate_tr hp
      refine ⟨tr, ht, ?_, fun _ => ⟨?_, .inr (hok rfl)⟩⟩
      · intro e he; rcases hshape e he with h1 | h1
        · exact .inl h1
        · exact .inr (.inl h1)
      · intro e he; rcases hshape e he with h1 | h1
        · exact h1.notClosed
        · exact notClosed_of_isAccept h1
    · rename_i s1 hp
      obtain ⟨tr1, ht1, hshape1, _⟩ := protoAuthenticate_tr hp
      have hs1 : ∀ e ∈ tr1, HsTok token e ∨ isKeyEv e = true ∨ isClosed e = true := by
        intro e he; rcases hshape1 e he with h1 | h1
        · exact .inl h1
        · exact .inr (.inl h1)
      have hnc1 : ∀ e ∈ tr1, isClosed e = false := by
        intro e he; rcases hshape1 e he with h1 | h1
        · exact h1.notClosed
        · exact notClosed_of_isAccept h1
      split at h
      · rename_i hn
        obtain ⟨tr2, ht2, hshape2, hok2⟩ := ih h
        refine ⟨tr1 ++ tr2, ht1.trans ht2, ?_, ?_⟩
        · intro e he; rcases List.mem_append.1 he with he | he
          · exact hs1 e he
          · exact hshape2 e he
        · intro hr
          obtain ⟨hnc2, hacc⟩ := hok2 hr
          refine ⟨?_, ?_⟩
          · intro e he; rcases List.mem_append.1 he with he | he
            · exact hnc1 e he
            · exact hnc2 e he
          · rcases hacc with ⟨hz, _⟩ | ⟨e, he, hacc⟩
            · omega
            · exact .inr ⟨e, List.mem_append.2 (.inr he), hacc⟩
      · cases h
        obtain ⟨tr2, ht2, hcl⟩ := opDisconnect_tr' s1
        refine ⟨tr1 ++ tr2, ht1.trans ht2, ?_, by intro h; cases h⟩
        intro e he; rcases List.mem_append.1 he with he | he
        · exact hs1 e he
        · exact .inr (.inr (hcl e he))
    · rename_i e s1 _ hp
      simp only [Prod.mk.injEq] at h
      obtain ⟨rfl, rfl⟩ := h
      obtain ⟨tr1, ht1, hshape1, _⟩ := protoAuthenticate_tr hp
      refine ⟨tr1, ht1, ?_, by intro h; cases h⟩
      intro e he; rcases hshape1 e he with h1 | h1
      · exact .inl h1
      · exact .inr (.inl h1)

theorem finishAuth_tr {p : Params} {s s' : S} {tk ky : Option Bytes} {r : R Unit} (h : finishAuth p s tk ky = (r, s')) :
    abs s' = abs s ∧ (r = .ok () → authenticated s = true) := by
  unfold finishAuth at h
  split at h
  · cases h; exact ⟨rfl, by intro h; cases h⟩
  · rename_i ha
    cases h
    exact ⟨by simp, fun _ => by simpa using ha⟩

theorem authenticated_fresh (s : S) : authenticated (opConnected s) = false := by
  simp [authenticated, opConnected, logEv]

/-- `LAN.authenticate`: possibly a reconnect (close, connect), then handshake requests carrying the
    selected token and possibly an acceptance; nothing else is written -/
theorem lanAuthenticate_tr {p : Params} {rx : Reactions} {s s' : S} {token key : Option Bytes} {n : Nat} {r : R Unit}
    (h : lanAuthenticate p rx s token key n = (r, s')) :
    ∃ s1 tc ta, Tr s tc s1 ∧ Tr s1 ta s' ∧
      (∀ e ∈ tc, isClosed e = true ∨ isConnect e = true) ∧
      (∀ e ∈ ta, HsTok (pickCred token key s.l.token) e ∨ isKeyEv e = true ∨ isClosed e = true) ∧
      (connAlive s = true → isV3 s = true → tc = []) ∧
      (connAlive s = false ∨ isV3 s = false → ∀ c, coreOf s = some c → ∃ tc', tc = .closed c.cid :: tc') ∧
      (r = .ok () → (∀ e ∈ ta, isClosed e = false) ∧
          (authenticated s = false ∨ tc ≠ [] → ∃ e ∈ ta, isAccept e = true)) := by
  unfold lanAuthenticate at h
  split at h
  · -- reconnect
    rename_i hcond
    have hcond' : connAlive s = false ∨ isV3 s = false := by
      simp only [Bool.or_eq_true, Bool.not_eq_true'] at hcond; exact hcond
    have hcontra : connAlive s = true → isV3 s = true → False := by
      intro h1 h2; rcases hcond' with h3 | h3 <;> simp_all
    obtain ⟨hnone, hdisc⟩ := opDisconnect_tr s
    -- trace of the disconnect
    have hd : ∃ td, Tr s td (setVersion3 (opDisconnect s)) ∧ (∀ e ∈ td, isClosed e = true) ∧
        (∀ c, coreOf s = some c → td = [.closed c.cid]) := by
      rcases hdisc with ⟨c, hc, ht⟩ | ⟨hc, he⟩
      · refine ⟨_, by simpa using ht.trans (tr_setVersion3 _), by simp [isClosed], ?_⟩
        intro c' hc'; rw [hc] at hc'; cases hc'; rfl
      · refine ⟨[], ?_, by simp, by intro c hc'; rw [hc] at hc'; cases hc'⟩
        rw [he]; exact tr_setVersion3 s
    obtain ⟨td, htd, hclosed, hfirst⟩ := hd
    have hnone' : coreOf (setVersion3 (opDisconnect s)) = none := hnone
    split at h
    · rename_i e s1 hconn
      simp only [Prod.mk.injEq] at h
      obtain ⟨rfl, rfl⟩ := h
      rcases opConnect_tr hnone' hconn with ⟨hr, _⟩ | ⟨_, habs⟩
      · cases hr
      · refine ⟨s1, td, [], Tr.congr_right habs htd, Tr.rfl' _, fun e he => .inl (hclosed e he), by simp,
          fun h1 h2 => (hcontra h1 h2).elim, ?_, by intro h; cases h⟩
        intro _ c hc; exact ⟨[], hfirst c hc⟩
    · rename_i s1 hconn
      rcases opConnect_tr hnone' hconn with ⟨_, htc, hs1⟩ | ⟨⟨e, he, _⟩, _⟩
      · have hfresh : authenticated s1 = false := by rw [hs1]; exact authenticated_fresh _
        have htc' := htd.trans htc
        have hshape_c : ∀ e ∈ td ++ [Ev.connect ((setVersion3 (opDisconnect s)).w.nConn + 1)
            (decide ((setVersion3 (opDisconnect s)).l.version = 3))], isClosed e = true ∨ isConnect e = true := by
          intro e he; rcases List.mem_append.1 he with he | he
          · exact .inl (hclosed e he)
          · simp only [List.mem_singleton] at he; subst he; exact .inr rfl
        have hfirst' : connAlive s = false ∨ isV3 s = false → ∀ c, coreOf s = some c →
            ∃ tc', td ++ [Ev.connect ((setVersion3 (opDisconnect s)).w.nConn + 1)
              (decide ((setVersion3 (opDisconnect s)).l.version = 3))] = .closed c.cid :: tc' := by
          intro _ c hc; rw [hfirst c hc]; exact ⟨_, rfl⟩
        split at h
        · rename_i e s2 hloop
          cases h
          obtain ⟨ta, hta, hshape, _⟩ := authLoop_tr n hloop
          exact ⟨s1, _, ta, htc', hta, hshape_c, hshape, fun h1 h2 => (hcontra h1 h2).elim, hfirst', by intro h; cases h⟩
        · rename_i s2 hloop
          obtain ⟨ta, hta, hshape, hok⟩ := authLoop_tr n hloop
          obtain ⟨habs, hauth⟩ := finishAuth_tr h
          refine ⟨s1, _, ta, htc', Tr.congr_right habs hta, hshape_c, hshape, fun h1 h2 => (hcontra h1 h2).elim, hfirst', ?_⟩
          intro hr
          obtain ⟨hnc, hacc⟩ := hok rfl
          refine ⟨hnc, fun _ => ?_⟩
          rcases hacc with ⟨_, hs2⟩ | hacc
          · rw [hs2, hfresh] at hauth; exact absurd (hauth hr) (by simp)
          · exact hacc
      · cases he
  · -- no reconnect
    rename_i hcond
    have hal : connAlive s = true ∧ isV3 s = true := by
      simp only [Bool.or_eq_true, Bool.not_eq_true', not_or, Bool.not_eq_false] at hcond; exact hcond
    have hnofirst : connAlive s = false ∨ isV3 s = false → ∀ c, coreOf s = some c → ∃ tc', ([] : List Ev) = .closed c.cid :: tc' := by
      intro h1; rcases h1 with h1 | h1 <;> simp_all
    split at h
    · rename_i e s2 hloop
      cases h
      obtain ⟨ta, hta, hshape, _⟩ := authLoop_tr n hloop
      exact ⟨s, [], ta, Tr.rfl' _, hta, by simp, hshape, fun _ _ => rfl, hnofirst, by intro h; cases h⟩
    · rename_i s2 hloop
      obtain ⟨ta, hta, hshape, hok⟩ := authLoop_tr n hloop
      obtain ⟨habs, hauth⟩ := finishAuth_tr h
      refine ⟨s, [], ta, Tr.rfl' _, Tr.congr_right habs hta, by simp, hshape, fun _ _ => rfl, hnofirst, ?_⟩
      intro hr
      obtain ⟨hnc, hacc⟩ := hok rfl
      refine ⟨hnc, fun hna => ?_⟩
      rcases hna with hna | hna
      · rcases hacc with ⟨_, hs2⟩ | hacc
        · rw [hs2, hna] at hauth; exact absurd (hauth hr) (by simp)
        · exact hacc
      · exact absurd rfl hna


theorem opDisconnect_none {s : S} (h : s.l.conn = none) : opDisconnect s = s := by
  unfold opDisconnect; rw [h]

theorem conn_opDisconnect (s : S) : (opDisconnect s).l.conn = none := by
  unfold opDisconnect
  split
  · rfl
  · assumption

/-- when `LAN.authenticate` reconnects, it behaves as if started from the disconnected state with the
    protocol version already set to 3 -/
theorem lanAuthenticate_reconnect {p : Params} {rx : Reactions} {s : S} {token key : Option Bytes} {n : Nat}
    (hc : connAlive s = false ∨ isV3 s = false) :
    lanAuthenticate p rx s token key n = lanAuthenticate p rx (setVersion3 (opDisconnect s)) token key n := by
  have hn : (setVersion3 (opDisconnect s)).l.conn = none := conn_opDisconnect s
  have h0 : opDisconnect (setVersion3 (opDisconnect s)) = setVersion3 (opDisconnect s) := opDisconnect_none hn
  have hal : connAlive (setVersion3 (opDisconnect s)) = false := by unfold connAlive; rw [hn]
  have ht : (setVersion3 (opDisconnect s)).l.token = s.l.token := by
    show (opDisconnect s).l.token = s.l.token
    unfold opDisconnect; split <;> rfl
  have hk : (setVersion3 (opDisconnect s)).l.key = s.l.key := by
    show (opDisconnect s).l.key = s.l.key
    unfold opDisconnect; split <;> rfl
  have hcond : (!connAlive s || !isV3 s) = true := by rcases hc with h | h <;> simp [h]
  conv => lhs; unfold lanAuthenticate
  conv => rhs; unfold lanAuthenticate
  rw [if_pos hcond, if_pos (by simp [hal]), h0, ht, hk]
  rfl

/-! ### exchanges -/

theorem decodeRead_err {s : S} {raw : Bytes} {e : Err} (h : decodeRead s raw = .error e) :
    e = .protocol ∨ e = indexError := by
  unfold decodeRead at h
  split at h
  · split at h
    · rename_i e' he; cases h; exact processPacket_err' he
    · exact .inl (packetDecode_err h)
  · exact .inl (packetDecode_err h)

/-- number of data packets (encrypted requests / V2 packets) in a trace = transmissions -/
def nData (tr : List Ev) : Nat := (tr.filter isData).length

theorem nData_append (a b : List Ev) : nData (a ++ b) = nData a + nData b := by simp [nData]
theorem nData_closed {tr : List Ev} (h : ∀ e ∈ tr, isClosed e = true) : nData tr = 0 := by
  unfold nData
  rw [List.length_eq_zero_iff, List.filter_eq_nil_iff]
  intro e he; have := h e he; cases e <;> simp_all [isClosed, isData]

theorem coreOf_opDisconnect (s : S) : coreOf (opDisconnect s) = none := (opDisconnect_tr s).1

theorem cancelAt_opWrite {rx : Reactions} {s s' : S} {f : Bytes} (h : opWrite rx s f = .ok s') :
    s'.w.cancelAt = s.w.cancelAt := by
  unfold opWrite at h
  split at h
  · unfold opWriteData at h
    split at h
    · cases h
    · split at h
      · cases h
      · split at h
        · cases h
        · cases h; rfl
  · unfold opWriteV2 at h
    split at h
    · cases h
    · split at h
      · cases h
      · cases h; rfl

theorem cancelAt_opDisconnect (s : S) : (opDisconnect s).w.cancelAt = s.w.cancelAt := by
  unfold opDisconnect; split <;> rfl

/-- the transmit / retry loop: only data packets carrying the frame are written, at most `n` of them;
    a timeout result means the connection was dropped and — unless the caller's cancellation was armed —
    exactly `n` were written; success means one more response than before -/
theorem sendLoop_tr {p : Params} {rx : Reactions} {frame : Bytes} (n : Nat) {s s' : S} {acc : List Bytes}
    {r : R (List Bytes)} (h : sendLoop p rx frame n s acc = (r, s')) :
    ∃ tr, Tr s tr s' ∧ (∀ e ∈ tr, DataOf frame e ∨ isClosed e = true) ∧ nData tr ≤ n ∧
      (r = .error .timeout → 0 < n ∧ coreOf s' = none ∧ (s.w.cancelAt = none → nData tr = n)) ∧
      (∀ got, r = .ok got → (n = 0 ∧ got = acc ∧ s' = s) ∨ (∃ f, got = acc ++ [f] ∧ 1 ≤ nData tr)) ∧
      (0 < n → nData tr = 0 → ∃ e, r = .error e ∧ s' = s ∧ opWrite rx s frame = .error e) ∧
      (s.w.cancelAt = none → s'.w.cancelAt = none) := by
  induction n generalizing s with
  | zero =>
    unfold sendLoop at h; cases h
    exact ⟨[], Tr.rfl' _, by simp, by simp [nData], (by intro h; cases h),
      fun got hg => .inl ⟨rfl, by cases hg; rfl, rfl⟩, (by intro h; omega), id⟩
  | succ n ih =>
    unfold sendLoop at h
    split at h
    · rename_i e hw
      cases h
      exact ⟨[], Tr.rfl' _, by simp, by simp [nData], fun he => by
          exfalso
          unfold opWrite opWriteData opWriteV2 at hw
          cases he
          repeat (first | split at hw | cases hw),
        (by intro got hg; cases hg), fun _ _ => ⟨e, rfl, rfl, hw⟩, id⟩
    · rename_i s1 hw
      obtain ⟨ev, hdata, ht1⟩ := opWrite_tr hw
      have hca1 := cancelAt_opWrite hw
      have hn1 : nData [ev] = 1 := by simp [nData, hdata.isData]
      have hshape1 : ∀ e ∈ [ev], DataOf frame e ∨ isClosed e = true := by
        intro e he; simp only [List.mem_singleton] at he; subst he; exact .inl hdata
      split at h
      · rename_i s2 hq
        have ha : abs s2 = abs s1 := by
          have := abs_awaitQueue (s1.w.pending.length + 1) s1 (s1.w.now + p.readTimeout)
          rw [hq] at this; exact this
        have hca2 : s2.w.cancelAt = s1.w.cancelAt := by
          rcases awaitQueue_cancel _ hq with ⟨h1, _⟩ | ⟨_, h2⟩
          · cases h1
          · exact h2
        have ht2 : Tr s [ev] s2 := Tr.congr_right ha ht1
        split at h
        · rename_i hn
          obtain ⟨tr2, htr2, hshape2, hle2, hto2, hok2, _, hnc2⟩ := ih h
          refine ⟨[ev] ++ tr2, ht2.trans htr2, ?_, by rw [nData_append, hn1]; omega, ?_, ?_, ?_, ?_⟩
          · intro e he; rcases List.mem_append.1 he with he | he
            · exact hshape1 e he
            · exact hshape2 e he
          · intro hr; obtain ⟨_, h3, h4⟩ := hto2 hr
            exact ⟨by omega, h3, fun hnc => by rw [nData_append, hn1, h4 (by rw [hca2, hca1]; exact hnc)]; omega⟩
          · intro got hg
            rcases hok2 got hg with ⟨hz, _⟩ | ⟨f, hf, _⟩
            · omega
            · exact .inr ⟨f, hf, by rw [nData_append, hn1]; omega⟩
          · intro _ hz; rw [nData_append, hn1] at hz; omega
          · intro hnc; exact hnc2 (by rw [hca2, hca1]; exact hnc)
        · rename_i hn
          simp only [Prod.mk.injEq] at h
          obtain ⟨rfl, rfl⟩ := h
          obtain ⟨tr2, htr2, hcl⟩ := opDisconnect_tr' s2
          have hz : nData tr2 = 0 := nData_closed hcl
          refine ⟨[ev] ++ tr2, ht2.trans htr2, ?_, by rw [nData_append, hn1, hz]; omega, ?_, (by intro got hg; cases hg), ?_, ?_⟩
          · intro e he; rcases List.mem_append.1 he with he | he
            · exact hshape1 e he
            · exact .inr (hcl e he)
          · intro _; exact ⟨by omega, coreOf_opDisconnect s2, fun _ => by rw [nData_append, hn1, hz]; omega⟩
          · intro _ hz'; rw [nData_append, hn1] at hz'; omega
          · intro hnc; rw [cancelAt_opDisconnect, hca2, hca1]; exact hnc
      · -- the read was cancelled: disconnect, reported as a timeout
        rename_i s2 hq
        have ha : abs s2 = abs s1 := by
          have := abs_awaitQueue (s1.w.pending.length + 1) s1 (s1.w.now + p.readTimeout)
          rw [hq] at this; exact this
        have harmed : s1.w.cancelAt.isSome = true := by
          rcases awaitQueue_cancel _ hq with ⟨_, h2⟩ | ⟨h1, _⟩
          · exact h2
          · exact absurd rfl h1
        have ht2 : Tr s [ev] s2 := Tr.congr_right ha ht1
        simp only [Prod.mk.injEq] at h
        obtain ⟨rfl, rfl⟩ := h
        obtain ⟨tr2, htr2, hcl⟩ := opDisconnect_tr' s2
        have hz : nData tr2 = 0 := nData_closed hcl
        refine ⟨[ev] ++ tr2, ht2.trans htr2, ?_, by rw [nData_append, hn1, hz]; omega, ?_, (by intro got hg; cases hg), ?_, ?_⟩
        · intro e he; rcases List.mem_append.1 he with he | he
          · exact hshape1 e he
          · exact .inr (hcl e he)
        · intro _
          refine ⟨by omega, coreOf_opDisconnect s2, fun hnc => ?_⟩
          rw [hca1, hnc] at harmed; cases harmed
        · intro _ hz'; rw [nData_append, hn1] at hz'; omega
        · intro hnc; rw [hca1, hnc] at harmed; cases harmed
      · rename_i raw s2 hq
        have ha : abs s2 = abs s1 := by
          have := abs_awaitQueue (s1.w.pending.length + 1) s1 (s1.w.now + p.readTimeout)
          rw [hq] at this; exact this
        have hca2 : s2.w.cancelAt = s1.w.cancelAt := by
          rcases awaitQueue_cancel _ hq with ⟨h1, _⟩ | ⟨_, h2⟩
          · cases h1
          · exact h2
        have hnc' : s.w.cancelAt = none → s2.w.cancelAt = none := by intro hnc; rw [hca2, hca1]; exact hnc
        have ht2 : Tr s [ev] s2 := Tr.congr_right ha ht1
        split at h
        · simp only [Prod.mk.injEq] at h
          obtain ⟨rfl, rfl⟩ := h
          obtain ⟨tr2, htr2, hcl⟩ := opDisconnect_tr' s2
          have hz : nData tr2 = 0 := nData_closed hcl
          refine ⟨[ev] ++ tr2, ht2.trans htr2, ?_, by rw [nData_append, hn1, hz]; omega, (by intro h; cases h),
            (by intro got hg; cases hg), (by intro _ hz'; rw [nData_append, hn1] at hz'; omega),
            fun hnc => by rw [cancelAt_opDisconnect]; exact hnc' hnc⟩
          intro e he; rcases List.mem_append.1 he with he | he
          · exact hshape1 e he
          · exact .inr (hcl e he)
        · simp only [Prod.mk.injEq] at h
          obtain ⟨rfl, rfl⟩ := h
          obtain ⟨tr2, htr2, hcl⟩ := opDisconnect_tr' s2
          have hz : nData tr2 = 0 := nData_closed hcl
          refine ⟨[ev] ++ tr2, ht2.trans htr2, ?_, by rw [nData_append, hn1, hz]; omega, (by intro h; cases h),
            (by intro got hg; cases hg), (by intro _ hz'; rw [nData_append, hn1] at hz'; omega),
            fun hnc => by rw [cancelAt_opDisconnect]; exact hnc' hnc⟩
          intro e he; rcases List.mem_append.1 he with he | he
          · exact hshape1 e he
          · exact .inr (hcl e he)
        · rename_i e _ _ hd
          simp only [Prod.mk.injEq] at h
          obtain ⟨rfl, rfl⟩ := h
          refine ⟨[ev], ht2, hshape1, by rw [hn1]; omega, ?_, (by intro got hg; cases hg),
            (by intro _ hz'; rw [hn1] at hz'; omega), hnc'⟩
          intro he; cases he
          rcases decodeRead_err hd with h1 | h1 <;> cases h1
        · rename_i f hd
          simp only [Prod.mk.injEq] at h
          obtain ⟨rfl, rfl⟩ := h
          exact ⟨[ev], ht2, hshape1, by rw [hn1]; omega, (by intro h; cases h),
            fun got hg => .inr ⟨f, by cases hg; rfl, by omega⟩, (by intro _ hz'; rw [hn1] at hz'; omega), hnc'⟩

theorem readAvailable_err {fuel : Nat} {s s' : S} {acc : List Bytes} {e : Err}
    (h : readAvailable fuel s acc = (.error e, s')) : e = .protocol ∨ e = indexError := by
  induction fuel generalizing s acc with
  | zero => unfold readAvailable at h; cases h
  | succ n ih =>
    unfold readAvailable at h
    split at h
    · cases h
    · split at h
      · rename_i e' hd
        simp only [Prod.mk.injEq, Except.error.injEq] at h
        obtain ⟨rfl, _⟩ := h
        exact decodeRead_err hd
      · exact ih h

theorem abs_of_readAvailable {fuel : Nat} {s s' : S} {acc : List Bytes} {r : R (List Bytes)}
    (h : readAvailable fuel s acc = (r, s')) : abs s' = abs s := by
  have := abs_readAvailable fuel s acc; rw [h] at this; exact this

theorem cancelAt_readAvailable (fuel : Nat) (s : S) (acc : List Bytes) :
    (readAvailable fuel s acc).2.w.cancelAt = s.w.cancelAt := by
  induction fuel generalizing s acc with
  | zero => rfl
  | succ n ih =>
    unfold readAvailable
    split
    · rfl
    · split
      · unfold popQueue; rw [cancelAt_softConn]
      · rw [ih]; unfold popQueue; rw [cancelAt_softConn]

theorem cancelAt_of_readAvailable {fuel : Nat} {s s' : S} {acc : List Bytes} {r : R (List Bytes)}
    (h : readAvailable fuel s acc = (r, s')) : s'.w.cancelAt = s.w.cancelAt := by
  have := cancelAt_readAvailable fuel s acc; rw [h] at this; exact this

/-- the body of `LAN.send` once connected and authenticated -/
theorem exchange_tr {p : Params} {rx : Reactions} {s s' : S} {frame : Bytes} {n : Nat} {r : R (List Bytes)}
    (h : exchange p rx s frame n = (r, s')) :
    ∃ tr, Tr s tr s' ∧ (∀ e ∈ tr, DataOf frame e ∨ isClosed e = true) ∧ nData tr ≤ n ∧
      (r = .error .timeout → 0 < n ∧ coreOf s' = none ∧ (s.w.cancelAt = none → nData tr = n)) ∧
      (∀ got, r = .ok got → n = 0 ∨ 1 ≤ nData tr) ∧
      (s.w.cancelAt = none → s'.w.cancelAt = none) := by
  unfold exchange at h
  split at h
  · rename_i e s3 hpre
    simp only [Prod.mk.injEq] at h
    obtain ⟨rfl, rfl⟩ := h
    refine ⟨[], Tr.ofEq (abs_of_readAvailable hpre), by simp, by simp [nData], ?_, (by intro got hg; cases hg),
      fun hnc => by rw [cancelAt_of_readAvailable hpre]; exact hnc⟩
    intro he; cases he
    rcases readAvailable_err hpre with h1 | h1 <;> cases h1
  · rename_i pre s3 hpre
    have ha3 := abs_of_readAvailable hpre
    have hca3 := cancelAt_of_readAvailable hpre
    split at h
    · rename_i e s4 hloop
      simp only [Prod.mk.injEq] at h
      obtain ⟨rfl, rfl⟩ := h
      obtain ⟨tr, ht, hshape, hle, hto, _, _, hnc⟩ := sendLoop_tr n hloop
      refine ⟨tr, Tr.congr_left ha3 ht, hshape, hle, ?_, (by intro got hg; cases hg), fun h0 => hnc (by rw [hca3]; exact h0)⟩
      intro hr
      obtain ⟨h1, h2, h3⟩ := hto hr
      exact ⟨h1, h2, fun h0 => h3 (by rw [hca3]; exact h0)⟩
    · rename_i got s4 hloop
      obtain ⟨tr, ht, hshape, hle, _, hok, _, hnc⟩ := sendLoop_tr n hloop
      have ha4 := abs_of_readAvailable h
      refine ⟨tr, Tr.congr_right ha4 (Tr.congr_left ha3 ht), hshape, hle, ?_, ?_,
        fun h0 => by rw [cancelAt_of_readAvailable h]; exact hnc (by rw [hca3]; exact h0)⟩
      · intro hr; subst hr
        rcases readAvailable_err h with h1 | h1 <;> cases h1
      · intro _ _
        rcases hok got rfl with ⟨hz, _⟩ | ⟨_, _, h1⟩
        · exact .inl hz
        · exact .inr h1

/-! ### an unarmed cancellation stays unarmed -/

theorem cancelAt_opWriteHS {rx : Reactions} {s s' : S} {tok : Bytes} (h : opWriteHS rx s tok = .ok s') :
    s'.w.cancelAt = s.w.cancelAt := by
  unfold opWriteHS at h
  split at h
  · cases h
  · split at h
    · cases h
    · split at h
      · cases h
      · cases h; rfl

theorem cancelAt_opForget (s : S) : (opForget s).w.cancelAt = s.w.cancelAt := by
  unfold opForget; split <;> rfl

theorem cancelAt_opAccept (s : S) (lk : Bytes) (e : Nat) : (opAccept s lk e).w.cancelAt = s.w.cancelAt := by
  unfold opAccept; split <;> rfl

theorem cancelAt_opConnect {p : Params} {s s' : S} {r : R Unit} (h : opConnect p s = (r, s')) :
    s'.w.cancelAt = s.w.cancelAt := by
  unfold opConnect at h
  split at h
  · cases h; rfl
  · cases h; rfl
  · cases h; rw [cancelAt_pump]; rfl
  · cases h; rfl

theorem cancelAt_acceptReply {p : Params} {s s' : S} {key raw : Bytes} {r : R Unit} (h : acceptReply p s key raw = (r, s')) :
    s'.w.cancelAt = s.w.cancelAt := by
  unfold acceptReply at h
  split at h
  · cases h; rfl
  · cases h; rfl
  · split at h
    · cases h; rfl
    · cases h; exact cancelAt_opAccept _ _ _

theorem noCancel_protoAuthenticate {p : Params} {rx : Reactions} {s s' : S} {token key : Option Bytes} {r : R Unit}
    (hn : s.w.cancelAt = none) (h : protoAuthenticate p rx s token key = (r, s')) : s'.w.cancelAt = none := by
  have hf : (opForget (flush s)).w.cancelAt = none := by
    rw [cancelAt_opForget]; unfold flush; rw [cancelAt_softConn]; exact hn
  unfold protoAuthenticate at h
  split at h
  · split at h
    · cases h; exact hn
    · split at h
      · cases h; exact hf
      · cases h; exact hf
      · rename_i s1 hw
        have h1 : s1.w.cancelAt = none := by rw [cancelAt_opWriteHS hw]; exact hf
        split at h
        · rename_i s2 hq
          simp only [Prod.mk.injEq] at h
          obtain ⟨_, rfl⟩ := h
          exact (awaitQueue_unarmed _ h1 hq).2
        · rename_i s2 hq
          simp only [Prod.mk.injEq] at h
          obtain ⟨_, rfl⟩ := h
          exact (awaitQueue_unarmed _ h1 hq).2
        · rename_i raw s2 hq
          rw [cancelAt_acceptReply h]; exact (awaitQueue_unarmed _ h1 hq).2
  · cases h; exact hn

theorem noCancel_authLoop {p : Params} {rx : Reactions} {token key : Option Bytes} (n : Nat) {s s' : S} {r : R Unit}
    (hn : s.w.cancelAt = none) (h : authLoop p rx token key n s = (r, s')) : s'.w.cancelAt = none := by
  induction n generalizing s with
  | zero => unfold authLoop at h; cases h; exact hn
  | succ n ih =>
    unfold authLoop at h
    split at h
    · rename_i s1 hp
      simp only [Prod.mk.injEq] at h
      obtain ⟨_, rfl⟩ := h
      exact noCancel_protoAuthenticate hn hp
    · rename_i s1 hp
      have h1 := noCancel_protoAuthenticate hn hp
      split at h
      · exact ih h1 h
      · simp only [Prod.mk.injEq] at h
        obtain ⟨_, rfl⟩ := h
        rw [cancelAt_opDisconnect]; exact h1
    · rename_i e s1 _ hp
      simp only [Prod.mk.injEq] at h
      obtain ⟨_, rfl⟩ := h
      exact noCancel_protoAuthenticate hn hp

theorem cancelAt_finishAuth {p : Params} {s s' : S} {tk ky : Option Bytes} {r : R Unit} (h : finishAuth p s tk ky = (r, s')) :
    s'.w.cancelAt = s.w.cancelAt := by
  unfold finishAuth at h
  split at h
  · cases h; rfl
  · cases h; rw [cancelAt_pump]; rfl

theorem noCancel_lanAuthenticate {p : Params} {rx : Reactions} {s s' : S} {token key : Option Bytes} {n : Nat} {r : R Unit}
    (hn : s.w.cancelAt = none) (h : lanAuthenticate p rx s token key n = (r, s')) : s'.w.cancelAt = none := by
  unfold lanAuthenticate at h
  split at h
  · have h0 : (setVersion3 (opDisconnect s)).w.cancelAt = none := by
      show (opDisconnect s).w.cancelAt = none
      rw [cancelAt_opDisconnect]; exact hn
    split at h
    · rename_i e s1 hc
      simp only [Prod.mk.injEq] at h
      obtain ⟨_, rfl⟩ := h
      rw [cancelAt_opConnect hc]; exact h0
    · rename_i s1 hc
      have h1 : s1.w.cancelAt = none := by rw [cancelAt_opConnect hc]; exact h0
      split at h
      · rename_i e s2 hl
        simp only [Prod.mk.injEq] at h
        obtain ⟨_, rfl⟩ := h
        exact noCancel_authLoop n h1 hl
      · rename_i s2 hl
        rw [cancelAt_finishAuth h]; exact noCancel_authLoop n h1 hl
  · split at h
    · rename_i e s2 hl
      simp only [Prod.mk.injEq] at h
      obtain ⟨_, rfl⟩ := h
      exact noCancel_authLoop n hn hl
    · rename_i s2 hl
      rw [cancelAt_finishAuth h]; exact noCancel_authLoop n hn hl

theorem noCancel_ensureAuth {p : Params} {rx : Reactions} {s s' : S} {r : R Unit}
    (hn : s.w.cancelAt = none) (h : ensureAuth p rx s = (r, s')) : s'.w.cancelAt = none := by
  unfold ensureAuth at h
  split at h
  · exact noCancel_lanAuthenticate hn h
  · cases h; exact hn

theorem pickCred_none (stored : Option Bytes) : pickCred none none stored = stored := by simp [pickCred]

/-- authenticate first when the V3 protocol is not (or no longer) authenticated -/
theorem ensureAuth_tr {p : Params} {rx : Reactions} {s s' : S} {r : R Unit} (h : ensureAuth p rx s = (r, s')) :
    ∃ s1 tc ta, Tr s tc s1 ∧ Tr s1 ta s' ∧
      (∀ e ∈ tc, isClosed e = true ∨ isConnect e = true) ∧
      (∀ e ∈ ta, HsTok s.l.token e ∨ isKeyEv e = true ∨ isClosed e = true) ∧
      (connAlive s = true → tc = []) ∧
      (r = .ok () → (∀ e ∈ ta, isClosed e = false) ∧
          (isV3 s = true → authenticated s = false → ∃ e ∈ ta, isAccept e = true)) := by
  unfold ensureAuth at h
  split at h
  · rename_i hc
    simp only [Bool.and_eq_true, Bool.not_eq_true'] at hc
    obtain ⟨s1, tc, ta, h1, h2, h3, h4, h5, _, h7⟩ := lanAuthenticate_tr h
    rw [pickCred_none] at h4
    refine ⟨s1, tc, ta, h1, h2, h3, h4, fun hal => h5 hal hc.1, ?_⟩
    intro hr
    obtain ⟨h8, h9⟩ := h7 hr
    exact ⟨h8, fun _ hna => h9 (.inl hna)⟩
  · rename_i hc
    cases h
    refine ⟨s, [], [], Tr.rfl' _, Tr.rfl' _, by simp, by simp, fun _ => rfl, fun _ => ⟨by simp, ?_⟩⟩
    intro h1 h2
    simp [h1, h2] at hc

@[simp] theorem token_opDisconnect (s : S) : (opDisconnect s).l.token = s.l.token := by
  unfold opDisconnect; split <;> rfl
@[simp] theorem version_opDisconnect (s : S) : (opDisconnect s).l.version = s.l.version := by
  unfold opDisconnect; split <;> rfl
@[simp] theorem token_opConnected (s : S) : (opConnected s).l.token = s.l.token := rfl
@[simp] theorem version_opConnected (s : S) : (opConnected s).l.version = s.l.version := rfl

theorem isV3_opConnected (s : S) : isV3 (opConnected s) = decide (s.l.version = 3) := by
  simp [isV3, opConnected, logEv]

theorem connAlive_none {s : S} (h : coreOf s = none) : connAlive s = false := by
  unfold connAlive
  cases hc : s.l.conn with
  | none => rfl
  | some c => simp [coreOf, hc] at h

/-- `LAN.send`: optional reconnect, optional authentication, then the exchange -/
theorem lanSend_tr {p : Params} {rx : Reactions} {s s' : S} {frame : Bytes} {n : Nat} {r : R (List Bytes)}
    (h : lanSend p rx s frame n = (r, s')) :
    ∃ s1 s2 tc ta te, Tr s tc s1 ∧ Tr s1 ta s2 ∧ Tr s2 te s' ∧
      (∀ e ∈ tc, isClosed e = true ∨ isConnect e = true) ∧
      (∀ e ∈ ta, HsTok s.l.token e ∨ isKeyEv e = true ∨ isClosed e = true) ∧
      (∀ e ∈ te, DataOf frame e ∨ isClosed e = true) ∧
      nData te ≤ n ∧
      (connAlive s = true → tc = []) ∧
      (connAlive s = false → ∀ c, coreOf s = some c → ∃ tc', tc = .closed c.cid :: tc') ∧
      (te ≠ [] → (∀ e ∈ ta, isClosed e = false) ∧
        ((connAlive s = true ∧ isV3 s = true ∧ authenticated s = false) ∨ (connAlive s = false ∧ s.l.version = 3) →
          ∃ e ∈ ta, isAccept e = true)) ∧
      (r = .error .timeout → te ≠ [] → coreOf s' = none ∧ (s.w.cancelAt = none → nData te = n)) ∧
      (∀ got, r = .ok got → n = 0 ∨ 1 ≤ nData te) := by
  unfold lanSend at h
  split at h
  · -- not alive: reconnect
    rename_i hal
    have hal : connAlive s = false := by simpa using hal
    obtain ⟨hnone, hdisc⟩ := opDisconnect_tr s
    have hd : ∃ td, Tr s td (opDisconnect s) ∧ (∀ e ∈ td, isClosed e = true) ∧
        (∀ c, coreOf s = some c → td = [.closed c.cid]) := by
      rcases hdisc with ⟨c, hc, ht⟩ | ⟨hc, he⟩
      · refine ⟨_, ht, by simp [isClosed], ?_⟩
        intro c' hc'; rw [hc] at hc'; cases hc'; rfl
      · refine ⟨[], ?_, by simp, by intro c hc'; rw [hc] at hc'; cases hc'⟩
        rw [he]; exact Tr.rfl' s
    obtain ⟨td, htd, hclosed, hfirst⟩ := hd
    split at h
    · rename_i e s1 hconn
      simp only [Prod.mk.injEq] at h
      obtain ⟨rfl, rfl⟩ := h
      rcases opConnect_tr hnone hconn with ⟨hr, _⟩ | ⟨⟨e', he', hcase⟩, habs⟩
      · cases hr
      · refine ⟨s1, s1, td, [], [], Tr.congr_right habs htd, Tr.rfl' _, Tr.rfl' _, fun e he => .inl (hclosed e he),
          by simp, by simp, by simp [nData], (fun h1 => by rw [hal] at h1; cases h1), ?_, fun hne => absurd rfl hne,
          fun _ hne => absurd rfl hne, (by intro got hg; cases hg)⟩
        intro _ c hc; exact ⟨[], hfirst c hc⟩
    · rename_i s1 hconn
      rcases opConnect_tr hnone hconn with ⟨_, htc, hs1⟩ | ⟨⟨e, he, _⟩, _⟩
      · have hfresh : authenticated s1 = false := by rw [hs1]; exact authenticated_fresh _
        have hv3 : isV3 s1 = decide (s.l.version = 3) := by rw [hs1, isV3_opConnected]; simp [dropConnect]
        have htok : s1.l.token = s.l.token := by rw [hs1]; simp [dropConnect]
        have htc' := htd.trans htc
        have hshape_c : ∀ e ∈ td ++ [Ev.connect ((opDisconnect s).w.nConn + 1) (decide ((opDisconnect s).l.version = 3))],
            isClosed e = true ∨ isConnect e = true := by
          intro e he; rcases List.mem_append.1 he with he | he
          · exact .inl (hclosed e he)
          · simp only [List.mem_singleton] at he; subst he; exact .inr rfl
        split at h
        · rename_i e s2 hauth
          simp only [Prod.mk.injEq] at h
          obtain ⟨rfl, rfl⟩ := h
          obtain ⟨s1', tc2, ta, g1, g2, g3, g4, _, _⟩ := ensureAuth_tr hauth
          rw [htok] at g4
          refine ⟨s1', s2, _ ++ tc2, ta, [], htc'.trans g1, g2, Tr.rfl' _, ?_, g4, by simp, by simp [nData],
            (fun h1 => by rw [hal] at h1; cases h1), ?_, fun hne => absurd rfl hne, fun _ hne => absurd rfl hne,
            (by intro got hg; cases hg)⟩
          · intro e he; rcases List.mem_append.1 he with he | he
            · exact hshape_c e he
            · exact g3 e he
          · intro _ c hc; rw [hfirst c hc]; exact ⟨_, rfl⟩
        · rename_i s2 hauth
          obtain ⟨s1', tc2, ta, g1, g2, g3, g4, _, g6⟩ := ensureAuth_tr hauth
          rw [htok] at g4
          obtain ⟨te, k1, k2, k3, k4, k5, _⟩ := exchange_tr h
          have hnc2 : s.w.cancelAt = none → s2.w.cancelAt = none := by
            intro h0
            refine noCancel_ensureAuth ?_ hauth
            rw [cancelAt_opConnect hconn, cancelAt_opDisconnect]; exact h0
          refine ⟨s1', s2, _ ++ tc2, ta, te, htc'.trans g1, g2, k1, ?_, g4, k2, k3,
            (fun h1 => by rw [hal] at h1; cases h1), ?_, ?_,
            fun hr _ => ⟨(k4 hr).2.1, fun h0 => (k4 hr).2.2 (hnc2 h0)⟩, k5⟩
          · intro e he; rcases List.mem_append.1 he with he | he
            · exact hshape_c e he
            · exact g3 e he
          · intro _ c hc; rw [hfirst c hc]; exact ⟨_, rfl⟩
          · intro _
            obtain ⟨m1, m2⟩ := g6 rfl
            refine ⟨m1, ?_⟩
            intro hE
            rcases hE with ⟨h1, _⟩ | ⟨_, hver⟩
            · rw [hal] at h1; cases h1
            · exact m2 (by rw [hv3]; simpa using hver) hfresh
      · cases he
  · -- alive
    rename_i hal
    have hal : connAlive s = true := by simpa using hal
    have hnf : connAlive s = false → ∀ c, coreOf s = some c → ∃ tc', ([] : List Ev) = .closed c.cid :: tc' := by
      intro h1; rw [hal] at h1; cases h1
    split at h
    · rename_i e s2 hauth
      simp only [Prod.mk.injEq] at h
      obtain ⟨rfl, rfl⟩ := h
      obtain ⟨s1', tc2, ta, g1, g2, g3, g4, g5, _⟩ := ensureAuth_tr hauth
      have := g5 hal; subst this
      exact ⟨s1', s2, [], ta, [], g1, g2, Tr.rfl' _, by simp, g4, by simp, by simp [nData], fun _ => rfl, hnf,
        fun hne => absurd rfl hne, fun _ hne => absurd rfl hne, (by intro got hg; cases hg)⟩
    · rename_i s2 hauth
      obtain ⟨s1', tc2, ta, g1, g2, g3, g4, g5, g6⟩ := ensureAuth_tr hauth
      have := g5 hal; subst this
      obtain ⟨te, k1, k2, k3, k4, k5, _⟩ := exchange_tr h
      have hnc2 : s.w.cancelAt = none → s2.w.cancelAt = none := fun h0 => noCancel_ensureAuth h0 hauth
      refine ⟨s1', s2, [], ta, te, g1, g2, k1, by simp, g4, k2, k3, fun _ => rfl, hnf, ?_,
        fun hr _ => ⟨(k4 hr).2.1, fun h0 => (k4 hr).2.2 (hnc2 h0)⟩, k5⟩
      intro _
      obtain ⟨m1, m2⟩ := g6 rfl
      refine ⟨m1, ?_⟩
      intro hE
      rcases hE with ⟨_, h2, h3⟩ | ⟨h1, _⟩
      · exact m2 h2 h3
      · rw [hal] at h1; cases h1


theorem noCancel_lanSend {p : Params} {rx : Reactions} {s s' : S} {frame : Bytes} {n : Nat} {r : R (List Bytes)}
    (hn : s.w.cancelAt = none) (h : lanSend p rx s frame n = (r, s')) : s'.w.cancelAt = none := by
  have h0 : (opDisconnect s).w.cancelAt = none := by rw [cancelAt_opDisconnect]; exact hn
  unfold lanSend at h
  split at h
  · split at h
    · rename_i e s1 hc
      simp only [Prod.mk.injEq] at h
      obtain ⟨_, rfl⟩ := h
      rw [cancelAt_opConnect hc]; exact h0
    · rename_i s1 hc
      have h1 : s1.w.cancelAt = none := by rw [cancelAt_opConnect hc]; exact h0
      split at h
      · rename_i e s2 ha
        simp only [Prod.mk.injEq] at h
        obtain ⟨_, rfl⟩ := h
        exact noCancel_ensureAuth h1 ha
      · rename_i s2 ha
        obtain ⟨_, _, _, _, _, _, k⟩ := exchange_tr h
        exact k (noCancel_ensureAuth h1 ha)
  · split at h
    · rename_i e s2 ha
      simp only [Prod.mk.injEq] at h
      obtain ⟨_, rfl⟩ := h
      exact noCancel_ensureAuth hn ha
    · rename_i s2 ha
      obtain ⟨_, _, _, _, _, _, k⟩ := exchange_tr h
      exact k (noCancel_ensureAuth hn ha)

/-! ### histories -/

theorem step_tr {p : Params} {rx : Reactions} {s s' : S} {op : Op} {o : Outcome} (h : step p rx s op = (o, s')) :
    ∃ tr, Tr s tr s' := by
  cases op with
  | send f =>
    simp only [step] at h
    cases hl : lanSend p rx s f Generated.lanRetries with
    | mk r s1 =>
      rw [hl] at h
      obtain ⟨s1', s2, tc, ta, te, h1, h2, h3, _⟩ := lanSend_tr hl
      have : s' = s1 := by cases r <;> simp [outcomeOfSend] at h <;> exact h.2.symm
      subst this
      exact ⟨_, (h1.trans h2).trans h3⟩
  | sendN f n =>
    simp only [step] at h
    cases hl : lanSend p rx s f n with
    | mk r s1 =>
      rw [hl] at h
      obtain ⟨s1', s2, tc, ta, te, h1, h2, h3, _⟩ := lanSend_tr hl
      have : s' = s1 := by cases r <;> simp [outcomeOfSend] at h <;> exact h.2.symm
      subst this
      exact ⟨_, (h1.trans h2).trans h3⟩
  | authenticate t k =>
    simp only [step] at h
    cases hl : lanAuthenticate p rx s (some t) (some k) Generated.lanRetries with
    | mk r s1 =>
      rw [hl] at h
      obtain ⟨s1', tc, ta, h1, h2, _⟩ := lanAuthenticate_tr hl
      have : s' = s1 := by cases r <;> simp [outcomeOfAuth] at h <;> exact h.2.symm
      subst this
      exact ⟨_, h1.trans h2⟩
  | advance ms =>
    simp only [step, Prod.mk.injEq] at h
    obtain ⟨_, rfl⟩ := h
    exact ⟨[], Tr.ofEq (abs_pump _ _)⟩
  | setMaxLifetime m =>
    simp only [step, Prod.mk.injEq] at h
    obtain ⟨_, rfl⟩ := h
    exact ⟨[], Tr.ofEq (abs_setLifetime _ _)⟩
  | sendCancelled f ms =>
    simp only [step] at h
    cases hl : lanSend p rx (armCancel s ms) f Generated.lanRetries with
    | mk r s1 =>
      rw [hl] at h
      obtain ⟨s1', s2, tc, ta, te, h1, h2, h3, _⟩ := lanSend_tr hl
      have : s' = pump (disarmCancel s1) (s.w.now + ms) := by cases r <;> simp [outcomeOfSend, outcomeDisarm] at h <;> exact h.2.symm
      subst this
      exact ⟨_, Tr.congr_right (by rw [abs_pump, abs_disarmCancel]) (Tr.congr_left (abs_armCancel s ms) ((h1.trans h2).trans h3))⟩
  | authCancelled t k ms =>
    simp only [step] at h
    cases hl : lanAuthenticate p rx (armCancel s ms) (some t) (some k) Generated.lanRetries with
    | mk r s1 =>
      rw [hl] at h
      obtain ⟨s1', tc, ta, h1, h2, _⟩ := lanAuthenticate_tr hl
      have : s' = pump (disarmCancel s1) (s.w.now + ms) := by cases r <;> simp [outcomeOfAuth, outcomeDisarm] at h <;> exact h.2.symm
      subst this
      exact ⟨_, Tr.congr_right (by rw [abs_pump, abs_disarmCancel]) (Tr.congr_left (abs_armCancel s ms) (h1.trans h2))⟩

/-- **refinement**: every history of the Session model is a run of the abstract automaton -/
theorem run_tr (p : Params) (rx : Reactions) (ops : List Op) (s : S) : ∃ tr, Tr s tr (run p rx s ops).2 := by
  induction ops generalizing s with
  | nil => exact ⟨[], Tr.rfl' _⟩
  | cons o t ih =>
    obtain ⟨tr1, h1⟩ := step_tr (p := p) (rx := rx) (s := s) (op := o) rfl
    obtain ⟨tr2, h2⟩ := ih (step p rx s o).2
    exact ⟨tr1 ++ tr2, by simpa [run] using h1.trans h2⟩

end Msmart.Lemmas.Sess
