/-
  LAN codecs: the TRANSLATED code (`Generated/Codec.lean`: `_Packet.encode/decode`, `_LanProtocolV3._build_header`,
  `_encode_encrypted_request`, `_encode_handshake_request`, `_decode_encrypted_response`, `_decode_handshake_response`,
  `_process_packet`, `_get_local_key`) computes, FOR ALL INPUTS, what the hand-written Model computes.
  Calls into pycryptodome / hashlib are translated to the Lean crypto of `Crypto/*` and the small models of
  `Security.*` (`Model.encryptAes`, `decryptAes`, `sign`, `encryptCbc`, `decryptCbc`); randomness and the clock are inputs.
-/
import Msmart.Lemmas.CodecEq
import Msmart.Crypto.ModeProps
import Msmart.Model.Reassembly
import Msmart.Model.Response

set_option linter.unusedSimpArgs false
set_option linter.unusedVariables false

namespace Msmart.CodecEq
open Msmart.Generated
open Msmart.Model

/-! conditions `a ≠ b` in either orientation (the translator orders the operands of symmetric comparisons by text) -/
theorem dec_ne_true {α} [DecidableEq α] {a b : α} (h : a ≠ b) : decide (a ≠ b) = true ∧ decide (b ≠ a) = true := by
  constructor
  · simpa using h
  · simp only [ne_eq, decide_eq_true_eq]; exact fun e => h e.symm

theorem dec_ne_false {α} [DecidableEq α] {a b : α} (h : ¬ a ≠ b) :
    ¬ (decide (a ≠ b) = true) ∧ ¬ (decide (b ≠ a) = true) := by
  have e : a = b := by simpa using h
  subst e; simp

macro "ne_pos" h:ident : tactic => `(tactic| first | exact (dec_ne_true $h).1 | exact (dec_ne_true $h).2 | simpa using $h)
macro "ne_neg" h:ident : tactic => `(tactic| first | exact (dec_ne_false $h).1 | exact (dec_ne_false $h).2 | simpa using $h)

/-! ### slices with literal bounds -/
theorem clamp_nonneg (len n : Nat) : Py.clampIdx len (n : Int) = min n len := by
  unfold Py.clampIdx
  have : ¬ ((n : Int) < 0) := by omega
  rw [if_neg this, Int.toNat_natCast]

theorem clamp_neg (len k : Nat) (hk : 0 < k) : Py.clampIdx len (-(k : Int)) = len - k := by
  unfold Py.clampIdx
  have : (-(k : Int) < 0) := by omega
  rw [if_pos this]
  split <;> omega

theorem slice_take {α} (l : List α) (n : Nat) : Py.slice l none (some (n : Int)) = l.take n := by
  unfold Py.slice
  simp only [clamp_nonneg, List.drop_zero]
  by_cases h : n ≤ l.length
  · rw [Nat.min_eq_left h]
  · rw [Nat.min_eq_right (by omega), List.take_length, List.take_of_length_le (by omega)]

theorem slice_drop {α} (l : List α) (n : Nat) : Py.slice l (some (n : Int)) none = l.drop n := by
  unfold Py.slice
  simp only [clamp_nonneg, List.take_length]
  by_cases h : n ≤ l.length
  · rw [Nat.min_eq_left h]
  · rw [Nat.min_eq_right (by omega), List.drop_length, List.drop_eq_nil_of_le (by omega)]

theorem slice_mid_neg {α} (l : List α) (a k : Nat) (hk : 0 < k) :
    Py.slice l (some (a : Int)) (some (-(k : Int))) = (l.take (l.length - k)).drop a := by
  unfold Py.slice
  simp only [clamp_nonneg, clamp_neg _ _ hk]
  by_cases h : a ≤ l.length
  · rw [Nat.min_eq_left h]
  · rw [Nat.min_eq_right (by omega)]
    rw [List.drop_eq_nil_of_le (by simp only [List.length_take]; omega)]
    exact (List.drop_eq_nil_of_le (by simp only [List.length_take]; omega)).symm

theorem slice_take_neg {α} (l : List α) (k : Nat) (hk : 0 < k) :
    Py.slice l none (some (-(k : Int))) = l.take (l.length - k) := by
  unfold Py.slice
  simp only [clamp_neg _ _ hk, List.drop_zero]

theorem slice_last {α} (l : List α) (k : Nat) (hk : 0 < k) :
    Py.slice l (some (-(k : Int))) none = l.drop (l.length - k) := by
  unfold Py.slice
  simp only [clamp_neg _ _ hk, List.take_length]

/-! ### _build_header -/
/-- **tie.** `_build_header` as translated = the model's (OverflowError for a length outside 0..65535). -/
theorem buildHeader_eq (length : Int) (extra : Bytes) : Codec.buildHeader length extra = buildHeaderI length extra := by
  first
  | (
        unfold Codec.buildHeader buildHeaderI buildHeader Py.toBytesBEI Py.toBytesBE overflow
        by_cases h : length < 0
        · rw [if_pos h, if_pos h]; rfl
        · rw [if_neg h, if_neg h]
          by_cases h2 : length.toNat ≥ 65536
          · rw [if_pos h2, if_neg (by omega)]; rfl
          · rw [if_neg h2, if_pos (by omega)]; rfl
          done)
  | rfl

theorem toBytesBEI_ok (k : Nat) (n : Int) (h0 : 0 ≤ n) (h : n.toNat < 256 ^ k) :
    Py.toBytesBEI k n = .ok (Py.toBE k n.toNat) := by
  unfold Py.toBytesBEI Py.toBytesBE; rw [if_neg (by omega), if_pos h]

theorem toBytesBEI_bad (k : Nat) (n : Int) (h : n < 0 ∨ ¬ n.toNat < 256 ^ k) :
    Py.toBytesBEI k n = .error (.py "OverflowError") := by
  unfold Py.toBytesBEI Py.toBytesBE
  by_cases h0 : n < 0
  · rw [if_pos h0]
  · rw [if_neg h0, if_neg (by omega)]

theorem toBytesLEI_ok (k : Nat) (n : Int) (h0 : 0 ≤ n) (h : n.toNat < 256 ^ k) :
    Py.toBytesLEI k n = .ok (Py.toLE k n.toNat) := by
  unfold Py.toBytesLEI Py.toBytesLE; rw [if_neg (by omega), if_pos h]

theorem toBytesLEI_bad (k : Nat) (n : Int) (h : n < 0 ∨ ¬ n.toNat < 256 ^ k) :
    Py.toBytesLEI k n = .error (.py "OverflowError") := by
  unfold Py.toBytesLEI Py.toBytesLE
  by_cases h0 : n < 0
  · rw [if_pos h0]
  · rw [if_neg h0, if_neg (by omega)]

theorem toBytesLEI_nat (k : Nat) (n : Int) (m : Nat) (h : n = (m : Int)) : Py.toBytesLEI k n = Py.toBytesLE k m := by
  subst h; unfold Py.toBytesLEI; rw [if_neg (by omega), Int.toNat_natCast]

theorem toBytesBEI_nat (k : Nat) (n : Int) (m : Nat) (h : n = (m : Int)) : Py.toBytesBEI k n = Py.toBytesBE k m := by
  subst h; unfold Py.toBytesBEI; rw [if_neg (by omega), Int.toNat_natCast]

theorem err_bind {α β} (e : Err) (f : α → R β) : ((Except.error e : R α) >>= f) = Except.error e := rfl

/-! ### _encode_handshake_request -/
/-- **tie.** `_encode_handshake_request` as translated = the model's, for every packet id and token. -/
theorem encodeHandshakeRequest_eq (packetId : Int) (data : Bytes) :
    Codec.encodeHandshakeRequest packetId data = encodeHandshakeRequestI packetId data := by
  first
  | (
        unfold Codec.encodeHandshakeRequest encodeHandshakeRequestI encodeHandshakeRequest overflow
        rw [buildHeader_eq]
        unfold buildHeaderI overflow
        rw [if_neg (by omega), Int.toNat_natCast]
        unfold buildHeader
        by_cases h : data.length ≥ 65536
        · rw [if_pos h, if_pos h]; rfl
        · rw [if_neg h, if_neg h, ok_bind]
          by_cases h2 : packetId < 0 ∨ packetId ≥ 65536
          · rw [if_pos h2, toBytesBEI_bad _ _ (by omega)]; rfl
          · rw [if_neg h2, toBytesBEI_ok _ _ (by omega) (by omega), ok_bind, if_neg h]
            simp only [List.append_assoc]
            rfl
            done)
  | rfl

/-! ### _encode_encrypted_request -/
theorem pad_eq (n : Nat) :
    (if decide ((((n : Int) + 2) % 16) ≠ 0) = true then (16 - (((n : Int) + 2) % 16)) else 0) = ((v3Pad n : Nat) : Int) := by
  unfold v3Pad
  by_cases h : (n + 2) % 16 ≠ 0
  · rw [if_pos h, if_pos (by simp only [ne_eq, decide_eq_true_eq]; omega)]; omega
  · rw [if_neg h, if_neg (by simp only [ne_eq, decide_eq_true_eq]; omega)]; rfl

/-- the same with the remainder written as a mask (`x % 16` and `x & 0xF` translate to the same text) -/
theorem pad_eq' (n : Nat) :
    (if decide (Py.band ((n : Int) + 2) 15 ≠ 0) = true then (16 - Py.band ((n : Int) + 2) 15) else 0) = ((v3Pad n : Nat) : Int) := by
  rw [band_15]; exact pad_eq n

theorem pad_eq'' (n : Nat) :
    (if decide ((0 : Int) ≠ Py.band ((n : Int) + 2) 15) = true then (16 - Py.band ((n : Int) + 2) 15) else 0) = ((v3Pad n : Nat) : Int) := by
  have hflip : decide ((0 : Int) ≠ Py.band ((n : Int) + 2) 15) = decide (Py.band ((n : Int) + 2) 15 ≠ 0) := by
    apply decide_eq_decide.mpr; constructor <;> (intro h h2; exact h h2.symm)
  rw [hflip]; exact pad_eq' n

/-- the pad written as `(16 - r) % 16` (or `& 15`) -/
theorem pad_eq3 (n : Nat) : Py.band (16 - Py.band ((n : Int) + 2) 15) 15 = ((v3Pad n : Nat) : Int) := by
  rw [band_15, band_15]; unfold v3Pad; split <;> omega

theorem v3Pad_lt (n : Nat) : v3Pad n < 16 := by unfold v3Pad; split <;> omega

instance {ε α} [DecidableEq ε] [DecidableEq α] : DecidableEq (Except ε α) := fun a b =>
  match a, b with
  | .ok x, .ok y => if h : x = y then isTrue (by rw [h]) else isFalse (by intro e; cases e; exact h rfl)
  | .error x, .error y => if h : x = y then isTrue (by rw [h]) else isFalse (by intro e; cases e; exact h rfl)
  | .ok _, .error _ => isFalse (by intro e; cases e)
  | .error _, .ok _ => isFalse (by intro e; cases e)

theorem padType_fin : ∀ p, p < 16 →
    Py.bytesOf [Py.bor (((p : Nat) : Int) <<< 4) 6] = .ok [((p * 16 + ptEncryptedRequest).toUInt8)] := by
  decide +kernel

/-- **tie.** `_encode_encrypted_request` as translated = the model's, for every key (or none), packet id, payload and pad bytes. -/
theorem encodeEncryptedRequest_eq (key : Option Bytes) (packetId : Int) (data rand : Bytes) :
    Codec.encodeEncryptedRequest key packetId data rand = encodeEncryptedRequestI key packetId data rand := by
  first
  | (
     unfold Codec.encodeEncryptedRequest encodeEncryptedRequestI encodeEncryptedRequest overflow
     cases key with
     | none => rfl
     | some k =>
       simp only [Option.isNone_some, Bool.false_eq_true, if_false, Option.getD_some]
       simp only [pad_eq, pad_eq', pad_eq'', pad_eq3]
       rw [padType_fin _ (v3Pad_lt _), ok_bind, buildHeader_eq]
       unfold buildHeaderI overflow
       have e : ((data.length : Int) + ((v3Pad data.length : Nat) : Int) + 32) = ((data.length + v3Pad data.length + 32 : Nat) : Int) := by
         push_cast; rfl
       rw [e, if_neg (by omega), Int.toNat_natCast]
       unfold buildHeader
       by_cases h : data.length + v3Pad data.length + 32 ≥ 65536
       · rw [if_pos h, if_pos h]; rfl
       · rw [if_neg h, if_neg h, ok_bind]
         by_cases h2 : packetId < 0 ∨ packetId ≥ 65536
         · rw [if_pos h2, toBytesBEI_bad _ _ (by omega)]; rfl
         · rw [if_neg h2, toBytesBEI_ok _ _ (by omega) (by omega), ok_bind]
           simp only [List.append_assoc]
           rfl
           done)
  | rfl

theorem slice_dropI {α} (l : List α) (n : Int) (h : 0 ≤ n) : Py.slice l (some n) none = l.drop n.toNat := by
  have := slice_drop l n.toNat
  rwa [Int.toNat_of_nonneg h] at this

theorem slice_takeI {α} (l : List α) (n : Int) (h : 0 ≤ n) : Py.slice l none (some n) = l.take n.toNat := by
  have := slice_take l n.toNat
  rwa [Int.toNat_of_nonneg h] at this

theorem slice_nat {α} (l : List α) (a b : Nat) :
    Py.slice l (some (a : Int)) (some (b : Int)) = (l.take b).drop a := by
  unfold Py.slice
  simp only [clamp_nonneg]
  have ht : List.take (min b l.length) l = List.take b l := by
    by_cases h : b ≤ l.length
    · rw [Nat.min_eq_left h]
    · rw [Nat.min_eq_right (by omega), List.take_length, List.take_of_length_le (by omega)]
  rw [ht]
  by_cases h : a ≤ l.length
  · rw [Nat.min_eq_left h]
  · rw [Nat.min_eq_right (by omega)]
    have hx : (List.take b l).length ≤ l.length := by simp only [List.length_take]; omega
    rw [List.drop_eq_nil_of_le hx]
    exact (List.drop_eq_nil_of_le (by omega)).symm

theorem slice_midI {α} (l : List α) (a b : Int) (ha : 0 ≤ a) (hb : 0 ≤ b) :
    Py.slice l (some a) (some b) = (l.take b.toNat).drop a.toNat := by
  have := slice_nat l a.toNat b.toNat
  rwa [Int.toNat_of_nonneg ha, Int.toNat_of_nonneg hb] at this

/-! literal instances of the slice lemmas (Int literals, as the translator writes them) -/
theorem sl_drop6 {α} (l : List α) : Py.slice l (some 6) none = l.drop 6 := by simpa using slice_drop l 6
theorem sl_drop2 {α} (l : List α) : Py.slice l (some 2) none = l.drop 2 := by simpa using slice_drop l 2
theorem sl_drop32 {α} (l : List α) : Py.slice l (some 32) none = l.drop 32 := by simpa using slice_drop l 32
theorem sl_take6 {α} (l : List α) : Py.slice l none (some 6) = l.take 6 := by simpa using slice_take l 6
theorem sl_take2 {α} (l : List α) : Py.slice l none (some 2) = l.take 2 := by simpa using slice_take l 2
theorem sl_take32 {α} (l : List α) : Py.slice l none (some 32) = l.take 32 := by simpa using slice_take l 32
theorem sl_mid_6_32 {α} (l : List α) : Py.slice l (some 6) (some (-32)) = (l.take (l.length - 32)).drop 6 := by
  simpa using slice_mid_neg l 6 32 (by decide)
theorem sl_mid_40_16 {α} (l : List α) : Py.slice l (some 40) (some (-16)) = (l.take (l.length - 16)).drop 40 := by
  simpa using slice_mid_neg l 40 16 (by decide)
theorem sl_last32 {α} (l : List α) : Py.slice l (some (-32)) none = l.drop (l.length - 32) := by
  simpa using slice_last l 32 (by decide)
theorem sl_last16 {α} (l : List α) : Py.slice l (some (-16)) none = l.drop (l.length - 16) := by
  simpa using slice_last l 16 (by decide)
theorem sl_take_neg16 {α} (l : List α) : Py.slice l none (some (-16)) = l.take (l.length - 16) := by
  simpa using slice_take_neg l 16 (by decide)

/-! ### _decode_handshake_response -/
/-- **tie.** `_decode_handshake_response` as translated = the model's. -/
theorem decodeHandshakeResponse_eq (packet : Bytes) :
    Codec.decodeHandshakeResponse packet = .ok (decodeHandshakeResponse packet) := by
  first
  | (
     unfold Codec.decodeHandshakeResponse decodeHandshakeResponse
     rw [sl_drop6, sl_drop2]; rfl
     done)
  | (
     -- any way of writing "everything after byte 8" with non-negative literal bounds
     unfold Codec.decodeHandshakeResponse decodeHandshakeResponse
     simp (disch := decide) only [slice_dropI, List.drop_drop, Int.reduceToNat, Nat.reduceAdd]
     rfl
     done)
  | rfl

/-! ### _decode_encrypted_response -/
theorem mapErr_decryptCbc (k d : Bytes) :
    Py.mapErr "ValueError" .protocol (decryptCbc k d) =
      (match decryptCbc k d with | .error _ => .error .protocol | .ok x => .ok x) := by
  unfold decryptCbc
  split <;> rfl

theorem decryptCbc_len (k d dec : Bytes) (h : decryptCbc k d = .ok dec) : dec.length % 16 = 0 := by
  unfold decryptCbc at h
  split at h
  · cases h
  · cases h
    rw [Crypto.AES.cbcDecrypt_length]; omega

theorem indexI_take6 (packet : Bytes) :
    Py.indexI (packet.take 6) 5 = (match (packet.take 6)[5]? with | none => .error indexError | some b => .ok (b.toNat : Int)) := by
  unfold Py.indexI Py.index
  simp only [show ¬ ((5 : Int) < 0) by decide, if_false, show (5 : Int).toNat = 5 by rfl]
  cases (packet.take 6)[5]? <;> rfl

theorem shr4_div (b : UInt8) : ((b.toNat : Int) >>> 4) = ((b.toNat / 16 : Nat) : Int) :=
  u8_forall (P := fun b => ((b.toNat : Int) >>> 4) = ((b.toNat / 16 : Nat) : Int)) (by decide +kernel) b

/-- `payload[2:len(payload) - pad]` is the model's `stripCounterPad` whenever the decrypted payload is block aligned
    and the pad nibble below 16 (always, after a successful decryption); for other lengths Python would re-interpret a
    negative end index, which cannot arise here -/
theorem strip_eq (d : Bytes) (pad : Nat) (hd : d.length % 16 = 0) (hp : pad < 16) :
    Py.slice d (some (2 : Int)) (some ((d.length : Int) - ((pad : Nat) : Int))) = stripCounterPad d pad := by
  unfold Py.slice stripCounterPad
  simp only []
  have h2 : Py.clampIdx d.length (2 : Int) = min 2 d.length := by simpa using clamp_nonneg d.length 2
  have h3 : Py.clampIdx d.length ((d.length : Int) - (pad : Int)) = d.length - pad := by
    unfold Py.clampIdx
    by_cases h : (d.length : Int) - (pad : Int) < 0
    · rw [if_pos h]; split <;> omega
    · rw [if_neg h]; omega
  rw [h2, h3]
  by_cases h : 2 ≤ d.length
  · rw [Nat.min_eq_left h]
  · rw [Nat.min_eq_right (by omega)]
    rw [List.drop_eq_nil_of_le (by simp only [List.length_take]; omega)]
    exact (List.drop_eq_nil_of_le (by simp only [List.length_take]; omega)).symm

theorem b5_div_lt (b : UInt8) : b.toNat / 16 < 16 := by have := b.toNat_lt; omega

/-- **tie.** `_decode_encrypted_response` as translated = the model's, for every key (or none) and every packet. -/
theorem decodeEncryptedResponse_eq (key : Option Bytes) (packet : Bytes) :
    Codec.decodeEncryptedResponse key packet = decodeEncryptedResponse key packet := by
  first
  | (
     unfold Codec.decodeEncryptedResponse decodeEncryptedResponse
     cases key with
     | none => rfl
     | some k =>
       simp only [Option.isNone_some, Bool.false_eq_true, if_false, Option.getD_some]
       rw [sl_mid_6_32, mapErr_decryptCbc]
       cases hd : decryptCbc k (List.drop 6 (List.take (packet.length - 32) packet)) with
       | error e => rfl
       | ok dec =>
         simp only [ok_bind]
         rw [sl_take6, sl_last32]
         by_cases hh : Crypto.SHA256.sha256 (List.take 6 packet ++ dec) ≠ List.drop (packet.length - 32) packet
         · rw [if_pos hh, if_pos (by ne_pos hh)]
         · rw [if_neg hh, if_neg (by ne_neg hh), indexI_take6]
           cases (List.take 6 packet)[5]? with
           | none => rfl
           | some b5 =>
             simp only [ok_bind]
             rw [shr4_div, strip_eq _ _ (decryptCbc_len _ _ _ hd) (b5_div_lt b5)]; rfl
             done)
  | rfl

/-! ### _process_packet -/
theorem indexI_nat (l : Bytes) (i : Nat) :
    Py.indexI l (i : Int) = (match l[i]? with | none => .error indexError | some b => .ok (b.toNat : Int)) := by
  unfold Py.indexI Py.index
  have : ¬ ((i : Int) < 0) := by omega
  rw [if_neg this, Int.toNat_natCast]
  cases l[i]? <;> rfl

theorem indexI_4 (l : Bytes) : Py.indexI l 4 = (match l[4]? with | none => .error indexError | some b => .ok (b.toNat : Int)) := by
  simpa using indexI_nat l 4
theorem indexI_5 (l : Bytes) : Py.indexI l 5 = (match l[5]? with | none => .error indexError | some b => .ok (b.toNat : Int)) := by
  simpa using indexI_nat l 5

theorem ne32 (b : UInt8) : decide ((b.toNat : Int) ≠ 32) = decide (b ≠ 0x20) :=
  u8_forall (P := fun b => decide ((b.toNat : Int) ≠ 32) = decide (b ≠ 0x20)) (by decide +kernel) b
theorem ne32' (b : UInt8) : decide ((32 : Int) ≠ (b.toNat : Int)) = decide (b ≠ 0x20) :=
  u8_forall (P := fun b => decide ((32 : Int) ≠ (b.toNat : Int)) = decide (b ≠ 0x20)) (by decide +kernel) b
theorem type_eq (b : UInt8) (t : Nat) (ht : t < 16) : decide (Py.band (b.toNat : Int) 15 = (t : Int)) = decide (b.toNat % 16 = t) := by
  rw [band_15]; congr 1; apply propext; omega

/-- **tie.** `_process_packet` as translated = the model's, for every key (or none) and every packet. -/
theorem processPacket_eq (key : Option Bytes) (packet : Bytes) :
    Codec.processPacket key packet = processPacket key packet := by
  first
  | (
     unfold Codec.processPacket processPacket
     rw [sl_take2]
     by_cases h0 : List.take 2 packet ≠ [0x83, 0x70]
     · rw [if_pos h0, if_pos (by ne_pos h0)]
     · rw [if_neg h0, if_neg (by ne_neg h0), indexI_4]
       cases packet[4]? with
       | none => rfl
       | some b4 =>
         simp only [ok_bind]
         simp only [ne32, ne32']
         by_cases h4 : b4 ≠ 0x20
         · rw [if_pos h4, if_pos (by simpa using h4)]
         · rw [if_neg h4, if_neg (by simpa using h4), indexI_5]
           cases packet[5]? with
           | none => rfl
           | some b5 =>
             simp only [ok_bind]
             -- whatever the polarity and order of the type tests: decide them from the value of the type nibble
             simp only [band_15, decodeEncryptedResponse_eq, decodeHandshakeResponse_eq]
             have hmod : ((b5.toNat : Int) % 16) = ((b5.toNat % 16 : Nat) : Int) := by omega
             rw [hmod]
             unfold ptEncryptedResponse ptHandshakeResponse
             generalize b5.toNat % 16 = t
             have c3 : ((t : Int) = 3) ↔ t = 3 := by omega
             have c1 : ((t : Int) = 1) ↔ t = 1 := by omega
             have c15 : ((t : Int) = 15) ↔ t = 15 := by omega
             have c3' : ((3 : Int) = (t : Int)) ↔ t = 3 := by omega
             have c1' : ((1 : Int) = (t : Int)) ↔ t = 1 := by omega
             have c15' : ((15 : Int) = (t : Int)) ↔ t = 15 := by omega
             by_cases t3 : t = 3
             · subst t3
               simp
               try (cases decodeEncryptedResponse key packet <;> rfl)
             · by_cases t1 : t = 1
               · subst t1
                 simp
                 try rfl
               · by_cases t15 : t = 15 <;> simp [c3, c1, c15, c3', c1', c15', t3, t1, t15]
               done)
  | rfl

/-! ### _get_local_key -/
theorem py_xorBytes_comm (a b : Bytes) (h : a.length = b.length) : Py.xorBytes a b = Py.xorBytes b a := by
  induction a generalizing b with
  | nil => cases b with
    | nil => rfl
    | cons y ys => simp at h
  | cons x xs ih =>
    cases b with
    | nil => simp at h
    | cons y ys =>
      simp only [List.length_cons, Nat.add_right_cancel_iff] at h
      simp only [Py.xorBytes]
      rw [ih ys h, UInt8.xor_comm]

/-- `strxor` is symmetric (the translator writes its arguments in text order) -/
theorem strxor_comm (a b : Bytes) : Py.strxor a b = Py.strxor b a := by
  unfold Py.strxor
  by_cases hk : a.length = b.length
  · rw [if_neg (by omega), if_neg (by omega), py_xorBytes_comm a b hk]
  · rw [if_pos (by omega), if_pos (by omega)]

/-- **tie.** `_get_local_key` as translated = the model's, for every key and handshake payload. -/
theorem getLocalKey_eq (key data : Bytes) : Codec.getLocalKey key data = getLocalKey key data := by
  first
  | (
     unfold Codec.getLocalKey getLocalKey
     by_cases hl : data.length ≠ 64
     · rw [if_pos hl, if_pos (by simp only [ne_eq, decide_eq_true_eq]; omega)]
     · rw [if_neg hl, if_neg (by simp only [ne_eq, decide_eq_true_eq]; omega)]
       have hlen : data.length ≤ 64 := by omega
       -- every way of writing data[:32] / data[32:] with literal bounds (explicit 0 / 64 included)
       simp (disch := decide) only [slice_takeI, slice_dropI, slice_midI, Int.reduceToNat, List.drop_zero,
         List.take_of_length_le hlen]
       cases decryptCbc key (List.take 32 data) with
       | error e => rfl
       | ok dec =>
         simp only [ok_bind]
         by_cases hh : Crypto.SHA256.sha256 dec ≠ List.drop 32 data
         · rw [if_pos hh, if_pos (by ne_pos hh)]
         · rw [if_neg hh, if_neg (by ne_neg hh)]
           -- `strxor` in either argument order
           have hx : Py.strxor key dec = Py.strxor dec key := strxor_comm key dec
           simp only [hx]
           unfold Py.strxor
           by_cases hk : dec.length ≠ key.length
           · simp only [hk, if_true, ne_eq, not_false_eq_true]
             try rfl
           · simp only [hk, if_false, ne_eq]
             try rfl
             done)
  | rfl

/-! ### _Packet.encode -/
/-- **tie.** `_Packet.encode` as translated = the model's, for every device id, timestamp and frame. -/
theorem packetEncode_eq (deviceId : Int) (ts command : Bytes) :
    Codec.packetEncode deviceId command ts = packetEncodeI deviceId ts command := by
  first
  | (
     unfold Codec.packetEncode packetEncodeI packetEncode overflow
     rw [toBytesLEI_nat 2 _ (40 + (encryptAes command).length + 16) (by push_cast; omega)]
     unfold Py.toBytesLE
     by_cases h : 40 + (encryptAes command).length + 16 ≥ 65536
     · rw [if_pos h, if_neg (by omega)]; rfl
     · rw [if_neg h, if_pos (by omega), ok_bind]
       by_cases hd : deviceId < 0
       · rw [if_pos hd, toBytesLEI_bad _ _ (by omega)]; rfl
       · rw [if_neg hd, if_neg h]
         by_cases hd2 : deviceId.toNat ≥ 2 ^ 64
         · rw [if_pos hd2, toBytesLEI_bad _ _ (by right; omega)]; rfl
         · rw [if_neg hd2, toBytesLEI_ok _ _ (by omega) (by omega), ok_bind]
           unfold v2Header
           simp only [List.append_assoc]
           rfl
           done)
  | rfl

/-! ### _Packet.decode -/
theorem sl_4_6 {α} (l : List α) : Py.slice l (some 4) (some 6) = (l.drop 4).take 2 := by
  have : Py.slice l (some 4) (some 6) = (l.take 6).drop 4 := by simpa using slice_nat l 4 6
  rw [this, List.drop_take]

theorem mapErr_decryptAes (d : Bytes) :
    Py.mapErr "ValueError" .protocol (decryptAes d) =
      (match decryptAes d with | .error _ => .error .protocol | .ok x => .ok x) := by
  unfold decryptAes
  split
  · rfl
  · split <;> rfl

/-- **tie.** `_Packet.decode` as translated = the model's, for every byte string. -/
theorem packetDecode_eq (data : Bytes) : Codec.packetDecode data = packetDecode data := by
  first
  | (
     unfold Codec.packetDecode packetDecode packetCheck v2Cut
     rw [sl_take2, sl_4_6]
     by_cases h6 : data.length < 6
     · rw [if_pos h6, if_pos (by simp only [decide_eq_true_eq]; omega)]
     · rw [if_neg h6, if_neg (by simp only [decide_eq_true_eq]; omega)]
       by_cases hm : List.take 2 data ≠ [0x5A, 0x5A]
       · rw [if_pos hm, if_pos (by ne_pos hm)]
       · rw [if_neg hm, if_neg (by ne_neg hm)]
         by_cases hl : data.length < Py.fromLE ((data.drop 4).take 2)
         · rw [if_pos hl, if_pos (by simp only [decide_eq_true_eq]; omega)]
         · rw [if_neg hl, if_neg (by simp only [decide_eq_true_eq]; omega)]
           rw [slice_take, sl_take_neg16, sl_last16, sl_mid_40_16]
           by_cases hs : sign (List.take ((List.take (Py.fromLE ((data.drop 4).take 2)) data).length - 16) (List.take (Py.fromLE ((data.drop 4).take 2)) data))
                 ≠ List.drop ((List.take (Py.fromLE ((data.drop 4).take 2)) data).length - 16) (List.take (Py.fromLE ((data.drop 4).take 2)) data)
           · rw [if_pos hs, if_pos (by ne_pos hs)]
           · rw [if_neg hs, if_neg (by ne_neg hs), mapErr_decryptAes]
             simp only []
             cases decryptAes (List.drop 40 (List.take ((List.take (Py.fromLE ((data.drop 4).take 2)) data).length - 16) (List.take (Py.fromLE ((data.drop 4).take 2)) data))) <;> rfl
             done)
  | rfl


/-! ### _LanProtocolV3.write: the packet handed to the transport and the counter afterwards -/

theorem band_4095 (x : Int) : Py.band x 4095 = x % 4096 := by
  unfold Py.band
  rw [show Py.bitLen 4095 = 12 by decide, show (4095:Nat) = 2^12 - 1 by decide, Nat.and_two_pow_sub_one_eq_mod]; omega

/-- **tie.** `_LanProtocolV3.write` (live transport) as translated = the model's, for every key (or none), counter, payload, type and pad bytes. -/
theorem writeV3_eq (key : Option Bytes) (pid : Int) (data : Bytes) (ptype : Int) (rand : Bytes) :
    Codec.writeV3 key pid data ptype rand = writeV3I key pid data ptype rand := by
  first
  | (
       unfold Codec.writeV3 writeV3I
       rw [encodeHandshakeRequest_eq, encodeEncryptedRequest_eq, band_4095]
       by_cases h6 : ptype = 6
       · subst h6
         rw [if_neg (by decide), if_pos rfl]
         cases encodeEncryptedRequestI key pid data rand <;> rfl
       · have h6' : (6 : Int) ≠ ptype := fun e => h6 e.symm
         rw [if_pos (by ne_pos h6'), if_neg h6]
         by_cases h0 : ptype = 0
         · subst h0
           rw [if_neg (by decide), if_pos rfl]
           cases encodeHandshakeRequestI pid data <;> rfl
         · have h0' : (0 : Int) ≠ ptype := fun e => h0 e.symm
           rw [if_pos (by ne_pos h0'), if_neg h0]
           done)
  | rfl


/-! ### data_received: one iteration of the reassembly loop -/

theorem findFrom_find2 (a c : UInt8) (b : Bytes) (i : Nat) :
    Py.findFrom [a, c] b i = (match Py.find2 a c b with | some j => ((i + j : Nat) : Int) | none => -1) := by
  induction b generalizing i with
  | nil => simp [Py.findFrom, Py.find2]
  | cons x xs ih =>
    cases xs with
    | nil => simp [Py.findFrom, Py.find2, List.isPrefixOf]
    | cons y t =>
      unfold Py.findFrom Py.find2
      by_cases h : x = a ∧ y = c
      · obtain ⟨rfl, rfl⟩ := h
        simp [List.isPrefixOf]
      · have h' : ([a, c] : Bytes).isPrefixOf (x :: y :: t) = false := by
          simp only [List.isPrefixOf, Bool.and_true]
          rcases Classical.not_and_iff_not_or_not.mp h with h1 | h1
          · simp [beq_iff_eq, Ne.symm h1]
          · simp [beq_iff_eq, Ne.symm h1]
        rw [h', if_neg h]
        simp only [Bool.false_eq_true, if_false]
        rw [ih (i + 1)]
        cases Py.find2 a c (y :: t) with
        | none => rfl
        | some j => simp only [Option.map]; congr 1; omega

theorem findI_marker (b : Bytes) :
    Py.findI b [131, 112] = (match findMarker b with | some j => (j : Int) | none => -1) := by
  unfold Py.findI findMarker
  rw [findFrom_find2]
  cases Py.find2 131 112 b <;> simp

theorem fromBE_2_4 (buf : Bytes) (h : 6 ≤ buf.length) :
    Py.fromBE (Py.slice buf (some 2) (some 4)) = sizeField buf := by
  match buf, h with
  | a :: b :: c :: d :: e :: f :: rest, _ =>
    have : Py.slice (a :: b :: c :: d :: e :: f :: rest) (some 2) (some 4) = [c, d] := by
      have := slice_nat (a :: b :: c :: d :: e :: f :: rest) 2 4
      simpa using this
    rw [this]
    simp [Py.fromBE, sizeField]

/-- **tie.** the body of the `while` loop of `_LanProtocolV3.data_received` as translated = the model's `reasmStep`, for every buffer. -/
theorem reasmStep_eq (buffer : Bytes) : Codec.reasmStep buffer = .ok (Model.reasmStep buffer) := by
  first
  | (
       unfold Codec.reasmStep Model.reasmStep
       rw [findI_marker]
       cases hf : findMarker buffer with
       | none => first | rfl | (simp; rfl)
       | some start =>
         simp only
         have hne : ((-1 : Int) ≠ (start : Int)) := by omega
         first | rw [if_pos (by ne_pos hne)] | rw [if_neg (by simp only [decide_eq_true_eq]; omega)]
         rw [slice_drop]
         unfold takePacket
         by_cases h6 : (buffer.drop start).length < 6
         · rw [if_pos (by simpa using (by omega : (((buffer.drop start).length : Nat) : Int) < 6)), if_pos h6]; rfl
         · rw [if_neg (by simpa using (by omega : ¬ (((buffer.drop start).length : Nat) : Int) < 6)), if_neg h6]
           rw [fromBE_2_4 _ (by omega)]
           by_cases ht : (buffer.drop start).length < sizeField (buffer.drop start) + 8
           · rw [if_pos (by simpa using (by omega : (((buffer.drop start).length : Nat) : Int) < ((sizeField (buffer.drop start) : Nat) : Int) + 8)), if_pos ht]; rfl
           · rw [if_neg (by simpa using (by omega : ¬ (((buffer.drop start).length : Nat) : Int) < ((sizeField (buffer.drop start) : Nat) : Int) + 8)), if_neg ht]
             have e : ((sizeField (buffer.drop start) : Nat) : Int) + 8 = ((sizeField (buffer.drop start) + 8 : Nat) : Int) := by omega
             rw [e, slice_take, slice_drop]; rfl
             done)
  | rfl


/-! ### Response._construct: frame check, class dispatch, body check, payload slice -/

theorem drop_dropLast {α} (l : List α) (a : Nat) : (l.drop a).dropLast = (l.take (l.length - 1)).drop a := by
  rw [List.dropLast_eq_take, List.length_drop, List.drop_take]
  congr 1
  omega

theorem sl_10_m1 (l : Bytes) : Py.slice l (some 10) (some (-1)) = (l.drop 10).dropLast := by
  have := slice_mid_neg l 10 1 (by decide)
  rw [drop_dropLast]; simpa using this

theorem sl_10_m2 (l : Bytes) : Py.slice l (some 10) (some (-2)) = ((l.drop 10).dropLast).dropLast := by
  have := slice_mid_neg l 10 2 (by decide)
  rw [drop_dropLast, List.dropLast_eq_take, List.length_drop, List.length_take, List.drop_take]
  have e : Py.slice l (some 10) (some (-2)) = (l.take (l.length - 2)).drop 10 := by simpa using this
  rw [e, List.drop_take, List.take_take]
  congr 1
  omega

theorem u8c (x : UInt8) (n : Nat) (hn : n < 256) : ((n : Int) = (x.toNat : Int)) ↔ x = n.toUInt8 := by
  constructor
  · intro h
    apply UInt8.toNat_inj.mp
    have : x.toNat = n := by omega
    rw [this]; simp [Nat.toUInt8, Nat.mod_eq_of_lt hn]
  · intro h; subst h; simp [Nat.toUInt8, Nat.mod_eq_of_lt hn]

theorem u8c' (x : UInt8) (n : Nat) (hn : n < 256) (k : Int) (hk : k = (n : Int)) : (k = (x.toNat : Int)) ↔ x = n.toUInt8 := by
  subst hk; exact u8c x n hn

theorem idx_get (l : Bytes) (i : Nat) : Py.idx l i = (match l[i]? with | some x => .ok x | none => .error indexError) := by
  unfold Py.idx; cases l[i]? <;> rfl

/-- **tie.** `Response._construct` up to the constructor call, as translated = the model's, for every frame. -/
theorem constructDispatch_eq (frame : Bytes) : Codec.constructDispatch frame = Model.constructDispatch frame := by
  first
  | (
       unfold Codec.constructDispatch Model.constructDispatch
       rw [frameValidate_eq]
       cases hv : Model.frameValidate frame with
       | error e => rfl
       | ok u =>
         simp only [ok_bind, responseValidate_eq, sl_10_m1, sl_10_m2]
         have i9 : Py.indexI frame 9 = _ := indexI_nat frame 9
         have i10 : Py.indexI frame 10 = _ := indexI_nat frame 10
         have i13 : Py.indexI frame 13 = _ := indexI_nat frame 13
         rw [i9, i10]
         unfold respClass
         rw [idx_get frame 9, idx_get frame 10]
         cases h9 : frame[9]? with
         | none => rfl
         | some x9 =>
           cases h10 : frame[10]? with
           | none => rfl
           | some x10 =>
             simp only [ok_bind]
             by_cases hC0 : x10 = 0xC0
             · subst hC0
               simp [validateUnlessProps, RespClass.tag]
             · have n192 : ¬ ((192 : Int) = (x10.toNat : Int)) := fun e => hC0 ((u8c' x10 192 (by decide) 192 rfl).mp e)
               by_cases hB5 : x10 = 0xB5
               · subst hB5
                 by_cases h3 : x9 = 3
                 · subst h3
                   simp [validateUnlessProps, RespClass.tag, ftQuery]
                 · have n3 : ¬ ((3 : Int) = (x9.toNat : Int)) := fun e => h3 ((u8c' x9 3 (by decide) 3 rfl).mp e)
                   simp [validateUnlessProps, RespClass.tag, ftQuery, n3, h3]
                   first | done | rfl
               · have n181 : ¬ ((181 : Int) = (x10.toNat : Int)) := fun e => hB5 ((u8c' x10 181 (by decide) 181 rfl).mp e)
                 by_cases hB0 : x10 = 0xB0
                 · subst hB0
                   simp [validateUnlessProps, RespClass.tag]
                   first | done | rfl
                 · have n176 : ¬ ((176 : Int) = (x10.toNat : Int)) := fun e => hB0 ((u8c' x10 176 (by decide) 176 rfl).mp e)
                   by_cases hB1 : x10 = 0xB1
                   · subst hB1
                     simp [validateUnlessProps, RespClass.tag]
                     first | done | rfl
                   · have n177 : ¬ ((177 : Int) = (x10.toNat : Int)) := fun e => hB1 ((u8c' x10 177 (by decide) 177 rfl).mp e)
                     by_cases hC1 : x10 = 0xC1
                     · subst hC1
                       rw [i13, idx_get frame 13]
                       cases h13 : frame[13]? with
                       | none => first | rfl | (simp; done) | (simp; rfl)
                       | some x13 =>
                         have hb : Py.band (x13.toNat : Int) 15 = ((x13.toNat % 16 : Nat) : Int) := by
                           rw [band_15]; omega
                         have hand : (x13 &&& 0xF).toNat = x13.toNat % 16 := by
                           rw [UInt8.toNat_and]; exact Nat.and_two_pow_sub_one_eq_mod x13.toNat 4
                         simp only [ok_bind, hb]
                         by_cases g4 : x13 &&& 0xF = 4
                         · have : x13.toNat % 16 = 4 := by rw [← hand, g4]; rfl
                           simp [validateUnlessProps, RespClass.tag, hb, this, g4]
                         · have n4 : ¬ x13.toNat % 16 = 4 := fun e => g4 (UInt8.toNat_inj.mp (by rw [hand, e]; rfl))
                           by_cases g5 : x13 &&& 0xF = 5
                           · have : x13.toNat % 16 = 5 := by rw [← hand, g5]; rfl
                             simp [validateUnlessProps, RespClass.tag, hb, this, g5]
                           · have n5 : ¬ x13.toNat % 16 = 5 := fun e => g5 (UInt8.toNat_inj.mp (by rw [hand, e]; rfl))
                             have n4' : ¬ ((4 : Int) = ((x13.toNat % 16 : Nat) : Int)) := by omega
                             have n5' : ¬ ((5 : Int) = ((x13.toNat % 16 : Nat) : Int)) := by omega
                             have n4'' : ¬ ((4 : Int) = (x13.toNat : Int) % 16) := by omega
                             have n5'' : ¬ ((5 : Int) = (x13.toNat : Int) % 16) := by omega
                             simp [validateUnlessProps, RespClass.tag, hb, g4, g5, n4', n5', n4'', n5'']
                     · have n193 : ¬ ((193 : Int) = (x10.toNat : Int)) := fun e => hC1 ((u8c' x10 193 (by decide) 193 rfl).mp e)
                       simp [validateUnlessProps, RespClass.tag, hC0, hB5, hB0, hB1, hC1, n192, n181, n176, n177, n193]
                       done)
  | rfl


/-! ### Response.construct: IndexError mapped; the error classes of the dispatch -/

/-- **tie.** `Response.construct` (the `try … except IndexError` around `_construct`) as translated = the model's dispatch with
    IndexError mapped to InvalidResponseException. -/
theorem constructOuter_eq (frame : Bytes) :
    Codec.constructOuter frame = Py.mapErr "IndexError" .invalidResponse (Model.constructDispatch frame) := by
  first
  | (
       unfold Codec.constructOuter
       rw [constructDispatch_eq]
       first | done | (cases Py.mapErr "IndexError" Err.invalidResponse (Model.constructDispatch frame) <;> rfl)
       done)
  | rfl

theorem frameValidate_errs {f : Bytes} {e : Err} (h : frameValidate f = .error e) : e = .invalidFrame ∨ e = indexError := by
  unfold frameValidate at h
  split at h
  · cases h; exact .inr rfl
  · split at h
    · cases h
    · cases h; exact .inl rfl

theorem idx_errs {l : Bytes} {i : Nat} {e : Err} (h : Py.idx l i = .error e) : e = indexError := by
  unfold Py.idx at h; split at h <;> cases h; rfl

theorem respValidate_errs {p : Bytes} {e : Err} (h : respValidate p = .error e) : e = .invalidResponse ∨ e = indexError := by
  unfold respValidate at h
  split at h
  · cases h; exact .inr rfl
  · split at h
    · cases h; exact .inl rfl
    · cases h

theorem respClass_errs {f : Bytes} {e : Err} (h : respClass f = .error e) : e = indexError := by
  unfold respClass at h
  simp only [bind, Except.bind] at h
  cases h9 : Py.idx f 9 with
  | error e9 => rw [h9] at h; cases h; exact idx_errs h9
  | ok x9 =>
    rw [h9] at h
    cases h10 : Py.idx f 10 with
    | error e10 => rw [h10] at h; cases h; exact idx_errs h10
    | ok x10 =>
      rw [h10] at h
      simp only at h
      split at h
      · cases h
      · split at h
        · cases h
        · split at h
          · cases h
          · split at h
            · cases h13 : Py.idx f 13 with
              | error e13 => rw [h13] at h; cases h; exact idx_errs h13
              | ok x13 =>
                rw [h13] at h
                simp only at h
                split at h
                · cases h
                · split at h <;> cases h
            · cases h

theorem constructDispatch_errs {f : Bytes} {e : Err} (h : Model.constructDispatch f = .error e) :
    e = .invalidFrame ∨ e = .invalidResponse ∨ e = indexError := by
  unfold Model.constructDispatch at h
  simp only [bind, Except.bind] at h
  cases hv : frameValidate f with
  | error e1 => rw [hv] at h; cases h; rcases frameValidate_errs hv with r | r <;> simp [r]
  | ok u =>
    rw [hv] at h
    cases hc : respClass f with
    | error e2 => rw [hc] at h; cases h; simp [respClass_errs hc]
    | ok cls =>
      rw [hc] at h
      simp only at h
      cases hb : validateUnlessProps cls f with
      | error e3 =>
        rw [hb] at h; cases h
        unfold validateUnlessProps at hb
        split at hb
        · rcases respValidate_errs hb with r | r <;> simp [r]
        · cases hb
      | ok u2 => rw [hb] at h; cases h


/-! ### Security.sign, Security.udpid -/

/-- **tie.** `Security.sign` as translated = the model's (MD5 of the data followed by the signing key, the key as regenerated
    from the module). -/
theorem securitySign_eq (data : Bytes) : Codec.securitySign data = .ok (Model.sign data) := by
  first | rfl | (unfold Codec.securitySign Model.sign; rfl)

/-- **tie.** `Security.udpid` as translated = the model's: never raises (both halves of a SHA-256 digest have 16 bytes). -/
theorem securityUdpid_eq (id : Bytes) : Codec.securityUdpid id = .ok (Model.udpid id) := by
  first
  | (
       unfold Codec.securityUdpid Model.udpid Py.strxor
       have h16 : Py.slice (Crypto.SHA256.sha256 id) (some 16) none = (Crypto.SHA256.sha256 id).drop 16 := by
         simpa using slice_drop (Crypto.SHA256.sha256 id) 16
       have t16 : Py.slice (Crypto.SHA256.sha256 id) none (some 16) = (Crypto.SHA256.sha256 id).take 16 := by
         simpa using slice_take (Crypto.SHA256.sha256 id) 16
       have hl := Crypto.SHA256.sha256_length id
       rw [h16, t16]
       have e : ((Crypto.SHA256.sha256 id).drop 16).length = ((Crypto.SHA256.sha256 id).take 16).length := by
         simp only [List.length_drop, List.length_take, hl]; decide
       rw [if_neg (by simp only [ne_eq, Decidable.not_not]; exact e)]
       rw [py_xorBytes_comm _ _ e]
       first | done | rfl
       done)
  | rfl

/-! ### Discover._get_device_version -/

/-- **tie.** `Discover._get_device_version` as translated (the XML parser's verdict is an input) = the model's, for every datagram. -/
theorem getDeviceVersion_eq (isXml : Bool) (data : Bytes) :
    Codec.getDeviceVersion isXml data = (Model.getDeviceVersion isXml data).map (fun n => (n : Int)) := by
  first
  | (
       unfold Codec.getDeviceVersion Model.getDeviceVersion
       rw [sl_take2]
       cases isXml with
       | true => rfl
       | false =>
         simp only [Bool.false_eq_true, if_false]
         by_cases h2 : List.take 2 data = [0x5A, 0x5A]
         · have : ¬ (List.take 2 data ≠ [0x5A, 0x5A]) := fun h => h h2
           rw [if_pos h2, if_neg (by ne_neg this)]; rfl
         · rw [if_neg h2, if_pos (by ne_pos h2)]
           by_cases h3 : List.take 2 data = [0x83, 0x70]
           · have : ¬ (List.take 2 data ≠ [0x83, 0x70]) := fun h => h h3
             rw [if_pos h3, if_neg (by ne_neg this)]; rfl
           · rw [if_neg h3, if_pos (by ne_pos h3)]; rfl
           done)
  | rfl

end Msmart.CodecEq
