/-
  Which errors the packet decoders of msmart/lan.py (as modelled) can produce: the exact error
  alphabet of `_Packet.decode`, `_process_packet`, `_decode_encrypted_response`, `_get_local_key`.
  Used by C08 (a decode error is never a timeout) and C09 (containment).
-/
import Msmart.Model.PacketV3
import Msmart.Crypto.ModeProps

namespace Msmart.Lemmas
open Msmart Msmart.Model Msmart.Crypto

theorem packetCheck_err {d : Bytes} {e : Err} (h : packetCheck d = .error e) : e = .protocol := by
  unfold packetCheck at h
  split at h
  · cases h; rfl
  · split at h
    · cases h; rfl
    · split at h
      · cases h; rfl
      · split at h
        · cases h; rfl
        · cases h

/-- `_Packet.decode` fails with a ProtocolError or not at all -/
theorem packetDecode_err {d : Bytes} {e : Err} (h : packetDecode d = .error e) : e = .protocol := by
  unfold packetDecode at h
  split at h
  · rename_i e' he; cases h; exact packetCheck_err he
  · split at h
    · cases h; rfl
    · cases h

theorem decodeEncryptedResponse_err {k : Option Bytes} {pkt : Bytes} {e : Err} (hl : 6 ≤ pkt.length)
    (h : decodeEncryptedResponse k pkt = .error e) : e = .protocol := by
  unfold decodeEncryptedResponse at h
  split at h
  · cases h; rfl
  · split at h
    · cases h; rfl
    · split at h
      · cases h; rfl
      · split at h
        · rename_i hnone
          have : (pkt.take 6).length = 6 := by simp; omega
          have h5 : 5 < (pkt.take 6).length := by omega
          rw [List.getElem?_eq_getElem h5] at hnone
          cases hnone
        · cases h

/-- `_process_packet` on a packet of at least 6 bytes (everything the reassembly queues has at least
    8) fails with a ProtocolError or not at all -/
theorem processPacket_err {k : Option Bytes} {pkt : Bytes} {e : Err} (hl : 6 ≤ pkt.length)
    (h : processPacket k pkt = .error e) : e = .protocol := by
  unfold processPacket at h
  split at h
  · cases h; rfl
  · split at h
    · rename_i hnone
      rw [List.getElem?_eq_getElem (by omega)] at hnone; cases hnone
    · split at h
      · cases h; rfl
      · split at h
        · rename_i hnone
          rw [List.getElem?_eq_getElem (by omega)] at hnone; cases hnone
        · split at h
          · exact decodeEncryptedResponse_err hl h
          · split at h
            · cases h
            · cases h; rfl

/-- in general (any length) the only other possibility is the IndexError of `packet[4]` / `packet[5]` -/
theorem processPacket_err' {k : Option Bytes} {pkt : Bytes} {e : Err}
    (h : processPacket k pkt = .error e) : e = .protocol ∨ e = indexError := by
  by_cases hl : 6 ≤ pkt.length
  · exact .inl (processPacket_err hl h)
  · unfold processPacket at h
    split at h
    · cases h; exact .inl rfl
    · split at h
      · cases h; exact .inr rfl
      · split at h
        · cases h; exact .inl rfl
        · split at h
          · cases h; exact .inr rfl
          · rename_i b5 h5
            have := (List.getElem?_eq_some_iff.1 h5).1
            omega

/-- `_get_local_key` with a 32-byte key fails with an AuthenticationError or not at all -/
theorem getLocalKey_err {key data : Bytes} {e : Err} (hk : key.length = 32)
    (h : getLocalKey key data = .error e) : e = .auth := by
  unfold getLocalKey at h
  split at h
  · cases h; rfl
  · rename_i hlen
    have hlen : data.length = 64 := by simpa using hlen
    have h32 : (data.take 32).length = 32 := by simp; omega
    unfold decryptCbc at h
    rw [if_neg (by rw [h32]; decide)] at h
    simp only at h
    split at h
    · cases h; rfl
    · split at h
      · rename_i hne
        rw [AES.cbcDecrypt_length, h32, hk] at hne
        exact absurd rfl hne
      · cases h

end Msmart.Lemmas
