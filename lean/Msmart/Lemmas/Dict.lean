/-
  Insertion-ordered dictionaries (Python dict.update semantics) — lookup lemmas.
-/
import Msmart.Model.Response

namespace Msmart.Lemmas
open Msmart Msmart.Model

variable {κ ν : Type} [DecidableEq κ]

theorem dictGet_dictSet (d : List (κ × ν)) (k k' : κ) (v : ν) :
    dictGet (dictSet d k v) k' = if k = k' then some v else dictGet d k' := by
  induction d with
  | nil => simp [dictSet, dictGet]
  | cons hd t ih =>
    obtain ⟨a, b⟩ := hd
    unfold dictSet
    by_cases h : a = k
    · subst h
      simp only [↓reduceIte, dictGet]
      by_cases h2 : a = k' <;> simp [h2]
    · simp only [h, ↓reduceIte, dictGet, ih]
      by_cases h2 : a = k'
      · subst h2
        have : ¬ k = a := fun e => h e.symm
        simp [this]
      · simp [h2]

/-- the value written last for `k` by a list of assignments -/
def lastVal : List (κ × ν) → κ → Option ν
  | [], _ => none
  | (a, b) :: t, k => match lastVal t k with
    | some v => some v
    | none => if a = k then some b else none

theorem dictGet_dictUpdate (d s : List (κ × ν)) (k : κ) :
    dictGet (dictUpdate d s) k = match lastVal s k with | some v => some v | none => dictGet d k := by
  unfold dictUpdate
  induction s generalizing d with
  | nil => simp [lastVal]
  | cons hd t ih =>
    obtain ⟨a, b⟩ := hd
    simp only [List.foldl_cons, ih, lastVal, dictGet_dictSet]
    cases lastVal t k with
    | some v => rfl
    | none => simp only []; by_cases h : a = k <;> simp [h]

def keys (d : List (κ × ν)) : List κ := d.map Prod.fst

theorem keys_dictSet (d : List (κ × ν)) (k : κ) (v : ν) :
    keys (dictSet d k v) = if k ∈ keys d then keys d else keys d ++ [k] := by
  induction d with
  | nil => simp [dictSet, keys]
  | cons hd t ih =>
    obtain ⟨a, b⟩ := hd
    unfold dictSet
    by_cases h : a = k
    · subst h; simp [keys]
    · have hk : ¬ k = a := fun e => h e.symm
      simp only [h, ↓reduceIte, keys, List.map_cons, List.mem_cons, hk, false_or] at ih ⊢
      rw [ih]
      split <;> simp [*]

theorem nodup_dictSet (d : List (κ × ν)) (k : κ) (v : ν) (h : (keys d).Nodup) :
    (keys (dictSet d k v)).Nodup := by
  rw [keys_dictSet]
  split
  · exact h
  · rename_i hk
    rw [List.nodup_append]
    refine ⟨h, by simp, ?_⟩
    intro a ha b hb
    simp only [List.mem_singleton] at hb
    subst hb
    intro e; subst e; exact hk ha

theorem nodup_dictUpdate (d s : List (κ × ν)) (h : (keys d).Nodup) : (keys (dictUpdate d s)).Nodup := by
  unfold dictUpdate
  induction s generalizing d with
  | nil => exact h
  | cons hd t ih => exact ih _ (nodup_dictSet d hd.1 hd.2 h)

theorem mem_keys_of_dictGet (t : List (κ × ν)) (a : κ) (v : ν) (hg : dictGet t a = some v) :
    a ∈ keys t := by
  induction t with
  | nil => simp [dictGet] at hg
  | cons x xs ih =>
    obtain ⟨c, e⟩ := x
    simp only [dictGet] at hg
    by_cases hc : c = a
    · subst hc; simp [keys]
    · simp only [hc, ↓reduceIte] at hg
      simp only [keys, List.map_cons, List.mem_cons]
      right; exact ih hg

theorem lastVal_eq_dictGet (d : List (κ × ν)) (h : (keys d).Nodup) (k : κ) : lastVal d k = dictGet d k := by
  induction d with
  | nil => rfl
  | cons hd t ih =>
    obtain ⟨a, b⟩ := hd
    simp only [keys, List.map_cons, List.nodup_cons] at h
    have iht := ih h.2
    simp only [lastVal, dictGet, iht]
    by_cases hak : a = k
    · subst hak
      have : dictGet t a = none := by
        cases hg : dictGet t a with
        | none => rfl
        | some v => exact absurd (mem_keys_of_dictGet t a v hg) h.1
      simp [this]
    · simp [hak]
      cases dictGet t k <;> rfl

/-- lookup-equivalence of dictionaries (everything downstream reads capabilities with `.get`) -/
def DictEq (a b : List (κ × ν)) : Prop := ∀ k, dictGet a k = dictGet b k

theorem DictEq.refl (a : List (κ × ν)) : DictEq a a := fun _ => rfl
theorem DictEq.trans {a b c : List (κ × ν)} (h1 : DictEq a b) (h2 : DictEq b c) : DictEq a c :=
  fun k => (h1 k).trans (h2 k)
theorem DictEq.symm {a b : List (κ × ν)} (h : DictEq a b) : DictEq b a := fun k => (h k).symm

theorem dictUpdate_congr {a b : List (κ × ν)} (s : List (κ × ν)) (h : DictEq a b) :
    DictEq (dictUpdate a s) (dictUpdate b s) := by
  intro k; rw [dictGet_dictUpdate, dictGet_dictUpdate, h k]

/-- updating with the dictionary built from a list of assignments = applying the assignments -/
theorem dictUpdate_via_fresh (d s : List (κ × ν)) :
    DictEq (dictUpdate d (dictUpdate [] s)) (dictUpdate d s) := by
  intro k
  rw [dictGet_dictUpdate, dictGet_dictUpdate,
    lastVal_eq_dictGet _ (nodup_dictUpdate [] s (by simp [keys])), dictGet_dictUpdate]
  cases lastVal s k <;> simp [dictGet]

theorem dictUpdate_append (d s t : List (κ × ν)) :
    dictUpdate d (s ++ t) = dictUpdate (dictUpdate d s) t := by
  simp [dictUpdate, List.foldl_append]

end Msmart.Lemmas
