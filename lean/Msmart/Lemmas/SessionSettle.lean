/-
  Gentle peers and settled states (V3 sessions): if every reaction of the peer to a write is at most one
  prompt event — a close, or a segment holding exactly one packet (an answer, an error packet, garbage
  of any content) — then no operation leaves anything behind: nothing pending on the network, nothing
  queued or buffered on an open connection.  This is where the faults of C08's alphabet
  {drop, error packet, garbage, peer close} lead, and what the recovery theorems start from.
-/
import Msmart.Lemmas.SessionRecover
import Msmart.Lemmas.SessionContain

namespace Msmart.Lemmas.Sess
open Msmart Msmart.Model Msmart.Model.Session Msmart.Lemmas

/-- one prompt event: the peer closes, or sends a segment that the reassembly cuts into exactly one packet -/
def GentleEv : PeerEvent → Prop
  | .close => True
  | .data b => ∃ pkt, parseLoop b = ([pkt], [])

/-- a peer whose reaction to every write is nothing, or one gentle event within the read timeout -/
def Gentle (p : Params) (rx : Reactions) : Prop :=
  ∀ cid idx, rx cid idx = [] ∨ ∃ d ev, rx cid idx = [(d, ev)] ∧ d ≤ p.readTimeout ∧ GentleEv ev

/-- nothing left behind (V3 session) -/
structure Settled (s : S) : Prop where
  quiet : s.w.pending = []
  unarmed : s.w.cancelAt = none
  ver : s.l.version = 3
  conn : ∀ c, s.l.conn = some c → c.core.v3 = true ∧ (c.closing = true ∨ (c.queue = [] ∧ c.buffer = []))

/-- the state of an open connection in the middle of an exchange, nothing queued / buffered -/
structure Idle (s : S) (c : Conn) : Prop where
  conn : s.l.conn = some c
  v3 : c.core.v3 = true
  open_ : c.closing = false
  queue : c.queue = []
  buffer : c.buffer = []
  quiet : s.w.pending = []
  unarmed : s.w.cancelAt = none
  ver : s.l.version = 3

theorem Idle.settled {s : S} {c : Conn} (h : Idle s c) : Settled s :=
  ⟨h.quiet, h.unarmed, h.ver, by intro c' hc'; rw [h.conn] at hc'; cases hc'; exact ⟨h.v3, .inr ⟨h.queue, h.buffer⟩⟩⟩

theorem version_of_abs {s s' : S} (h : abs s' = abs s) : s'.l.version = s.l.version := congrArg A.version h

/-- waiting with at most one gentle event of this connection pending -/
theorem await_gentle {s1 : S} {c1 : Conn} (hc : s1.l.conn = some c1) (hv : c1.core.v3 = true) (hcl : c1.closing = false)
    (hq : c1.queue = []) (hb : c1.buffer = []) (hnc : s1.w.cancelAt = none) (hver : s1.l.version = 3) (deadline : Nat)
    (hp : s1.w.pending = [] ∨ ∃ t ev, s1.w.pending = [⟨t, c1.core.cid, ev⟩] ∧ t ≤ deadline ∧ GentleEv ev) :
    ∃ r s2 c2, awaitQueue (s1.w.pending.length + 1) s1 deadline = (r, s2) ∧ s2.l.conn = some c2 ∧ c2.core = c1.core ∧
      s2.w.pending = [] ∧ s2.w.cancelAt = none ∧ s2.l.version = 3 ∧ c2.keyExpiry = c1.keyExpiry ∧
      ((r = .timeout ∧ (c2.closing = true ∨ (c2.closing = false ∧ c2.queue = [] ∧ c2.buffer = []))) ∨
       (∃ pkt, r = .packet pkt ∧ 6 ≤ pkt.length ∧ c2.closing = false ∧ c2.queue = [] ∧ c2.buffer = [])) := by
  have hq1 : queueHead s1 = none := by simp [queueHead, hc, hq]
  rcases hp with hp | ⟨t, ev, hp, ht, hg⟩
  · refine ⟨.timeout, setNow s1 deadline, c1, ?_, by simpa [setNow] using hc, rfl, by simpa [setNow] using hp,
      by simpa [setNow] using hnc, by simpa [setNow] using hver, rfl, .inl ⟨rfl, .inr ⟨hcl, hq, hb⟩⟩⟩
    rw [hp]
    simp [awaitQueue, hq1, hp, nextDue, cancelDue_unarmed hnc]
  · cases ev with
    | close =>
      have hdue : nextDue s1.w.pending deadline = some ⟨t, c1.core.cid, .close⟩ := by rw [hp]; simp [nextDue, ht]
      let s1' := deliverDue s1 ⟨t, c1.core.cid, .close⟩
      let c2 : Conn := { c1 with closing := true }
      have hc1' : s1'.l.conn = some c2 := by
        simp [s1', deliverDue, softConn, hc, applyEvent, hcl, c2]
      have hp1' : s1'.w.pending = [] := by
        show (deliverDue s1 _).w.pending = []
        rw [pending_deliverDue, hp]; simp [removeFirst]
      have hq1' : queueHead s1' = none := by simp [queueHead, hc1', c2, hq]
      have hnc1' : s1'.w.cancelAt = none := by show (deliverDue s1 _).w.cancelAt = none; rw [cancelAt_deliverDue]; exact hnc
      refine ⟨.timeout, setNow s1' deadline, c2, ?_, by simpa [setNow] using hc1', rfl, by simpa [setNow] using hp1',
        by simpa [setNow] using hnc1', ?_, rfl, .inl ⟨rfl, .inl rfl⟩⟩
      · have hlen : s1.w.pending.length + 1 = 1 + 1 := by rw [hp]; rfl
        rw [hlen, awaitQueue, hq1]
        simp only
        rw [hdue]
        simp only
        rw [cancelDue_unarmed hnc]
        simp only
        show awaitQueue 1 s1' deadline = _
        rw [show (1 : Nat) = 0 + 1 from rfl, awaitQueue, hq1']
        simp only
        rw [hp1']
        simp [nextDue, cancelDue_unarmed hnc1']
      · show (setNow s1' deadline).l.version = 3
        have : s1'.l.version = s1.l.version := version_of_abs (abs_deliverDue s1 _)
        simpa [setNow, this] using hver
    | data b =>
      obtain ⟨pkt, hpk⟩ := hg
      have hseg : segQueue c1.core.v3 c1.buffer b = pkt :: [] := by simp [segQueue, hv, hb, hpk]
      obtain ⟨s2, c2, ha, hc2, hcore2, hq2, hcl2, hp2, hb2, hke2, _, _, _, _, _, _, hver2, _, _, hnc2⟩ :=
        await_single (s1 := s1) (c1 := c1) hc hq hcl t deadline b pkt [] hp ht hseg hnc
      have hlen : 6 ≤ pkt.length := by
        have := parseLoop_len b pkt (by rw [hpk]; simp)
        omega
      refine ⟨.packet pkt, s2, c2, ha, hc2, hcore2, hp2, hnc2, by rw [hver2]; exact hver, hke2, .inr ⟨pkt, rfl, hlen, hcl2, hq2, ?_⟩⟩
      rw [hb2]; simp [hv, hb, hpk]


theorem settled_opDisconnect {s : S} (hq : s.w.pending = []) (hnc : s.w.cancelAt = none) (hver : s.l.version = 3) :
    Settled (opDisconnect s) :=
  ⟨by rw [pending_opDisconnect]; exact hq, by rw [cancelAt_opDisconnect]; exact hnc, by rw [version_opDisconnect]; exact hver,
   by intro c hc; rw [conn_opDisconnect] at hc; cases hc⟩

theorem settled_of_parts {s : S} {c : Conn} (hc : s.l.conn = some c) (hv : c.core.v3 = true)
    (hq : s.w.pending = []) (hnc : s.w.cancelAt = none) (hver : s.l.version = 3)
    (hshape : c.closing = true ∨ (c.queue = [] ∧ c.buffer = [])) : Settled s :=
  ⟨hq, hnc, hver, by intro c' hc'; rw [hc] at hc'; cases hc'; exact ⟨hv, hshape⟩⟩

theorem version_opWrite {rx : Reactions} {s s' : S} {f : Bytes} (h : opWrite rx s f = .ok s') :
    s'.l.version = s.l.version := by
  unfold opWrite at h
  split at h
  · unfold opWriteData at h
    split at h
    · cases h
    · split at h
      · cases h
      · split at h
        · cases h
        · cases h; rfl
  · unfold opWriteV2 at h
    split at h
    · cases h
    · split at h
      · cases h
      · cases h; rfl

/-- what one write + read attempt of a data exchange leaves, from an idle connection with a session key -/
theorem attempt_gentle {p : Params} {rx : Reactions} (hg : Gentle p rx) {s : S} {c : Conn} (frame : Bytes)
    (hi : Idle s c) (hk : ∃ k, c.core.localKey = some k) :
    ∃ s1 r s2 c2, opWrite rx s frame = .ok s1 ∧
      awaitQueue (s1.w.pending.length + 1) s1 (s1.w.now + p.readTimeout) = (r, s2) ∧
      s2.l.conn = some c2 ∧ c2.core = (wrote c).core ∧ s2.w.pending = [] ∧ s2.w.cancelAt = none ∧ s2.l.version = 3 ∧
      ((r = .timeout ∧ (c2.closing = true ∨ (c2.closing = false ∧ c2.queue = [] ∧ c2.buffer = []))) ∨
       (∃ pkt, r = .packet pkt ∧ 6 ≤ pkt.length ∧ c2.closing = false ∧ c2.queue = [] ∧ c2.buffer = [])) := by
  have hr : Ready s c := ⟨hi.conn, hi.open_, hi.queue, hi.quiet, fun _ => hk, hi.unarmed⟩
  obtain ⟨s1, hw, hc1, hnow, hpend, _, hca⟩ := opWrite_ready (rx := rx) frame hr
  have hver1 : s1.l.version = 3 := by rw [version_opWrite hw]; exact hi.ver
  have hp1 : s1.w.pending = [] ∨ ∃ t ev, s1.w.pending = [⟨t, (wrote c).core.cid, ev⟩] ∧ t ≤ s1.w.now + p.readTimeout ∧ GentleEv ev := by
    rcases hg c.core.cid c.core.nWrites with h0 | ⟨d, ev, h1, hd, hge⟩
    · left; rw [hpend, h0]; rfl
    · right; refine ⟨s.w.now + d, ev, ?_, by rw [hnow]; omega, hge⟩
      rw [hpend, h1, wrote_cid]; rfl
  obtain ⟨r, s2, c2, ha, hc2, hcore2, hp2, hnc2, hver2, _, hcase⟩ :=
    await_gentle (s1 := s1) (c1 := wrote c) hc1 (by rw [wrote_v3]; exact hi.v3) (by simp [wrote, hi.open_])
      (by simp [wrote, hi.queue]) (by simp [wrote, hi.buffer]) hca hver1 (s1.w.now + p.readTimeout) hp1
  exact ⟨s1, r, s2, c2, hw, ha, hc2, hcore2, hp2, hnc2, hver2, hcase⟩


/-- the retry loop leaves a settled state behind (gentle peer) -/
theorem sendLoop_settled {p : Params} {rx : Reactions} (hg : Gentle p rx) {frame : Bytes} (n : Nat) :
    ∀ (s s' : S) (acc : List Bytes) (r : R (List Bytes)), Settled s → sendLoop p rx frame n s acc = (r, s') → Settled s' := by
  induction n with
  | zero => intro s s' acc r hs h; unfold sendLoop at h; cases h; exact hs
  | succ n ih =>
    intro s s' acc r hs h
    cases hc : s.l.conn with
    | none =>
      unfold sendLoop at h
      have : opWrite rx s frame = .error (.py "AssertionError") := by
        unfold opWrite; simp [isV3, hc, opWriteV2]
      rw [this] at h; cases h; exact hs
    | some c =>
      obtain ⟨hv, hshape⟩ := hs.conn c hc
      by_cases hopen : c.closing = false ∧ ∃ k, c.core.localKey = some k
      · obtain ⟨hcl, hk⟩ := hopen
        have hqb : c.queue = [] ∧ c.buffer = [] := by
          rcases hshape with h1 | h1
          · rw [hcl] at h1; cases h1
          · exact h1
        have hi : Idle s c := ⟨hc, hv, hcl, hqb.1, hqb.2, hs.quiet, hs.unarmed, hs.ver⟩
        obtain ⟨s1, r1, s2, c2, hw, ha, hc2, hcore2, hp2, hnc2, hver2, hcase⟩ := attempt_gentle (p := p) hg frame hi hk
        have hv2 : c2.core.v3 = true := by rw [hcore2, wrote_v3]; exact hv
        unfold sendLoop at h
        rw [hw] at h; simp only at h
        rw [ha] at h
        rcases hcase with ⟨rfl, hsh⟩ | ⟨pkt, rfl, hlen, hcl2, hq2, hb2⟩
        · simp only at h
          have hs2 : Settled s2 := settled_of_parts hc2 hv2 hp2 hnc2 hver2 (by
            rcases hsh with h1 | ⟨_, h2, h3⟩
            · exact .inl h1
            · exact .inr ⟨h2, h3⟩)
          split at h
          · exact ih s2 s' acc r hs2 h
          · simp only [Prod.mk.injEq] at h
            obtain ⟨rfl, rfl⟩ := h
            exact settled_opDisconnect hp2 hnc2 hver2
        · simp only at h
          have hs2 : Settled s2 := settled_of_parts hc2 hv2 hp2 hnc2 hver2 (.inr ⟨hq2, hb2⟩)
          split at h
          · simp only [Prod.mk.injEq] at h
            obtain ⟨rfl, rfl⟩ := h
            exact settled_opDisconnect hp2 hnc2 hver2
          · simp only [Prod.mk.injEq] at h
            obtain ⟨rfl, rfl⟩ := h
            exact settled_opDisconnect hp2 hnc2 hver2
          · rename_i e hne _ hd
            have hiv : isV3 s2 = true → 6 ≤ pkt.length := fun _ => hlen
            exact absurd (decodeRead_protocol hiv hd) hne
          · simp only [Prod.mk.injEq] at h
            obtain ⟨rfl, rfl⟩ := h
            exact hs2
      · -- the write is refused: closing transport or no key
        have hwe : ∃ e, opWrite rx s frame = .error e := by
          unfold opWrite
          simp only [isV3, hc, hv, ↓reduceIte]
          unfold opWriteData
          rw [hc]; simp only
          cases hk : c.core.localKey with
          | none => exact ⟨_, rfl⟩
          | some k =>
            simp only
            have : c.closing = true := by
              cases hcc : c.closing with
              | true => rfl
              | false => exact absurd ⟨hcc, k, hk⟩ hopen
            rw [if_pos this]; exact ⟨_, rfl⟩
        obtain ⟨e, he⟩ := hwe
        unfold sendLoop at h
        rw [he] at h; cases h
        exact hs


theorem settled_softConn {s : S} {f : Conn → Conn} (hs : Settled s)
    (hf : ∀ c, (c.closing = true ∨ (c.queue = [] ∧ c.buffer = [])) →
      ((f c).closing = true ∨ ((f c).queue = [] ∧ (f c).buffer = []))) : Settled (softConn s f) := by
  refine ⟨by rw [pending_softConn]; exact hs.quiet, by rw [cancelAt_softConn]; exact hs.unarmed,
    by rw [version_of_abs (abs_softConn s f)]; exact hs.ver, ?_⟩
  intro c' hc'
  unfold softConn at hc'
  cases hc : s.l.conn with
  | none => rw [hc] at hc'; simp only at hc'; rw [hc] at hc'; cases hc'
  | some c =>
    rw [hc] at hc'
    simp only [Option.some.injEq] at hc'
    subst hc'
    obtain ⟨hv, hsh⟩ := hs.conn c hc
    exact ⟨hv, hf c hsh⟩

theorem settled_popQueue {s : S} (hs : Settled s) : Settled (popQueue s) := by
  apply settled_softConn hs
  intro c hsh
  rcases hsh with h | ⟨h1, h2⟩
  · exact .inl h
  · exact .inr ⟨by simp [h1], h2⟩

theorem readAvailable_settled (fuel : Nat) {s s' : S} {acc : List Bytes} {r : R (List Bytes)} (hs : Settled s)
    (h : readAvailable fuel s acc = (r, s')) : Settled s' := by
  induction fuel generalizing s acc with
  | zero => unfold readAvailable at h; cases h; exact hs
  | succ n ih =>
    unfold readAvailable at h
    split at h
    · cases h; exact hs
    · split at h
      · simp only [Prod.mk.injEq] at h
        obtain ⟨_, rfl⟩ := h
        exact settled_popQueue hs
      · exact ih (settled_popQueue hs) h

/-- the body of `LAN.send` on a settled state -/
theorem exchange_settled {p : Params} {rx : Reactions} (hg : Gentle p rx) {s s' : S} {frame : Bytes} {n : Nat}
    {r : R (List Bytes)} (hs : Settled s) (h : exchange p rx s frame n = (r, s')) : Settled s' := by
  unfold exchange at h
  split at h
  · rename_i e s3 hpre
    simp only [Prod.mk.injEq] at h
    obtain ⟨_, rfl⟩ := h
    exact readAvailable_settled _ hs hpre
  · rename_i pre s3 hpre
    have hs3 := readAvailable_settled _ hs hpre
    split at h
    · rename_i e s4 hl
      simp only [Prod.mk.injEq] at h
      obtain ⟨_, rfl⟩ := h
      exact sendLoop_settled hg n s3 _ pre _ hs3 hl
    · rename_i got s4 hl
      exact readAvailable_settled _ (sendLoop_settled hg n s3 s4 pre _ hs3 hl) h

theorem settled_flush {s : S} (hs : Settled s) : Settled (flush s) := by
  apply settled_softConn hs
  intro c hsh
  rcases hsh with h | ⟨_, h2⟩
  · exact .inl h
  · exact .inr ⟨rfl, h2⟩

theorem settled_opForget {s : S} (hs : Settled s) : Settled (opForget s) := by
  unfold opForget
  cases hc : s.l.conn with
  | none => simpa [hc] using hs
  | some c =>
    simp only
    refine ⟨hs.quiet, hs.unarmed, hs.ver, ?_⟩
    intro c' hc'
    simp only [logEv, Option.some.injEq] at hc'
    subst hc'
    exact hs.conn c hc

theorem settled_opAccept {s : S} (lk : Bytes) (e : Nat) (hs : Settled s) : Settled (opAccept s lk e) := by
  unfold opAccept
  cases hc : s.l.conn with
  | none => simpa [hc] using hs
  | some c =>
    simp only
    refine ⟨hs.quiet, hs.unarmed, hs.ver, ?_⟩
    intro c' hc'
    simp only [logEv, Option.some.injEq] at hc'
    subst hc'
    exact hs.conn c hc

/-- the state right after the handshake request has been written on an idle connection -/
theorem opWriteHS_idle {rx : Reactions} {s : S} {c : Conn} (tok : Bytes) (hi : Idle s c) (ht : tok.length < 65536) :
    ∃ s1, opWriteHS rx s tok = .ok s1 ∧ s1.l.conn = some { c with core := bump c.core } ∧ s1.w.now = s.w.now ∧
      s1.w.pending = (rx c.core.cid c.core.nWrites).map (fun r => ⟨s.w.now + r.1, c.core.cid, r.2⟩) ∧
      s1.w.cancelAt = none ∧ s1.l.version = 3 := by
  refine ⟨react rx (setCore (logEv s (.wrHS c.core.cid c.core.packetId tok)) c (bump c.core)) c.core.cid c.core.nWrites,
    ?_, by simp [react, setCore], rfl, by simp [react, setCore, logEv, hi.quiet], hi.unarmed, hi.ver⟩
  unfold opWriteHS
  rw [hi.conn]
  simp only
  rw [if_neg (by omega), if_neg (by simp [hi.open_])]

/-- one handshake attempt on a settled state leaves a settled state (gentle peer) -/
theorem protoAuthenticate_settled {p : Params} {rx : Reactions} (hg : Gentle p rx) {s s' : S} {token key : Option Bytes}
    {r : R Unit} (hs : Settled s) (htok : ∀ t, token = some t → t.length < 65536)
    (h : protoAuthenticate p rx s token key = (r, s')) : Settled s' := by
  unfold protoAuthenticate at h
  split at h
  · rename_i tk ky
    split at h
    · cases h; exact hs
    · have hsf : Settled (opForget (flush s)) := settled_opForget (settled_flush hs)
      split at h
      · cases h; exact hsf
      · cases h; exact hsf
      · rename_i s1 hw
        -- the write succeeded: the connection is there and open
        cases hc : (opForget (flush s)).l.conn with
        | none => unfold opWriteHS at hw; rw [hc] at hw; cases hw
        | some c =>
          obtain ⟨hv, hsh⟩ := hsf.conn c hc
          have hcl : c.closing = false := by
            cases hcc : c.closing with
            | false => rfl
            | true =>
              unfold opWriteHS at hw
              rw [hc] at hw; simp only at hw
              split at hw
              · cases hw
              · first | cases hw | (simp only [hcc, ↓reduceIte] at hw; cases hw)
          have hqb : c.queue = [] ∧ c.buffer = [] := by
            rcases hsh with h1 | h1
            · rw [hcl] at h1; cases h1
            · exact h1
          have hi : Idle (opForget (flush s)) c := ⟨hc, hv, hcl, hqb.1, hqb.2, hsf.quiet, hsf.unarmed, hsf.ver⟩
          obtain ⟨s1', hw', hc1, hnow1, hp1, hnc1, hver1⟩ := opWriteHS_idle (rx := rx) tk hi (htok tk rfl)
          rw [hw] at hw'; cases hw'
          have hp1' : s1.w.pending = [] ∨ ∃ t ev, s1.w.pending = [⟨t, ({ c with core := bump c.core } : Conn).core.cid, ev⟩] ∧
              t ≤ s1.w.now + p.readTimeout ∧ GentleEv ev := by
            rcases hg c.core.cid c.core.nWrites with h0 | ⟨d, ev, h1, hd, hge⟩
            · left; rw [hp1, h0]; rfl
            · right; refine ⟨(opForget (flush s)).w.now + d, ev, ?_, by rw [hnow1]; omega, hge⟩
              rw [hp1, h1]; simp [bump]
          obtain ⟨r1, s2, c2, ha, hc2, hcore2, hp2, hnc2, hver2, _, hcase⟩ :=
            await_gentle (s1 := s1) (c1 := { c with core := bump c.core }) hc1 (by simpa [bump] using hv) hcl hqb.1 hqb.2
              hnc1 hver1 (s1.w.now + p.readTimeout) hp1'
          have hv2 : c2.core.v3 = true := by rw [hcore2]; simpa [bump] using hv
          rw [ha] at h
          rcases hcase with ⟨rfl, hsh2⟩ | ⟨pkt, rfl, _, hcl2, hq2, hb2⟩
          · simp only [Prod.mk.injEq] at h
            obtain ⟨_, rfl⟩ := h
            exact settled_of_parts hc2 hv2 hp2 hnc2 hver2 (by
              rcases hsh2 with h1 | ⟨_, h2, h3⟩
              · exact .inl h1
              · exact .inr ⟨h2, h3⟩)
          · simp only at h
            have hs2 : Settled s2 := settled_of_parts hc2 hv2 hp2 hnc2 hver2 (.inr ⟨hq2, hb2⟩)
            unfold acceptReply at h
            split at h
            · cases h; exact hs2
            · cases h; exact hs2
            · split at h
              · cases h; exact hs2
              · cases h; exact settled_opAccept _ _ hs2
  · cases h; exact hs

theorem authLoop_settled {p : Params} {rx : Reactions} (hg : Gentle p rx) {token key : Option Bytes} (n : Nat)
    (htok : ∀ t, token = some t → t.length < 65536) :
    ∀ (s s' : S) (r : R Unit), Settled s → authLoop p rx token key n s = (r, s') → Settled s' := by
  induction n with
  | zero => intro s s' r hs h; unfold authLoop at h; cases h; exact hs
  | succ n ih =>
    intro s s' r hs h
    unfold authLoop at h
    split at h
    · rename_i s1 hp
      simp only [Prod.mk.injEq] at h
      obtain ⟨_, rfl⟩ := h
      exact protoAuthenticate_settled hg hs htok hp
    · rename_i s1 hp
      have hs1 := protoAuthenticate_settled hg hs htok hp
      split at h
      · exact ih s1 s' r hs1 h
      · simp only [Prod.mk.injEq] at h
        obtain ⟨_, rfl⟩ := h
        exact settled_opDisconnect hs1.quiet hs1.unarmed hs1.ver
    · rename_i e s1 _ hp
      simp only [Prod.mk.injEq] at h
      obtain ⟨_, rfl⟩ := h
      exact protoAuthenticate_settled hg hs htok hp


theorem settled_pump {s : S} (t : Nat) (hs : Settled s) : Settled (pump s t) := by
  rw [pump_quiet t hs.quiet]
  exact ⟨by simpa [setNow] using hs.quiet, by simpa [setNow] using hs.unarmed, by simpa [setNow] using hs.ver,
    by simpa [setNow] using hs.conn⟩

theorem finishAuth_settled {p : Params} {s s' : S} {tk ky : Option Bytes} {r : R Unit} (hs : Settled s)
    (h : finishAuth p s tk ky = (r, s')) : Settled s' := by
  unfold finishAuth at h
  split at h
  · cases h; exact hs
  · cases h
    exact settled_pump _ ⟨hs.quiet, hs.unarmed, hs.ver, hs.conn⟩

theorem opConnect_settled {p : Params} {s s' : S} {r : R Unit} (hs : Settled s) (hn : s.l.conn = none)
    (h : opConnect p s = (r, s')) : Settled s' := by
  have hd : Settled (dropConnect s) := ⟨hs.quiet, hs.unarmed, hs.ver, hs.conn⟩
  unfold opConnect at h
  split at h
  · cases h; exact hd
  · cases h; exact hd
  · cases h; exact settled_pump _ hd
  · cases h
    refine ⟨hs.quiet, hs.unarmed, hs.ver, ?_⟩
    intro c hc
    simp only [opConnected, logEv, dropConnect, Option.some.injEq] at hc
    subst hc
    exact ⟨by simp [hs.ver], .inr ⟨rfl, rfl⟩⟩

theorem settled_setVersion3 {s : S} (hs : Settled s) : Settled (setVersion3 s) :=
  ⟨hs.quiet, hs.unarmed, rfl, hs.conn⟩

/-- `LAN.authenticate` on a settled state leaves a settled state (gentle peer) -/
theorem lanAuthenticate_settled {p : Params} {rx : Reactions} (hg : Gentle p rx) {s s' : S} {token key : Option Bytes}
    {n : Nat} {r : R Unit} (hs : Settled s)
    (htok : ∀ t, pickCred token key s.l.token = some t → t.length < 65536)
    (h : lanAuthenticate p rx s token key n = (r, s')) : Settled s' := by
  unfold lanAuthenticate at h
  split at h
  · have hs0 : Settled (setVersion3 (opDisconnect s)) :=
      settled_setVersion3 (settled_opDisconnect hs.quiet hs.unarmed hs.ver)
    have hn0 : (setVersion3 (opDisconnect s)).l.conn = none := conn_opDisconnect s
    split at h
    · rename_i e s1 hc
      simp only [Prod.mk.injEq] at h
      obtain ⟨_, rfl⟩ := h
      exact opConnect_settled hs0 hn0 hc
    · rename_i s1 hc
      have hs1 := opConnect_settled hs0 hn0 hc
      split at h
      · rename_i e s2 hl
        simp only [Prod.mk.injEq] at h
        obtain ⟨_, rfl⟩ := h
        exact authLoop_settled hg n htok s1 _ _ hs1 hl
      · rename_i s2 hl
        exact finishAuth_settled (authLoop_settled hg n htok s1 s2 _ hs1 hl) h
  · split at h
    · rename_i e s2 hl
      simp only [Prod.mk.injEq] at h
      obtain ⟨_, rfl⟩ := h
      exact authLoop_settled hg n htok s _ _ hs hl
    · rename_i s2 hl
      exact finishAuth_settled (authLoop_settled hg n htok s s2 _ hs hl) h

theorem ensureAuth_settled {p : Params} {rx : Reactions} (hg : Gentle p rx) {s s' : S} {r : R Unit} (hs : Settled s)
    (htok : ∀ t, s.l.token = some t → t.length < 65536) (h : ensureAuth p rx s = (r, s')) : Settled s' := by
  unfold ensureAuth at h
  split at h
  · exact lanAuthenticate_settled hg hs (by rw [pickCred_none]; exact htok) h
  · cases h; exact hs

/-- **gentle peers leave nothing behind.** Whatever happens during an exchange with a gentle peer —
    answers, silence, error packets, garbage packets, closes, refused or hanging connects — the state
    after `LAN.send` is settled again. -/
theorem lanSend_settled {p : Params} {rx : Reactions} (hg : Gentle p rx) {s s' : S} {frame : Bytes} {n : Nat}
    {r : R (List Bytes)} (hs : Settled s) (htok : ∀ t, s.l.token = some t → t.length < 65536)
    (h : lanSend p rx s frame n = (r, s')) : Settled s' := by
  unfold lanSend at h
  split at h
  · have hs0 : Settled (opDisconnect s) := settled_opDisconnect hs.quiet hs.unarmed hs.ver
    have hn0 : (opDisconnect s).l.conn = none := conn_opDisconnect s
    split at h
    · rename_i e s1 hc
      simp only [Prod.mk.injEq] at h
      obtain ⟨_, rfl⟩ := h
      exact opConnect_settled hs0 hn0 hc
    · rename_i s1 hc
      have hs1 := opConnect_settled hs0 hn0 hc
      have htok1 : ∀ t, s1.l.token = some t → t.length < 65536 := by
        have : creds s1 = creds s := by rw [creds_opConnect hc]; simp
        simp only [creds, Prod.mk.injEq] at this
        rw [this.1]; exact htok
      split at h
      · rename_i e s2 ha
        simp only [Prod.mk.injEq] at h
        obtain ⟨_, rfl⟩ := h
        exact ensureAuth_settled hg hs1 htok1 ha
      · rename_i s2 ha
        exact exchange_settled hg (ensureAuth_settled hg hs1 htok1 ha) h
  · split at h
    · rename_i e s2 ha
      simp only [Prod.mk.injEq] at h
      obtain ⟨_, rfl⟩ := h
      exact ensureAuth_settled hg hs htok ha
    · rename_i s2 ha
      exact exchange_settled hg (ensureAuth_settled hg hs htok ha) h

/-- a fresh `LAN` object that has been told its device is V3 is settled -/
theorem settled_fresh (s : S) (h1 : s.w.pending = []) (h2 : s.w.cancelAt = none) (h3 : s.l.version = 3)
    (h4 : s.l.conn = none) : Settled s :=
  ⟨h1, h2, h3, by intro c hc; rw [h4] at hc; cases hc⟩


/-- an exchange on a live, authenticated, idle connection answered at the first transmission -/
theorem lanSend_ready_answered {p : Params} {rx : Reactions} {s : S} {c : Conn} (frame : Bytes) (n : Nat)
    (hr : Ready s c) (hal : connAlive s = true) (hauth : isV3 s = true → authenticated s = true)
    (d : Nat) (b pkt f : Bytes) (hrx : rx c.core.cid c.core.nWrites = [(d, .data b)]) (hd : d ≤ p.readTimeout)
    (hseg : segQueue c.core.v3 c.buffer b = [pkt]) (hdec : decodeWith c.core.v3 c.core.localKey pkt = .ok f) :
    ∃ s', lanSend p rx s frame (n + 1) = (.ok [f], s') ∧ nData (evsOf s') = nData (evsOf s) + 1 := by
  obtain ⟨s', hex, hn⟩ := exchange_answered (p := p) (rx := rx) frame n hr d b pkt f hrx hd hseg hdec
  refine ⟨s', ?_, hn⟩
  unfold lanSend
  rw [if_neg (by simp [hal])]
  have hea : ensureAuth p rx s = (.ok (), s) := by
    unfold ensureAuth
    rw [if_neg]
    intro hh
    simp only [Bool.and_eq_true, Bool.not_eq_true'] at hh
    rw [hauth hh.1] at hh
    exact absurd hh.2 (by simp)
  rw [hea]
  exact hex

/-- the three situations a settled V3 session can be in, each covered by a recovery theorem:
    dead connection (`lanSend_recovers_v3`), live but not authenticated (`lanSend_reauth_same_connection`),
    live and authenticated (`lanSend_ready_answered`) -/
theorem settled_cases {s : S} (hs : Settled s) :
    connAlive s = false ∨
    (∃ c, s.l.conn = some c ∧ c.closing = false ∧ c.core.v3 = true ∧ c.queue = [] ∧ c.buffer = [] ∧
        connAlive s = true ∧ authenticated s = false) ∨
    (∃ c, Ready s c ∧ c.buffer = [] ∧ connAlive s = true ∧ authenticated s = true) := by
  cases hal : connAlive s with
  | false => exact .inl rfl
  | true =>
    right
    cases hc : s.l.conn with
    | none => simp [connAlive, hc] at hal
    | some c =>
      obtain ⟨hv, hsh⟩ := hs.conn c hc
      have hcl : c.closing = false := by
        cases hcc : c.closing with
        | false => rfl
        | true => simp [connAlive, hc, hcc] at hal
      have hqb : c.queue = [] ∧ c.buffer = [] := by
        rcases hsh with h1 | h1
        · rw [hcl] at h1; cases h1
        · exact h1
      cases hau : authenticated s with
      | false => exact .inl ⟨c, rfl, hcl, hv, hqb.1, hqb.2, rfl, rfl⟩
      | true =>
        refine .inr ⟨c, ⟨hc, hcl, hqb.1, hs.quiet, ?_, hs.unarmed⟩, hqb.2, rfl, rfl⟩
        intro _
        unfold authenticated at hau
        rw [hc] at hau
        simp only at hau
        cases hk : c.core.localKey with
        | none => rw [hk] at hau; simp at hau
        | some k => exact ⟨k, rfl⟩

end Msmart.Lemmas.Sess
