/-
  The stored credentials of the `LAN` object (`_token`, `_key`) in the Session model: nothing but a
  successful `authenticate` changes them, and it stores exactly the credentials it used.
-/
import Msmart.Model.Session

namespace Msmart.Lemmas.Sess
open Msmart Msmart.Model Msmart.Model.Session

def creds (s : S) : Option Bytes × Option Bytes := (s.l.token, s.l.key)

@[simp] theorem creds_softConn (s : S) (f : Conn → Conn) : creds (softConn s f) = creds s := by
  unfold softConn; split <;> rfl
@[simp] theorem creds_setNow (s : S) (t : Nat) : creds (setNow s t) = creds s := rfl
@[simp] theorem creds_deliverDue (s : S) (e : Timed) : creds (deliverDue s e) = creds s := by
  unfold deliverDue; rw [creds_softConn]; rfl
@[simp] theorem creds_pumpUntil (fuel : Nat) (s : S) (t : Nat) : creds (pumpUntil fuel s t) = creds s := by
  induction fuel generalizing s with
  | zero => rfl
  | succ n ih => unfold pumpUntil; split <;> simp [ih]
@[simp] theorem creds_pump (s : S) (t : Nat) : creds (pump s t) = creds s := creds_pumpUntil _ _ _
@[simp] theorem creds_popQueue (s : S) : creds (popQueue s) = creds s := creds_softConn _ _
@[simp] theorem creds_flush (s : S) : creds (flush s) = creds s := creds_softConn _ _
@[simp] theorem creds_opAccept (s : S) (lk : Bytes) (e : Nat) : creds (opAccept s lk e) = creds s := by
  unfold opAccept; split <;> rfl
@[simp] theorem creds_opForget (s : S) : creds (opForget s) = creds s := by
  unfold opForget; split <;> rfl
@[simp] theorem creds_opDisconnect (s : S) : creds (opDisconnect s) = creds s := by
  unfold opDisconnect; split <;> rfl
@[simp] theorem creds_opConnected (s : S) : creds (opConnected s) = creds s := rfl
@[simp] theorem creds_dropConnect (s : S) : creds (dropConnect s) = creds s := rfl
@[simp] theorem creds_setVersion3 (s : S) : creds (setVersion3 s) = creds s := rfl
@[simp] theorem creds_setLifetime (s : S) (m : Option Nat) : creds (setLifetime s m) = creds s := rfl
@[simp] theorem creds_armCancel (s : S) (ms : Nat) : creds (armCancel s ms) = creds s := rfl
@[simp] theorem creds_disarmCancel (s : S) : creds (disarmCancel s) = creds s := rfl

@[simp] theorem creds_awaitQueue (fuel : Nat) (s : S) (d : Nat) : creds (awaitQueue fuel s d).2 = creds s := by
  induction fuel generalizing s with
  | zero => rfl
  | succ n ih =>
    unfold awaitQueue
    split
    · simp
    · split
      · split <;> rfl
      · split
        · rfl
        · rw [ih, creds_deliverDue]

theorem creds_of_awaitQueue {fuel : Nat} {s s' : S} {d : Nat} {r : ReadRes} (h : awaitQueue fuel s d = (r, s')) :
    creds s' = creds s := by
  have := creds_awaitQueue fuel s d; rw [h] at this; exact this

@[simp] theorem creds_readAvailable (fuel : Nat) (s : S) (acc : List Bytes) :
    creds (readAvailable fuel s acc).2 = creds s := by
  induction fuel generalizing s acc with
  | zero => rfl
  | succ n ih =>
    unfold readAvailable
    split
    · rfl
    · split
      · simp
      · rw [ih, creds_popQueue]

theorem creds_of_readAvailable {fuel : Nat} {s s' : S} {acc : List Bytes} {r : R (List Bytes)}
    (h : readAvailable fuel s acc = (r, s')) : creds s' = creds s := by
  have := creds_readAvailable fuel s acc; rw [h] at this; exact this

theorem creds_opWriteHS {rx : Reactions} {s s' : S} {tok : Bytes} (h : opWriteHS rx s tok = .ok s') : creds s' = creds s := by
  unfold opWriteHS at h
  repeat (first | split at h | cases h)
  rfl

theorem creds_opWrite {rx : Reactions} {s s' : S} {f : Bytes} (h : opWrite rx s f = .ok s') : creds s' = creds s := by
  unfold opWrite at h
  split at h
  · unfold opWriteData at h
    split at h
    · cases h
    · split at h
      · cases h
      · split at h
        · cases h
        · cases h; rfl
  · unfold opWriteV2 at h
    split at h
    · cases h
    · split at h
      · cases h
      · cases h; rfl

theorem creds_opConnect {p : Params} {s s' : S} {r : R Unit} (h : opConnect p s = (r, s')) : creds s' = creds s := by
  unfold opConnect at h
  split at h <;> cases h <;> simp

theorem creds_acceptReply {p : Params} {s s' : S} {key raw : Bytes} {r : R Unit} (h : acceptReply p s key raw = (r, s')) :
    creds s' = creds s := by
  unfold acceptReply at h
  split at h
  · cases h; rfl
  · cases h; rfl
  · split at h
    · cases h; rfl
    · cases h; simp

theorem creds_protoAuthenticate {p : Params} {rx : Reactions} {s s' : S} {token key : Option Bytes} {r : R Unit}
    (h : protoAuthenticate p rx s token key = (r, s')) : creds s' = creds s := by
  unfold protoAuthenticate at h
  split at h
  · split at h
    · cases h; rfl
    · split at h
      · cases h; simp
      · cases h; simp
      · rename_i s1 hw
        have h1 : creds s1 = creds s := by rw [creds_opWriteHS hw, creds_opForget, creds_flush]
        split at h
        · rename_i s2 hq
          simp only [Prod.mk.injEq] at h
          obtain ⟨_, rfl⟩ := h
          rw [creds_of_awaitQueue hq, h1]
        · rename_i s2 hq
          simp only [Prod.mk.injEq] at h
          obtain ⟨_, rfl⟩ := h
          rw [creds_of_awaitQueue hq, h1]
        · rename_i raw s2 hq
          rw [creds_acceptReply h, creds_of_awaitQueue hq, h1]
  · cases h; rfl

theorem creds_authLoop {p : Params} {rx : Reactions} {token key : Option Bytes} (n : Nat) {s s' : S} {r : R Unit}
    (h : authLoop p rx token key n s = (r, s')) : creds s' = creds s := by
  induction n generalizing s with
  | zero => unfold authLoop at h; cases h; rfl
  | succ n ih =>
    unfold authLoop at h
    split at h
    · rename_i s1 hp
      simp only [Prod.mk.injEq] at h
      obtain ⟨_, rfl⟩ := h
      exact creds_protoAuthenticate hp
    · rename_i s1 hp
      split at h
      · rw [ih h, creds_protoAuthenticate hp]
      · simp only [Prod.mk.injEq] at h
        obtain ⟨_, rfl⟩ := h
        rw [creds_opDisconnect, creds_protoAuthenticate hp]
    · rename_i e s1 _ hp
      simp only [Prod.mk.injEq] at h
      obtain ⟨_, rfl⟩ := h
      exact creds_protoAuthenticate hp

theorem creds_finishAuth {p : Params} {s s' : S} {tk ky : Option Bytes} {r : R Unit} (h : finishAuth p s tk ky = (r, s')) :
    (r = .ok () ∧ creds s' = (tk, ky)) ∨ ((∃ e, r = .error e) ∧ creds s' = creds s) := by
  unfold finishAuth at h
  split at h
  · cases h; exact .inr ⟨⟨_, rfl⟩, rfl⟩
  · cases h; exact .inl ⟨rfl, by rw [creds_pump]; rfl⟩

/-- `LAN.authenticate` stores the credentials it used, and only when it succeeds -/
theorem creds_lanAuthenticate {p : Params} {rx : Reactions} {s s' : S} {token key : Option Bytes} {n : Nat} {r : R Unit}
    (h : lanAuthenticate p rx s token key n = (r, s')) :
    (r = .ok () ∧ creds s' = (pickCred token key s.l.token, pickCred key token s.l.key)) ∨
    ((∃ e, r = .error e) ∧ creds s' = creds s) := by
  unfold lanAuthenticate at h
  split at h
  · split at h
    · rename_i e s1 hc
      simp only [Prod.mk.injEq] at h
      obtain ⟨rfl, rfl⟩ := h
      exact .inr ⟨⟨_, rfl⟩, by rw [creds_opConnect hc]; simp⟩
    · rename_i s1 hc
      have h1 : creds s1 = creds s := by rw [creds_opConnect hc]; simp
      split at h
      · rename_i e s2 hl
        simp only [Prod.mk.injEq] at h
        obtain ⟨rfl, rfl⟩ := h
        exact .inr ⟨⟨_, rfl⟩, by rw [creds_authLoop n hl, h1]⟩
      · rename_i s2 hl
        rcases creds_finishAuth h with ⟨hr, hc'⟩ | ⟨hr, hc'⟩
        · exact .inl ⟨hr, hc'⟩
        · exact .inr ⟨hr, by rw [hc', creds_authLoop n hl, h1]⟩
  · split at h
    · rename_i e s2 hl
      simp only [Prod.mk.injEq] at h
      obtain ⟨rfl, rfl⟩ := h
      exact .inr ⟨⟨_, rfl⟩, creds_authLoop n hl⟩
    · rename_i s2 hl
      rcases creds_finishAuth h with ⟨hr, hc'⟩ | ⟨hr, hc'⟩
      · exact .inl ⟨hr, hc'⟩
      · exact .inr ⟨hr, by rw [hc', creds_authLoop n hl]⟩

theorem creds_sendLoop {p : Params} {rx : Reactions} {frame : Bytes} (n : Nat) {s s' : S} {acc : List Bytes}
    {r : R (List Bytes)} (h : sendLoop p rx frame n s acc = (r, s')) : creds s' = creds s := by
  induction n generalizing s with
  | zero => unfold sendLoop at h; cases h; rfl
  | succ n ih =>
    unfold sendLoop at h
    split at h
    · cases h; rfl
    · rename_i s1 hw
      have h1 := creds_opWrite hw
      split at h
      · rename_i s2 hq
        have h2 := creds_of_awaitQueue hq
        split at h
        · rw [ih h, h2, h1]
        · simp only [Prod.mk.injEq] at h
          obtain ⟨_, rfl⟩ := h
          rw [creds_opDisconnect, h2, h1]
      · rename_i s2 hq
        have h2 := creds_of_awaitQueue hq
        simp only [Prod.mk.injEq] at h
        obtain ⟨_, rfl⟩ := h
        rw [creds_opDisconnect, h2, h1]
      · rename_i raw s2 hq
        have h2 := creds_of_awaitQueue hq
        split at h
        all_goals simp only [Prod.mk.injEq] at h
        all_goals obtain ⟨_, rfl⟩ := h
        all_goals simp [h2, h1]

theorem creds_exchange {p : Params} {rx : Reactions} {s s' : S} {frame : Bytes} {n : Nat} {r : R (List Bytes)}
    (h : exchange p rx s frame n = (r, s')) : creds s' = creds s := by
  unfold exchange at h
  split at h
  · rename_i e s3 hpre
    simp only [Prod.mk.injEq] at h
    obtain ⟨_, rfl⟩ := h
    exact creds_of_readAvailable hpre
  · rename_i pre s3 hpre
    split at h
    · rename_i e s4 hl
      simp only [Prod.mk.injEq] at h
      obtain ⟨_, rfl⟩ := h
      rw [creds_sendLoop n hl, creds_of_readAvailable hpre]
    · rename_i got s4 hl
      rw [creds_of_readAvailable h, creds_sendLoop n hl, creds_of_readAvailable hpre]

theorem creds_ensureAuth {p : Params} {rx : Reactions} {s s' : S} {r : R Unit} (h : ensureAuth p rx s = (r, s')) :
    creds s' = creds s := by
  unfold ensureAuth at h
  split at h
  · rcases creds_lanAuthenticate h with ⟨_, hc⟩ | ⟨_, hc⟩
    · rw [hc]; simp [pickCred, creds]
    · exact hc
  · cases h; rfl

/-- `LAN.send` never changes the stored credentials -/
theorem creds_lanSend {p : Params} {rx : Reactions} {s s' : S} {frame : Bytes} {n : Nat} {r : R (List Bytes)}
    (h : lanSend p rx s frame n = (r, s')) : creds s' = creds s := by
  unfold lanSend at h
  split at h
  · split at h
    · rename_i e s1 hc
      simp only [Prod.mk.injEq] at h
      obtain ⟨_, rfl⟩ := h
      rw [creds_opConnect hc]; simp
    · rename_i s1 hc
      have h1 : creds s1 = creds s := by rw [creds_opConnect hc]; simp
      split at h
      · rename_i e s2 ha
        simp only [Prod.mk.injEq] at h
        obtain ⟨_, rfl⟩ := h
        rw [creds_ensureAuth ha, h1]
      · rename_i s2 ha
        rw [creds_exchange h, creds_ensureAuth ha, h1]
  · split at h
    · rename_i e s2 ha
      simp only [Prod.mk.injEq] at h
      obtain ⟨_, rfl⟩ := h
      exact creds_ensureAuth ha
    · rename_i s2 ha
      rw [creds_exchange h, creds_ensureAuth ha]

end Msmart.Lemmas.Sess
