/-
  What `Response.construct` does with a frame built by the device-side `Spec.respFrame`.
-/
import Msmart.Lemmas.Crc
import Msmart.Lemmas.Contained
import Msmart.Spec.DeviceSpec

namespace Msmart.Lemmas
open Msmart Msmart.Model

theorem frameChecksum_eq (l : Bytes) : Spec.frameChecksum l = checksum l := rfl

theorem bodyCheck_valid (style : Spec.CheckStyle) (p : Bytes) :
    crc8 p = Spec.bodyCheck style p ∨ checksum p = Spec.bodyCheck style p := by
  cases style
  · left; exact crc8_eq_spec p
  · right; rfl

/-- the class dispatch expressed on the payload -/
def classOfPayload (ft : UInt8) (p : Bytes) : R RespClass := do
  let rid ← Py.idx p 0
  if rid = 0xC0 then pure .state
  else if rid = 0xB5 ∧ ft = ftQuery then pure .caps
  else if rid = 0xB1 ∨ rid = 0xB0 then pure .props
  else if rid = 0xC1 then do
    let g ← Py.idx (p ++ [0, 0]) 3          -- frame[13]: payload[3], or check / checksum byte position
    if g &&& 0xF = 4 then pure .energy
    else if g &&& 0xF = 5 then pure .humidity
    else pure .base
  else pure .base

theorem frameValidate_snoc' (s cs : UInt8) (rest : Bytes) :
    frameValidate (s :: (rest ++ [cs])) =
      if checksum rest = cs then .ok () else .error .invalidFrame := by
  unfold frameValidate
  have h1 : (s :: (rest ++ [cs])).getLast? = some cs := by
    rw [← List.cons_append, List.getLast?_concat]
  rw [h1]
  simp only [List.drop_succ_cons, List.drop_zero, List.dropLast_concat]

theorem respFrame_shape (ft proto : UInt8) (style : Spec.CheckStyle) (p : Bytes) :
    Spec.respFrame ft proto style p =
      0xAA :: (([(p.length + 11).toUInt8, 0xAC, 0, 0, 0, 0, 0, proto, ft] ++ p ++ [Spec.bodyCheck style p]) ++
        [Spec.frameChecksum ([(p.length + 11).toUInt8, 0xAC, 0, 0, 0, 0, 0, proto, ft] ++ p ++ [Spec.bodyCheck style p])]) := by
  simp [Spec.respFrame]

theorem respFrame_valid (ft proto : UInt8) (style : Spec.CheckStyle) (p : Bytes) :
    frameValidate (Spec.respFrame ft proto style p) = .ok () := by
  rw [respFrame_shape, frameValidate_snoc', frameChecksum_eq, if_pos rfl]

theorem respFrame_drop10 (ft proto : UInt8) (style : Spec.CheckStyle) (p : Bytes) :
    (Spec.respFrame ft proto style p).drop 10 =
      p ++ [Spec.bodyCheck style p] ++ [Spec.frameChecksum ([(p.length + 11).toUInt8, 0xAC, 0, 0, 0, 0, 0, proto, ft] ++ p ++ [Spec.bodyCheck style p])] := by
  simp [Spec.respFrame]

theorem respFrame_payload (ft proto : UInt8) (style : Spec.CheckStyle) (p : Bytes) :
    (((Spec.respFrame ft proto style p).drop 10).dropLast).dropLast = p := by
  rw [respFrame_drop10, List.dropLast_concat, List.dropLast_concat]

theorem respFrame_checked (ft proto : UInt8) (style : Spec.CheckStyle) (p : Bytes) :
    ((Spec.respFrame ft proto style p).drop 10).dropLast = p ++ [Spec.bodyCheck style p] := by
  rw [respFrame_drop10, List.dropLast_concat]

theorem respValidate_bodyCheck (style : Spec.CheckStyle) (p : Bytes) :
    respValidate (p ++ [Spec.bodyCheck style p]) = .ok () := by
  unfold respValidate
  rw [List.getLast?_concat]
  simp only [List.dropLast_concat]
  rw [if_neg]
  rintro ⟨h1, h2⟩
  rcases bodyCheck_valid style p with h | h
  · exact h1 h
  · exact h2 h

theorem respFrame_idx9 (ft proto : UInt8) (style : Spec.CheckStyle) (p : Bytes) :
    Py.idx (Spec.respFrame ft proto style p) 9 = .ok ft := by
  simp [Spec.respFrame, Py.idx]

theorem respClass_respFrame (ft proto : UInt8) (style : Spec.CheckStyle) (p : Bytes) (hp : 4 ≤ p.length) :
    respClass (Spec.respFrame ft proto style p) = classOfPayload ft p := by
  obtain ⟨a, b, c, d, t, rfl⟩ : ∃ a b c d t, p = a :: b :: c :: d :: t := by
    match p, hp with
    | a :: b :: c :: d :: t, _ => exact ⟨a, b, c, d, t, rfl⟩
  simp [respClass, classOfPayload, Spec.respFrame, Py.idx, bind, Except.bind]

/-- **construct on a device-built frame.** For every payload of at least 4 bytes (shorter ones
    cannot name a group) in either check style, the library decodes a spec-built frame by
    dispatching on the payload and parsing exactly the payload. -/
theorem constructInner_respFrame (ft proto : UInt8) (style : Spec.CheckStyle) (p : Bytes) (hp : 4 ≤ p.length) :
    constructInner (Spec.respFrame ft proto style p) =
      (classOfPayload ft p >>= fun cls => Py.idx p 0 >>= fun id => buildResp cls id p) := by
  unfold constructInner
  rw [respFrame_valid, respClass_respFrame _ _ _ _ hp]
  simp only [bind, Except.bind]
  cases hc : classOfPayload ft p with
  | error e => rfl
  | ok cls =>
    simp only
    have hv : validateUnlessProps cls (Spec.respFrame ft proto style p) = .ok () := by
      unfold validateUnlessProps
      split
      · rw [respFrame_checked]; exact respValidate_bodyCheck style p
      · rfl
    rw [hv, respFrame_payload]

end Msmart.Lemmas
