/-
  Successful exchanges with a promptly responding peer, step by step: an answered handshake attempt
  leaves an authenticated, idle session; an exchange from an idle session returns the peer's answer.
  Used by the recovery theorems of C08.
-/
import Msmart.Lemmas.SessionRetry
import Msmart.Lemmas.SessionCreds

namespace Msmart.Lemmas.Sess
open Msmart Msmart.Model Msmart.Model.Session Msmart.Lemmas

/-- waiting on an idle connection for the only pending event, a segment for this connection that is
    due before the deadline: the first item it queues is returned -/
theorem await_single {s1 : S} {c1 : Conn} (hc : s1.l.conn = some c1) (hq : c1.queue = []) (hcl : c1.closing = false)
    (t deadline : Nat) (b pkt : Bytes) (rest : List Bytes)
    (hp : s1.w.pending = [⟨t, c1.core.cid, .data b⟩]) (ht : t ≤ deadline)
    (hseg : segQueue c1.core.v3 c1.buffer b = pkt :: rest) (hnc : s1.w.cancelAt = none) :
    ∃ s2 c2, awaitQueue (s1.w.pending.length + 1) s1 deadline = (.packet pkt, s2) ∧
      s2.l.conn = some c2 ∧ c2.core = c1.core ∧ c2.queue = rest ∧ c2.closing = false ∧ s2.w.pending = [] ∧
      c2.buffer = (if c1.core.v3 then (parseLoop (c1.buffer ++ b)).2 else c1.buffer) ∧
      c2.keyExpiry = c1.keyExpiry ∧
      s2.w.now = max s1.w.now t ∧ s2.w.log = s1.w.log ∧ s2.w.connects = s1.w.connects ∧ s2.w.nConn = s1.w.nConn ∧
      s2.l.token = s1.l.token ∧ s2.l.key = s1.l.key ∧ s2.l.version = s1.l.version ∧
      s2.l.connExpiry = s1.l.connExpiry ∧ s2.l.maxLifetime = s1.l.maxLifetime ∧ s2.w.cancelAt = none := by
  have hq1 : queueHead s1 = none := by simp [queueHead, hc, hq]
  have hdue : nextDue s1.w.pending deadline = some ⟨t, c1.core.cid, .data b⟩ := by
    rw [hp]; simp [nextDue, ht]
  have happ : (applyEvent (.data b) c1).queue = pkt :: rest := by
    unfold applyEvent
    simp only [hcl, Bool.false_eq_true, ↓reduceIte]
    unfold segQueue at hseg
    by_cases hv : c1.core.v3 = true
    · simp [hv, hq] at hseg ⊢; exact hseg
    · have hv' : c1.core.v3 = false := by simpa using hv
      simp [hv', hq] at hseg ⊢; exact hseg
  have hbuf : (applyEvent (.data b) c1).buffer = (if c1.core.v3 then (parseLoop (c1.buffer ++ b)).2 else c1.buffer) := by
    unfold applyEvent
    simp only [hcl, Bool.false_eq_true, ↓reduceIte]
    split <;> rfl
  have hke : (applyEvent (.data b) c1).keyExpiry = c1.keyExpiry := by
    unfold applyEvent
    simp only [hcl, Bool.false_eq_true, ↓reduceIte]
    split <;> rfl
  let s1' := deliverDue s1 ⟨t, c1.core.cid, .data b⟩
  have hc1' : s1'.l.conn = some { applyEvent (.data b) c1 with core := c1.core } := by
    simp [s1', deliverDue, softConn, hc]
  have hq1' : queueHead s1' = some pkt := by simp [queueHead, hc1', happ]
  refine ⟨popQueue s1', { { applyEvent (.data b) c1 with core := c1.core } with
      queue := ({ applyEvent (.data b) c1 with core := c1.core } : Conn).queue.drop 1 }, ?_, ?_, rfl, by simp [happ],
      applyEvent_data_closing c1 b hcl, ?_, hbuf, hke, ?_, ?_, ?_, ?_, ?_, ?_, ?_, ?_, ?_, ?_⟩
  · have hlen : s1.w.pending.length + 1 = 1 + 1 := by rw [hp]; rfl
    rw [hlen, awaitQueue, hq1]
    simp only
    rw [hdue]
    simp only
    rw [cancelDue_unarmed hnc]
    simp only
    rw [awaitQueue, hq1']
  · simp [popQueue, softConn, hc1']
  · show (popQueue s1').w.pending = []
    unfold popQueue
    rw [pending_softConn, pending_deliverDue, hp]
    simp [removeFirst]
  all_goals simp [popQueue, softConn, hc1', s1', deliverDue, hc, hnc]


/-- an answered handshake attempt on an open, idle V3 connection: the key is accepted, the session is
    idle again (queue and buffer empty, nothing pending) and authenticated -/
theorem protoAuthenticate_answered {p : Params} {rx : Reactions} {s : S} {c : Conn} (tok key : Bytes)
    (hc : s.l.conn = some c) (hcl : c.closing = false) (hv : c.core.v3 = true) (hquiet : s.w.pending = [])
    (hnc : s.w.cancelAt = none) (hbuf : c.buffer = []) (htok : tok.isEmpty = false ∧ tok.length < 65536) (hkey : key.isEmpty = false)
    (d : Nat) (b reply payload lk : Bytes) (hrx : rx c.core.cid c.core.nWrites = [(d, .data b)])
    (hd : d ≤ p.readTimeout) (hparse : parseLoop b = ([reply], []))
    (hproc : processPacket none reply = .ok payload) (hlk : getLocalKey key payload = .ok lk) :
    ∃ s' c', protoAuthenticate p rx s (some tok) (some key) = (.ok (), s') ∧ Ready s' c' ∧
      c'.core = { bump c.core with localKey := some lk } ∧ c'.buffer = [] ∧
      c'.keyExpiry = some (s'.w.now + p.authExpiry) ∧
      evsOf s' = evsOf s ++ [.forget c.core.cid, .wrHS c.core.cid c.core.packetId tok, .accept c.core.cid lk] := by
  -- after the flush, the forgetting of the old key and the write
  let cf : Conn := { c with queue := [], core := { c.core with localKey := none }, keyExpiry := none }
  let sf : S := opForget (flush s)
  have hcf : sf.l.conn = some cf := by simp [sf, opForget, flush, softConn, hc, cf, logEv]
  let s1 : S := react rx (setCore (logEv sf (.wrHS c.core.cid c.core.packetId tok)) cf (bump cf.core)) c.core.cid c.core.nWrites
  have hw : opWriteHS rx (opForget (flush s)) tok = .ok s1 := by
    show opWriteHS rx sf tok = .ok s1
    unfold opWriteHS
    rw [hcf]
    simp only
    rw [if_neg (by omega), if_neg (by simp [cf, hcl])]
  let c1 : Conn := { cf with core := bump cf.core }
  have hc1 : s1.l.conn = some c1 := by simp [s1, react, setCore, c1]
  have hsfw : sf.w.pending = [] ∧ sf.w.now = s.w.now ∧ sf.w.cancelAt = none ∧
      sf.w.log = s.w.log ++ [(s.w.now, .forget c.core.cid)] := by
    have h1 : (flush s).w.pending = [] := by unfold flush; rw [pending_softConn]; exact hquiet
    have h2 : (flush s).w.now = s.w.now := by unfold flush softConn; split <;> rfl
    have h3 : (flush s).w.cancelAt = none := by unfold flush; rw [cancelAt_softConn]; exact hnc
    have h4 : (flush s).w.log = s.w.log := by unfold flush softConn; split <;> rfl
    have h5 : (flush s).l.conn = some { c with queue := [] } := by simp [flush, softConn, hc]
    simp [sf, opForget, h5, logEv, h1, h2, h3, h4]
  have hp1 : s1.w.pending = [⟨s.w.now + d, c1.core.cid, .data b⟩] := by
    simp [s1, react, setCore, logEv, hsfw.1, hrx, hsfw.2.1, c1, cf, bump]
  have hnow1 : s1.w.now = s.w.now := by
    simp [s1, react, setCore, logEv, hsfw.2.1]
  have hseg : segQueue c1.core.v3 c1.buffer b = reply :: [] := by
    simp [segQueue, c1, cf, bump, hv, hbuf, hparse]
  have hnc1 : s1.w.cancelAt = none := by
    simpa [s1, react, setCore, logEv] using hsfw.2.2.1
  obtain ⟨s2, c2, ha, hc2, hcore2, hq2, hcl2, hp2, hb2, _, hnow2, hlog2, _, _, _, _, _, _, _, hnc2⟩ :=
    await_single (s1 := s1) (c1 := c1) hc1 (by simp [c1, cf]) (by simp [c1, cf, hcl]) (s.w.now + d)
      (s1.w.now + p.readTimeout) b reply [] hp1 (by rw [hnow1]; omega) hseg hnc1
  have hkey2 : curKey s2 = none := by simp [curKey, hc2, hcore2, c1, cf, bump]
  have hacc : acceptReply p s2 key reply = (.ok (), opAccept s2 lk (s2.w.now + p.authExpiry)) := by
    unfold acceptReply
    rw [hkey2, hproc]
    simp only
    rw [hlk]
  let c3 : Conn := { c2 with core := { c2.core with localKey := some lk }, keyExpiry := some (s2.w.now + p.authExpiry) }
  have hs3 : (opAccept s2 lk (s2.w.now + p.authExpiry)).l.conn = some c3 := by
    simp [opAccept, hc2, logEv, c3]
  refine ⟨opAccept s2 lk (s2.w.now + p.authExpiry), c3, ?_, ⟨hs3, by simp [c3, hcl2], by simp [c3, hq2], ?_, ?_,
    by rw [cancelAt_opAccept]; exact hnc2⟩, ?_, ?_, ?_, ?_⟩
  · unfold protoAuthenticate
    simp only [htok.1, hkey, Bool.false_eq_true, or_self, ↓reduceIte]
    rw [hw]
    simp only
    rw [ha]
    simp only
    exact hacc
  · simp [opAccept, hc2, logEv, hp2]
  · intro _; exact ⟨lk, by simp [c3]⟩
  · simp [c3, hcore2, c1, cf, bump]
  · simp [c3, hb2, c1, cf, bump, hv, hbuf, hparse]
  · simp [c3, opAccept, hc2, logEv]
  · simp [evsOf, opAccept, hc2, logEv, hlog2, s1, react, setCore, hsfw.2.2.2, hcore2, c1, cf, bump]


theorem pump_quiet {s : S} (t : Nat) (h : s.w.pending = []) : pump s t = setNow s t := by
  unfold pump; rw [h]; rfl

/-- an exchange from an idle session whose peer answers the first transmission promptly with exactly one
    decodable item returns exactly that response, after one transmission -/
theorem exchange_answered {p : Params} {rx : Reactions} {s : S} {c : Conn} (frame : Bytes) (n : Nat) (h : Ready s c)
    (d : Nat) (b pkt f : Bytes) (hrx : rx c.core.cid c.core.nWrites = [(d, .data b)]) (hd : d ≤ p.readTimeout)
    (hseg : segQueue c.core.v3 c.buffer b = [pkt]) (hdec : decodeWith c.core.v3 c.core.localKey pkt = .ok f) :
    ∃ s', exchange p rx s frame (n + 1) = (.ok [f], s') ∧ nData (evsOf s') = nData (evsOf s) + 1 := by
  have hpre : readAvailable (queueLen s + 1) s [] = (.ok [], s) := by
    simp [readAvailable, queueHead, h.conn, h.queue]
  obtain ⟨s2, c2, hloop, hn2, hc2, hq2, _⟩ := sendLoop_answered_at (p := p) (rx := rx) (frame := frame) 0 (n + 1) s c []
    (by omega) h (by intro i hi; omega) d b pkt f [] (by simpa using hrx) hd hseg hdec
  have hpost : readAvailable (queueLen s2 + 1) s2 ([] ++ [f]) = (.ok [f], s2) := by
    simp [readAvailable, queueHead, hc2, hq2]
  refine ⟨s2, ?_, hn2⟩
  unfold exchange
  rw [hpre]; simp only
  rw [hloop]; simp only
  exact hpost

theorem pending_opDisconnect (s : S) : (opDisconnect s).w.pending = s.w.pending := by
  unfold opDisconnect; split <;> rfl
theorem connects_opDisconnect (s : S) : (opDisconnect s).w.connects = s.w.connects := by
  unfold opDisconnect; split <;> rfl
theorem nConn_opDisconnect (s : S) : (opDisconnect s).w.nConn = s.w.nConn := by
  unfold opDisconnect; split <;> rfl
theorem now_opDisconnect (s : S) : (opDisconnect s).w.now = s.w.now := by
  unfold opDisconnect; split <;> rfl
theorem key_opDisconnect (s : S) : (opDisconnect s).l.key = s.l.key := by
  unfold opDisconnect; split <;> rfl
theorem connExpiry_opDisconnect (s : S) : (opDisconnect s).l.connExpiry = s.l.connExpiry := by
  unfold opDisconnect; split <;> rfl
theorem maxLifetime_opDisconnect (s : S) : (opDisconnect s).l.maxLifetime = s.l.maxLifetime := by
  unfold opDisconnect; split <;> rfl

/-- the expiry a new connection gets is in the future (or absent): no stale expiry is inherited -/
def FreshExpiryOk (s : S) : Prop := ∀ e, newExpiry s = some e → s.w.now ≤ e

theorem freshExpiryOk_of (s : S) (h : s.l.connExpiry = none ∨ ∃ m, s.l.maxLifetime = some m ∧ m ≠ 0) : FreshExpiryOk s := by
  intro e he
  unfold newExpiry at he
  rcases h with h | ⟨m, hm, hm0⟩
  · cases hml : s.l.maxLifetime with
    | none => rw [hml] at he; simp only at he; rw [h] at he; cases he
    | some m =>
      rw [hml] at he; simp only at he
      split at he
      · rw [h] at he; cases he
      · cases he; omega
  · rw [hm] at he; simp only at he
    rw [if_neg hm0] at he; cases he; omega

/-- **recovery on V3**: from every state whose connection is not alive, on a quiet network, with stored
    credentials, a connect that succeeds and a device that answers the handshake request and then the
    data request promptly: reconnect, handshake, one transmission, the device's response -/
theorem lanSend_recovers_v3 {p : Params} {rx : Reactions} {s : S} (frame : Bytes) (n : Nat) (cs : List ConnOutcome)
    (tok key : Bytes) (hver : s.l.version = 3) (hal : connAlive s = false) (hquiet : s.w.pending = [])
    (hnc : s.w.cancelAt = none)
    (hconn : s.w.connects = .ok :: cs) (hexp : FreshExpiryOk s)
    (htok : s.l.token = some tok) (hkey : s.l.key = some key)
    (htok' : tok.isEmpty = false ∧ tok.length < 65536) (hkey' : key.isEmpty = false)
    (d0 : Nat) (b0 reply payload lk : Bytes) (hrx0 : rx (s.w.nConn + 1) 0 = [(d0, .data b0)]) (hd0 : d0 ≤ p.readTimeout)
    (hparse0 : parseLoop b0 = ([reply], [])) (hproc : processPacket none reply = .ok payload)
    (hlk : getLocalKey key payload = .ok lk)
    (d1 : Nat) (b1 pkt f : Bytes) (hrx1 : rx (s.w.nConn + 1) 1 = [(d1, .data b1)]) (hd1 : d1 ≤ p.readTimeout)
    (hparse1 : parseLoop b1 = ([pkt], [])) (hdec : decodeWith true (some lk) pkt = .ok f) :
    ∃ s', lanSend p rx s frame (n + 1) = (.ok [f], s') ∧ nData (evsOf s') = nData (evsOf s) + 1 ∧
      ∃ tr, evsOf s' = evsOf s ++ tr ∧ .accept (s.w.nConn + 1) lk ∈ tr := by
  let s0 := opDisconnect s
  let s1 := opConnected (dropConnect s0)
  have hoc : opConnect p s0 = (.ok (), s1) := by
    unfold opConnect; rw [connects_opDisconnect, hconn]
  let c1 : Conn := { core := { cid := s.w.nConn + 1, v3 := true } }
  have hc1 : s1.l.conn = some c1 := by
    simp [s1, s0, opConnected, logEv, dropConnect, nConn_opDisconnect, c1, version_opDisconnect, hver]
  have hv1 : isV3 s1 = true := by simp [isV3, hc1, c1]
  have hna1 : authenticated s1 = false := authenticated_fresh _
  have hal1 : connAlive s1 = true := by
    unfold connAlive
    rw [hc1]
    simp only [c1, Bool.not_false, Bool.true_and]
    have hne : s1.l.connExpiry = newExpiry (dropConnect s0) := by simp [s1, opConnected, logEv]
    have hnow : s1.w.now = s.w.now := by simp [s1, s0, opConnected, logEv, dropConnect, now_opDisconnect]
    have hne2 : newExpiry (dropConnect s0) = newExpiry s := by
      simp [newExpiry, dropConnect, s0, maxLifetime_opDisconnect, connExpiry_opDisconnect, now_opDisconnect]
    rw [hne, hne2]
    cases he : newExpiry s with
    | none => rfl
    | some e => simp only [decide_eq_true_eq]; rw [hnow]; exact hexp e he
  have htok1 : s1.l.token = some tok := by simp [s1, s0, token_opDisconnect, dropConnect, htok]
  have hkey1 : s1.l.key = some key := by simp [s1, s0, opConnected, logEv, dropConnect, key_opDisconnect, hkey]
  have hq1 : s1.w.pending = [] := by
    show (opDisconnect s).w.pending = []
    rw [pending_opDisconnect]; exact hquiet
  have hnc1 : s1.w.cancelAt = none := by
    show (opDisconnect s).w.cancelAt = none
    rw [cancelAt_opDisconnect]; exact hnc
  -- the handshake
  obtain ⟨s4, c4, hpa, hr4, hcore4, hbuf4, hke4, hev4⟩ := protoAuthenticate_answered (p := p) (rx := rx) (s := s1) (c := c1)
    tok key hc1 rfl rfl hq1 hnc1 rfl htok' hkey' d0 b0 reply payload lk (by simpa [c1] using hrx0) hd0 hparse0
    (by simpa [c1] using hproc) hlk
  have hauth4 : authenticated s4 = true := by
    simp [authenticated, hr4.conn, hcore4, hke4]
  have hloop : authLoop p rx (some tok) (some key) Generated.lanRetries s1 = (.ok (), s4) := by
    show authLoop p rx (some tok) (some key) (2 + 1) s1 = _
    rw [authLoop, hpa]
  let s5 := pump (storeCreds s4 (some tok) (some key)) (s4.w.now + p.authSleep)
  have hfin : finishAuth p s4 (some tok) (some key) = (.ok (), s5) := by
    unfold finishAuth; simp [hauth4, s5]
  have hs5 : s5 = setNow (storeCreds s4 (some tok) (some key)) (s4.w.now + p.authSleep) :=
    pump_quiet _ (by simpa [storeCreds] using hr4.quiet)
  have hr5 : Ready s5 c4 := by
    rw [hs5]
    exact ⟨by simpa [setNow, storeCreds] using hr4.conn, hr4.open_, hr4.queue, by simpa [setNow, storeCreds] using hr4.quiet, hr4.key,
      by simpa [setNow, storeCreds] using hr4.unarmed⟩
  have hev5 : evsOf s5 = evsOf s4 := by rw [hs5]; rfl
  have hla : lanAuthenticate p rx s1 none none Generated.lanRetries = (.ok (), s5) := by
    unfold lanAuthenticate
    rw [if_neg (by simp [hal1, hv1])]
    simp only [pickCred_none, htok1, hkey1]
    rw [hloop]
    simp only
    exact hfin
  have hea : ensureAuth p rx s1 = (.ok (), s5) := by
    unfold ensureAuth
    rw [if_pos (by simp [hv1, hna1])]
    exact hla
  -- the exchange
  obtain ⟨s6, hex, hn6⟩ := exchange_answered (p := p) (rx := rx) (s := s5) (c := c4) frame n hr5 d1 b1 pkt f
    (by simpa [hcore4, bump, c1] using hrx1) hd1
    (by simp [segQueue, hcore4, bump, c1, hbuf4, hparse1])
    (by simpa [hcore4, bump, c1] using hdec)
  have hev1 : evsOf s1 = evsOf s0 ++ [.connect (s.w.nConn + 1) true] := by
    simp [s1, s0, opConnected, evsOf, logEv, dropConnect, nConn_opDisconnect, version_opDisconnect, hver]
  obtain ⟨tr6, htr6⟩ : ∃ tr, evsOf s6 = evsOf s5 ++ tr := by
    obtain ⟨tr, ht, _⟩ := exchange_tr hex
    exact ⟨tr, ht.evs⟩
  obtain ⟨tr0, htr0⟩ : ∃ tr, evsOf s0 = evsOf s ++ tr := by
    obtain ⟨tr, ht, _⟩ := opDisconnect_tr' s
    exact ⟨tr, ht.evs⟩
  refine ⟨s6, ?_, ?_, tr0 ++ [.connect (s.w.nConn + 1) true] ++ [.forget c1.core.cid, .wrHS c1.core.cid c1.core.packetId tok, .accept c1.core.cid lk] ++ tr6, ?_, ?_⟩
  · unfold lanSend
    rw [if_pos (by simp [hal])]
    have hoc' : opConnect p (opDisconnect s) = (.ok (), s1) := hoc
    rw [hoc']; simp only
    rw [hea]; simp only
    exact hex
  · rw [hn6, hev5, hev4, hev1, nData_append, nData_append]
    have : nData (evsOf s0) = nData (evsOf s) := nData_evsOf_opDisconnect s
    rw [this]; simp [nData, isData]
  · rw [htr6, hev5, hev4, hev1, htr0]; simp
  · simp [c1]


/-- **recovery on V3 without a reconnect**: the connection is alive but the protocol object is not
    authenticated (a handshake failed on it, or its key is older than the authentication lifetime); on a
    quiet network with an empty reassembly buffer the next exchange handshakes on the same connection
    and returns the device's response -/
theorem lanSend_reauth_same_connection {p : Params} {rx : Reactions} {s : S} {c : Conn} (frame : Bytes) (n : Nat)
    (tok key : Bytes) (hc : s.l.conn = some c) (hcl : c.closing = false) (hv : c.core.v3 = true)
    (hal : connAlive s = true) (hna : authenticated s = false) (hquiet : s.w.pending = [])
    (hnc : s.w.cancelAt = none) (hbuf : c.buffer = [])
    (htok : s.l.token = some tok) (hkey : s.l.key = some key)
    (htok' : tok.isEmpty = false ∧ tok.length < 65536) (hkey' : key.isEmpty = false)
    (d0 : Nat) (b0 reply payload lk : Bytes) (hrx0 : rx c.core.cid c.core.nWrites = [(d0, .data b0)])
    (hd0 : d0 ≤ p.readTimeout) (hparse0 : parseLoop b0 = ([reply], [])) (hproc : processPacket none reply = .ok payload)
    (hlk : getLocalKey key payload = .ok lk)
    (d1 : Nat) (b1 pkt f : Bytes) (hrx1 : rx c.core.cid (c.core.nWrites + 1) = [(d1, .data b1)]) (hd1 : d1 ≤ p.readTimeout)
    (hparse1 : parseLoop b1 = ([pkt], [])) (hdec : decodeWith true (some lk) pkt = .ok f) :
    ∃ s', lanSend p rx s frame (n + 1) = (.ok [f], s') ∧ nData (evsOf s') = nData (evsOf s) + 1 ∧
      ∃ tr, evsOf s' = evsOf s ++ tr ∧ .accept c.core.cid lk ∈ tr := by
  have hv1 : isV3 s = true := by simp [isV3, hc, hv]
  obtain ⟨s4, c4, hpa, hr4, hcore4, hbuf4, hke4, hev4⟩ := protoAuthenticate_answered (p := p) (rx := rx) (s := s) (c := c)
    tok key hc hcl hv hquiet hnc hbuf htok' hkey' d0 b0 reply payload lk hrx0 hd0 hparse0 hproc hlk
  have hauth4 : authenticated s4 = true := by
    simp [authenticated, hr4.conn, hcore4, hke4]
  have hloop : authLoop p rx (some tok) (some key) Generated.lanRetries s = (.ok (), s4) := by
    show authLoop p rx (some tok) (some key) (2 + 1) s = _
    rw [authLoop, hpa]
  let s5 := pump (storeCreds s4 (some tok) (some key)) (s4.w.now + p.authSleep)
  have hfin : finishAuth p s4 (some tok) (some key) = (.ok (), s5) := by
    unfold finishAuth; simp [hauth4, s5]
  have hs5 : s5 = setNow (storeCreds s4 (some tok) (some key)) (s4.w.now + p.authSleep) :=
    pump_quiet _ (by simpa [storeCreds] using hr4.quiet)
  have hr5 : Ready s5 c4 := by
    rw [hs5]
    exact ⟨by simpa [setNow, storeCreds] using hr4.conn, hr4.open_, hr4.queue, by simpa [setNow, storeCreds] using hr4.quiet, hr4.key,
      by simpa [setNow, storeCreds] using hr4.unarmed⟩
  have hev5 : evsOf s5 = evsOf s4 := by rw [hs5]; rfl
  have hla : lanAuthenticate p rx s none none Generated.lanRetries = (.ok (), s5) := by
    unfold lanAuthenticate
    rw [if_neg (by simp [hal, hv1])]
    simp only [pickCred_none, htok, hkey]
    rw [hloop]
    simp only
    exact hfin
  have hea : ensureAuth p rx s = (.ok (), s5) := by
    unfold ensureAuth
    rw [if_pos (by simp [hv1, hna])]
    exact hla
  obtain ⟨s6, hex, hn6⟩ := exchange_answered (p := p) (rx := rx) (s := s5) (c := c4) frame n hr5 d1 b1 pkt f
    (by simpa [hcore4, bump] using hrx1) hd1
    (by simp [segQueue, hcore4, bump, hv, hbuf4, hparse1])
    (by simpa [hcore4, bump, hv] using hdec)
  obtain ⟨tr6, htr6⟩ : ∃ tr, evsOf s6 = evsOf s5 ++ tr := by
    obtain ⟨tr, ht, _⟩ := exchange_tr hex
    exact ⟨tr, ht.evs⟩
  refine ⟨s6, ?_, ?_, [.forget c.core.cid, .wrHS c.core.cid c.core.packetId tok, .accept c.core.cid lk] ++ tr6, ?_, by simp⟩
  · unfold lanSend
    rw [if_neg (by simp [hal])]
    rw [hea]; simp only
    exact hex
  · rw [hn6, hev5, hev4, nData_append]
    simp [nData, isData]
  · rw [htr6, hev5, hev4]; simp

end Msmart.Lemmas.Sess
