/-
  The abstract connection automaton that the Session model refines.

  Abstract state = what the session-discipline properties talk about: the structural write log,
  the connection counter, the session-critical core of the current protocol object and the
  protocol version.  `A.step` is the (deterministic) effect of one critical operation, named by the
  event it logs; `A.Run` is any interleaving of critical operations with "soft" steps (which leave
  the abstract state alone, except that the protocol version may move to 3).  All invariants of C07
  are proved here, for EVERY run of the automaton — the LAN control flow is not mentioned.  The
  refinement (every operation of the Session model is a run of this automaton) is in
  `Lemmas/SessionTrace.lean`.
-/
import Msmart.Model.Session

namespace Msmart.Lemmas.Sess
open Msmart Msmart.Model Msmart.Model.Session

structure A where
  evs : List Ev := []
  nConn : Nat := 0
  core : Option Core := none
  version : Nat := 2

def bumpV2 (c : Core) : Core := { c with nWrites := c.nWrites + 1 }
def withKey (c : Core) (k : Bytes) : Core := { c with localKey := some k }
def noKey (c : Core) : Core := { c with localKey := none }
def freshCore (cid : Nat) (v3 : Bool) : Core := { cid := cid, v3 := v3 }

/-- effect of one critical operation on the core / counter, or `none` if the automaton refuses it -/
def A.eff (a : A) (e : Ev) : Option (Option Core × Nat) :=
  match e, a.core with
  | .connect cid v3, none =>
    if cid = a.nConn + 1 ∧ v3 = decide (a.version = 3) then some (some (freshCore cid v3), cid) else none
  | .wrHS cid ctr _, some c =>
    if c.cid = cid ∧ c.packetId = ctr then some (some (bump c), a.nConn) else none
  | .wrData cid ctr k _, some c =>
    if c.cid = cid ∧ c.packetId = ctr ∧ c.localKey = some k then some (some (bump c), a.nConn) else none
  | .wrV2 cid _, some c =>
    if c.cid = cid ∧ c.v3 = false then some (some (bumpV2 c), a.nConn) else none
  | .accept cid k, some c =>
    if c.cid = cid then some (some (withKey c k), a.nConn) else none
  | .forget cid, some c =>
    if c.cid = cid then some (some (noKey c), a.nConn) else none
  | .closed cid, some c =>
    if c.cid = cid then some (none, a.nConn) else none
  | _, _ => none

/-- `a —e→ a'` -/
def A.Step (a : A) (e : Ev) (a' : A) : Prop :=
  a.eff e = some (a'.core, a'.nConn) ∧ a'.evs = a.evs ++ [e] ∧ a'.version = a.version

/-- a soft step: nothing changes, except that the protocol version may be set to 3 -/
def A.Soft (a a' : A) : Prop :=
  a'.evs = a.evs ∧ a'.nConn = a.nConn ∧ a'.core = a.core ∧ (a'.version = a.version ∨ a'.version = 3)

inductive A.Run : A → List Ev → A → Prop
  | refl (a : A) : A.Run a [] a
  | soft {a a1 a2 : A} {tr : List Ev} : A.Soft a a1 → A.Run a1 tr a2 → A.Run a tr a2
  | crit {a a1 a2 : A} {e : Ev} {tr : List Ev} : A.Step a e a1 → A.Run a1 tr a2 → A.Run a (e :: tr) a2

theorem A.Run.trans {a b c : A} {t1 t2 : List Ev} (h1 : A.Run a t1 b) (h2 : A.Run b t2 c) : A.Run a (t1 ++ t2) c := by
  induction h1 with
  | refl => simpa using h2
  | soft hs _ ih => exact .soft hs (ih h2)
  | crit hc _ ih => exact .crit hc (ih h2)

theorem A.Run.ofSoft {a b : A} (h : A.Soft a b) : A.Run a [] b := .soft h (.refl b)
theorem A.Run.ofStep {a b : A} {e : Ev} (h : A.Step a e b) : A.Run a [e] b := .crit h (.refl b)

theorem A.Soft.rfl' (a : A) : A.Soft a a := ⟨rfl, rfl, rfl, .inl rfl⟩

/-- the log only grows, by exactly the trace -/
theorem A.Run.evs {a b : A} {tr : List Ev} (h : A.Run a tr b) : b.evs = a.evs ++ tr := by
  induction h with
  | refl => simp
  | soft hs _ ih => rw [ih, hs.1]
  | crit hc _ ih => rw [ih, hc.2.1]; simp

/-! ### observers of the log -/

def evCid : Ev → Nat
  | .connect c _ => c | .wrHS c _ _ => c | .wrData c _ _ _ => c | .wrV2 c _ => c | .accept c _ => c | .forget c => c | .closed c => c

/-- an encrypted request or a V2 packet: anything that carries application data -/
def isData : Ev → Bool
  | .wrData .. => true | .wrV2 .. => true | _ => false

def isConnect : Ev → Bool
  | .connect .. => true | _ => false

/-- what one event does to the session key held for connection `cid` -/
def keyStep (cid : Nat) (k : Option Bytes) : Ev → Option Bytes
  | .accept c k' => if c = cid then some k' else k
  | .forget c => if c = cid then none else k
  | _ => k

/-- the session key accepted on connection `cid` by the latest handshake started on it, if that
    handshake succeeded (an acceptance not followed by the start of another handshake) -/
def lastAccept (cid : Nat) (l : List Ev) : Option Bytes := l.foldl (keyStep cid) none

/-- number of V3 packets (handshake requests and encrypted requests) written on connection `cid` -/
def nPackets (cid : Nat) : List Ev → Nat
  | [] => 0
  | .wrHS c _ _ :: t => (if c = cid then 1 else 0) + nPackets cid t
  | .wrData c _ _ _ :: t => (if c = cid then 1 else 0) + nPackets cid t
  | _ :: t => nPackets cid t

theorem lastAccept_snoc (cid : Nat) (l : List Ev) (e : Ev) :
    lastAccept cid (l ++ [e]) = keyStep cid (lastAccept cid l) e := by
  simp [lastAccept, List.foldl_append]

theorem nPackets_append (cid : Nat) (a b : List Ev) : nPackets cid (a ++ b) = nPackets cid a + nPackets cid b := by
  induction a with
  | nil => simp [nPackets]
  | cons e t ih => cases e <;> simp [nPackets, ih] <;> omega

theorem keyStep_other {cid : Nat} {e : Ev} (h : evCid e ≠ cid) (k : Option Bytes) : keyStep cid k e = k := by
  cases e <;> simp_all [keyStep, evCid]

theorem foldl_keyStep_other (cid : Nat) (l : List Ev) (h : ∀ e ∈ l, evCid e ≠ cid) (k : Option Bytes) :
    l.foldl (keyStep cid) k = k := by
  induction l generalizing k with
  | nil => rfl
  | cons e t ih =>
    simp only [List.foldl_cons]
    rw [keyStep_other (h e (List.mem_cons_self ..)), ih (fun x hx => h x (List.mem_cons_of_mem _ hx))]

theorem lastAccept_none_of_bound (cid : Nat) (l : List Ev) (h : ∀ e ∈ l, evCid e < cid) : lastAccept cid l = none :=
  foldl_keyStep_other cid l (fun e he => by have := h e he; omega) none

theorem nPackets_zero_of_bound (cid : Nat) (l : List Ev) (h : ∀ e ∈ l, evCid e < cid) : nPackets cid l = 0 := by
  induction l with
  | nil => rfl
  | cons e t ih =>
    have ht := ih (fun x hx => h x (List.mem_cons_of_mem _ hx))
    have he := h e (List.mem_cons_self ..)
    cases e <;> simp only [nPackets, ht, evCid] at * <;> rw [if_neg (by omega)]

/-! ### the well-formedness of a log (what C07 states), by position -/

/-- what must hold of the event `e` written after the events `pre` -/
def EvOk (pre : List Ev) (e : Ev) : Prop :=
  match e with
  | .wrData cid ctr k _ =>
      lastAccept cid pre = some k ∧ ctr = nPackets cid pre % 4096 ∧
      (∃ v3, .connect cid v3 ∈ pre) ∧ .closed cid ∉ pre
  | .wrHS cid ctr _ =>
      ctr = nPackets cid pre % 4096 ∧ (∃ v3, .connect cid v3 ∈ pre) ∧ .closed cid ∉ pre
  | .wrV2 cid _ => .connect cid false ∈ pre ∧ .closed cid ∉ pre
  | .accept cid _ => (∃ v3, .connect cid v3 ∈ pre) ∧ .closed cid ∉ pre
  | .forget cid => (∃ v3, .connect cid v3 ∈ pre) ∧ .closed cid ∉ pre
  | .connect cid _ => ∀ x ∈ pre, evCid x < cid
  | .closed cid => (∃ v3, .connect cid v3 ∈ pre) ∧ .closed cid ∉ pre

def WF (l : List Ev) : Prop := ∀ pre e post, l = pre ++ [e] ++ post → EvOk pre e

theorem wf_nil : WF [] := by intro pre e post h; simp at h

theorem wf_snoc {l : List Ev} {e : Ev} (h : WF l) (he : EvOk l e) : WF (l ++ [e]) := by
  intro pre x post heq
  rcases List.eq_nil_or_concat post with hp | ⟨post', y, hp⟩
  · subst hp
    simp only [List.append_nil] at heq
    obtain ⟨rfl, hx⟩ := List.append_inj' heq rfl
    simp only [List.cons.injEq, and_true] at hx
    subst hx
    exact he
  · subst hp
    have h2 : l ++ [e] = (pre ++ [x] ++ post') ++ [y] := by simpa [List.append_assoc] using heq
    exact h pre x post' (List.append_inj' h2 rfl).1

theorem wf_prefix {l m : List Ev} (h : WF (l ++ m)) : WF l := by
  intro pre e post heq
  exact h pre e (post ++ m) (by rw [heq]; simp)

/-! ### the invariant of the automaton -/

structure CoreOk (a : A) (c : Core) : Prop where
  cid : c.cid = a.nConn
  key : c.localKey = lastAccept c.cid a.evs
  ctr : c.packetId = nPackets c.cid a.evs % 4096
  conn : .connect c.cid c.v3 ∈ a.evs
  open_ : .closed c.cid ∉ a.evs

structure Inv (a : A) : Prop where
  bound : ∀ e ∈ a.evs, evCid e ≤ a.nConn
  core : ∀ c, a.core = some c → CoreOk a c
  wf : WF a.evs
  /-- every connection ever made is closed, except the current one -/
  others : ∀ cid v3, .connect cid v3 ∈ a.evs → .closed cid ∈ a.evs ∨ ∃ c, a.core = some c ∧ c.cid = cid

theorem inv_init : Inv {} := ⟨by simp, by simp, wf_nil, by simp⟩

theorem Inv.soft {a a' : A} (h : Inv a) (hs : A.Soft a a') : Inv a' := by
  obtain ⟨h1, h2, h3, _⟩ := hs
  refine ⟨by rw [h1, h2]; exact h.bound, ?_, by rw [h1]; exact h.wf, by rw [h1, h3]; exact h.others⟩
  intro c hc
  rw [h3] at hc
  have := h.core c hc
  exact ⟨by rw [h2]; exact this.cid, by rw [h1]; exact this.key, by rw [h1]; exact this.ctr,
         by rw [h1]; exact this.conn, by rw [h1]; exact this.open_⟩

theorem mem_snoc {α} {x e : α} {l : List α} : x ∈ l ++ [e] ↔ x ∈ l ∨ x = e := by simp

/-- a step that keeps the current connection (everything but connect and close) -/
theorem Inv.step_keep {a a' : A} {e : Ev} {c c' : Core} (h : Inv a) (hcore : a.core = some c)
    (hevs : a'.evs = a.evs ++ [e]) (hn : a'.nConn = a.nConn) (hc' : a'.core = some c')
    (hcid : c'.cid = c.cid) (hv3 : c'.v3 = c.v3) (hecid : evCid e = c.cid)
    (hnc : ∀ x v, e ≠ .connect x v) (hncl : ∀ x, e ≠ .closed x)
    (hkey : c'.localKey = lastAccept c.cid (a.evs ++ [e]))
    (hctr : c'.packetId = nPackets c.cid (a.evs ++ [e]) % 4096)
    (hok : EvOk a.evs e) : Inv a' := by
  have ok := h.core c hcore
  refine ⟨?_, ?_, by rw [hevs]; exact wf_snoc h.wf hok, ?_⟩
  · intro x hx; rw [hevs] at hx
    rcases mem_snoc.1 hx with hx | rfl
    · rw [hn]; exact h.bound x hx
    · rw [hn, hecid, ok.cid]; exact Nat.le_refl _
  · intro c2 hc2
    rw [hc'] at hc2; cases hc2
    refine ⟨by rw [hcid, hn]; exact ok.cid, by rw [hcid, hevs]; exact hkey, by rw [hcid, hevs]; exact hctr, ?_, ?_⟩
    · rw [hcid, hv3, hevs]; exact mem_snoc.2 (.inl ok.conn)
    · rw [hcid, hevs]; intro hm
      rcases mem_snoc.1 hm with hm | hm
      · exact ok.open_ hm
      · exact hncl _ hm.symm
  · intro cid v3 hm; rw [hevs] at hm
    rcases mem_snoc.1 hm with hm | hm
    · rcases h.others cid v3 hm with hcl | ⟨c0, hc0, hc0id⟩
      · exact .inl (by rw [hevs]; exact mem_snoc.2 (.inl hcl))
      · rw [hcore] at hc0; cases hc0
        exact .inr ⟨c', hc', by rw [hcid, hc0id]⟩
    · exact absurd hm.symm (hnc _ _)

/-- inversion of `A.eff` -/
theorem A.eff_inv {a : A} {e : Ev} {oc : Option Core} {n : Nat} (h : a.eff e = some (oc, n)) :
    (∃ cid v3, e = .connect cid v3 ∧ a.core = none ∧ cid = a.nConn + 1 ∧ v3 = decide (a.version = 3) ∧
        oc = some (freshCore cid v3) ∧ n = cid) ∨
    (∃ c, a.core = some c ∧ n = a.nConn ∧
      ((∃ tok, e = .wrHS c.cid c.packetId tok ∧ oc = some (bump c)) ∨
       (∃ k f, e = .wrData c.cid c.packetId k f ∧ c.localKey = some k ∧ oc = some (bump c)) ∨
       (∃ f, e = .wrV2 c.cid f ∧ c.v3 = false ∧ oc = some (bumpV2 c)) ∨
       (∃ k, e = .accept c.cid k ∧ oc = some (withKey c k)) ∨
       (e = .forget c.cid ∧ oc = some (noKey c)) ∨
       (e = .closed c.cid ∧ oc = none))) := by
  unfold A.eff at h
  split at h
  · split at h
    · rename_i hc
      simp only [Option.some.injEq, Prod.mk.injEq] at h
      exact .inl ⟨_, _, rfl, by assumption, hc.1, hc.2, h.1.symm, h.2.symm⟩
    · cases h
  · split at h
    · rename_i c hcore hc
      simp only [Option.some.injEq, Prod.mk.injEq] at h
      obtain ⟨rfl, rfl⟩ := hc
      exact .inr ⟨c, hcore, h.2.symm, .inl ⟨_, rfl, h.1.symm⟩⟩
    · cases h
  · split at h
    · rename_i c hcore hc
      simp only [Option.some.injEq, Prod.mk.injEq] at h
      obtain ⟨rfl, rfl, hk⟩ := hc
      exact .inr ⟨c, hcore, h.2.symm, .inr (.inl ⟨_, _, rfl, hk, h.1.symm⟩)⟩
    · cases h
  · split at h
    · rename_i c hcore hc
      simp only [Option.some.injEq, Prod.mk.injEq] at h
      obtain ⟨rfl, hv⟩ := hc
      exact .inr ⟨c, hcore, h.2.symm, .inr (.inr (.inl ⟨_, rfl, hv, h.1.symm⟩))⟩
    · cases h
  · split at h
    · rename_i c hcore hc
      simp only [Option.some.injEq, Prod.mk.injEq] at h
      subst hc
      exact .inr ⟨c, hcore, h.2.symm, .inr (.inr (.inr (.inl ⟨_, rfl, h.1.symm⟩)))⟩
    · cases h
  · split at h
    · rename_i c hcore hc
      simp only [Option.some.injEq, Prod.mk.injEq] at h
      subst hc
      exact .inr ⟨c, hcore, h.2.symm, .inr (.inr (.inr (.inr (.inl ⟨rfl, h.1.symm⟩))))⟩
    · cases h
  · split at h
    · rename_i c hcore hc
      simp only [Option.some.injEq, Prod.mk.injEq] at h
      subst hc
      exact .inr ⟨c, hcore, h.2.symm, .inr (.inr (.inr (.inr (.inr ⟨rfl, h.1.symm⟩))))⟩
    · cases h
  · cases h


theorem Inv.step {a a' : A} {e : Ev} (h : Inv a) (hs : A.Step a e a') : Inv a' := by
  obtain ⟨heff, hevs, _⟩ := hs
  rcases A.eff_inv heff with ⟨cid, v3, rfl, hnone, rfl, _, hoc, hn⟩ | ⟨c, hcore, hn, hcase⟩
  · -- connect: a brand-new connection id
    have hlt : ∀ x ∈ a.evs, evCid x < a.nConn + 1 := fun x hx => Nat.lt_succ_of_le (h.bound x hx)
    refine ⟨?_, ?_, by rw [hevs]; exact wf_snoc h.wf hlt, ?_⟩
    · intro x hx; rw [hevs] at hx
      rcases mem_snoc.1 hx with hx | rfl
      · rw [hn]; exact Nat.le_succ_of_le (h.bound x hx)
      · simp [evCid, hn]
    · intro c hc
      rw [hoc] at hc; cases hc
      refine ⟨by simp [freshCore, hn], ?_, ?_, ?_, ?_⟩
      · rw [hevs, lastAccept_snoc]; simp [freshCore, lastAccept_none_of_bound _ _ hlt, keyStep]
      · rw [hevs, nPackets_append]; simp [freshCore, nPackets, nPackets_zero_of_bound _ _ hlt]
      · rw [hevs]; simp [freshCore]
      · rw [hevs]; intro hm
        rcases mem_snoc.1 hm with hm | hm
        · have := hlt _ hm; simp [evCid, freshCore] at this
        · cases hm
    · intro cid v hm; rw [hevs] at hm
      rcases mem_snoc.1 hm with hm | hm
      · rcases h.others cid v hm with hcl | ⟨c0, hc0, _⟩
        · exact .inl (by rw [hevs]; exact mem_snoc.2 (.inl hcl))
        · rw [hnone] at hc0; cases hc0
      · cases hm; exact .inr ⟨_, hoc, by simp [freshCore]⟩
  · have ok := h.core c hcore
    rcases hcase with ⟨tok, rfl, hoc⟩ | ⟨k, f, rfl, hk, hoc⟩ | ⟨f, rfl, hf, hoc⟩ | ⟨k, rfl, hoc⟩ | ⟨rfl, hoc⟩ | ⟨rfl, hoc⟩
    · exact h.step_keep hcore hevs hn hoc rfl rfl rfl (by intro _ _ hh; cases hh) (by intro _ hh; cases hh)
        (by rw [lastAccept_snoc]; simp [bump, ok.key, keyStep])
        (by rw [nPackets_append]; simp [bump, nPackets, ok.ctr])
        ⟨ok.ctr, ⟨_, ok.conn⟩, ok.open_⟩
    · exact h.step_keep hcore hevs hn hoc rfl rfl rfl (by intro _ _ hh; cases hh) (by intro _ hh; cases hh)
        (by rw [lastAccept_snoc]; simp [bump, ok.key, keyStep])
        (by rw [nPackets_append]; simp [bump, nPackets, ok.ctr])
        ⟨by rw [← ok.key, hk], ok.ctr, ⟨_, ok.conn⟩, ok.open_⟩
    · exact h.step_keep hcore hevs hn hoc rfl rfl rfl (by intro _ _ hh; cases hh) (by intro _ hh; cases hh)
        (by rw [lastAccept_snoc]; simp [bumpV2, ok.key, keyStep])
        (by rw [nPackets_append]; simp [bumpV2, nPackets, ok.ctr])
        ⟨by rw [← hf]; exact ok.conn, ok.open_⟩
    · exact h.step_keep hcore hevs hn hoc rfl rfl rfl (by intro _ _ hh; cases hh) (by intro _ hh; cases hh)
        (by rw [lastAccept_snoc]; simp [withKey, keyStep])
        (by rw [nPackets_append]; simp [withKey, nPackets, ok.ctr])
        ⟨⟨_, ok.conn⟩, ok.open_⟩
    · exact h.step_keep hcore hevs hn hoc rfl rfl rfl (by intro _ _ hh; cases hh) (by intro _ hh; cases hh)
        (by rw [lastAccept_snoc]; simp [noKey, keyStep])
        (by rw [nPackets_append]; simp [noKey, nPackets, ok.ctr])
        ⟨⟨_, ok.conn⟩, ok.open_⟩
    · -- close
      refine ⟨?_, ?_, by rw [hevs]; exact wf_snoc h.wf ⟨⟨_, ok.conn⟩, ok.open_⟩, ?_⟩
      · intro x hx; rw [hevs] at hx
        rcases mem_snoc.1 hx with hx | rfl
        · rw [hn]; exact h.bound x hx
        · simp [evCid, hn, ok.cid]
      · intro c2 hc2; rw [hoc] at hc2; cases hc2
      · intro cid v hm; rw [hevs] at hm
        rcases mem_snoc.1 hm with hm | hm
        · rcases h.others cid v hm with hcl | ⟨c0, hc0, hc0id⟩
          · exact .inl (by rw [hevs]; exact mem_snoc.2 (.inl hcl))
          · rw [hcore] at hc0; cases hc0
            exact .inl (by rw [hevs, ← hc0id]; exact mem_snoc.2 (.inr rfl))
        · cases hm

/-- **every run of the automaton preserves the invariant** (any number of steps) -/
theorem Inv.run {a a' : A} {tr : List Ev} (h : Inv a) (hr : A.Run a tr a') : Inv a' := by
  induction hr with
  | refl => exact h
  | soft hs _ ih => exact ih (h.soft hs)
  | crit hc _ ih => exact ih (h.step hc)

/-! ### V3-ness: once the protocol version is 3 every connection is a V3 connection -/

def V3Inv (a : A) : Prop := a.version = 3 ∧ ∀ c, a.core = some c → c.v3 = true

theorem V3Inv.soft {a a' : A} (h : V3Inv a) (hs : A.Soft a a') : V3Inv a' := by
  obtain ⟨_, _, h3, h4⟩ := hs
  refine ⟨by rcases h4 with h4 | h4 <;> simp [h4, h.1], by rw [h3]; exact h.2⟩

/-- with the version at 3, no step writes a V2 packet and every connect is a V3 connect -/
theorem V3Inv.step {a a' : A} {e : Ev} (h : V3Inv a) (hs : A.Step a e a') :
    V3Inv a' ∧ (∀ cid f, e ≠ .wrV2 cid f) ∧ (∀ cid v3, e = .connect cid v3 → v3 = true) := by
  obtain ⟨heff, _, hver⟩ := hs
  have hv : a'.version = 3 := by rw [hver]; exact h.1
  rcases A.eff_inv heff with ⟨cid, v3, rfl, _, _, hv3, hoc, _⟩ | ⟨c, hcore, _, hcase⟩
  · have ht : v3 = true := by rw [hv3]; simp [h.1]
    refine ⟨⟨hv, ?_⟩, ?_, ?_⟩
    · intro c' hc'; rw [hoc] at hc'; cases hc'; simpa [freshCore] using ht
    · intro _ _ hh; cases hh
    · intro _ _ hh; cases hh; exact ht
  · have hc3 := h.2 c hcore
    rcases hcase with ⟨tok, rfl, hoc⟩ | ⟨k, f, rfl, _, hoc⟩ | ⟨f, rfl, hf, hoc⟩ | ⟨k, rfl, hoc⟩ | ⟨rfl, hoc⟩ | ⟨rfl, hoc⟩
    · refine ⟨⟨hv, ?_⟩, ?_, ?_⟩
      · intro c' hc'; rw [hoc] at hc'; cases hc'; simpa [bump] using hc3
      · intro _ _ hh; cases hh
      · intro _ _ hh; cases hh
    · refine ⟨⟨hv, ?_⟩, ?_, ?_⟩
      · intro c' hc'; rw [hoc] at hc'; cases hc'; simpa [bump] using hc3
      · intro _ _ hh; cases hh
      · intro _ _ hh; cases hh
    · rw [hc3] at hf; cases hf
    · refine ⟨⟨hv, ?_⟩, ?_, ?_⟩
      · intro c' hc'; rw [hoc] at hc'; cases hc'; simpa [withKey] using hc3
      · intro _ _ hh; cases hh
      · intro _ _ hh; cases hh
    · refine ⟨⟨hv, ?_⟩, ?_, ?_⟩
      · intro c' hc'; rw [hoc] at hc'; cases hc'; simpa [noKey] using hc3
      · intro _ _ hh; cases hh
      · intro _ _ hh; cases hh
    · refine ⟨⟨hv, ?_⟩, ?_, ?_⟩
      · intro c' hc'; rw [hoc] at hc'; cases hc'
      · intro _ _ hh; cases hh
      · intro _ _ hh; cases hh

theorem V3Inv.run {a a' : A} {tr : List Ev} (h : V3Inv a) (hr : A.Run a tr a') :
    V3Inv a' ∧ (∀ e ∈ tr, (∀ cid f, e ≠ .wrV2 cid f) ∧ (∀ cid v3, e = .connect cid v3 → v3 = true)) := by
  induction hr with
  | refl => exact ⟨h, by simp⟩
  | soft hs _ ih => exact ih (h.soft hs)
  | crit hc _ ih =>
    obtain ⟨h1, h2, h3⟩ := h.step hc
    obtain ⟨i1, i2⟩ := ih h1
    refine ⟨i1, ?_⟩
    intro x hx
    rcases List.mem_cons.1 hx with rfl | hx
    · exact ⟨h2, h3⟩
    · exact i2 x hx

/-! ### a run without connects stays on one connection -/

/-- without a connection only a connect can happen -/
theorem run_from_none {a a' : A} {tr : List Ev} (hr : A.Run a tr a') (hcore : a.core = none)
    (hn : ∀ e ∈ tr, isConnect e = false) : tr = [] ∧ a'.core = none := by
  induction hr with
  | refl => exact ⟨rfl, hcore⟩
  | soft hs _ ih => exact ih (by rw [hs.2.2.1]; exact hcore) hn
  | @crit b b1 b2 e2 tr2 hst2 _ _ =>
    exfalso
    have hne := hn e2 (List.mem_cons_self ..)
    rcases A.eff_inv hst2.1 with ⟨cid, v3, rfl, _⟩ | ⟨c, hc, _⟩
    · simp [isConnect] at hne
    · rw [hcore] at hc; cases hc

theorem run_same_cid {a a' : A} {tr : List Ev} (hr : A.Run a tr a') (hn : ∀ e ∈ tr, isConnect e = false)
    (c : Core) (hc : a.core = some c) :
    (∀ e ∈ tr, evCid e = c.cid) ∧ (∀ c', a'.core = some c' → c'.cid = c.cid) := by
  induction hr generalizing c with
  | refl a => exact ⟨by simp, by intro c' h'; rw [hc] at h'; cases h'; rfl⟩
  | soft hs _ ih => exact ih hn c (by rw [hs.2.2.1]; exact hc)
  | @crit a a1 a2 e tr hst hrun ih =>
    have hne : isConnect e = false := hn e (List.mem_cons_self ..)
    have hn' : ∀ x ∈ tr, isConnect x = false := fun x hx => hn x (List.mem_cons_of_mem _ hx)
    obtain ⟨heff, _, _⟩ := hst
    unfold A.eff at heff
    rw [hc] at heff
    cases e with
    | connect cid v3 => simp [isConnect] at hne
    | closed cid =>
      simp only at heff
      split at heff
      · rename_i hcid
        simp only [Option.some.injEq, Prod.mk.injEq] at heff
        -- after a close nothing but a connect can follow
        have hnil : tr = [] ∧ a2.core = none := run_from_none hrun heff.1.symm hn'
        obtain ⟨rfl, hnone⟩ := hnil
        refine ⟨by simp [evCid, hcid], by intro c' h'; rw [hnone] at h'; cases h'⟩
      · cases heff
    | wrHS cid ctr tok =>
      simp only at heff
      split at heff
      · rename_i hcid
        simp only [Option.some.injEq, Prod.mk.injEq] at heff
        obtain ⟨i1, i2⟩ := ih hn' (bump c) heff.1.symm
        refine ⟨?_, by simpa [bump] using i2⟩
        intro x hx
        rcases List.mem_cons.1 hx with rfl | hx
        · simp [evCid, hcid.1]
        · simpa [bump] using i1 x hx
      · cases heff
    | wrData cid ctr k f =>
      simp only at heff
      split at heff
      · rename_i hcid
        simp only [Option.some.injEq, Prod.mk.injEq] at heff
        obtain ⟨i1, i2⟩ := ih hn' (bump c) heff.1.symm
        refine ⟨?_, by simpa [bump] using i2⟩
        intro x hx
        rcases List.mem_cons.1 hx with rfl | hx
        · simp [evCid, hcid.1]
        · simpa [bump] using i1 x hx
      · cases heff
    | wrV2 cid f =>
      simp only at heff
      split at heff
      · rename_i hcid
        simp only [Option.some.injEq, Prod.mk.injEq] at heff
        obtain ⟨i1, i2⟩ := ih hn' (bumpV2 c) heff.1.symm
        refine ⟨?_, by simpa [bumpV2] using i2⟩
        intro x hx
        rcases List.mem_cons.1 hx with rfl | hx
        · simp [evCid, hcid.1]
        · simpa [bumpV2] using i1 x hx
      · cases heff
    | accept cid k =>
      simp only at heff
      split at heff
      · rename_i hcid
        simp only [Option.some.injEq, Prod.mk.injEq] at heff
        obtain ⟨i1, i2⟩ := ih hn' (withKey c k) heff.1.symm
        refine ⟨?_, by simpa [withKey] using i2⟩
        intro x hx
        rcases List.mem_cons.1 hx with rfl | hx
        · simp [evCid, hcid]
        · simpa [withKey] using i1 x hx
      · cases heff
    | forget cid =>
      simp only at heff
      split at heff
      · rename_i hcid
        simp only [Option.some.injEq, Prod.mk.injEq] at heff
        obtain ⟨i1, i2⟩ := ih hn' (noKey c) heff.1.symm
        refine ⟨?_, by simpa [noKey] using i2⟩
        intro x hx
        rcases List.mem_cons.1 hx with rfl | hx
        · simp [evCid, hcid]
        · simpa [noKey] using i1 x hx
      · cases heff

end Msmart.Lemmas.Sess
