/-
  Containment for the Session model: the receive queue of a V3 connection only ever holds packets
  cut by the reassembly loop (at least 8 bytes), so `_process_packet` cannot hit an IndexError; with
  well-formed credentials every operation of the `LAN` object ends in frames, a protocol /
  authentication error or a timeout — never another exception class.
-/
import Msmart.Lemmas.SessionTrace
import Msmart.Lemmas.SessionCreds

namespace Msmart.Lemmas.Sess
open Msmart Msmart.Model Msmart.Model.Session Msmart.Lemmas

/-! ### what the reassembly queues -/

theorem takePacket_len {buf p r : Bytes} (h : takePacket buf = some (p, r)) : 8 ≤ p.length := by
  unfold takePacket at h
  split at h
  · cases h
  · split at h
    · cases h
    · simp only [Option.some.injEq, Prod.mk.injEq] at h
      obtain ⟨rfl, _⟩ := h
      simp only [List.length_take]; omega

theorem reasmStep_len {b p r : Bytes} (h : reasmStep b = some (p, r)) : 8 ≤ p.length := by
  unfold reasmStep at h
  split at h
  · cases h
  · exact takePacket_len h

theorem parseLoop_len (b : Bytes) : ∀ p ∈ (parseLoop b).1, 8 ≤ p.length := by
  induction hn : b.length using Nat.strongRecOn generalizing b with
  | ind n ih =>
    rw [parseLoop.eq_def]
    split
    · simp
    · rename_i p r hstep
      intro q hq
      simp only [List.mem_cons] at hq
      rcases hq with rfl | hq
      · exact reasmStep_len hstep
      · exact ih r.length (by rw [← hn]; exact reasmStep_shrinks hstep) r rfl q hq

/-! ### the queue invariant -/

def ConnOk (c : Conn) : Prop := c.core.v3 = true → ∀ pkt ∈ c.queue, 6 ≤ pkt.length
def QOk (s : S) : Prop := ∀ c, s.l.conn = some c → ConnOk c

theorem connOk_applyEvent {c : Conn} (e : PeerEvent) (h : ConnOk c) : ConnOk (applyEvent e c) := by
  unfold applyEvent
  split
  · exact h
  · cases e with
    | close => exact h
    | data b =>
      simp only
      split
      · intro _ pkt hp
        simp only [List.mem_append] at hp
        rcases hp with hp | hp
        · exact h (by assumption) pkt hp
        · have := parseLoop_len _ pkt hp; omega
      · rename_i hv
        intro hv'; simp only at hv'; exact absurd hv' hv

theorem qok_softConn' {s s0 : S} {f : Conn → Conn} (h : QOk s) (he : s0.l.conn = s.l.conn)
    (hf : ∀ c, ConnOk c → c.core.v3 = true → ∀ pkt ∈ (f c).queue, 6 ≤ pkt.length) : QOk (softConn s0 f) := by
  unfold softConn
  split
  · rename_i c hc
    intro c' hc'
    simp only [Option.some.injEq] at hc'
    subst hc'
    intro hv pkt hp
    exact hf c (h c (by rw [← he]; exact hc)) hv pkt hp
  · intro c hc; exact h c (by rw [← he]; exact hc)

theorem qok_softConn {s : S} {f : Conn → Conn} (h : QOk s)
    (hf : ∀ c, ConnOk c → c.core.v3 = true → ∀ pkt ∈ (f c).queue, 6 ≤ pkt.length) : QOk (softConn s f) :=
  qok_softConn' h rfl hf

theorem qok_of_conn_eq {s s' : S} (h : QOk s) (he : s'.l.conn = s.l.conn) : QOk s' := by
  intro c hc; rw [he] at hc; exact h c hc

theorem qok_setNow {s : S} (t : Nat) (h : QOk s) : QOk (setNow s t) := qok_of_conn_eq h rfl

theorem qok_deliverDue {s : S} (e : Timed) (h : QOk s) : QOk (deliverDue s e) := by
  unfold deliverDue
  refine qok_softConn' h rfl ?_
  intro c hc hv pkt hp
  split at hp
  · exact connOk_applyEvent e.ev hc (by
      have : (applyEvent e.ev c).core = c.core := by
        unfold applyEvent; split; rfl; cases e.ev <;> simp <;> split <;> rfl
      rw [this]; exact hv) pkt hp
  · exact hc hv pkt hp

theorem qok_pumpUntil (fuel : Nat) {s : S} (t : Nat) (h : QOk s) : QOk (pumpUntil fuel s t) := by
  induction fuel generalizing s with
  | zero => exact qok_setNow t h
  | succ n ih =>
    unfold pumpUntil
    split
    · exact qok_setNow t h
    · exact ih (qok_deliverDue _ h)

theorem qok_pump {s : S} (t : Nat) (h : QOk s) : QOk (pump s t) := qok_pumpUntil _ t h

theorem qok_popQueue {s : S} (h : QOk s) : QOk (popQueue s) := by
  apply qok_softConn h
  intro c hc hv pkt hp
  exact hc hv pkt (List.mem_of_mem_drop hp)

theorem qok_flush {s : S} (h : QOk s) : QOk (flush s) := by
  apply qok_softConn h
  intro c _ _ pkt hp; simp at hp

theorem qok_awaitQueue (fuel : Nat) {s s' : S} {d : Nat} {r : ReadRes} (h : QOk s)
    (ha : awaitQueue fuel s d = (r, s')) :
    QOk s' ∧ (∀ raw, r = .packet raw → isV3 s' = true → 6 ≤ raw.length) := by
  induction fuel generalizing s with
  | zero => unfold awaitQueue at ha; cases ha; exact ⟨qok_setNow d h, by intro raw hr; cases hr⟩
  | succ n ih =>
    unfold awaitQueue at ha
    split at ha
    · rename_i pkt hq
      cases ha
      refine ⟨qok_popQueue h, ?_⟩
      intro raw hr hv
      cases hr
      unfold queueHead at hq
      cases hc : s.l.conn with
      | none => rw [hc] at hq; cases hq
      | some c =>
        rw [hc] at hq
        have hv' : c.core.v3 = true := by
          have : isV3 (popQueue s) = isV3 s := by
            have := coreOf_of_abs (abs_popQueue s)
            simp only [isV3, popQueue, softConn, hc] at *
          rw [this] at hv; simpa [isV3, hc] using hv
        exact h c hc hv' pkt (List.mem_of_mem_head? hq)
    · split at ha
      · split at ha
        · cases ha; exact ⟨qok_of_conn_eq h rfl, by intro raw hr; cases hr⟩
        · cases ha; exact ⟨qok_setNow d h, by intro raw hr; cases hr⟩
      · split at ha
        · cases ha; exact ⟨qok_of_conn_eq h rfl, by intro raw hr; cases hr⟩
        · exact ih (qok_deliverDue _ h) ha


/-! ### facts that only depend on the abstract state -/

theorem isV3_eq (s : S) : isV3 s = ((coreOf s).map (·.v3)).getD false := by
  unfold isV3 coreOf; cases s.l.conn <;> rfl

theorem isV3_of_abs {s s' : S} (h : abs s' = abs s) : isV3 s' = isV3 s := by
  rw [isV3_eq, isV3_eq, coreOf_of_abs h]

theorem coreSome_of_abs {s s' : S} (h : abs s' = abs s) (hs : (coreOf s).isSome = true) : (coreOf s').isSome = true := by
  rw [coreOf_of_abs h]; exact hs

theorem authenticated_isSome {s : S} (h : authenticated s = true) : (coreOf s).isSome = true := by
  unfold authenticated at h
  cases hc : s.l.conn with
  | none => rw [hc] at h; cases h
  | some c => simp [coreOf, hc]

theorem connAlive_isSome {s : S} (h : connAlive s = true) : (coreOf s).isSome = true := by
  unfold connAlive at h
  cases hc : s.l.conn with
  | none => rw [hc] at h; cases h
  | some c => simp [coreOf, hc]

/-- a run without close / connect keeps the connection and its protocol class -/
theorem run_keeps_conn {a a' : A} {tr : List Ev} (hr : A.Run a tr a')
    (hn : ∀ e ∈ tr, isClosed e = false ∧ isConnect e = false) (c : Core) (hc : a.core = some c) :
    ∃ c', a'.core = some c' ∧ c'.v3 = c.v3 := by
  induction hr generalizing c with
  | refl => exact ⟨c, hc, rfl⟩
  | soft hs _ ih => exact ih hn c (by rw [hs.2.2.1]; exact hc)
  | @crit a a1 a2 e tr hst _ ih =>
    have hne := hn e (List.mem_cons_self ..)
    have hn' : ∀ x ∈ tr, isClosed x = false ∧ isConnect x = false := fun x hx => hn x (List.mem_cons_of_mem _ hx)
    rcases A.eff_inv hst.1 with ⟨cid, v3, rfl, _⟩ | ⟨c0, hc0, _, hcase⟩
    · simp [isConnect] at hne
    · rw [hc] at hc0; cases hc0
      rcases hcase with ⟨_, rfl, hoc⟩ | ⟨_, _, rfl, _, hoc⟩ | ⟨_, rfl, _, hoc⟩ | ⟨_, rfl, hoc⟩ | ⟨rfl, hoc⟩ | ⟨rfl, _⟩
      · obtain ⟨c', h1, h2⟩ := ih hn' _ hoc; exact ⟨c', h1, by simpa [bump] using h2⟩
      · obtain ⟨c', h1, h2⟩ := ih hn' _ hoc; exact ⟨c', h1, by simpa [bump] using h2⟩
      · obtain ⟨c', h1, h2⟩ := ih hn' _ hoc; exact ⟨c', h1, by simpa [bumpV2] using h2⟩
      · obtain ⟨c', h1, h2⟩ := ih hn' _ hoc; exact ⟨c', h1, by simpa [withKey] using h2⟩
      · obtain ⟨c', h1, h2⟩ := ih hn' _ hoc; exact ⟨c', h1, by simpa [noKey] using h2⟩
      · simp [isClosed] at hne

theorem tr_keeps_conn {s s' : S} {tr : List Ev} (hr : Tr s tr s')
    (hn : ∀ e ∈ tr, isClosed e = false ∧ isConnect e = false) (hs : (coreOf s).isSome = true) :
    (coreOf s').isSome = true ∧ isV3 s' = isV3 s := by
  obtain ⟨c, hc⟩ := Option.isSome_iff_exists.1 hs
  obtain ⟨c', h1, h2⟩ := run_keeps_conn hr hn c hc
  have h1' : coreOf s' = some c' := h1
  exact ⟨by rw [h1']; rfl, by rw [isV3_eq, isV3_eq, h1', hc]; simp [h2]⟩

/-! ### containment, function by function -/

/-- the allowed failure classes of the transport layer -/
def Allowed (e : Err) : Prop := e = .protocol ∨ e = .auth ∨ e = .timeout

theorem decodeRead_protocol {s : S} {raw : Bytes} {e : Err} (hl : isV3 s = true → 6 ≤ raw.length)
    (h : decodeRead s raw = .error e) : e = .protocol := by
  unfold decodeRead at h
  split at h
  · rename_i hv
    split at h
    · rename_i e' he; cases h; exact processPacket_err (hl hv) he
    · exact packetDecode_err h
  · exact packetDecode_err h

theorem queueHead_len {s : S} {raw : Bytes} (hq : QOk s) (h : queueHead s = some raw) (hv : isV3 s = true) :
    6 ≤ raw.length := by
  unfold queueHead at h
  cases hc : s.l.conn with
  | none => rw [hc] at h; cases h
  | some c =>
    rw [hc] at h
    exact hq c hc (by simpa [isV3, hc] using hv) raw (List.mem_of_mem_head? h)

theorem readAvailable_contain (fuel : Nat) {s s' : S} {acc : List Bytes} {r : R (List Bytes)} (hq : QOk s)
    (h : readAvailable fuel s acc = (r, s')) : QOk s' ∧ ∀ e, r = .error e → e = .protocol := by
  induction fuel generalizing s acc with
  | zero => unfold readAvailable at h; cases h; exact ⟨hq, by intro e he; cases he⟩
  | succ n ih =>
    unfold readAvailable at h
    split at h
    · cases h; exact ⟨hq, by intro e he; cases he⟩
    · rename_i raw hh
      split at h
      · rename_i e' hd
        simp only [Prod.mk.injEq] at h
        obtain ⟨rfl, rfl⟩ := h
        refine ⟨qok_popQueue hq, ?_⟩
        intro e he; cases he
        exact decodeRead_protocol (queueHead_len hq hh) hd
      · exact ih (qok_popQueue hq) h

theorem qok_write {s : S} {c : Conn} {core : Core} {ev : Ev} {rx : Reactions} {a b : Nat} (hq : QOk s)
    (hc : s.l.conn = some c) (hv : core.v3 = c.core.v3) : QOk (react rx (setCore (logEv s ev) c core) a b) := by
  intro c' hc'
  simp only [react, setCore, Option.some.injEq] at hc'
  subst hc'
  intro hv' pkt hp
  exact hq c hc (by rw [← hv]; exact hv') pkt hp

theorem opWriteHS_contain {rx : Reactions} {s : S} {tok : Bytes} (hs : (coreOf s).isSome = true)
    (ht : tok.length < 65536) (hq : QOk s) :
    (∀ e, opWriteHS rx s tok = .error e → e = .protocol) ∧ (∀ s', opWriteHS rx s tok = .ok s' → QOk s') := by
  unfold opWriteHS
  cases hc : s.l.conn with
  | none => simp [coreOf, hc] at hs
  | some c =>
    simp only
    rw [if_neg (by omega)]
    split
    · exact ⟨by intro e he; cases he; rfl, by intro s' h'; cases h'⟩
    · refine ⟨(by intro e he; cases he), ?_⟩
      intro s' h'; cases h'
      exact qok_write hq hc rfl

theorem opWrite_contain {rx : Reactions} {s : S} {f : Bytes} (hs : (coreOf s).isSome = true) (hq : QOk s) :
    (∀ e, opWrite rx s f = .error e → e = .protocol) ∧ (∀ s', opWrite rx s f = .ok s' → QOk s') := by
  cases hc : s.l.conn with
  | none => simp [coreOf, hc] at hs
  | some c =>
    unfold opWrite
    split
    · unfold opWriteData
      rw [hc]; simp only
      split
      · exact ⟨by intro e he; cases he; rfl, by intro s' h'; cases h'⟩
      · split
        · exact ⟨by intro e he; cases he; rfl, by intro s' h'; cases h'⟩
        · refine ⟨(by intro e he; cases he), ?_⟩
          intro s' h'; cases h'
          exact qok_write hq hc rfl
    · unfold opWriteV2
      rw [hc]; simp only
      split
      · exact ⟨by intro e he; cases he; rfl, by intro s' h'; cases h'⟩
      · refine ⟨(by intro e he; cases he), ?_⟩
        intro s' h'; cases h'
        exact qok_write hq hc rfl

theorem qok_opAccept {s : S} (lk : Bytes) (ex : Nat) (hq : QOk s) : QOk (opAccept s lk ex) := by
  unfold opAccept
  split
  · exact hq
  · rename_i c hc
    intro c' hc'
    simp only [logEv, Option.some.injEq] at hc'
    subst hc'
    intro hv pkt hp
    exact hq c hc hv pkt hp

theorem authenticated_opAccept {s : S} (lk : Bytes) (d : Nat) (hs : (coreOf s).isSome = true) :
    authenticated (opAccept s lk (s.w.now + d)) = true := by
  cases hc : s.l.conn with
  | none => simp [coreOf, hc] at hs
  | some c => simp [opAccept, hc, authenticated, logEv]

theorem qok_opDisconnect {s : S} : QOk (opDisconnect s) := by
  intro c hc; rw [conn_opDisconnect] at hc; cases hc

theorem acceptReply_contain {p : Params} {s s' : S} {key raw : Bytes} {r : R Unit} (hk : key.length = 32)
    (hl : 6 ≤ raw.length) (hq : QOk s) (hs : (coreOf s).isSome = true) (h : acceptReply p s key raw = (r, s')) :
    QOk s' ∧ (∀ e, r = .error e → e = .auth) ∧ (r = .ok () → authenticated s' = true) := by
  unfold acceptReply at h
  split at h
  · cases h; exact ⟨hq, by intro e he; cases he; rfl, by intro h; cases h⟩
  · rename_i e hne hp
    have := processPacket_err hl hp
    exact absurd this (by intro h'; exact hne h')
  · split at h
    · rename_i e hg
      cases h
      exact ⟨hq, by intro e' he; cases he; exact getLocalKey_err hk hg, by intro h; cases h⟩
    · cases h
      exact ⟨qok_opAccept _ _ hq, (by intro e he; cases he), fun _ => authenticated_opAccept _ _ hs⟩


theorem abs_of_awaitQueue {fuel : Nat} {s s' : S} {d : Nat} {r : ReadRes} (h : awaitQueue fuel s d = (r, s')) :
    abs s' = abs s := by
  have := abs_awaitQueue fuel s d; rw [h] at this; exact this

theorem hs_acc_noclose {t : Option Bytes} {tr : List Ev} (h : ∀ e ∈ tr, HsTok t e ∨ isKeyEv e = true) :
    ∀ e ∈ tr, isClosed e = false ∧ isConnect e = false := by
  intro e he
  rcases h e he with ⟨_, _, _, rfl, _⟩ | h1
  · exact ⟨rfl, rfl⟩
  · cases e <;> simp_all [isKeyEv, isClosed, isConnect]

theorem qok_opForget {s : S} (hq : QOk s) : QOk (opForget s) := by
  unfold opForget
  split
  · exact hq
  · rename_i c hc
    intro c' hc'
    simp only [logEv, Option.some.injEq] at hc'
    subst hc'
    intro hv pkt hp
    exact hq c hc hv pkt hp

theorem coreSome_opForget {s : S} (hs : (coreOf s).isSome = true) : (coreOf (opForget s)).isSome = true := by
  rcases opForget_tr s with ⟨c, _, _, h⟩ | ⟨h, _⟩
  · rw [h]; rfl
  · rw [h] at hs; cases hs

theorem isV3_opForget (s : S) : isV3 (opForget s) = isV3 s := by
  unfold opForget isV3
  cases hc : s.l.conn <;> simp [logEv, hc]

theorem protoAuthenticate_contain {p : Params} {rx : Reactions} {s s' : S} {token key : Option Bytes} {r : R Unit}
    (hq : QOk s) (hs : (coreOf s).isSome = true) (hv : isV3 s = true) (hnc : s.w.cancelAt = none)
    (htok : ∀ t, token = some t → t.length < 65536) (hkey : ∀ k, key = some k → k.length = 32)
    (h : protoAuthenticate p rx s token key = (r, s')) :
    QOk s' ∧ (∀ e, r = .error e → Allowed e) ∧ (r = .ok () → authenticated s' = true) ∧
    (coreOf s').isSome = true ∧ isV3 s' = true := by
  have hkeep : (coreOf s').isSome = true ∧ isV3 s' = true := by
    obtain ⟨tr, ht, hshape, _⟩ := protoAuthenticate_tr h
    have := tr_keeps_conn ht (hs_acc_noclose hshape) hs
    exact ⟨this.1, by rw [this.2]; exact hv⟩
  have main : QOk s' ∧ (∀ e, r = .error e → Allowed e) ∧ (r = .ok () → authenticated s' = true) := by
    unfold protoAuthenticate at h
    split at h
    · rename_i tk ky
      split at h
      · cases h; exact ⟨hq, (by intro e he; cases he; exact .inr (.inl rfl)), (by intro hh; cases hh)⟩
      · have hsf : (coreOf (opForget (flush s))).isSome = true := coreSome_opForget (coreSome_of_abs (abs_flush s) hs)
        have hw := opWriteHS_contain (rx := rx) hsf (htok tk rfl) (qok_opForget (qok_flush hq))
        split at h
        · cases h; exact ⟨qok_opForget (qok_flush hq), (by intro e he; cases he; exact .inr (.inl rfl)), (by intro hh; cases hh)⟩
        · rename_i e hne he; exact absurd (hw.1 e he) hne
        · rename_i s1 hw1
          have hq1 := hw.2 s1 hw1
          split at h
          · rename_i s2 ha
            simp only [Prod.mk.injEq] at h
            obtain ⟨rfl, rfl⟩ := h
            exact ⟨(qok_awaitQueue _ hq1 ha).1, (by intro e he; cases he; exact .inr (.inr rfl)), (by intro hh; cases hh)⟩
          · rename_i s2 ha
            have hnc1 : s1.w.cancelAt = none := by
              rw [cancelAt_opWriteHS hw1, cancelAt_opForget]; unfold flush; rw [cancelAt_softConn]; exact hnc
            exact absurd rfl (awaitQueue_unarmed _ hnc1 ha).1
          · rename_i raw s2 ha
            obtain ⟨hq2, hlen⟩ := qok_awaitQueue _ hq1 ha
            obtain ⟨c, _, ht, hc1⟩ := opWriteHS_tr hw1
            have hs2 : (coreOf s2).isSome = true := by rw [coreOf_of_abs (abs_of_awaitQueue ha), hc1]; rfl
            have hv2 : isV3 s2 = true := by
              rw [isV3_of_abs (abs_of_awaitQueue ha)]
              have := tr_keeps_conn ht (by simp [isClosed, isConnect]) hsf
              rw [this.2, isV3_opForget, isV3_of_abs (abs_flush s)]; exact hv
            obtain ⟨a1, a2, a3⟩ := acceptReply_contain (hkey ky rfl) (hlen raw rfl hv2) hq2 hs2 h
            exact ⟨a1, fun e he => .inr (.inl (a2 e he)), a3⟩
    · cases h; exact ⟨hq, (by intro e he; cases he; exact .inr (.inl rfl)), (by intro hh; cases hh)⟩
  exact ⟨main.1, main.2.1, main.2.2, hkeep.1, hkeep.2⟩


theorem authLoop_contain {p : Params} {rx : Reactions} {token key : Option Bytes} (n : Nat) {s s' : S} {r : R Unit}
    (hq : QOk s) (hs : (coreOf s).isSome = true) (hv : isV3 s = true) (hnc : s.w.cancelAt = none)
    (htok : ∀ t, token = some t → t.length < 65536) (hkey : ∀ k, key = some k → k.length = 32)
    (h : authLoop p rx token key n s = (r, s')) :
    QOk s' ∧ (∀ e, r = .error e → Allowed e) ∧ (r = .ok () → 0 < n → authenticated s' = true) := by
  induction n generalizing s with
  | zero => unfold authLoop at h; cases h; exact ⟨hq, (by intro e he; cases he), (by intro _ hn; omega)⟩
  | succ n ih =>
    unfold authLoop at h
    split at h
    · rename_i s1 hp
      simp only [Prod.mk.injEq] at h
      obtain ⟨rfl, rfl⟩ := h
      obtain ⟨a1, _, a3, _⟩ := protoAuthenticate_contain hq hs hv hnc htok hkey hp
      exact ⟨a1, (by intro e he; cases he), fun _ _ => a3 rfl⟩
    · rename_i s1 hp
      obtain ⟨a1, _, _, a4, a5⟩ := protoAuthenticate_contain hq hs hv hnc htok hkey hp
      split at h
      · rename_i hn
        obtain ⟨b1, b2, b3⟩ := ih a1 a4 a5 (noCancel_protoAuthenticate hnc hp) h
        exact ⟨b1, b2, fun hr _ => b3 hr (by omega)⟩
      · simp only [Prod.mk.injEq] at h
        obtain ⟨rfl, rfl⟩ := h
        exact ⟨qok_opDisconnect, (by intro e he; cases he; exact .inr (.inr rfl)), (by intro hh; cases hh)⟩
    · rename_i e s1 _ hp
      simp only [Prod.mk.injEq] at h
      obtain ⟨rfl, rfl⟩ := h
      obtain ⟨a1, a2, _⟩ := protoAuthenticate_contain hq hs hv hnc htok hkey hp
      exact ⟨a1, (by intro e' he; cases he; exact a2 e rfl), (by intro hh; cases hh)⟩

theorem qok_of_abs_conn {s s' : S} (h : QOk s) (he : s'.l.conn = s.l.conn) : QOk s' := qok_of_conn_eq h he

theorem finishAuth_contain {p : Params} {s s' : S} {tk ky : Option Bytes} {r : R Unit} (hq : QOk s)
    (ha : authenticated s = true) (h : finishAuth p s tk ky = (r, s')) : r = .ok () ∧ QOk s' := by
  unfold finishAuth at h
  rw [if_neg (by simp [ha])] at h
  cases h
  exact ⟨rfl, qok_pump _ (qok_of_conn_eq hq rfl)⟩

theorem qok_opConnected (s : S) : QOk (opConnected s) := by
  intro c hc
  simp only [opConnected, logEv, Option.some.injEq] at hc
  subst hc
  intro _ pkt hp; simp at hp

theorem qok_none {s : S} (h : s.l.conn = none) : QOk s := by intro c hc; rw [h] at hc; cases hc

theorem opConnect_contain {p : Params} {s s' : S} {r : R Unit} (hn : s.l.conn = none) (h : opConnect p s = (r, s')) :
    QOk s' ∧ (∀ e, r = .error e → Allowed e) := by
  unfold opConnect at h
  split at h
  · cases h; exact ⟨qok_none hn, (by intro e he; cases he; exact .inl rfl)⟩
  · cases h; exact ⟨qok_none hn, (by intro e he; cases he; exact .inl rfl)⟩
  · cases h; exact ⟨qok_pump _ (qok_none hn), (by intro e he; cases he; exact .inr (.inr rfl))⟩
  · cases h; exact ⟨qok_opConnected _, (by intro e he; cases he)⟩

theorem coreOf_none_of_conn {s : S} (h : s.l.conn = none) : coreOf s = none := by simp [coreOf, h]

theorem lanAuthenticate_contain {p : Params} {rx : Reactions} {s s' : S} {token key : Option Bytes} {n : Nat} {r : R Unit}
    (hq : QOk s) (hn : 0 < n) (hnc : s.w.cancelAt = none)
    (htok : ∀ t, pickCred token key s.l.token = some t → t.length < 65536)
    (hkey : ∀ k, pickCred key token s.l.key = some k → k.length = 32)
    (h : lanAuthenticate p rx s token key n = (r, s')) :
    QOk s' ∧ (∀ e, r = .error e → Allowed e) ∧ (r = .ok () → (coreOf s').isSome = true) := by
  -- the two branches share everything after the (possible) reconnect
  have tail : ∀ s1 : S, QOk s1 → (coreOf s1).isSome = true → isV3 s1 = true → s1.w.cancelAt = none →
      (match authLoop p rx (pickCred token key s.l.token) (pickCred key token s.l.key) n s1 with
        | (.error e, s2) => (.error e, s2)
        | (.ok (), s2) => finishAuth p s2 (pickCred token key s.l.token) (pickCred key token s.l.key)) = (r, s') →
      QOk s' ∧ (∀ e, r = .error e → Allowed e) ∧ (r = .ok () → (coreOf s').isSome = true) := by
    intro s1 hq1 hs1 hv1 hnc1 ht
    split at ht
    · rename_i e s2 hl
      simp only [Prod.mk.injEq] at ht
      obtain ⟨rfl, rfl⟩ := ht
      obtain ⟨b1, b2, _⟩ := authLoop_contain n hq1 hs1 hv1 hnc1 htok hkey hl
      exact ⟨b1, (by intro e' he; cases he; exact b2 e rfl), (by intro hh; cases hh)⟩
    · rename_i s2 hl
      obtain ⟨b1, _, b3⟩ := authLoop_contain n hq1 hs1 hv1 hnc1 htok hkey hl
      have hauth := b3 rfl hn
      obtain ⟨rfl, hq'⟩ := finishAuth_contain b1 hauth ht
      obtain ⟨habs, _⟩ := finishAuth_tr ht
      exact ⟨hq', (by intro e he; cases he), fun _ => coreSome_of_abs habs (authenticated_isSome hauth)⟩
  unfold lanAuthenticate at h
  split at h
  · have hn0 : (setVersion3 (opDisconnect s)).l.conn = none := conn_opDisconnect s
    split at h
    · rename_i e s1 hc
      simp only [Prod.mk.injEq] at h
      obtain ⟨rfl, rfl⟩ := h
      obtain ⟨c1, c2⟩ := opConnect_contain hn0 hc
      exact ⟨c1, (by intro e' he; cases he; exact c2 e rfl), (by intro hh; cases hh)⟩
    · rename_i s1 hc
      rcases opConnect_tr (coreOf_none_of_conn hn0) hc with ⟨_, _, hs1⟩ | ⟨⟨e, he, _⟩, _⟩
      · refine tail s1 (by rw [hs1]; exact qok_opConnected _) (by rw [hs1, coreOf_opConnected]; rfl) ?_ ?_ h
        · rw [hs1, isV3_opConnected]; simp [dropConnect, setVersion3]
        · rw [cancelAt_opConnect hc]
          show (opDisconnect s).w.cancelAt = none
          rw [cancelAt_opDisconnect]; exact hnc
      · cases he
  · rename_i hcond
    have hal : connAlive s = true ∧ isV3 s = true := by
      simp only [Bool.or_eq_true, Bool.not_eq_true', not_or, Bool.not_eq_false] at hcond; exact hcond
    exact tail s hq (connAlive_isSome hal.1) hal.2 hnc h

theorem sendLoop_contain {p : Params} {rx : Reactions} {frame : Bytes} (n : Nat) {s s' : S} {acc : List Bytes}
    {r : R (List Bytes)} (hq : QOk s) (hs : (coreOf s).isSome = true) (h : sendLoop p rx frame n s acc = (r, s')) :
    QOk s' ∧ (∀ e, r = .error e → Allowed e) := by
  induction n generalizing s with
  | zero => unfold sendLoop at h; cases h; exact ⟨hq, (by intro e he; cases he)⟩
  | succ n ih =>
    unfold sendLoop at h
    have hw := opWrite_contain (rx := rx) (f := frame) hs hq
    split at h
    · rename_i e he
      cases h
      exact ⟨hq, (by intro e' he'; cases he'; exact .inl (hw.1 e he))⟩
    · rename_i s1 hw1
      have hq1 := hw.2 s1 hw1
      obtain ⟨ev, hdata, ht1⟩ := opWrite_tr hw1
      have hk1 := tr_keeps_conn ht1 (by
        intro e he; simp only [List.mem_singleton] at he; subst he
        rcases hdata with ⟨_, _, _, rfl⟩ | ⟨_, rfl⟩ <;> exact ⟨rfl, rfl⟩) hs
      split at h
      · rename_i s2 ha
        obtain ⟨hq2, _⟩ := qok_awaitQueue _ hq1 ha
        have hs2 : (coreOf s2).isSome = true := coreSome_of_abs (abs_of_awaitQueue ha) hk1.1
        split at h
        · exact ih hq2 hs2 h
        · simp only [Prod.mk.injEq] at h
          obtain ⟨rfl, rfl⟩ := h
          exact ⟨qok_opDisconnect, (by intro e he; cases he; exact .inr (.inr rfl))⟩
      · simp only [Prod.mk.injEq] at h
        obtain ⟨rfl, rfl⟩ := h
        exact ⟨qok_opDisconnect, (by intro e he; cases he; exact .inr (.inr rfl))⟩
      · rename_i raw s2 ha
        obtain ⟨hq2, hlen⟩ := qok_awaitQueue _ hq1 ha
        have hd : ∀ e, decodeRead s2 raw = .error e → e = .protocol :=
          fun e he => decodeRead_protocol (hlen raw rfl) he
        split at h
        · simp only [Prod.mk.injEq] at h
          obtain ⟨rfl, rfl⟩ := h
          exact ⟨qok_opDisconnect, (by intro e he; cases he; exact .inl rfl)⟩
        · simp only [Prod.mk.injEq] at h
          obtain ⟨rfl, rfl⟩ := h
          exact ⟨qok_opDisconnect, (by intro e he; cases he; exact .inr (.inl rfl))⟩
        · rename_i e hne _ he
          exact absurd (hd e he) hne
        · simp only [Prod.mk.injEq] at h
          obtain ⟨rfl, rfl⟩ := h
          exact ⟨hq2, (by intro e he; cases he)⟩

theorem exchange_contain {p : Params} {rx : Reactions} {s s' : S} {frame : Bytes} {n : Nat} {r : R (List Bytes)}
    (hq : QOk s) (hs : (coreOf s).isSome = true) (h : exchange p rx s frame n = (r, s')) :
    QOk s' ∧ (∀ e, r = .error e → Allowed e) := by
  unfold exchange at h
  split at h
  · rename_i e s3 hpre
    simp only [Prod.mk.injEq] at h
    obtain ⟨rfl, rfl⟩ := h
    obtain ⟨a1, a2⟩ := readAvailable_contain _ hq hpre
    exact ⟨a1, (by intro e' he; cases he; exact .inl (a2 e rfl))⟩
  · rename_i pre s3 hpre
    obtain ⟨a1, _⟩ := readAvailable_contain _ hq hpre
    have hs3 : (coreOf s3).isSome = true := coreSome_of_abs (abs_of_readAvailable hpre) hs
    split at h
    · rename_i e s4 hl
      simp only [Prod.mk.injEq] at h
      obtain ⟨rfl, rfl⟩ := h
      obtain ⟨b1, b2⟩ := sendLoop_contain n a1 hs3 hl
      exact ⟨b1, (by intro e' he; cases he; exact b2 e rfl)⟩
    · rename_i got s4 hl
      obtain ⟨b1, _⟩ := sendLoop_contain n a1 hs3 hl
      obtain ⟨c1, c2⟩ := readAvailable_contain _ b1 h
      exact ⟨c1, fun e he => .inl (c2 e he)⟩

/-- well-formed stored credentials: a token that fits the 2-byte size field, a 32-byte key -/
def CredOk (s : S) : Prop :=
  (∀ t, s.l.token = some t → t.length < 65536) ∧ (∀ k, s.l.key = some k → k.length = 32)

theorem credOk_of_creds {s s' : S} (h : CredOk s) (he : creds s' = creds s) : CredOk s' := by
  simp only [creds, Prod.mk.injEq] at he
  unfold CredOk; rw [he.1, he.2]; exact h

theorem lanRetries_pos : 0 < Generated.lanRetries := by decide

theorem ensureAuth_contain {p : Params} {rx : Reactions} {s s' : S} {r : R Unit} (hq : QOk s) (hc : CredOk s)
    (hs : (coreOf s).isSome = true) (hnc : s.w.cancelAt = none) (h : ensureAuth p rx s = (r, s')) :
    QOk s' ∧ (∀ e, r = .error e → Allowed e) ∧ (r = .ok () → (coreOf s').isSome = true) := by
  unfold ensureAuth at h
  split at h
  · exact lanAuthenticate_contain hq lanRetries_pos hnc (by rw [pickCred_none]; exact hc.1) (by rw [pickCred_none]; exact hc.2) h
  · cases h; exact ⟨hq, (by intro e he; cases he), fun _ => hs⟩

/-- **containment of `LAN.send`** -/
theorem lanSend_contain {p : Params} {rx : Reactions} {s s' : S} {frame : Bytes} {n : Nat} {r : R (List Bytes)}
    (hq : QOk s) (hc : CredOk s) (hnc : s.w.cancelAt = none) (h : lanSend p rx s frame n = (r, s')) :
    QOk s' ∧ CredOk s' ∧ (∀ e, r = .error e → Allowed e) := by
  refine ⟨?_, credOk_of_creds hc (creds_lanSend h), ?_⟩ <;> unfold lanSend at h
  all_goals split at h
  · -- QOk, reconnect
    have hn0 : (opDisconnect s).l.conn = none := conn_opDisconnect s
    split at h
    · rename_i e s1 hco
      simp only [Prod.mk.injEq] at h
      obtain ⟨rfl, rfl⟩ := h
      exact (opConnect_contain hn0 hco).1
    · rename_i s1 hco
      rcases opConnect_tr (coreOf_none_of_conn hn0) hco with ⟨_, _, hs1⟩ | ⟨⟨e, he, _⟩, _⟩
      · have hq1 : QOk s1 := by rw [hs1]; exact qok_opConnected _
        have hs1' : (coreOf s1).isSome = true := by rw [hs1, coreOf_opConnected]; rfl
        have hc1 : CredOk s1 := credOk_of_creds hc (by rw [hs1]; simp)
        have hnc1 : s1.w.cancelAt = none := by rw [cancelAt_opConnect hco, cancelAt_opDisconnect]; exact hnc
        split at h
        · rename_i e s2 ha
          simp only [Prod.mk.injEq] at h
          obtain ⟨rfl, rfl⟩ := h
          exact (ensureAuth_contain hq1 hc1 hs1' hnc1 ha).1
        · rename_i s2 ha
          obtain ⟨d1, _, d3⟩ := ensureAuth_contain hq1 hc1 hs1' hnc1 ha
          exact (exchange_contain d1 (d3 rfl) h).1
      · cases he
  · rename_i hal
    have hs0 : (coreOf s).isSome = true := connAlive_isSome (by simpa using hal)
    split at h
    · rename_i e s2 ha
      simp only [Prod.mk.injEq] at h
      obtain ⟨rfl, rfl⟩ := h
      exact (ensureAuth_contain hq hc hs0 hnc ha).1
    · rename_i s2 ha
      obtain ⟨d1, _, d3⟩ := ensureAuth_contain hq hc hs0 hnc ha
      exact (exchange_contain d1 (d3 rfl) h).1
  · -- errors, reconnect
    have hn0 : (opDisconnect s).l.conn = none := conn_opDisconnect s
    split at h
    · rename_i e s1 hco
      simp only [Prod.mk.injEq] at h
      obtain ⟨rfl, rfl⟩ := h
      intro e' he; cases he
      exact (opConnect_contain hn0 hco).2 e rfl
    · rename_i s1 hco
      rcases opConnect_tr (coreOf_none_of_conn hn0) hco with ⟨_, _, hs1⟩ | ⟨⟨e, he, _⟩, _⟩
      · have hq1 : QOk s1 := by rw [hs1]; exact qok_opConnected _
        have hs1' : (coreOf s1).isSome = true := by rw [hs1, coreOf_opConnected]; rfl
        have hc1 : CredOk s1 := credOk_of_creds hc (by rw [hs1]; simp)
        have hnc1 : s1.w.cancelAt = none := by rw [cancelAt_opConnect hco, cancelAt_opDisconnect]; exact hnc
        split at h
        · rename_i e s2 ha
          simp only [Prod.mk.injEq] at h
          obtain ⟨rfl, rfl⟩ := h
          intro e' he; cases he
          exact (ensureAuth_contain hq1 hc1 hs1' hnc1 ha).2.1 e rfl
        · rename_i s2 ha
          obtain ⟨d1, _, d3⟩ := ensureAuth_contain hq1 hc1 hs1' hnc1 ha
          exact (exchange_contain d1 (d3 rfl) h).2
      · cases he
  · rename_i hal
    have hs0 : (coreOf s).isSome = true := connAlive_isSome (by simpa using hal)
    split at h
    · rename_i e s2 ha
      simp only [Prod.mk.injEq] at h
      obtain ⟨rfl, rfl⟩ := h
      intro e' he; cases he
      exact (ensureAuth_contain hq hc hs0 hnc ha).2.1 e rfl
    · rename_i s2 ha
      obtain ⟨d1, _, d3⟩ := ensureAuth_contain hq hc hs0 hnc ha
      exact (exchange_contain d1 (d3 rfl) h).2

end Msmart.Lemmas.Sess
