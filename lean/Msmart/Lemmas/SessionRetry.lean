/-
  The retry loop of `LAN.send` against a peer that stays silent for some transmissions and then
  answers one promptly: exactly how many transmissions happen and what comes back.
-/
import Msmart.Lemmas.SessionTrace

namespace Msmart.Lemmas.Sess
open Msmart Msmart.Model Msmart.Model.Session Msmart.Lemmas

/-- what `LAN._read` makes of a queued item on a connection with this protocol class and key -/
def decodeWith (v3 : Bool) (key : Option Bytes) (raw : Bytes) : R Bytes :=
  if v3 then
    match processPacket key raw with
    | .error e => .error e
    | .ok p => packetDecode p
  else packetDecode raw

theorem decodeRead_eq {s : S} {c : Conn} (hc : s.l.conn = some c) (raw : Bytes) :
    decodeRead s raw = decodeWith c.core.v3 c.core.localKey raw := by
  unfold decodeRead decodeWith
  by_cases hv : c.core.v3 = true <;> simp [isV3, curKey, hc, hv]
  cases processPacket c.core.localKey raw <;> rfl

/-- what a received segment adds to the queue of a connection (V3: the reassembly; V2: the segment) -/
def segQueue (v3 : Bool) (buffer b : Bytes) : List Bytes := if v3 then (parseLoop (buffer ++ b)).1 else [b]

theorem pending_softConn (s : S) (f : Conn → Conn) : (softConn s f).w.pending = s.w.pending := by
  unfold softConn; split <;> rfl

theorem pending_deliverDue (s : S) (e : Timed) : (deliverDue s e).w.pending = removeFirst s.w.pending e := by
  unfold deliverDue; rw [pending_softConn]

theorem cancelDue_unarmed {s : S} (h : s.w.cancelAt = none) (t : Nat) : cancelDue s t = none := by
  unfold cancelDue; rw [h]

theorem applyEvent_data_closing (c : Conn) (b : Bytes) (h : c.closing = false) :
    (applyEvent (.data b) c).closing = false := by
  unfold applyEvent
  rw [h]
  simp only [Bool.false_eq_true, ↓reduceIte]
  split <;> rfl

/-- a connected, idle session on a quiet network -/
structure Ready (s : S) (c : Conn) : Prop where
  conn : s.l.conn = some c
  open_ : c.closing = false
  queue : c.queue = []
  quiet : s.w.pending = []
  key : c.core.v3 = true → ∃ k, c.core.localKey = some k
  unarmed : s.w.cancelAt = none

/-- the connection after one more write -/
def wrote (c : Conn) : Conn :=
  { c with core := if c.core.v3 then bump c.core else { c.core with nWrites := c.core.nWrites + 1 } }

theorem wrote_v3 (c : Conn) : (wrote c).core.v3 = c.core.v3 := by unfold wrote; split <;> simp [bump]
theorem wrote_key (c : Conn) : (wrote c).core.localKey = c.core.localKey := by unfold wrote; split <;> simp [bump]
theorem wrote_nWrites (c : Conn) : (wrote c).core.nWrites = c.core.nWrites + 1 := by unfold wrote; split <;> simp [bump]
theorem wrote_cid (c : Conn) : (wrote c).core.cid = c.core.cid := by unfold wrote; split <;> simp [bump]

/-- the state right after `protocol.write(packet)` from a ready state -/
theorem opWrite_ready {rx : Reactions} {s : S} {c : Conn} (frame : Bytes) (h : Ready s c) :
    ∃ s1, opWrite rx s frame = .ok s1 ∧ s1.l.conn = some (wrote c) ∧ s1.w.now = s.w.now ∧
      s1.w.pending = (rx c.core.cid c.core.nWrites).map (fun r => ⟨s.w.now + r.1, c.core.cid, r.2⟩) ∧
      nData (evsOf s1) = nData (evsOf s) + 1 ∧ s1.w.cancelAt = none := by
  by_cases hv : c.core.v3 = true
  · obtain ⟨k, hk⟩ := h.key hv
    have hw : opWrite rx s frame = .ok (react rx (setCore (logEv s (.wrData c.core.cid c.core.packetId k frame)) c
        (bump c.core)) c.core.cid c.core.nWrites) := by
      simp [opWrite, isV3, h.conn, hv, opWriteData, hk, h.open_]
    refine ⟨_, hw, ?_, rfl, ?_, ?_, h.unarmed⟩
    · simp [react, setCore, wrote, hv]
    · simp [react, setCore, logEv, h.quiet]
    · simp [react, setCore, logEv, evsOf, nData]
      rfl
  · have hv' : c.core.v3 = false := by simpa using hv
    have hw : opWrite rx s frame = .ok (react rx (setCore (logEv s (.wrV2 c.core.cid frame)) c
        { c.core with nWrites := c.core.nWrites + 1 }) c.core.cid c.core.nWrites) := by
      simp [opWrite, isV3, h.conn, hv', opWriteV2, h.open_]
    refine ⟨_, hw, ?_, rfl, ?_, ?_, h.unarmed⟩
    · simp [react, setCore, wrote, hv']
    · simp [react, setCore, logEv, h.quiet]
    · simp [react, setCore, logEv, evsOf, nData]
      rfl

/-- a silent transmission: the read times out, the session is ready again one timeout later -/
theorem attempt_silent {p : Params} {rx : Reactions} {s : S} {c : Conn} (frame : Bytes) (h : Ready s c)
    (hrx : rx c.core.cid c.core.nWrites = []) :
    ∃ s1 s2, opWrite rx s frame = .ok s1 ∧
      awaitQueue (s1.w.pending.length + 1) s1 (s1.w.now + p.readTimeout) = (.timeout, s2) ∧
      Ready s2 (wrote c) ∧ nData (evsOf s2) = nData (evsOf s) + 1 := by
  obtain ⟨s1, hw, hc1, hnow, hpend, hn, hca⟩ := opWrite_ready (rx := rx) frame h
  rw [hrx] at hpend
  simp only [List.map_nil] at hpend
  refine ⟨s1, setNow s1 (s1.w.now + p.readTimeout), hw, ?_, ?_, by simpa [evsOf, setNow] using hn⟩
  · rw [hpend]
    simp [awaitQueue, queueHead, hc1, wrote, h.queue, hpend, nextDue, cancelDue_unarmed hca]
  · exact ⟨by simpa [setNow] using hc1, by simp [wrote, h.open_], by simp [wrote, h.queue], by simpa [setNow] using hpend,
      by rw [wrote_v3, wrote_key]; exact h.key, by simpa [setNow] using hca⟩

/-- an answered transmission: the segment arrives within the read timeout, its first queued item is
    what the read returns -/
theorem attempt_answered {p : Params} {rx : Reactions} {s : S} {c : Conn} (frame : Bytes) (h : Ready s c)
    (d : Nat) (b pkt : Bytes) (rest : List Bytes) (hrx : rx c.core.cid c.core.nWrites = [(d, .data b)])
    (hd : d ≤ p.readTimeout) (hseg : segQueue c.core.v3 c.buffer b = pkt :: rest) :
    ∃ s1 s2 c2, opWrite rx s frame = .ok s1 ∧
      awaitQueue (s1.w.pending.length + 1) s1 (s1.w.now + p.readTimeout) = (.packet pkt, s2) ∧
      s2.l.conn = some c2 ∧ c2.core = (wrote c).core ∧ nData (evsOf s2) = nData (evsOf s) + 1 ∧
      c2.queue = rest ∧ s2.w.pending = [] ∧ c2.closing = false ∧ s2.w.cancelAt = none := by
  obtain ⟨s1, hw, hc1, hnow, hpend, hn, hca⟩ := opWrite_ready (rx := rx) frame h
  rw [hrx] at hpend
  simp only [List.map_cons, List.map_nil] at hpend
  have hq1 : queueHead s1 = none := by simp [queueHead, hc1, wrote, h.queue]
  have hdue : nextDue s1.w.pending (s1.w.now + p.readTimeout) = some ⟨s.w.now + d, c.core.cid, .data b⟩ := by
    rw [hpend]; simp [nextDue, hnow]; omega
  -- the queue after delivery
  have happ : (applyEvent (.data b) (wrote c)).queue = pkt :: rest := by
    unfold applyEvent
    simp only [wrote, h.open_, Bool.false_eq_true, ↓reduceIte]
    unfold segQueue at hseg
    by_cases hv : c.core.v3 = true
    · simp [hv, bump, h.queue] at hseg ⊢; exact hseg
    · have hv' : c.core.v3 = false := by simpa using hv
      simp [hv', h.queue] at hseg ⊢; exact hseg
  let s1' := deliverDue s1 ⟨s.w.now + d, c.core.cid, .data b⟩
  have hc1' : s1'.l.conn = some { applyEvent (.data b) (wrote c) with core := (wrote c).core } := by
    simp [s1', deliverDue, softConn, hc1, wrote_cid]
  have hq1' : queueHead s1' = some pkt := by simp [queueHead, hc1', happ]
  refine ⟨s1, popQueue s1', { { applyEvent (.data b) (wrote c) with core := (wrote c).core } with
      queue := ({ applyEvent (.data b) (wrote c) with core := (wrote c).core } : Conn).queue.drop 1 }, hw, ?_, ?_, rfl, ?_,
      by simp [happ], ?_, ?_, ?_⟩
  · have hlen : s1.w.pending.length + 1 = 1 + 1 := by rw [hpend]; rfl
    rw [hlen, awaitQueue, hq1]
    simp only
    rw [hdue]
    simp only
    rw [cancelDue_unarmed hca]
    simp only
    rw [awaitQueue, hq1']
  · simp [popQueue, softConn, hc1']
  · have : evsOf (popQueue s1') = evsOf s1 := by
      have := congrArg A.evs (abs_popQueue s1')
      have h2 := congrArg A.evs (abs_deliverDue s1 ⟨s.w.now + d, c.core.cid, .data b⟩)
      simp only [abs] at this h2
      rw [this]; exact h2
    rw [this]; exact hn
  · show (popQueue s1').w.pending = []
    unfold popQueue
    rw [pending_softConn, pending_deliverDue, hpend]
    simp [removeFirst]
  · exact applyEvent_data_closing (wrote c) b h.open_
  · show (popQueue s1').w.cancelAt = none
    unfold popQueue
    rw [cancelAt_softConn, cancelAt_deliverDue]; exact hca

/-- the first `k` transmissions from here on are not answered -/
def SilentFor (rx : Reactions) (c : Conn) (k : Nat) : Prop := ∀ i, i < k → rx c.core.cid (c.core.nWrites + i) = []

theorem silentFor_wrote {rx : Reactions} {c : Conn} {k : Nat} (h : SilentFor rx c (k + 1)) : SilentFor rx (wrote c) k := by
  intro i hi
  rw [wrote_cid, wrote_nWrites]
  have := h (i + 1) (by omega)
  rw [show c.core.nWrites + 1 + i = c.core.nWrites + (i + 1) by omega]; exact this

theorem nData_evsOf_opDisconnect (s : S) : nData (evsOf (opDisconnect s)) = nData (evsOf s) := by
  unfold opDisconnect
  split
  · simp [evsOf, logEv, nData, isData]
  · rfl

/-- **retransmission stops as soon as a response arrives.** If the first `k` transmissions are not
    answered and the next one is answered within the read timeout by a segment whose first queued
    item decodes to `f`, the loop returns `f` after exactly `k + 1` transmissions (for any budget
    `n > k`). -/
theorem sendLoop_answered_at {p : Params} {rx : Reactions} {frame : Bytes} (k : Nat) :
    ∀ (n : Nat) (s : S) (c : Conn) (acc : List Bytes), k < n → Ready s c → SilentFor rx c k →
    ∀ (d : Nat) (b pkt f : Bytes) (rest : List Bytes),
      rx c.core.cid (c.core.nWrites + k) = [(d, .data b)] → d ≤ p.readTimeout →
      segQueue c.core.v3 c.buffer b = pkt :: rest → decodeWith c.core.v3 c.core.localKey pkt = .ok f →
      ∃ s' c', sendLoop p rx frame n s acc = (.ok (acc ++ [f]), s') ∧ nData (evsOf s') = nData (evsOf s) + (k + 1) ∧
        s'.l.conn = some c' ∧ c'.queue = rest ∧ s'.w.pending = [] ∧ c'.closing = false ∧
        c'.core.v3 = c.core.v3 ∧ c'.core.localKey = c.core.localKey ∧ s'.w.cancelAt = none := by
  induction k with
  | zero =>
    intro n s c acc hk h _ d b pkt f rest hrx hd hseg hdec
    obtain ⟨n', rfl⟩ : ∃ n', n = n' + 1 := ⟨n - 1, by omega⟩
    obtain ⟨s1, s2, c2, hw, ha, hc2, hcore, hn, hq2, hp2, hcl2, hca2⟩ := attempt_answered (p := p) (rx := rx) frame h d b pkt rest
      (by simpa using hrx) hd hseg
    have hdr : decodeRead s2 pkt = .ok f := by
      rw [decodeRead_eq hc2, hcore, wrote_v3, wrote_key]; exact hdec
    refine ⟨s2, c2, ?_, by simpa using hn, hc2, hq2, hp2, hcl2, by rw [hcore, wrote_v3], by rw [hcore, wrote_key], hca2⟩
    unfold sendLoop
    rw [hw]; simp only
    rw [ha]; simp only
    rw [hdr]
  | succ k ih =>
    intro n s c acc hk h hsil d b pkt f rest hrx hd hseg hdec
    obtain ⟨n', rfl⟩ : ∃ n', n = n' + 1 := ⟨n - 1, by omega⟩
    obtain ⟨s1, s2, hw, ha, hr2, hn⟩ := attempt_silent (p := p) (rx := rx) frame h (by simpa using hsil 0 (by omega))
    obtain ⟨s', c', hs', hn', g1, g2, g3, g4, g5, g6, g7⟩ := ih n' s2 (wrote c) acc (by omega) hr2 (silentFor_wrote hsil) d b pkt f rest
      (by rw [wrote_cid, wrote_nWrites, show c.core.nWrites + 1 + k = c.core.nWrites + (k + 1) by omega]; exact hrx)
      hd (by rw [wrote_v3]; exact hseg) (by rw [wrote_v3, wrote_key]; exact hdec)
    refine ⟨s', c', ?_, by rw [hn', hn]; omega, g1, g2, g3, g4, by rw [g5, wrote_v3], by rw [g6, wrote_key], g7⟩
    unfold sendLoop
    rw [hw]; simp only
    rw [ha]; simp only
    rw [if_pos (by omega)]
    exact hs'

/-- **exhausting the retries.** If none of the `n ≥ 1` transmissions is answered, exactly `n` are made,
    the call fails with a timeout and the connection is dropped. -/
theorem sendLoop_all_silent {p : Params} {rx : Reactions} {frame : Bytes} (n : Nat) :
    ∀ (s : S) (c : Conn) (acc : List Bytes), Ready s c → SilentFor rx c (n + 1) →
      ∃ s', sendLoop p rx frame (n + 1) s acc = (.error .timeout, s') ∧
        nData (evsOf s') = nData (evsOf s) + (n + 1) ∧ s'.l.conn = none := by
  induction n with
  | zero =>
    intro s c acc h hsil
    obtain ⟨s1, s2, hw, ha, _, hn⟩ := attempt_silent (p := p) (rx := rx) frame h (by simpa using hsil 0 (by omega))
    refine ⟨opDisconnect s2, ?_, by rw [nData_evsOf_opDisconnect, hn], conn_opDisconnect s2⟩
    unfold sendLoop
    rw [hw]; simp only
    rw [ha]; simp only
    rw [if_neg (by omega)]
  | succ n ih =>
    intro s c acc h hsil
    obtain ⟨s1, s2, hw, ha, hr2, hn⟩ := attempt_silent (p := p) (rx := rx) frame h (by simpa using hsil 0 (by omega))
    obtain ⟨s', hs', hn', hc'⟩ := ih s2 (wrote c) acc hr2 (silentFor_wrote hsil)
    refine ⟨s', ?_, by rw [hn', hn]; omega, hc'⟩
    unfold sendLoop
    rw [hw]; simp only
    rw [ha]; simp only
    rw [if_pos (by omega)]
    exact hs'

end Msmart.Lemmas.Sess
