/-
  Model of msmart/cloud.py (BaseCloud + NetHomePlusCloud) and of Discover._authenticate_device.
-/
import Msmart.Model.PacketV2

namespace Msmart.Model
open Msmart.Crypto

abbrev Fields := List (String × String)

def strBytes (s : String) : Bytes := s.toUTF8.toList

def hexNibble (n : Nat) : Char := if n < 10 then Char.ofNat (48 + n) else Char.ofNat (87 + n)
/-- `.hexdigest()` / `bytes.hex()` -/
def hexOf (b : Bytes) : String :=
  String.ofList (b.foldr (fun x acc => hexNibble (x.toNat / 16) :: hexNibble (x.toNat % 16) :: acc) [])

/-- order used by `sorted(data.items())` (keys are distinct, so the key decides) -/
def leKV (a b : String × String) : Bool := decide (a.1 ≤ b.1)

/-- `unquote_plus(urlencode(sorted(data.items())))` for values that survive the quote/unquote
    round trip (printable ASCII): `k1=v1&k2=v2…` in key order -/
def canonical (fs : Fields) : String :=
  "&".intercalate ((fs.mergeSort leKV).map (fun kv => kv.1 ++ "=" ++ kv.2))

/-- `NetHomePlusCloud._Security.sign(url, data)` -/
def cloudSign (path : String) (fs : Fields) : String :=
  hexOf (SHA256.sha256 (strBytes (path ++ canonical fs ++ Generated.appKey)))

/-- `_Security.encrypt_password(login_id, password)` -/
def encryptPassword (loginId password : String) : String :=
  hexOf (SHA256.sha256 (strBytes (loginId ++ hexOf (SHA256.sha256 (strBytes password)) ++ Generated.appKey)))

/-- `_build_request_body(data)`: base fields (with the session id), then `data` (dict.update) -/
def buildBody (sessionId deviceId stamp : String) (data : Fields) : Fields :=
  data.foldl (fun acc kv => (acc.filter (fun x => x.1 ≠ kv.1)) ++ [kv])
    [("appId", Generated.appId), ("src", Generated.appId), ("format", toString Generated.cloudFormat),
     ("clientType", toString Generated.cloudClientType), ("language", Generated.cloudLanguage),
     ("deviceId", deviceId), ("stamp", stamp), ("sessionId", sessionId)]

/-- `_api_request(endpoint, body)`: the form actually posted -/
def apiRequest (endpoint : String) (body : Fields) : String × Fields :=
  (endpoint, body ++ [("sign", cloudSign endpoint body)])

/-- `get_token(udpid)` on the token list of the response: first entry whose udpId matches -/
def getToken (tokenlist : List (String × String × String)) (udpid : String) : R (String × String) :=
  match tokenlist.find? (fun e => e.1 = udpid) with
  | some e => .ok (e.2.1, e.2.2)
  | none => .error .cloud

/-- what one HTTP attempt can end in -/
inductive Attempt (α : Type) where
  | timeout
  | httpError
  | apiError (code : Nat)
  | ok (result : α)

/-- `_post_request(..., retries)`: result and number of attempts made. `answers i` is what the
    i-th attempt ends in. With `retries = 0` the loop is skipped and `None` is returned. -/
def postRequest {α} (answers : Nat → Attempt α) : Nat → Nat → R (Option α) × Nat
  | 0, used => (.ok none, used)
  | n+1, used =>
    match answers used with
    | .ok r => (.ok (some r), used + 1)
    | .apiError _ => (.error .cloud, used + 1)
    | .httpError => (.error .cloud, used + 1)
    | .timeout => if n + 1 > 1 then postRequest answers n (used + 1) else (.error .cloud, used + 1)

/-- `Discover._authenticate_device(dev)`: try the udpid derived from the device id in little- then
    big-endian byte order; a cloud error aborts; the first credentials the device accepts win -/
def authenticateDevice (deviceId : Nat) (cloudToken : String → R (String × String))
    (deviceAccepts : String → String → Bool) : R (Option (String × String)) :=
  match cloudToken (hexOf (udpid (Py.toLE 6 deviceId))) with
  | .error e => .error e
  | .ok (t, k) =>
    if deviceAccepts t k then .ok (some (t, k)) else
    match cloudToken (hexOf (udpid (Py.toBE 6 deviceId))) with
    | .error e => .error e
    | .ok (t2, k2) => if deviceAccepts t2 k2 then .ok (some (t2, k2)) else .ok none

end Msmart.Model
