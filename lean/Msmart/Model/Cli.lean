/-
  Model of `msmart.cli._control`: per-setting conversion and the order
  parse all → connect → refresh → (toggle display) → set → apply.
  `ast.literal_eval` is an input: the harness supplies what it returned for the value (and for
  the capitalised value), as the XML test is an input bit of the discovery model.
-/
import Msmart.Generated.Cli
import Msmart.Generated.Enums

namespace Msmart.Model.Cli

/-- outcome of `ast.literal_eval(text)` -/
inductive Lit where
  | int (n : Int)
  | float (centi : Int)          -- exact hundredths
  | bool (b : Bool)
  | str (s : String)
  | other (truthy : Bool)        -- list / tuple / None / …
  | err (cls : String)           -- ValueError, SyntaxError, …
  deriving DecidableEq, Repr

inductive Value where
  | enumV (n : Int)
  | boolV (b : Bool)
  | intV (n : Int)
  | floatV (centi : Int)
  deriving DecidableEq, Repr

inductive Conv where
  | accept (v : Value)
  | reject                       -- logged error, `exit(1)`
  | raise (cls : String)         -- an uncaught exception (the process still ends with a non-zero status)
  | unmodelled                   -- outside the modelled catalogue of literals
  deriving DecidableEq, Repr

def enumTable (e : String) : List (String × Nat) :=
  if e = "OperationalMode" then Generated.operationalMode
  else if e = "FanSpeed" then Generated.fanSpeed
  else if e = "SwingMode" then Generated.swingMode
  else if e = "SwingAngle" then Generated.swingAngle
  else if e = "RateSelect" then Generated.rateSelect
  else if e = "BreezeMode" then Generated.breezeMode
  else if e = "AuxHeatMode" then Generated.auxHeatMode
  else []

def lookupName (t : List (String × Nat)) (n : String) : Option Nat := (t.find? (fun kv => kv.1 = n)).map Prod.snd
def hasValue (t : List (String × Nat)) (v : Int) : Bool := t.any (fun kv => (kv.2 : Int) = v)

/-- numeric value → enum member, raw int for FanSpeed, else reject -/
def enumOfNumber (e : String) (isInt : Bool) (centi : Int) : Conv :=
  if centi % 100 = 0 ∧ hasValue (enumTable e) (centi / 100) then .accept (.enumV (centi / 100))
  else if e = "FanSpeed" then .accept (.enumV (Int.tdiv centi 100))      -- `int(value)` truncates
  else if isInt then .reject else .reject

/-- `attr_type[value.upper()]` -/
def enumOfName (e : String) (s : String) : Conv :=
  match lookupName (enumTable e) s.toUpper with
  | some v => .accept (.enumV v)
  | none => .reject

def convertEnum (e raw : String) (lit : Lit) : Conv :=
  match lit with
  | .err "ValueError" => enumOfName e raw           -- `except ValueError: pass`: the raw text is the name
  | .err cls => .raise cls                          -- SyntaxError etc. are not caught here
  | .int n => enumOfNumber e true (n * 100)
  | .bool b => enumOfNumber e true (if b then 100 else 0)   -- bool is an int
  | .float c => enumOfNumber e false c
  | .str s => enumOfName e s
  | .other _ => .raise "AttributeError"             -- `.upper()` on a non-string

/-- `convert(v, t)` of the code: ValueError / SyntaxError are reported and exit(1) -/
def convertPlain (kind : CliKind) (lit : Lit) : Conv :=
  match lit with
  | .err "ValueError" => .reject
  | .err "SyntaxError" => .reject
  | .err cls => .raise cls
  | .int n => match kind with
    | .bool => .accept (.boolV (n ≠ 0)) | .int => .accept (.intV n) | _ => .accept (.floatV (n * 100))
  | .bool b => match kind with
    | .bool => .accept (.boolV b) | .int => .accept (.intV (if b then 1 else 0)) | _ => .accept (.floatV (if b then 100 else 0))
  | .float c => match kind with
    | .bool => .accept (.boolV (c ≠ 0)) | .int => .accept (.intV (Int.tdiv c 100)) | _ => .accept (.floatV c)
  | .str s => match kind with | .bool => .accept (.boolV (s ≠ "")) | _ => .unmodelled
  | .other t => match kind with | .bool => .accept (.boolV t) | _ => .raise "TypeError"

def settingInfo (name : String) : Option (Bool × CliKind) := (Generated.cliSettings.find? (fun r => r.1 = name)).map Prod.snd

/-- one `setting=value` pair: property lookup, setter check (display_on excepted), type-directed conversion -/
def convert (name raw : String) (lit litCap : Lit) : Conv :=
  match settingInfo name with
  | none => .reject                                             -- not a property of the device
  | some (writable, kind) =>
    if name ≠ "display_on" ∧ ¬ writable then .reject else       -- read-only
    match kind with
    | .enum e => convertEnum e raw lit
    | .bool => convertPlain .bool litCap          -- `value.capitalize()` is what is evaluated
    | .int => convertPlain .int lit
    | .float => convertPlain .float lit
    | .other => .unmodelled

/-- what `_control` does, as a trace of actions -/
inductive Action where
  | connect | refresh | toggleDisplay | set (name : String) (v : Value) | apply
  deriving DecidableEq, Repr

structure Pair where
  name : String
  raw : String
  lit : Lit
  litCap : Lit

/-- `new_properties[name] = value` -/
def assign (d : List (String × Value)) (k : String) (v : Value) : List (String × Value) :=
  if d.any (fun x => x.1 = k) then d.map (fun x => if x.1 = k then (k, v) else x) else d ++ [(k, v)]

/-- parse every pair, in order; the first failure ends the command before anything else happens -/
def parseAll : List Pair → List (String × Value) → Except Conv (List (String × Value))
  | [], acc => .ok acc
  | p :: t, acc =>
    match convert p.name p.raw p.lit p.litCap with
    | .accept v => parseAll t (assign acc p.name v)
    | c => .error c

def displayRequest (props : List (String × Value)) : Option Bool :=
  match (props.find? (fun x => x.1 = "display_on")).map Prod.snd with
  | some (.boolV b) => some b
  | _ => none

/-- the whole command, given the display state the refresh reports (device online) -/
def control (pairs : List Pair) (deviceDisplayOn : Bool) : Except Conv (List Action) :=
  match parseAll pairs [] with
  | .error c => .error c
  | .ok props =>
    .ok ([.connect, .refresh]
      ++ (match displayRequest props with
          | some b => if b ≠ deviceDisplayOn then [.toggleDisplay] else []
          | none => [])
      ++ (if (props.filter (fun x => x.1 ≠ "display_on")).isEmpty then []
          else (props.filter (fun x => x.1 ≠ "display_on")).map (fun x => Action.set x.1 x.2) ++ [.apply]))

end Msmart.Model.Cli
