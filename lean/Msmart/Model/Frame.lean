/-
  Model of msmart/frame.py and msmart/crc8.py.
-/
import Msmart.Py.Basic
import Msmart.Generated.Crc8Table
import Msmart.Generated.Consts

namespace Msmart.Model

/-- table lookup `_CRC8_854_TABLE[i]` for a byte index -/
def crcT (b : UInt8) : UInt8 := Generated.crc8Table.getD b.toNat 0

/-- `crc8.calculate` -/
def crc8 (data : Bytes) : UInt8 := data.foldl (fun c m => crcT (c ^^^ m)) 0

/-- sum of the byte values -/
def sumB (l : Bytes) : Nat := (l.map UInt8.toNat).sum

/-- `Frame.checksum`: `(~sum(frame) + 1) & 0xFF` -/
def checksumNat (l : Bytes) : Nat := (256 - sumB l % 256) % 256
def checksum (l : Bytes) : UInt8 := (checksumNat l).toUInt8

/-- `Frame.tobytes(data)` for a frame of the given device and frame type.
    `header[1] = len(data) + 10` raises ValueError when it does not fit a byte. -/
def frameToBytes (deviceType frameType : UInt8) (data : Bytes) : R Bytes :=
  if data.length + Generated.frameHeaderLength > 255 then .error (.py "ValueError") else
  .ok ([0xAA, (data.length + Generated.frameHeaderLength).toUInt8, deviceType, 0, 0, 0, 0, 0, 0, frameType]
        ++ data
        ++ [checksum ([(data.length + Generated.frameHeaderLength).toUInt8, deviceType, 0, 0, 0, 0, 0, 0, frameType] ++ data)])

/-- `Frame.validate(frame)`: checksum over `frame[1:-1]` compared with `frame[-1]`.
    On the empty frame `frame[-1]` raises IndexError. -/
def frameValidate (frame : Bytes) : R Unit :=
  match frame.getLast? with
  | none => .error indexError
  | some last =>
    if checksum ((frame.drop 1).dropLast) = last then .ok () else .error .invalidFrame

end Msmart.Model
