/-
  The device object on top of the LAN session: `AirConditioner._send_command_get_responses` with
  `Device._send_command` (= `LAN.send` with protocol errors and timeouts turned into "no response")
  as the source of the reply frames, instead of a reply script.  This is the glue between the Device
  model (whose theorems quantify over every reply script) and the Session model (whose theorems
  quantify over every peer).
-/
import Msmart.Model.Device
import Msmart.Model.Session

namespace Msmart.Model.Stack
open Msmart Msmart.Model Msmart.Model.Session

/-- `_send_command_get_responses(cmd)` over the LAN session -/
def sendGetLan (p : Params) (rx : Reactions) (r : Run) (s : S) (c : Cmd) : R (Run × List Resp) × S :=
  match (c.toBytes r.counter).1 with
  | .error e => (.error e, s)                       -- the command could not be encoded: nothing is sent
  | .ok frame =>
    match deviceSend p rx s frame with
    | (.error e, s1) => (.error e, s1)
    | (.ok fs, s1) => (sendGet { r with replies := fs :: r.replies } c, s1)

def sendAllLan (p : Params) (rx : Reactions) : Run → S → List Cmd → R (Run × List Resp) × S
  | r, s, [] => (.ok (r, []), s)
  | r, s, c :: t =>
    match sendGetLan p rx r s c with
    | (.error e, s1) => (.error e, s1)
    | (.ok (r1, rs1), s1) =>
      match sendAllLan p rx r1 s1 t with
      | (.error e, s2) => (.error e, s2)
      | (.ok (r2, rs2), s2) => (.ok (r2, rs1 ++ rs2), s2)

/-- `AirConditioner.refresh()` over the LAN session -/
def refreshLan (p : Params) (rx : Reactions) (r : Run) (s : S) : R Run × S :=
  match sendAllLan p rx r s (refreshCommands r.dev) with
  | (.error e, s1) => (.error e, s1)
  | (.ok (r1, rs), s1) => (.ok { r1 with dev := applyResponses { r1.dev with online := !rs.isEmpty } rs }, s1)

end Msmart.Model.Stack
