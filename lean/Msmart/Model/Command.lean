/-
  Model of the command classes of msmart/device/AC/command.py (everything the library emits).
-/
import Msmart.Model.Frame
import Msmart.Generated.Enums

namespace Msmart.Model

/-- frame type values used by the commands (checked against the generated enum in Props) -/
def ftControl : UInt8 := 0x02
def ftQuery : UInt8 := 0x03
def devTypeAC : UInt8 := 0xAC

/-- attribute values of a `SetStateCommand` object just before `tobytes()` -/
structure SetState where
  beep : Bool := true
  power : Bool := false
  tempCenti : Int := 2500        -- target temperature in hundredths of a degree (exact)
  mode : Nat := 0
  fan : Int := 0
  eco : Bool := true
  swing : Nat := 0
  turbo : Bool := false
  fahrenheit : Bool := true
  sleep : Bool := false
  freeze : Bool := false
  followMe : Bool := false
  purifier : Bool := false
  humidity : Nat := 40
  auxHeat : Bool := false
  forceAuxHeat : Bool := false
  indepAuxHeat : Bool := false
  deriving DecidableEq, Repr

def flag (b : Bool) (v : UInt8) : UInt8 := if b then v else 0

/-- `int(math.modf(t)[1])`: truncation toward zero -/
def integralTemp (c : Int) : Int := Int.tdiv c 100
/-- `math.modf(t)[0] > 0` -/
def fracPositive (c : Int) : Bool := decide (Int.tmod c 100 > 0)

def usePrimary (c : Int) : Bool := decide (17 ≤ integralTemp c ∧ integralTemp c ≤ 30)

/-- byte 2 low five bits: primary code and half-degree bit -/
def tempByte (c : Int) : UInt8 :=
  (if usePrimary c then (((integralTemp c - 16) % 16).toNat).toUInt8 else 0)
    ||| (if fracPositive c then 0x10 else 0)

/-- byte 18: alternate code -/
def tempAltByte (c : Int) : UInt8 :=
  if usePrimary c then 0 else (((integralTemp c - 12) % 32).toNat).toUInt8

/-- the 24-byte body of `SetStateCommand.tobytes` (before message id and CRC);
    `bytes([...])` raises ValueError when `fan_speed` is outside 0..255 -/
def setStateBody (s : SetState) : R Bytes :=
  if s.fan < 0 ∨ s.fan > 255 then .error (.py "ValueError") else
  .ok [0x40,
       (Generated.controlSource.toUInt8) ||| flag s.beep 0x40 ||| flag s.power 0x01,
       tempByte s.tempCenti ||| (((s.mode % 8) * 32).toUInt8),
       s.fan.toNat.toUInt8,
       0x7F, 0x7F, 0x00,
       0x30 ||| ((s.swing % 64).toUInt8),
       flag s.followMe 0x80 ||| flag s.turbo 0x20,
       flag s.eco 0x80 ||| flag s.purifier 0x20 ||| flag s.forceAuxHeat 0x10 ||| flag s.auxHeat 0x08,
       flag s.sleep 0x01 ||| flag s.turbo 0x02 ||| flag s.fahrenheit 0x04,
       0, 0, 0, 0, 0, 0, 0,
       tempAltByte s.tempCenti,
       (s.humidity % 128).toUInt8,
       0,
       flag s.freeze 0x80,
       flag s.indepAuxHeat 0x08,
       0]

/-- value handed to `PropertyId.encode` -/
abbrev PropVal := Nat   -- bool True = 1, False = 0; enums by value

def pidSwingUD : Nat := 0x0009
def pidSwingLR : Nat := 0x000A
def pidIndoorHumidity : Nat := 0x0015
def pidBreezeless : Nat := 0x0018
def pidBuzzer : Nat := 0x001A
def pidSelfClean : Nat := 0x0039
def pidBreezeAway : Nat := 0x0042
def pidBreezeControl : Nat := 0x0043
def pidRateSelect : Nat := 0x0048
def pidFreshAir : Nat := 0x004B
def pidIeco : Nat := 0x00E3
def pidAnion : Nat := 0x021E

/-- `PropertyId.encode(value)`; ids outside `_supported` raise NotImplementedError;
    `bytes([v])` raises ValueError outside 0..255 -/
def propEncode (pid : Nat) (v : PropVal) : R Bytes :=
  if ¬ Generated.propertySupported.contains pid then .error (.py "NotImplementedError") else
  if pid = pidBreezeAway then .ok [if v ≠ 0 then 2 else 1]
  else if v > 255 then .error (.py "ValueError")
  else if pid = pidIeco then .ok ([0, 1, v.toUInt8] ++ Py.zeros 10)
  else .ok [v.toUInt8]

/-- `struct.pack("<H", id)` (ids are enum members, always < 65536) -/
def le16 (n : Nat) : Bytes := [(n % 256).toUInt8, (n / 256 % 256).toUInt8]

inductive Cmd where
  | getCapabilities (additional : Bool)
  | getState
  | getEnergy
  | getHumidity
  | setState (s : SetState)
  | toggleDisplay (beep : Bool)
  | getProperties (ids : List Nat)
  | setProperties (props : List (Nat × PropVal))
  deriving DecidableEq, Repr

def Cmd.frameType : Cmd → UInt8
  | .setState _ | .setProperties _ => ftControl
  | _ => ftQuery

def setPropsBody : List (Nat × PropVal) → R Bytes
  | [] => .ok []
  | (pid, v) :: t => do
    let val ← propEncode pid v
    let rest ← setPropsBody t
    .ok (le16 pid ++ [val.length.toUInt8] ++ val ++ rest)

/-- the payload handed to `Command.tobytes` by each subclass -/
def Cmd.body : Cmd → R Bytes
  | .getCapabilities false => .ok [0xB5, 0x01, 0x00]
  | .getCapabilities true => .ok [0xB5, 0x01, 0x01, 0x01]
  | .getState => .ok ([0x41, 0x81, 0x00, 0xFF, 0x03, 0xFF, 0x00, 0x02] ++ Py.zeros 12 ++ [0x03])
  | .getEnergy => .ok ([0x41, 0x21, 0x01, 0x44] ++ Py.zeros 16)
  | .getHumidity => .ok ([0x41, 0x21, 0x01, 0x45] ++ Py.zeros 16)
  | .setState s => setStateBody s
  | .toggleDisplay beep =>
      .ok ([0x41, (Generated.controlSource.toUInt8) ||| flag beep 0x40, 0x00, 0xFF, 0x02, 0x00, 0x02] ++ Py.zeros 14)
  | .getProperties ids =>
      if ids.length > 255 then .error (.py "ValueError") else
      .ok ([0xB1, ids.length.toUInt8] ++ (ids.map le16).flatten)
  | .setProperties props =>
      if props.length > 255 then .error (.py "ValueError") else do
      let b ← setPropsBody props
      .ok ([0xB0, props.length.toUInt8] ++ b)

/-- `Command._next_message_id` on a counter value: new counter and the id byte -/
def nextMessageId (counter : Nat) : Nat × UInt8 := (counter + 1, ((counter + 1) % 256).toUInt8)

/-- `Command.tobytes(data)`: payload = data ++ [id]; frame over payload ++ [crc8 payload] -/
def commandToBytes (frameType : UInt8) (msgId : UInt8) (data : Bytes) : R Bytes :=
  frameToBytes devTypeAC frameType (data ++ [msgId] ++ [crc8 (data ++ [msgId])])

/-- `cmd.tobytes()` with the class-level counter threaded through.  The counter is advanced
    before the frame is built (so also when `Frame.tobytes` raises) but after the subclass has
    built its body (so not when the body raises). -/
def Cmd.toBytes (c : Cmd) (counter : Nat) : R Bytes × Nat :=
  match c.body with
  | .error e => (.error e, counter)
  | .ok b => (commandToBytes c.frameType (nextMessageId counter).2 b, (nextMessageId counter).1)

end Msmart.Model
