/-
  The LAN codec models with Python ints (`Int`) where the hand-written model uses `Nat`: a negative length,
  packet id or device id makes `int.to_bytes` raise OverflowError.  Used to state the equality with the translated
  code (`Lemmas/CodecEqLan.lean`) for ALL integer arguments.
-/
import Msmart.Model.PacketV3

namespace Msmart.Model

def overflow {α} : R α := .error (.py "OverflowError")

def buildHeaderI (length : Int) (extra : Bytes) : R Bytes :=
  if length < 0 then overflow else buildHeader length.toNat extra

/-- the order of the checks is the order of the Python statements: missing key, header (length), packet id -/
def encodeEncryptedRequestI (key : Option Bytes) (packetId : Int) (data padBytes : Bytes) : R Bytes :=
  match key with
  | none => .error .protocol
  | some k =>
    if data.length + v3Pad data.length + 32 ≥ 65536 then overflow
    else if packetId < 0 ∨ packetId ≥ 65536 then overflow
    else encodeEncryptedRequest (some k) packetId.toNat data padBytes

def encodeHandshakeRequestI (packetId : Int) (data : Bytes) : R Bytes :=
  if data.length ≥ 65536 then overflow
  else if packetId < 0 ∨ packetId ≥ 65536 then overflow
  else encodeHandshakeRequest packetId.toNat data

def packetEncodeI (deviceId : Int) (ts command : Bytes) : R Bytes :=
  if 40 + (encryptAes command).length + 16 ≥ 65536 then overflow
  else if deviceId < 0 then overflow
  else packetEncode deviceId.toNat ts command

/-- `_LanProtocolV3.write(data, packet_type=…)` on a live transport: the packet handed to the transport and the
    packet counter afterwards (`+= 1`, `&= 0xFFF`).  Any other type is a TypeError and nothing is written. -/
def writeV3I (key : Option Bytes) (packetId : Int) (data : Bytes) (ptype : Int) (padBytes : Bytes) : R (Bytes × Int) :=
  if ptype = 6 then
    match encodeEncryptedRequestI key packetId data padBytes with
    | .ok p => .ok (p, (packetId + 1) % 4096)
    | .error e => .error e
  else if ptype = 0 then
    match encodeHandshakeRequestI packetId data with
    | .ok p => .ok (p, (packetId + 1) % 4096)
    | .error e => .error e
  else .error (.py "TypeError")

end Msmart.Model
