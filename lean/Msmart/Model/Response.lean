/-
  Model of the response side of msmart/device/AC/command.py:
  Response.validate / Response.construct, StateResponse, CapabilitiesResponse,
  PropertiesResponse, EnergyUsageResponse, HumidityResponse.
  Every index expression of the Python is an `Py.idx` that can return `py "IndexError"`.
-/
import Msmart.Model.Command
import Msmart.Generated.CapTable

namespace Msmart.Model

/-! ### StateResponse -/

/-- `_parse_temperature(data, decimals_nibble/10, fahrenheit)` in tenths of a degree.
    `d` is the raw nibble (0..15), so `decimals = d / 10`. -/
def parseTemp (data d : Nat) (fahrenheit : Bool) : Option Int :=
  if data = 0xFF then none
  else if !fahrenheit && d ≠ 0 then
    some (10 * Int.tdiv ((data : Int) - 50) 2 + (if data ≥ 50 then (d : Int) else -(d : Int)))
  else if d ≥ 5 then
    some (10 * Int.tdiv ((data : Int) - 50) 2 + (if data ≥ 50 then 5 else -5))
  else some (5 * ((data : Int) - 50))

structure StateResp where
  power : Bool
  tempCenti : Int
  mode : Nat
  fan : Nat
  swing : Nat
  turbo : Bool
  eco : Bool
  sleep : Bool
  fahrenheit : Bool
  indoor : Option Int        -- tenths
  outdoor : Option Int       -- tenths
  filterAlert : Bool
  displayOn : Bool
  freeze : Option Bool
  followMe : Bool
  purifier : Bool
  humidity : Option Nat
  auxHeat : Bool
  indepAuxHeat : Bool
  deriving DecidableEq, Repr

def bit (b : UInt8) (m : UInt8) : Bool := b &&& m ≠ 0

/-- target temperature in hundredths from bytes 2 and 13 -/
def stateTemp (b2 b13 : UInt8) : Int :=
  (if (b13 &&& 0x1F) ≠ 0 then ((b13 &&& 0x1F).toNat + 12 : Int) * 100
   else ((b2 &&& 0xF).toNat + 16 : Int) * 100) + (if bit b2 0x10 then 50 else 0)

/-- `StateResponse._parse(payload)`; the first sixteen bytes are indexed unconditionally -/
def parseState (p : Bytes) : R StateResp := do
  let b1 ← Py.idx p 1
  let b2 ← Py.idx p 2
  let b3 ← Py.idx p 3
  let b7 ← Py.idx p 7
  let b8 ← Py.idx p 8
  let b9 ← Py.idx p 9
  let b10 ← Py.idx p 10
  let b11 ← Py.idx p 11
  let b15 ← Py.idx p 15
  let b12 ← Py.idx p 12
  let b13 ← Py.idx p 13
  let b14 ← Py.idx p 14
  let fahrenheit := bit b10 0x04
  pure {
    power := bit b1 0x01
    tempCenti := stateTemp b2 b13
    mode := (b2 >>> 5).toNat % 8
    fan := b3.toNat
    swing := (b7 &&& 0xF).toNat
    turbo := bit b8 0x20 || bit b10 0x02
    indepAuxHeat := bit b8 0x40
    followMe := bit b8 0x80
    eco := bit b9 0x10
    purifier := bit b9 0x20
    auxHeat := bit b9 0x08
    sleep := bit b10 0x01
    fahrenheit := fahrenheit
    indoor := parseTemp b11.toNat (b15 &&& 0xF).toNat fahrenheit
    outdoor := parseTemp b12.toNat (b15 >>> 4).toNat fahrenheit
    filterAlert := bit b13 0x20
    displayOn := b14 ≠ 0x70
    humidity := if p.length < 20 then none else (p[19]?).map (fun b => (b &&& 0x7F).toNat)
    freeze := if p.length < 22 then none else (p[21]?).map (fun b => bit b 0x80) }

/-! ### CapabilitiesResponse -/

inductive CapVal where
  | b (v : Bool)
  | half (raw : Nat)      -- raw * 0.5 degrees
  deriving DecidableEq, Repr

/-- Python dict with insertion order: `update` overwrites in place or appends -/
def dictSet {κ ν} [DecidableEq κ] : List (κ × ν) → κ → ν → List (κ × ν)
  | [], k, v => [(k, v)]
  | (k', v') :: t, k, v => if k' = k then (k, v) :: t else (k', v') :: dictSet t k v

def dictGet {κ ν} [DecidableEq κ] : List (κ × ν) → κ → Option ν
  | [], _ => none
  | (k', v') :: t, k => if k' = k then some v' else dictGet t k

def dictUpdate {κ ν} [DecidableEq κ] (d : List (κ × ν)) (other : List (κ × ν)) : List (κ × ν) :=
  other.foldl (fun acc kv => dictSet acc kv.1 kv.2) d

abbrev CapDict := List (String × CapVal)

def capLookup (cid : Nat) : Option (List (String × Nat)) := dictGet Generated.capReaders cid

def capTemperatures : Nat := 0x0225

/-- readers applied to the first value byte -/
def applyReaders (d : CapDict) (rs : List (String × Nat)) (v : Nat) : CapDict :=
  rs.foldl (fun acc r => dictSet acc r.1 (.b (r.2.testBit v))) d

/-- result of one iteration of the record loop -/
inductive CapStep where
  | stop                                  -- `break`
  | next (d : CapDict) (caps : Bytes)     -- continue with this dict and remaining bytes
  | err (e : Err)

def setTemps (d : CapDict) (c3 c4 c5 c6 c7 c8 : UInt8) (dec : Bool) : CapDict :=
  dictSet (dictSet (dictSet (dictSet (dictSet (dictSet (dictSet d
    "cool_min_temperature" (.half c3.toNat))
    "cool_max_temperature" (.half c4.toNat))
    "auto_min_temperature" (.half c5.toNat))
    "auto_max_temperature" (.half c6.toNat))
    "heat_min_temperature" (.half c7.toNat))
    "heat_max_temperature" (.half c8.toNat))
    "decimals" (.b dec)

/-- the TEMPERATURES branch: needs `caps[3..8]`, and `caps[9]` when size > 6 -/
def capTempRecord (d : CapDict) (caps : Bytes) (size : Nat) : CapStep :=
  match caps[3]?, caps[4]?, caps[5]?, caps[6]?, caps[7]?, caps[8]? with
  | some c3, some c4, some c5, some c6, some c7, some c8 =>
    if size > 6 then
      match caps[9]? with
      | none => .err indexError
      | some c9 => .next (setTemps d c3 c4 c5 c6 c7 c8 (c9 ≠ 0)) (caps.drop (3 + size))
    else .next (setTemps d c3 c4 c5 c6 c7 c8 (size ≠ 0)) (caps.drop (3 + size))
  | _, _, _, _, _, _ => .err indexError

/-- one iteration of the `for _ in range(count)` loop body of `_parse_capabilities` -/
def capStep (d : CapDict) (caps : Bytes) : CapStep :=
  if caps.length < 3 then .stop else
  match caps[2]? with
  | none => .stop
  | some sizeB =>
    if sizeB = 0 then .next d (caps.drop 3) else
    match capLookup (Py.fromLE (caps.take 2)) with
    | none => .next d (caps.drop (3 + sizeB.toNat))            -- unknown id: skip the record
    | some rs =>
      match caps[3]? with
      | none => .err indexError                                -- `value = caps[3]`
      | some v =>
        if Py.fromLE (caps.take 2) = capTemperatures then
          if sizeB.toNat < 6 then .next d (caps.drop (3 + sizeB.toNat))   -- skipped (advances since fix 'advance past an undersized TEMPERATURES')
          else capTempRecord d caps sizeB.toNat
        else .next (applyReaders d rs v.toNat) (caps.drop (3 + sizeB.toNat))

def parseCapsLoop : Nat → CapDict → Bytes → R (CapDict × Bytes)
  | 0, d, caps => .ok (d, caps)
  | n+1, d, caps =>
    match capStep d caps with
    | .stop => .ok (d, caps)
    | .next d' caps' => parseCapsLoop n d' caps'
    | .err e => .error e

structure CapsResp where
  caps : CapDict
  additional : Bool
  deriving DecidableEq, Repr

/-- `additional = bool(caps[-2])` when more than one byte is left -/
def additionalFlag (rest : Bytes) : Bool :=
  if rest.length > 1 then ((rest[rest.length - 2]?).map (fun x => decide (x ≠ 0))).getD false else false

def parseCaps (p : Bytes) : R CapsResp := do
  let count ← Py.idx p 1
  let r ← parseCapsLoop count.toNat [] (p.drop 2)
  pure ⟨r.1, additionalFlag r.2⟩

/-- `CapabilitiesResponse.merge` -/
def CapsResp.merge (a b : CapsResp) : CapsResp := { a with caps := dictUpdate a.caps b.caps }

/-! ### PropertiesResponse -/

inductive PropDecoded where
  | b (v : Bool)
  | n (v : Nat)
  deriving DecidableEq, Repr

/-- outcome of `PropertyId.decode(data)` -/
inductive PropDec where
  | notImplemented                 -- NotImplementedError (id not in `_supported`)
  | indexError                     -- data shorter than the decoder needs
  | noValue                        -- Python `None` (buzzer)
  | value (v : PropDecoded)
  deriving DecidableEq, Repr

def idxOr {α} (l : List α) (i : Nat) (f : α → PropDec) : PropDec :=
  match l[i]? with | some x => f x | none => .indexError

/-- `PropertyId.decode(data)` -/
def propDecode (pid : Nat) (data : Bytes) : PropDec :=
  if ¬ Generated.propertySupported.contains pid then .notImplemented else
  if pid = pidBreezeless ∨ pid = pidSelfClean then idxOr data 0 (fun x => .value (.b (x ≠ 0)))
  else if pid = pidBreezeAway then idxOr data 0 (fun x => .value (.b (x = 2)))
  else if pid = pidBuzzer then .noValue
  else if pid = pidIeco then idxOr data 1 (fun x => .value (.b (x ≠ 0)))
  else idxOr data 0 (fun x => .value (.n x.toNat))

abbrev PropDict := List (Nat × PropDecoded)

def knownPropertyId (raw : Nat) : Bool := (Generated.propertyId.map Prod.snd).contains raw

inductive PropStep where
  | stop
  | next (d : PropDict) (props : Bytes)
  | err (e : Err)

def propStep (d : PropDict) (props : Bytes) : PropStep :=
  if props.length < 4 then .stop else
  match props[3]? with
  | none => .stop
  | some sizeB =>
    if sizeB = 0 then .next d (props.drop 4) else
    if ¬ knownPropertyId (Py.fromLE (props.take 2)) then .next d (props.drop (4 + sizeB.toNat)) else
    match propDecode (Py.fromLE (props.take 2)) (props.drop 4) with
    | .notImplemented => .next d (props.drop (4 + sizeB.toNat))
    | .indexError => .err indexError
    | .noValue => .next d (props.drop (4 + sizeB.toNat))
    | .value v => .next (dictSet d (Py.fromLE (props.take 2)) v) (props.drop (4 + sizeB.toNat))

def parsePropsLoop : Nat → PropDict → Bytes → R PropDict
  | 0, d, _ => .ok d
  | n+1, d, props =>
    match propStep d props with
    | .stop => .ok d
    | .next d' props' => parsePropsLoop n d' props'
    | .err e => .error e

def parseProps (p : Bytes) : R PropDict := do
  let count ← Py.idx p 1
  parsePropsLoop count.toNat [] (p.drop 2)

/-! ### EnergyUsageResponse / HumidityResponse -/

def decodeBcd (d : UInt8) : Nat := 10 * (d >>> 4).toNat + (d &&& 0xF).toNat

structure EnergyResp where
  valid : Bool
  totalBcd : Nat        -- hundredths of a kWh
  currentBcd : Nat      -- hundredths
  powerBcd : Nat        -- tenths of a W
  totalBin : Nat        -- tenths
  currentBin : Nat      -- tenths
  powerBin : Nat        -- tenths
  deriving DecidableEq, Repr

def energyBcd (d0 d1 d2 d3 : UInt8) : Nat :=
  1000000 * decodeBcd d0 + 10000 * decodeBcd d1 + 100 * decodeBcd d2 + decodeBcd d3
def energyBin (d0 d1 d2 d3 : UInt8) : Nat :=
  d0.toNat * 16777216 + d1.toNat * 65536 + d2.toNat * 256 + d3.toNat
def powerBcd (d0 d1 d2 : UInt8) : Nat := 10000 * decodeBcd d0 + 100 * decodeBcd d1 + decodeBcd d2
def powerBin (d0 d1 d2 : UInt8) : Nat := d0.toNat * 65536 + d1.toNat * 256 + d2.toNat

def parseEnergy (p : Bytes) : R EnergyResp := do
  let a0 ← Py.idx p 4
  let a1 ← Py.idx p 5
  let a2 ← Py.idx p 6
  let a3 ← Py.idx p 7
  let b0 ← Py.idx p 12
  let b1 ← Py.idx p 13
  let b2 ← Py.idx p 14
  let b3 ← Py.idx p 15
  let c0 ← Py.idx p 16
  let c1 ← Py.idx p 17
  let c2 ← Py.idx p 18
  pure {
    valid := energyBcd a0 a1 a2 a3 ≠ 0 || energyBcd b0 b1 b2 b3 ≠ 0 || powerBcd c0 c1 c2 ≠ 0
    totalBcd := energyBcd a0 a1 a2 a3, currentBcd := energyBcd b0 b1 b2 b3, powerBcd := powerBcd c0 c1 c2
    totalBin := energyBin a0 a1 a2 a3, currentBin := energyBin b0 b1 b2 b3, powerBin := powerBin c0 c1 c2 }

def parseHumidity (p : Bytes) : R (Option Nat) := do
  let h ← Py.idx p 4
  pure (if h ≠ 0 then some h.toNat else none)

/-! ### Response.validate / Response.construct -/

inductive Resp where
  | base (id : UInt8) (payload : Bytes)
  | state (s : StateResp)
  | caps (c : CapsResp)
  | props (id : UInt8) (p : PropDict)
  | energy (e : EnergyResp)
  | humidity (h : Option Nat)
  deriving DecidableEq, Repr

def Resp.id : Resp → UInt8
  | .base i _ => i | .state _ => 0xC0 | .caps _ => 0xB5 | .props i _ => i
  | .energy _ => 0xC1 | .humidity _ => 0xC1

/-- `Response.validate(payload)`: last byte equals CRC-8 or additive checksum of the rest -/
def respValidate (payload : Bytes) : R Unit :=
  match payload.getLast? with
  | none => .error indexError
  | some last =>
    if crc8 payload.dropLast ≠ last ∧ checksum payload.dropLast ≠ last then .error .invalidResponse
    else .ok ()

inductive RespClass where | base | state | caps | props | energy | humidity
  deriving DecidableEq, Repr

/-- the dispatch of `Response.construct` on frame type and response id -/
def respClass (frame : Bytes) : R RespClass := do
  let ft ← Py.idx frame 9
  let rid ← Py.idx frame 10
  if rid = 0xC0 then pure .state
  else if rid = 0xB5 ∧ ft = ftQuery then pure .caps
  else if rid = 0xB1 ∨ rid = 0xB0 then pure .props
  else if rid = 0xC1 then do
    let g ← Py.idx frame 13
    if g &&& 0xF = 4 then pure .energy
    else if g &&& 0xF = 5 then pure .humidity
    else pure .base
  else pure .base

/-- payload CRC validation, skipped for properties responses -/
def validateUnlessProps (cls : RespClass) (frame : Bytes) : R Unit :=
  if cls ≠ .props then respValidate ((frame.drop 10).dropLast) else .ok ()

/-- the classes as the translator numbers them -/
def RespClass.tag : RespClass → Int
  | .base => 0 | .state => 1 | .caps => 2 | .props => 3 | .energy => 4 | .humidity => 5

/-- `Response._construct` up to the constructor call: frame checksum, class by id / frame type / group, body check
    (skipped for properties responses), and the payload `frame[10:-2]` handed to the class -/
def constructDispatch (frame : Bytes) : R (Int × Bytes) := do
  let _ ← frameValidate frame
  let cls ← respClass frame
  let _ ← validateUnlessProps cls frame
  pure (cls.tag, ((frame.drop 10).dropLast).dropLast)

/-- `response_class(frame_mv[10:-2])` -/
def buildResp (cls : RespClass) (id : UInt8) (p : Bytes) : R Resp :=
  match cls with
  | .base => .ok (.base id p)
  | .state => (parseState p).map .state
  | .caps => (parseCaps p).map .caps
  | .props => (parseProps p).map (.props id)
  | .energy => (parseEnergy p).map .energy
  | .humidity => (parseHumidity p).map .humidity

/-- `Response._construct(frame)` (the body of `construct` before IndexError is mapped) -/
def constructInner (frame : Bytes) : R Resp := do
  let _ ← frameValidate frame
  let cls ← respClass frame
  let _ ← validateUnlessProps cls frame
  let id ← Py.idx (((frame.drop 10).dropLast).dropLast) 0    -- Response.__init__: payload[0]
  buildResp cls id (((frame.drop 10).dropLast).dropLast)     -- frame[10:-2]

/-- `Response.construct(frame)`: IndexError (frame or payload shorter than its type requires) is
    turned into InvalidResponseException (repaired by `fix:` commit e1e5d79) -/
def mapIndexError (e : Err) : Err := if e = indexError then .invalidResponse else e

def construct (frame : Bytes) : R Resp :=
  match constructInner frame with
  | .error e => .error (mapIndexError e)
  | .ok r => .ok r

end Msmart.Model
