namespace Msmart.Model
/-- kind of the default value of an AirConditioner property (decides how the CLI converts a value) -/
inductive CliKind where
  | enum (e : String) | bool | int | float | other
  deriving DecidableEq, Repr
end Msmart.Model
