/-
  Model of msmart/discover.py: version detection, the V2/V3 reply parser, the datagram handler's
  de-duplication and the gathering of per-host tasks.
-/
import Msmart.Model.PacketV2

namespace Msmart.Model

structure DevInfo where
  port : Nat
  id : Nat
  sn : Bytes            -- ASCII text
  name : Bytes          -- ASCII text
  dtype : Nat
  version : Nat
  deriving DecidableEq, Repr

def hexVal? (c : UInt8) : Option Nat :=
  if 0x30 ≤ c ∧ c ≤ 0x39 then some (c.toNat - 0x30)
  else if 0x61 ≤ c ∧ c ≤ 0x66 then some (c.toNat - 0x61 + 10)
  else if 0x41 ≤ c ∧ c ≤ 0x46 then some (c.toNat - 0x41 + 10)
  else none

/-- `int(s, 16)` for a plain non-empty string of hex digits (either case); anything else is
    outside the modelled domain of `int()` and treated as ValueError -/
def parseHex (s : Bytes) : Option Nat :=
  if s.isEmpty then none else
  s.foldl (fun acc c => match acc, hexVal? c with
    | some a, some v => some (a * 16 + v)
    | _, _ => none) (some 0)

/-- `name.split("_")` -/
def splitOn5F : Bytes → List Bytes
  | [] => [[]]
  | c :: t =>
    if c = 0x5F then [] :: splitOn5F t
    else match splitOn5F t with
      | [] => [[c]]
      | h :: r => (c :: h) :: r

def isAscii (b : Bytes) : Bool := b.all (· < 0x80)

/-- the V2 packet inside a reply: a V3 reply carries an 8-byte prefix and 16 trailing bytes -/
def replyInner (version : Nat) (data : Bytes) : Bytes :=
  if version = 3 then (data.take (data.length - 16)).drop 8 else data

/-- the parse of the decrypted body (everything that can fail on a malformed body) -/
def parseBody (version : Nat) (id : Nat) (dec : Bytes) : Option DevInfo :=
  if dec.length < 4 then none else                       -- IPv4Address needs four bytes
  if ¬ isAscii ((dec.drop 8).take 32) then none else     -- serial number text
  match dec[40]? with
  | none => none                                         -- name length byte
  | some nl =>
    if ¬ isAscii ((dec.drop 41).take nl.toNat) then none else
    match (splitOn5F ((dec.drop 41).take nl.toNat))[1]? with
    | none => none                                       -- no "_" in the name
    | some seg =>
      match parseHex seg with
      | none => none                                     -- type is not hex
      | some t => some { port := Py.fromLE ((dec.drop 4).take 2), id := id, sn := (dec.drop 8).take 32,
                         name := (dec.drop 41).take nl.toNat, dtype := t, version := version }

/-- `_get_device_info(ip, version, data)` for versions 2 and 3: every failure (undecryptable,
    short body, non-text, missing separators, non-hex type) is a DiscoverError -/
def getDeviceInfo (version : Nat) (data : Bytes) : R DevInfo :=
  match decryptAes (((replyInner version data).take ((replyInner version data).length - 16)).drop 40) with
  | .error _ => .error .discover
  | .ok dec =>
    match parseBody version (Py.fromLE (((replyInner version data).drop 20).take 6)) dec with
    | none => .error .discover
    | some info => .ok info

/-- `_get_device_version(data)`; whether the bytes parse as XML is an input bit -/
def getDeviceVersion (isXml : Bool) (data : Bytes) : R Nat :=
  if isXml then .ok 1
  else if data.take 2 = [0x5A, 0x5A] then .ok 2
  else if data.take 2 = [0x83, 0x70] then .ok 3
  else .error .discover

/-- one datagram as the handler sees it: source host, XML bit, payload -/
structure Dgram where
  host : Nat
  isXml : Bool
  data : Bytes
  deriving DecidableEq, Repr

/-- `_get_device(ip, version, data)` with `auto_connect=False`: None on DiscoverError /
    NotImplementedError (every V1 reply ends there), else the device description -/
def getDevice (version : Nat) (data : Bytes) : Option DevInfo :=
  if version = 1 then none else
  match getDeviceInfo version data with
  | .ok i => some i
  | .error _ => none

/-- the datagram handler: hosts already seen are ignored; an unknown version spawns no task -/
def handleDatagrams : List Nat → List Dgram → List (Nat × Nat × Bytes)
  | _, [] => []
  | seen, d :: t =>
    if seen.contains d.host then handleDatagrams seen t
    else match getDeviceVersion d.isXml d.data with
      | .ok v => (d.host, v, d.data) :: handleDatagrams (d.host :: seen) t
      | .error _ => handleDatagrams (d.host :: seen) t

/-- `Discover.discover(auto_connect=False)`: gather the tasks, drop the Nones -/
def discoverRun (ds : List Dgram) : List (Nat × DevInfo) :=
  (handleDatagrams [] ds).filterMap (fun (h, v, data) => (getDevice v data).map (fun i => (h, i)))

end Msmart.Model
