/-
  Model of `_LanProtocolV3.data_received`: accumulate, find the start marker 83 70, need 6 header
  bytes, total = size field + 8, slice the packet off, requeue; nothing is trimmed on an early return.
-/
import Msmart.Py.Basic

namespace Msmart.Model

/-- `buffer.find(b"\x83\x70")` -/
def findMarker (b : Bytes) : Option Nat := Py.find2 0x83 0x70 b

/-- `int.from_bytes(buf[2:4], "big")` -/
def sizeField (buf : Bytes) : Nat := (buf.getD 2 0).toNat * 256 + (buf.getD 3 0).toNat

/-- with the buffer trimmed to the marker: header complete? whole packet there? then split -/
def takePacket (buf : Bytes) : Option (Bytes × Bytes) :=
  if buf.length < 6 then none else
  if buf.length < sizeField buf + 8 then none else
  some (buf.take (sizeField buf + 8), buf.drop (sizeField buf + 8))

/-- one iteration of the while loop: either emit a packet and the new buffer, or stop -/
def reasmStep (buffer : Bytes) : Option (Bytes × Bytes) :=
  match findMarker buffer with
  | none => none
  | some start => takePacket (buffer.drop start)

theorem reasmStep_shrinks {b p r : Bytes} (h : reasmStep b = some (p, r)) : r.length < b.length := by
  unfold reasmStep at h
  split at h
  · simp at h
  · unfold takePacket at h
    split at h
    · simp at h
    · split at h
      · simp at h
      · simp only [Option.some.injEq, Prod.mk.injEq] at h
        obtain ⟨_, rfl⟩ := h
        simp only [List.length_drop] at *
        omega

/-- the whole `while` loop on a buffer: packets queued (in order) and the buffer left over.
    Termination: every iteration that continues removes at least 8 bytes. -/
def parseLoop (b : Bytes) : List Bytes × Bytes :=
  match h : reasmStep b with
  | none => ([], b)
  | some (p, r) =>
    let (ps, r') := parseLoop r
    (p :: ps, r')
termination_by b.length
decreasing_by exact reasmStep_shrinks h

/-- `data_received(seg)` on a protocol whose buffer is `buf` -/
def feed (buf seg : Bytes) : List Bytes × Bytes := parseLoop (buf ++ seg)

/-- a sequence of `data_received` calls: everything queued, in order, and the final buffer -/
def feedAll : Bytes → List Bytes → List Bytes × Bytes
  | buf, [] => ([], buf)
  | buf, s :: t => ((feed buf s).1 ++ (feedAll (feed buf s).2 t).1, (feedAll (feed buf s).2 t).2)

end Msmart.Model
