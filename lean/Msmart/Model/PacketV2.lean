/-
  Model of msmart/lan.py: Security (V2 part) and _Packet.
-/
import Msmart.Py.Basic
import Msmart.Generated.Consts
import Msmart.Crypto.AES
import Msmart.Crypto.MD5
import Msmart.Crypto.SHA256

namespace Msmart.Model
open Msmart.Crypto

/-- `Security.sign(data)` = md5(data + SIGN_KEY) -/
def sign (data : Bytes) : Bytes := MD5.md5 (data ++ Generated.signKey)

/-- `Security.encrypt_aes(data)`: AES-128-ECB under ENC_KEY of the PKCS7-padded data -/
def encryptAes (data : Bytes) : Bytes := AES.ecbEncrypt Generated.encKey (AES.pkcs7Pad data)

/-- `Security.decrypt_aes(data)`: pycryptodome raises ValueError for a length that is not a
    multiple of the block size and for bad / missing padding -/
def decryptAes (data : Bytes) : R Bytes :=
  if data.length % 16 ≠ 0 then .error (.py "ValueError") else
  match AES.pkcs7Unpad (AES.ecbDecrypt Generated.encKey data) with
  | none => .error (.py "ValueError")
  | some x => .ok x

/-- `Security.udpid(device_id_bytes)` -/
def udpid (idBytes : Bytes) : Bytes :=
  Py.xorBytes ((SHA256.sha256 idBytes).take 16) ((SHA256.sha256 idBytes).drop 16)

def v2Header (length : Nat) (ts : Bytes) (deviceId : Nat) : Bytes :=
  [0x5A, 0x5A, 0x01, 0x11] ++ Py.toLE 2 length ++ [0x20, 0x00] ++ Py.zeros 4 ++ ts ++
    Py.toLE 8 deviceId ++ Py.zeros 12

/-- `_Packet.encode(device_id, command)` with the 8 timestamp bytes as an input -/
def packetEncode (deviceId : Nat) (ts : Bytes) (command : Bytes) : R Bytes :=
  if 40 + (encryptAes command).length + 16 ≥ 65536 then .error (.py "OverflowError") else
  if deviceId ≥ 2 ^ 64 then .error (.py "OverflowError") else
  .ok (v2Header (40 + (encryptAes command).length + 16) ts deviceId ++ encryptAes command ++
        sign (v2Header (40 + (encryptAes command).length + 16) ts deviceId ++ encryptAes command))

/-- the packet after `packet = packet[:length]` -/
def v2Cut (data : Bytes) : Bytes := data.take (Py.fromLE ((data.drop 4).take 2))

/-- `_Packet.decode(data)` up to (not including) the decryption: the slice to decrypt -/
def packetCheck (data : Bytes) : R Bytes :=
  if data.length < 6 then .error .protocol else
  if data.take 2 ≠ [0x5A, 0x5A] then .error .protocol else
  if data.length < Py.fromLE ((data.drop 4).take 2) then .error .protocol else
  if sign ((v2Cut data).take ((v2Cut data).length - 16)) ≠ (v2Cut data).drop ((v2Cut data).length - 16)
    then .error .protocol else
  .ok (((v2Cut data).take ((v2Cut data).length - 16)).drop 40)

/-- `_Packet.decode(data)`: a ValueError of the cipher / padding library is reported as
    ProtocolError (since `fix:` "report undecryptable packets from the peer as ProtocolError") -/
def packetDecode (data : Bytes) : R Bytes :=
  match packetCheck data with
  | .error e => .error e
  | .ok enc =>
    match decryptAes enc with
    | .error _ => .error .protocol
    | .ok f => .ok f

end Msmart.Model
