/-
  Model of the session logic of msmart/lan.py (`_LanProtocol`, `_LanProtocolV3`, `LAN`) and of
  `Device._send_command` / `Device.authenticate`, as a deterministic discrete-event simulation:
  the world holds a clock (ms), the peer's pending events and the peer's *reactions* to the client's
  writes (any function of connection and write index: theorems quantify over all of them), and the
  outcomes of connection attempts.  Outgoing traffic is recorded structurally (kind, counter, key,
  frame) — the byte-level codecs are the subject of C02/C05; incoming bytes are processed by the
  real codec models (reassembly, `_process_packet`, `_Packet.decode`, `_get_local_key`).
-/
import Msmart.Model.PacketV3
import Msmart.Model.Reassembly

namespace Msmart.Model.Session
open Msmart Msmart.Model

/-- timing parameters (measured on the implementation by the harness; theorems hold for all) -/
structure Params where
  readTimeout : Nat := 2000
  connectTimeout : Nat := 5000
  authSleep : Nat := 1000
  authExpiry : Nat := Generated.authExpirationSeconds * 1000
  deriving Repr

inductive PeerEvent where
  | data (b : Bytes)
  | close
  deriving DecidableEq, Repr

structure Timed where
  t : Nat
  cid : Nat
  ev : PeerEvent
  deriving DecidableEq, Repr

inductive ConnOutcome where | ok | refused | hang
  deriving DecidableEq, Repr

/-- what the client put on a connection (structural write log) and what it accepted -/
inductive Ev where
  | connect (cid : Nat) (v3 : Bool)
  | wrHS (cid ctr : Nat) (token : Bytes)
  | wrData (cid ctr : Nat) (key : Bytes) (frame : Bytes)
  | wrV2 (cid : Nat) (frame : Bytes)
  | accept (cid : Nat) (key : Bytes)
  | closed (cid : Nat)
  deriving DecidableEq, Repr

structure Conn where
  cid : Nat
  v3 : Bool
  closing : Bool := false
  packetId : Nat := 0
  localKey : Option Bytes := none
  keyExpiry : Option Nat := none
  buffer : Bytes := []
  queue : List Bytes := []
  nWrites : Nat := 0
  deriving DecidableEq, Repr

/-- the peer: reactions to the `idx`-th write on connection `cid` (delay in ms, event) -/
abbrev Reactions := Nat → Nat → List (Nat × PeerEvent)

structure World where
  now : Nat := 0
  pending : List Timed := []
  connects : List ConnOutcome := []
  nConn : Nat := 0
  log : List (Nat × Ev) := []          -- (time, event)

structure Lan where
  token : Option Bytes := none
  key : Option Bytes := none
  version : Nat := 2
  conn : Option Conn := none
  connExpiry : Option Nat := none
  maxLifetime : Option Nat := none

structure S where
  w : World := {}
  l : Lan := {}

/-! ### the peer side of the simulation -/

/-- an event reaching the protocol object of connection `c` -/
def applyEvent (c : Conn) (e : PeerEvent) : Conn :=
  if c.closing then c else
  match e with
  | .close => { c with closing := true }
  | .data b =>
    if c.v3 then { c with queue := c.queue ++ (parseLoop (c.buffer ++ b)).1, buffer := (parseLoop (c.buffer ++ b)).2 }
    else { c with queue := c.queue ++ [b] }

/-- earliest pending event not later than `deadline` (first such in list order on ties) -/
def nextDue (pending : List Timed) (deadline : Nat) : Option Timed :=
  pending.foldl (fun best e =>
    if e.t ≤ deadline then
      match best with
      | none => some e
      | some b => if e.t < b.t then some e else some b
    else best) none

def removeFirst (pending : List Timed) (e : Timed) : List Timed :=
  match pending with
  | [] => []
  | h :: t => if h = e then t else h :: removeFirst t e

/-- deliver an event to the current connection if it is addressed to it; otherwise it is lost -/
def deliverTo (conn : Option Conn) (e : Timed) : Option Conn :=
  match conn with
  | some c => if c.cid = e.cid then some (applyEvent c e.ev) else some c
  | none => none

/-- let time pass until `t`, delivering everything due (fuel = number of pending events) -/
def pumpUntil : Nat → S → Nat → S
  | 0, s, t => { s with w := { s.w with now := max s.w.now t } }
  | fuel + 1, s, t =>
    match nextDue s.w.pending t with
    | none => { s with w := { s.w with now := max s.w.now t } }
    | some e =>
      pumpUntil fuel { w := { s.w with now := max s.w.now e.t, pending := removeFirst s.w.pending e },
                       l := { s.l with conn := deliverTo s.l.conn e } } t

def pump (s : S) (t : Nat) : S := pumpUntil s.w.pending.length s t

/-! ### protocol object primitives -/

def alive (c : Conn) : Bool := !c.closing

def logEv (s : S) (e : Ev) : S := { s with w := { s.w with log := s.w.log ++ [(s.w.now, e)] } }

/-- schedule the peer's reactions to the write just made -/
def react (rx : Reactions) (s : S) (c : Conn) : S :=
  { s with w := { s.w with pending := s.w.pending ++ (rx c.cid c.nWrites).map (fun r => ⟨s.w.now + r.1, c.cid, r.2⟩) } }

def setConn (s : S) (c : Conn) : S := { s with l := { s.l with conn := some c } }

/-- `_LanProtocolV3.write(data, HANDSHAKE_REQUEST)` -/
def writeHandshake (rx : Reactions) (s : S) (c : Conn) (token : Bytes) : R S :=
  if token.length ≥ 65536 then .error (.py "OverflowError") else
  if c.closing then .error .protocol else
  .ok (setConn (react rx (logEv s (.wrHS c.cid c.packetId token)) c)
        { c with packetId := (c.packetId + 1) % 4096, nWrites := c.nWrites + 1 })

/-- `_LanProtocolV3.write(packet)` (encrypted request); refuses without a key -/
def writeData (rx : Reactions) (s : S) (c : Conn) (frame : Bytes) : R S :=
  match c.localKey with
  | none => .error .protocol
  | some k =>
    if c.closing then .error .protocol else
    .ok (setConn (react rx (logEv s (.wrData c.cid c.packetId k frame)) c)
          { c with packetId := (c.packetId + 1) % 4096, nWrites := c.nWrites + 1 })

/-- `_LanProtocol.write(packet)` on a V2 connection -/
def writeV2 (rx : Reactions) (s : S) (c : Conn) (frame : Bytes) : R S :=
  if c.closing then .error .protocol else
  .ok (setConn (react rx (logEv s (.wrV2 c.cid frame)) c) { c with nWrites := c.nWrites + 1 })

def write (rx : Reactions) (s : S) (c : Conn) (frame : Bytes) : R S :=
  if c.v3 then writeData rx s c frame else writeV2 rx s c frame

inductive ReadRes where
  | packet (raw : Bytes)
  | timeout
  deriving DecidableEq, Repr

/-- `await _read_queue(timeout)`: the head of the queue, or wait for the peer until the deadline -/
def awaitQueue : Nat → S → Nat → ReadRes × S
  | 0, s, deadline => (.timeout, { s with w := { s.w with now := max s.w.now deadline } })
  | fuel + 1, s, deadline =>
    match s.l.conn with
    | none => (.timeout, s)
    | some c =>
      match c.queue with
      | p :: q => (.packet p, setConn s { c with queue := q })
      | [] =>
        match nextDue s.w.pending deadline with
        | none => (.timeout, { s with w := { s.w with now := max s.w.now deadline } })
        | some e =>
          awaitQueue fuel { w := { s.w with now := max s.w.now e.t, pending := removeFirst s.w.pending e },
                            l := { s.l with conn := deliverTo s.l.conn e } } deadline

/-- `_read_queue(timeout=0)`: `get_nowait` -/
def pollQueue (s : S) : Option (Bytes × S) :=
  match s.l.conn with
  | some c => match c.queue with
    | p :: q => some (p, setConn s { c with queue := q })
    | [] => none
  | none => none

/-- `protocol.read()` result decoded by `LAN._read`: process (V3) then `_Packet.decode` -/
def decodeRead (c : Conn) (raw : Bytes) : R Bytes :=
  if c.v3 then
    match processPacket c.localKey raw with
    | .error e => .error e
    | .ok p => packetDecode p
  else packetDecode raw

/-! ### LAN -/

def connAlive (p : Params) (s : S) : Bool :=
  match s.l.conn with
  | none => false
  | some c => alive c && (match s.l.connExpiry with | some e => decide (s.w.now ≤ e) | none => true)

def authenticated (s : S) (c : Conn) : Bool :=
  match c.localKey, c.keyExpiry with
  | some _, some e => decide (s.w.now ≤ e)
  | _, _ => false

/-- `_disconnect()` -/
def disconnect (s : S) : S :=
  match s.l.conn with
  | some c => logEv { s with l := { s.l with conn := none } } (.closed c.cid)
  | none => s

/-- `_connect()`: consumes one connection outcome -/
def connect (p : Params) (s : S) : R S × S :=
  match s.w.connects with
  | [] | .refused :: _ =>
    (.error .protocol, { s with w := { s.w with connects := s.w.connects.drop 1 } })
  | .hang :: rest =>
    let s1 := pump { s with w := { s.w with connects := rest } } (s.w.now + p.connectTimeout)
    (.error .timeout, s1)
  | .ok :: rest =>
    let c : Conn := { cid := s.w.nConn + 1, v3 := s.l.version = 3 }
    let s1 : S := { w := { s.w with connects := rest, nConn := s.w.nConn + 1 },
                    l := { s.l with conn := some c,
                                    connExpiry := match s.l.maxLifetime with
                                      | some m => if m = 0 then s.l.connExpiry else some (s.w.now + m)
                                      | none => s.l.connExpiry } }
    (.ok (logEv s1 (.connect c.cid c.v3)), logEv s1 (.connect c.cid c.v3))

/-- `_LanProtocolV3.authenticate(token, key)`: one handshake attempt -/
def protoAuthenticate (p : Params) (rx : Reactions) (s : S) (token key : Option Bytes) : R S × S :=
  match s.l.conn with
  | none => (.error (.py "AssertionError"), s)
  | some c =>
    match token, key with
    | some tk, some ky =>
      if tk.isEmpty ∨ ky.isEmpty then (.error .auth, s) else
      -- flush
      match writeHandshake rx s { c with queue := [] } tk with
      | .error .protocol => (.error .auth, setConn s { c with queue := [] })
      | .error e => (.error e, setConn s { c with queue := [] })
      | .ok s1 =>
        match awaitQueue (s1.w.pending.length + 1) s1 (s1.w.now + p.readTimeout) with
        | (.timeout, s2) => (.error .timeout, s2)
        | (.packet raw, s2) =>
          match s2.l.conn with
          | none => (.error (.py "AssertionError"), s2)
          | some c2 =>
            match processPacket c2.localKey raw with
            | .error .protocol => (.error .auth, s2)
            | .error e => (.error e, s2)
            | .ok payload =>
              match getLocalKey ky payload with
              | .error e => (.error e, s2)
              | .ok lk =>
                let s3 := setConn s2 { c2 with localKey := some lk, keyExpiry := some (s2.w.now + p.authExpiry) }
                (.ok (logEv s3 (.accept c2.cid lk)), logEv s3 (.accept c2.cid lk))
    | _, _ => (.error .auth, s)

/-- the retry loop of `LAN.authenticate` -/
def authLoop (p : Params) (rx : Reactions) (token key : Option Bytes) : Nat → S → R S × S
  | 0, s => (.ok s, s)
  | n + 1, s =>
    match protoAuthenticate p rx s token key with
    | (.ok s1, _) => (.ok s1, s1)
    | (.error .timeout, s1) =>
      if n + 1 > 1 then authLoop p rx token key n s1
      else (.error .timeout, disconnect s1)      -- since `fix:` "drop the connection when authentication times out"
    | (.error e, s1) => (.error e, s1)

/-- `LAN.authenticate(token, key, retries)` -/
def lanAuthenticate (p : Params) (rx : Reactions) (s : S) (token key : Option Bytes) (retries : Nat) : R S × S :=
  let tk := if token.isNone ∨ key.isNone then s.l.token else token
  let ky := if token.isNone ∨ key.isNone then s.l.key else key
  let needConn := !connAlive p s || !(match s.l.conn with | some c => c.v3 | none => false)
  let r0 : R S × S :=
    if needConn then connect p { (disconnect s) with l := { (disconnect s).l with version := 3 } }
    else (.ok s, s)
  match r0 with
  | (.error e, s1) => (.error e, s1)
  | (.ok _, s1) =>
    match authLoop p rx tk ky retries s1 with
    | (.error e, s2) => (.error e, s2)
    | (.ok _, s2) =>
      match s2.l.conn with
      | none => (.error (.py "AssertionError"), s2)
      | some c =>
        if !authenticated s2 c then (.error (.py "AssertionError"), s2) else
        let s3 : S := { s2 with l := { s2.l with token := tk, key := ky } }
        let s4 := pump s3 (s3.w.now + p.authSleep)
        (.ok s4, s4)

/-- `_read_available()`: everything already queued, decoded; a decode error propagates -/
def readAvailable : Nat → S → List Bytes → R (List Bytes) × S
  | 0, s, acc => (.ok acc, s)
  | fuel + 1, s, acc =>
    match s.l.conn with
    | none => (.ok acc, s)
    | some c =>
      match pollQueue s with
      | none => (.ok acc, s)
      | some (raw, s1) =>
        match decodeRead c raw with
        | .error e => (.error e, s1)
        | .ok f => readAvailable fuel s1 (acc ++ [f])

def queueLen (s : S) : Nat := match s.l.conn with | some c => c.queue.length | none => 0

/-- the transmit / retry loop of `LAN.send` -/
def sendLoop (p : Params) (rx : Reactions) (frame : Bytes) : Nat → S → List Bytes → R (List Bytes) × S
  | 0, s, acc => (.ok acc, s)
  | n + 1, s, acc =>
    match s.l.conn with
    | none => (.error (.py "AssertionError"), s)
    | some c =>
      match write rx s c frame with
      | .error e => (.error e, s)                         -- raised outside the try: no disconnect
      | .ok s1 =>
        match awaitQueue (s1.w.pending.length + 1) s1 (s1.w.now + p.readTimeout) with
        | (.timeout, s2) =>
          if n + 1 > 1 then sendLoop p rx frame n s2 acc
          else (.error .timeout, disconnect s2)
        | (.packet raw, s2) =>
          match s2.l.conn with
          | none => (.error (.py "AssertionError"), s2)
          | some c2 =>
            match decodeRead c2 raw with
            | .error .protocol => (.error .protocol, disconnect s2)
            | .error .auth => (.error .auth, disconnect s2)
            | .error e => (.error e, s2)
            | .ok f => (.ok (acc ++ [f]), s2)

/-- `LAN.send(data, retries)` -/
def lanSend (p : Params) (rx : Reactions) (s : S) (frame : Bytes) (retries : Nat) : R (List Bytes) × S :=
  let r0 : R S × S := if !connAlive p s then connect p (disconnect s) else (.ok s, s)
  match r0 with
  | (.error e, s1) => (.error e, s1)
  | (.ok _, s1) =>
    let r1 : R S × S :=
      match s1.l.conn with
      | some c => if c.v3 && !authenticated s1 c then lanAuthenticate p rx s1 none none Generated.lanRetries else (.ok s1, s1)
      | none => (.error (.py "AssertionError"), s1)
    match r1 with
    | (.error e, s2) => (.error e, s2)
    | (.ok _, s2) =>
      match readAvailable (queueLen s2 + 1) s2 [] with
      | (.error e, s3) => (.error e, s3)
      | (.ok pre, s3) =>
        match sendLoop p rx frame retries s3 pre with
        | (.error e, s4) => (.error e, s4)
        | (.ok got, s4) =>
          match readAvailable (queueLen s4 + 1) s4 got with
          | (.error e, s5) => (.error e, s5)
          | (.ok all, s5) => (.ok all, s5)

/-! ### device level -/

/-- `Device._send_command`: protocol errors and timeouts become "no response" -/
def deviceSend (p : Params) (rx : Reactions) (s : S) (frame : Bytes) : R (List Bytes) × S :=
  match lanSend p rx s frame Generated.lanRetries with
  | (.ok fs, s1) => (.ok fs, s1)
  | (.error .protocol, s1) => (.ok [], s1)
  | (.error .auth, s1) => (.ok [], s1)
  | (.error .timeout, s1) => (.ok [], s1)
  | (.error e, s1) => (.error e, s1)

/-- `Device.authenticate`: protocol errors and timeouts become AuthenticationError -/
def deviceAuthenticate (p : Params) (rx : Reactions) (s : S) (token key : Bytes) : R Unit × S :=
  match lanAuthenticate p rx s (some token) (some key) Generated.lanRetries with
  | (.ok _, s1) => (.ok (), s1)
  | (.error .protocol, s1) => (.error .auth, s1)
  | (.error .timeout, s1) => (.error .auth, s1)
  | (.error e, s1) => (.error e, s1)

/-- operations of a history -/
inductive Op where
  | send (frame : Bytes)
  | sendN (frame : Bytes) (retries : Nat)
  | authenticate (token key : Bytes)
  | advance (ms : Nat)
  | setMaxLifetime (ms : Option Nat)
  deriving DecidableEq, Repr

inductive Outcome where
  | frames (fs : List Bytes)
  | done
  | failed (e : Err)
  deriving DecidableEq, Repr

def step (p : Params) (rx : Reactions) (s : S) : Op → Outcome × S
  | .send f => match lanSend p rx s f Generated.lanRetries with
    | (.ok fs, s1) => (.frames fs, s1)
    | (.error e, s1) => (.failed e, s1)
  | .sendN f n => match lanSend p rx s f n with
    | (.ok fs, s1) => (.frames fs, s1)
    | (.error e, s1) => (.failed e, s1)
  | .authenticate t k => match lanAuthenticate p rx s (some t) (some k) Generated.lanRetries with
    | (.ok _, s1) => (.done, s1)
    | (.error e, s1) => (.failed e, s1)
  | .advance ms => (.done, pump s (s.w.now + ms))
  | .setMaxLifetime m => (.done, { s with l := { s.l with maxLifetime := m } })

def run (p : Params) (rx : Reactions) : S → List Op → List Outcome × S
  | s, [] => ([], s)
  | s, o :: t =>
    let (r, s1) := step p rx s o
    let (rs, s2) := run p rx s1 t
    (r :: rs, s2)

end Msmart.Model.Session
