/-
  Model of the session logic of msmart/lan.py (`_LanProtocol`, `_LanProtocolV3`, `LAN`) and of
  `Device._send_command` / `Device.authenticate`, as a deterministic discrete-event simulation:
  the world holds a clock (ms), the peer's pending events and the peer's *reactions* to the client's
  writes (any function of connection and write index: theorems quantify over all of them), and the
  outcomes of connection attempts.  Outgoing traffic is recorded structurally (kind, counter, key,
  frame) — the byte-level codecs are the subject of C02/C05; incoming bytes are processed by the
  real codec models (reassembly, `_process_packet`, `_Packet.decode`, `_get_local_key`).

  A connection is split into its session-critical `Core` (connection id, protocol class, packet
  counter, session key, number of writes) and the rest (transport state, receive buffer/queue, key
  expiry); only six operations touch the core or the log: the three writes, accepting a handshake
  reply, forgetting the session key, connecting and disconnecting.
-/
import Msmart.Model.PacketV3
import Msmart.Model.Reassembly

namespace Msmart.Model.Session
open Msmart Msmart.Model

/-- timing parameters (measured on the implementation by the harness; theorems hold for all) -/
structure Params where
  readTimeout : Nat := 2000
  connectTimeout : Nat := 5000
  authSleep : Nat := 1000
  authExpiry : Nat := Generated.authExpirationSeconds * 1000
  deriving Repr

inductive PeerEvent where
  | data (b : Bytes)
  | close
  deriving DecidableEq, Repr

structure Timed where
  t : Nat
  cid : Nat
  ev : PeerEvent
  deriving DecidableEq, Repr

inductive ConnOutcome where | ok | refused | hang
  deriving DecidableEq, Repr

/-- what the client put on a connection (structural write log) and what it accepted -/
inductive Ev where
  | connect (cid : Nat) (v3 : Bool)
  | wrHS (cid ctr : Nat) (token : Bytes)
  | wrData (cid ctr : Nat) (key : Bytes) (frame : Bytes)
  | wrV2 (cid : Nat) (frame : Bytes)
  | accept (cid : Nat) (key : Bytes)
  | forget (cid : Nat)                 -- a new handshake is started: the previous session key is dropped
  | closed (cid : Nat)
  deriving DecidableEq, Repr

/-- the session-critical part of a connection's protocol object -/
structure Core where
  cid : Nat
  v3 : Bool
  packetId : Nat := 0
  localKey : Option Bytes := none
  nWrites : Nat := 0
  deriving DecidableEq, Repr

structure Conn where
  core : Core
  closing : Bool := false
  keyExpiry : Option Nat := none
  buffer : Bytes := []
  queue : List Bytes := []
  deriving DecidableEq, Repr

/-- the peer: reactions to the `idx`-th write on connection `cid` (delay in ms, event) -/
abbrev Reactions := Nat → Nat → List (Nat × PeerEvent)

structure World where
  now : Nat := 0
  pending : List Timed := []
  connects : List ConnOutcome := []
  nConn : Nat := 0
  log : List (Nat × Ev) := []          -- (time, event)
  cancelAt : Option Nat := none        -- the caller cancels the operation in progress at this time

structure Lan where
  token : Option Bytes := none
  key : Option Bytes := none
  version : Nat := 2
  conn : Option Conn := none
  connExpiry : Option Nat := none
  maxLifetime : Option Nat := none

structure S where
  w : World := {}
  l : Lan := {}

/-! ### soft operations: never touch the core, the log or the connection counter -/

/-- replace the soft part of the current connection -/
def softConn (s : S) (f : Conn → Conn) : S :=
  match s.l.conn with
  | some c => { s with l := { s.l with conn := some { f c with core := c.core } } }
  | none => s

/-- an event reaching the protocol object of connection `c` -/
def applyEvent (e : PeerEvent) (c : Conn) : Conn :=
  if c.closing then c else
  match e with
  | .close => { c with closing := true }
  | .data b =>
    if c.core.v3 then { c with queue := c.queue ++ (parseLoop (c.buffer ++ b)).1, buffer := (parseLoop (c.buffer ++ b)).2 }
    else { c with queue := c.queue ++ [b] }

/-- earliest pending event not later than `deadline` (first such in list order on ties) -/
def nextDue (pending : List Timed) (deadline : Nat) : Option Timed :=
  pending.foldl (fun best e =>
    if e.t ≤ deadline then
      match best with
      | none => some e
      | some b => if e.t < b.t then some e else some b
    else best) none

def removeFirst (pending : List Timed) (e : Timed) : List Timed :=
  match pending with
  | [] => []
  | h :: t => if h = e then t else h :: removeFirst t e

/-- take one due event off the schedule and deliver it to the current connection if addressed to it -/
def deliverDue (s : S) (e : Timed) : S :=
  softConn { s with w := { s.w with now := max s.w.now e.t, pending := removeFirst s.w.pending e } }
    (fun c => if c.core.cid = e.cid then applyEvent e.ev c else c)

def setNow (s : S) (t : Nat) : S := { s with w := { s.w with now := max s.w.now t } }

/-- let time pass until `t`, delivering everything due (fuel = number of pending events) -/
def pumpUntil : Nat → S → Nat → S
  | 0, s, t => setNow s t
  | fuel + 1, s, t =>
    match nextDue s.w.pending t with
    | none => setNow s t
    | some e => pumpUntil fuel (deliverDue s e) t

def pump (s : S) (t : Nat) : S := pumpUntil s.w.pending.length s t

inductive ReadRes where
  | packet (raw : Bytes)
  | timeout
  | cancelled
  deriving DecidableEq, Repr

/-- the caller's cancellation, if it is due not later than `limit` -/
def cancelDue (s : S) (limit : Nat) : Option Nat :=
  match s.w.cancelAt with
  | some tc => if tc ≤ limit then some tc else none
  | none => none

/-- the cancellation has been delivered (as `CancelledError` into the pending read) -/
def cancelFired (s : S) (tc : Nat) : S := { s with w := { s.w with now := max s.w.now tc, cancelAt := none } }

def queueHead (s : S) : Option Bytes :=
  match s.l.conn with
  | some c => c.queue.head?
  | none => none

def popQueue (s : S) : S := softConn s (fun c => { c with queue := c.queue.drop 1 })

/-- `await _read_queue(timeout)`: the head of the queue, or wait for the peer until the deadline; a
    cancellation of the calling task that falls into the wait (before the next peer event) ends it.
    (Cancellation is modelled at the read awaits only — not during the post-authentication sleep or
    a hanging connect.) -/
def awaitQueue : Nat → S → Nat → ReadRes × S
  | 0, s, deadline => (.timeout, setNow s deadline)
  | fuel + 1, s, deadline =>
    match queueHead s with
    | some p => (.packet p, popQueue s)
    | none =>
      match nextDue s.w.pending deadline with
      | none =>
        match cancelDue s deadline with
        | some tc => (.cancelled, cancelFired s tc)
        | none => (.timeout, setNow s deadline)
      | some e =>
        match cancelDue s e.t with
        | some tc => (.cancelled, cancelFired s tc)
        | none => awaitQueue fuel (deliverDue s e) deadline

/-- schedule the peer's reactions to the `idx`-th write on `cid` -/
def react (rx : Reactions) (s : S) (cid idx : Nat) : S :=
  { s with w := { s.w with pending := s.w.pending ++ (rx cid idx).map (fun r => ⟨s.w.now + r.1, cid, r.2⟩) } }

/-! ### the six critical operations -/

def logEv (s : S) (e : Ev) : S := { s with w := { s.w with log := s.w.log ++ [(s.w.now, e)] } }

def setCore (s : S) (c : Conn) (core : Core) : S := { s with l := { s.l with conn := some { c with core := core } } }

def bump (core : Core) : Core := { core with packetId := (core.packetId + 1) % 4096, nWrites := core.nWrites + 1 }

/-- `_LanProtocolV3.write(token, HANDSHAKE_REQUEST)` on the current connection -/
def opWriteHS (rx : Reactions) (s : S) (token : Bytes) : R S :=
  match s.l.conn with
  | none => .error (.py "AssertionError")
  | some c =>
    if token.length ≥ 65536 then .error (.py "OverflowError") else
    if c.closing then .error .protocol else
    .ok (react rx (setCore (logEv s (.wrHS c.core.cid c.core.packetId token)) c (bump c.core)) c.core.cid c.core.nWrites)

/-- `_LanProtocolV3.write(packet)` (encrypted request): refuses without a session key -/
def opWriteData (rx : Reactions) (s : S) (frame : Bytes) : R S :=
  match s.l.conn with
  | none => .error (.py "AssertionError")
  | some c =>
    match c.core.localKey with
    | none => .error .protocol
    | some k =>
      if c.closing then .error .protocol else
      .ok (react rx (setCore (logEv s (.wrData c.core.cid c.core.packetId k frame)) c (bump c.core)) c.core.cid c.core.nWrites)

/-- `_LanProtocol.write(packet)` on a V2 connection -/
def opWriteV2 (rx : Reactions) (s : S) (frame : Bytes) : R S :=
  match s.l.conn with
  | none => .error (.py "AssertionError")
  | some c =>
    if c.closing then .error .protocol else
    .ok (react rx (setCore (logEv s (.wrV2 c.core.cid frame)) c { c.core with nWrites := c.core.nWrites + 1 })
          c.core.cid c.core.nWrites)

def isV3 (s : S) : Bool := match s.l.conn with | some c => c.core.v3 | none => false

def opWrite (rx : Reactions) (s : S) (frame : Bytes) : R S :=
  if isV3 s then opWriteData rx s frame else opWriteV2 rx s frame

/-- the client accepts a handshake reply: session key and its expiry are set -/
def opAccept (s : S) (lk : Bytes) (expiry : Nat) : S :=
  match s.l.conn with
  | none => s
  | some c =>
    logEv { s with l := { s.l with conn := some { c with core := { c.core with localKey := some lk }, keyExpiry := some expiry } } }
      (.accept c.core.cid lk)

/-- the start of a handshake drops the previous session key and its expiry (since `fix:` "forget the
    session key when a new handshake is started"; before it a failed re-handshake left the old key in use) -/
def opForget (s : S) : S :=
  match s.l.conn with
  | none => s
  | some c =>
    logEv { s with l := { s.l with conn := some { c with core := { c.core with localKey := none }, keyExpiry := none } } }
      (.forget c.core.cid)

/-- `_disconnect()` -/
def opDisconnect (s : S) : S :=
  match s.l.conn with
  | some c => logEv { s with l := { s.l with conn := none } } (.closed c.core.cid)
  | none => s

def newExpiry (s : S) : Option Nat :=
  match s.l.maxLifetime with
  | some m => if m = 0 then s.l.connExpiry else some (s.w.now + m)
  | none => s.l.connExpiry

def dropConnect (s : S) : S := { s with w := { s.w with connects := s.w.connects.drop 1 } }

/-- a successful `create_connection`: a fresh protocol object with the next connection id -/
def opConnected (s : S) : S :=
  logEv { w := { s.w with nConn := s.w.nConn + 1 },
          l := { s.l with conn := some { core := { cid := s.w.nConn + 1, v3 := s.l.version = 3 } },
                          connExpiry := newExpiry s } }
    (.connect (s.w.nConn + 1) (s.l.version = 3))

/-- `_connect()` (called with no current connection): consumes one connection outcome -/
def opConnect (p : Params) (s : S) : R Unit × S :=
  match s.w.connects with
  | [] => (.error .protocol, dropConnect s)
  | .refused :: _ => (.error .protocol, dropConnect s)
  | .hang :: _ => (.error .timeout, pump (dropConnect s) (s.w.now + p.connectTimeout))
  | .ok :: _ => (.ok (), opConnected (dropConnect s))

/-! ### protocol / LAN logic built from them -/

def connAlive (s : S) : Bool :=
  match s.l.conn with
  | none => false
  | some c => !c.closing && (match s.l.connExpiry with | some e => decide (s.w.now ≤ e) | none => true)

def authenticated (s : S) : Bool :=
  match s.l.conn with
  | some c => (match c.core.localKey, c.keyExpiry with
    | some _, some e => decide (s.w.now ≤ e)
    | _, _ => false)
  | none => false

def curKey (s : S) : Option Bytes := match s.l.conn with | some c => c.core.localKey | none => none

/-- `protocol.read()` result decoded by `LAN._read`: process (V3) then `_Packet.decode` -/
def decodeRead (s : S) (raw : Bytes) : R Bytes :=
  if isV3 s then
    match processPacket (curKey s) raw with
    | .error e => .error e
    | .ok p => packetDecode p
  else packetDecode raw

def flush (s : S) : S := softConn s (fun c => { c with queue := [] })

/-- what `_LanProtocolV3.authenticate` does with the handshake reply packet -/
def acceptReply (p : Params) (s : S) (key raw : Bytes) : R Unit × S :=
  match processPacket (curKey s) raw with
  | .error .protocol => (.error .auth, s)
  | .error e => (.error e, s)
  | .ok payload =>
    match getLocalKey key payload with
    | .error e => (.error e, s)
    | .ok lk => (.ok (), opAccept s lk (s.w.now + p.authExpiry))

/-- `_LanProtocolV3.authenticate(token, key)`: one handshake attempt -/
def protoAuthenticate (p : Params) (rx : Reactions) (s : S) (token key : Option Bytes) : R Unit × S :=
  match token, key with
  | some tk, some ky =>
    if tk.isEmpty ∨ ky.isEmpty then (.error .auth, s) else
    match opWriteHS rx (opForget (flush s)) tk with
    | .error .protocol => (.error .auth, opForget (flush s))
    | .error e => (.error e, opForget (flush s))
    | .ok s1 =>
      match awaitQueue (s1.w.pending.length + 1) s1 (s1.w.now + p.readTimeout) with
      | (.timeout, s2) => (.error .timeout, s2)
      | (.cancelled, s2) => (.error .cancelled, s2)      -- CancelledError is not caught here nor in LAN.authenticate
      | (.packet raw, s2) => acceptReply p s2 ky raw
  | _, _ => (.error .auth, s)

/-- the retry loop of `LAN.authenticate`; the final timeout drops the connection
    (since `fix:` "drop the connection when authentication times out") -/
def authLoop (p : Params) (rx : Reactions) (token key : Option Bytes) : Nat → S → R Unit × S
  | 0, s => (.ok (), s)
  | n + 1, s =>
    match protoAuthenticate p rx s token key with
    | (.ok (), s1) => (.ok (), s1)
    | (.error .timeout, s1) =>
      if n + 1 > 1 then authLoop p rx token key n s1 else (.error .timeout, opDisconnect s1)
    | (.error e, s1) => (.error e, s1)

def pickCred (given other stored : Option Bytes) : Option Bytes :=
  if given.isNone ∨ other.isNone then stored else given

def setVersion3 (s : S) : S := { s with l := { s.l with version := 3 } }
def storeCreds (s : S) (tk ky : Option Bytes) : S := { s with l := { s.l with token := tk, key := ky } }

/-- after the retry loop: the protocol must be authenticated; store credentials; sleep -/
def finishAuth (p : Params) (s : S) (tk ky : Option Bytes) : R Unit × S :=
  if !authenticated s then (.error (.py "AssertionError"), s)
  else (.ok (), pump (storeCreds s tk ky) (s.w.now + p.authSleep))

/-- `LAN.authenticate(token, key, retries)` -/
def lanAuthenticate (p : Params) (rx : Reactions) (s : S) (token key : Option Bytes) (retries : Nat) : R Unit × S :=
  if !connAlive s || !isV3 s then
    match opConnect p (setVersion3 (opDisconnect s)) with
    | (.error e, s1) => (.error e, s1)
    | (.ok (), s1) =>
      match authLoop p rx (pickCred token key s.l.token) (pickCred key token s.l.key) retries s1 with
      | (.error e, s2) => (.error e, s2)
      | (.ok (), s2) => finishAuth p s2 (pickCred token key s.l.token) (pickCred key token s.l.key)
  else
    match authLoop p rx (pickCred token key s.l.token) (pickCred key token s.l.key) retries s with
    | (.error e, s2) => (.error e, s2)
    | (.ok (), s2) => finishAuth p s2 (pickCred token key s.l.token) (pickCred key token s.l.key)

/-- `_read_available()`: everything already queued, decoded; a decode error propagates -/
def readAvailable : Nat → S → List Bytes → R (List Bytes) × S
  | 0, s, acc => (.ok acc, s)
  | fuel + 1, s, acc =>
    match queueHead s with
    | none => (.ok acc, s)
    | some raw =>
      match decodeRead s raw with
      | .error e => (.error e, popQueue s)
      | .ok f => readAvailable fuel (popQueue s) (acc ++ [f])

def queueLen (s : S) : Nat := match s.l.conn with | some c => c.queue.length | none => 0

/-- the transmit / retry loop of `LAN.send` -/
def sendLoop (p : Params) (rx : Reactions) (frame : Bytes) : Nat → S → List Bytes → R (List Bytes) × S
  | 0, s, acc => (.ok acc, s)
  | n + 1, s, acc =>
    match opWrite rx s frame with
    | .error e => (.error e, s)                         -- raised outside the try: no disconnect
    | .ok s1 =>
      match awaitQueue (s1.w.pending.length + 1) s1 (s1.w.now + p.readTimeout) with
      | (.timeout, s2) =>
        if n + 1 > 1 then sendLoop p rx frame n s2 acc
        else (.error .timeout, opDisconnect s2)
      | (.cancelled, s2) => (.error .timeout, opDisconnect s2)   -- "Read cancelled. Disconnecting." → TimeoutError
      | (.packet raw, s2) =>
        match decodeRead s2 raw with
        | .error .protocol => (.error .protocol, opDisconnect s2)
        | .error .auth => (.error .auth, opDisconnect s2)
        | .error e => (.error e, s2)
        | .ok f => (.ok (acc ++ [f]), s2)

/-- the body of `LAN.send` once connected and authenticated -/
def exchange (p : Params) (rx : Reactions) (s : S) (frame : Bytes) (retries : Nat) : R (List Bytes) × S :=
  match readAvailable (queueLen s + 1) s [] with
  | (.error e, s3) => (.error e, s3)
  | (.ok pre, s3) =>
    match sendLoop p rx frame retries s3 pre with
    | (.error e, s4) => (.error e, s4)
    | (.ok got, s4) => readAvailable (queueLen s4 + 1) s4 got

/-- authenticate first when the V3 protocol is not (or no longer) authenticated -/
def ensureAuth (p : Params) (rx : Reactions) (s : S) : R Unit × S :=
  if isV3 s && !authenticated s then lanAuthenticate p rx s none none Generated.lanRetries else (.ok (), s)

/-- `LAN.send(data, retries)` -/
def lanSend (p : Params) (rx : Reactions) (s : S) (frame : Bytes) (retries : Nat) : R (List Bytes) × S :=
  if !connAlive s then
    match opConnect p (opDisconnect s) with
    | (.error e, s1) => (.error e, s1)
    | (.ok (), s1) =>
      match ensureAuth p rx s1 with
      | (.error e, s2) => (.error e, s2)
      | (.ok (), s2) => exchange p rx s2 frame retries
  else
    match ensureAuth p rx s with
    | (.error e, s2) => (.error e, s2)
    | (.ok (), s2) => exchange p rx s2 frame retries

/-! ### device level -/

/-- `Device._send_command`: protocol errors and timeouts become "no response" -/
def deviceSend (p : Params) (rx : Reactions) (s : S) (frame : Bytes) : R (List Bytes) × S :=
  match lanSend p rx s frame Generated.lanRetries with
  | (.ok fs, s1) => (.ok fs, s1)
  | (.error .protocol, s1) => (.ok [], s1)
  | (.error .auth, s1) => (.ok [], s1)
  | (.error .timeout, s1) => (.ok [], s1)
  | (.error e, s1) => (.error e, s1)

/-- `Device.authenticate`: protocol errors and timeouts become AuthenticationError -/
def deviceAuthenticate (p : Params) (rx : Reactions) (s : S) (token key : Bytes) : R Unit × S :=
  match lanAuthenticate p rx s (some token) (some key) Generated.lanRetries with
  | (.ok (), s1) => (.ok (), s1)
  | (.error .protocol, s1) => (.error .auth, s1)
  | (.error .timeout, s1) => (.error .auth, s1)
  | (.error e, s1) => (.error e, s1)

/-- operations of a history -/
inductive Op where
  | send (frame : Bytes)
  | sendN (frame : Bytes) (retries : Nat)
  | authenticate (token key : Bytes)
  | advance (ms : Nat)
  | setMaxLifetime (ms : Option Nat)
  | sendCancelled (frame : Bytes) (afterMs : Nat)          -- a send whose task is cancelled `afterMs` later
  | authCancelled (token key : Bytes) (afterMs : Nat)
  deriving DecidableEq, Repr

inductive Outcome where
  | frames (fs : List Bytes)
  | done
  | failed (e : Err)
  deriving DecidableEq, Repr

def outcomeOfSend : R (List Bytes) × S → Outcome × S
  | (.ok fs, s1) => (.frames fs, s1)
  | (.error e, s1) => (.failed e, s1)

def outcomeOfAuth : R Unit × S → Outcome × S
  | (.ok (), s1) => (.done, s1)
  | (.error e, s1) => (.failed e, s1)

def setLifetime (s : S) (m : Option Nat) : S := { s with l := { s.l with maxLifetime := m } }
def armCancel (s : S) (ms : Nat) : S := { s with w := { s.w with cancelAt := some (s.w.now + ms) } }
def disarmCancel (s : S) : S := { s with w := { s.w with cancelAt := none } }

/-- the caller waited `until` before cancelling (and collecting the result): the cancellation is
    disarmed and the clock is at least there -/
def outcomeDisarm (untilT : Nat) : Outcome × S → Outcome × S
  | (o, s1) => (o, pump (disarmCancel s1) untilT)

def step (p : Params) (rx : Reactions) (s : S) : Op → Outcome × S
  | .send f => outcomeOfSend (lanSend p rx s f Generated.lanRetries)
  | .sendN f n => outcomeOfSend (lanSend p rx s f n)
  | .authenticate t k => outcomeOfAuth (lanAuthenticate p rx s (some t) (some k) Generated.lanRetries)
  | .advance ms => (.done, pump s (s.w.now + ms))
  | .setMaxLifetime m => (.done, setLifetime s m)
  | .sendCancelled f ms => outcomeDisarm (s.w.now + ms) (outcomeOfSend (lanSend p rx (armCancel s ms) f Generated.lanRetries))
  | .authCancelled t k ms =>
    outcomeDisarm (s.w.now + ms) (outcomeOfAuth (lanAuthenticate p rx (armCancel s ms) (some t) (some k) Generated.lanRetries))

def run (p : Params) (rx : Reactions) : S → List Op → List Outcome × S
  | s, [] => ([], s)
  | s, o :: t => ((step p rx s o).1 :: (run p rx (step p rx s o).2 t).1, (run p rx (step p rx s o).2 t).2)

end Msmart.Model.Session
