/-
  Model of the V3 packet codec of `_LanProtocolV3` (msmart/lan.py): headers, encrypted
  request / response, handshake request / response, `_process_packet`, `_get_local_key`.
-/
import Msmart.Model.PacketV2

namespace Msmart.Model
open Msmart.Crypto

def ptHandshakeRequest : Nat := 0x0
def ptHandshakeResponse : Nat := 0x1
def ptEncryptedResponse : Nat := 0x3
def ptEncryptedRequest : Nat := 0x6
def ptError : Nat := 0xF

def zeroIv : Bytes := Py.zeros 16

/-- `Security.encrypt_aes_cbc(key, data)` (pycryptodome: ValueError unless the length is a
    multiple of 16; callers of encrypt always pass aligned data) -/
def encryptCbc (key data : Bytes) : Bytes := AES.cbcEncrypt key zeroIv data

/-- `Security.decrypt_aes_cbc(key, data)`: ValueError for unaligned data -/
def decryptCbc (key data : Bytes) : R Bytes :=
  if data.length % 16 ≠ 0 then .error (.py "ValueError") else .ok (AES.cbcDecrypt key zeroIv data)

/-- `_build_header(length, extra)`; `length.to_bytes(2, "big")` raises OverflowError ≥ 65536 -/
def buildHeader (length : Nat) (extra : Bytes) : R Bytes :=
  if length ≥ 65536 then .error (.py "OverflowError") else
  .ok ([0x83, 0x70] ++ Py.toBE 2 length ++ [0x20] ++ extra)

/-- padding so that counter(2) + data + pad is block aligned -/
def v3Pad (n : Nat) : Nat := if (n + 2) % 16 ≠ 0 then 16 - (n + 2) % 16 else 0

/-- `_encode_encrypted_request(packet_id, data)` with the `get_random_bytes(pad)` as an input;
    a missing key raises ProtocolError -/
def encodeEncryptedRequest (key : Option Bytes) (packetId : Nat) (data padBytes : Bytes) : R Bytes :=
  match key with
  | none => .error .protocol
  | some k =>
    match buildHeader (data.length + v3Pad data.length + 32) [((v3Pad data.length) * 16 + ptEncryptedRequest).toUInt8] with
    | .error e => .error e
    | .ok header =>
      .ok (header ++ encryptCbc k (Py.toBE 2 packetId ++ data ++ padBytes) ++
            SHA256.sha256 (header ++ (Py.toBE 2 packetId ++ data ++ padBytes)))

/-- `_encode_handshake_request(packet_id, data)` -/
def encodeHandshakeRequest (packetId : Nat) (data : Bytes) : R Bytes :=
  match buildHeader data.length [ptHandshakeRequest.toUInt8] with
  | .error e => .error e
  | .ok header => .ok (header ++ Py.toBE 2 packetId ++ data)

/-- `payload[2:len(payload) - pad]` (explicit end index since `fix:` "decode encrypted V3 responses
    that need no padding"; before it `payload[2:-pad]` was empty for pad = 0) -/
def stripCounterPad (payload : Bytes) (pad : Nat) : Bytes :=
  (payload.take (payload.length - pad)).drop 2

/-- `_decode_encrypted_response(packet)`; a missing session key and a ciphertext that is not
    block aligned are ProtocolErrors (since `fix:` "report undecryptable packets from the peer as
    ProtocolError"; before it: AssertionError / ValueError) -/
def decodeEncryptedResponse (key : Option Bytes) (packet : Bytes) : R Bytes :=
  match key with
  | none => .error .protocol
  | some k =>
    match decryptCbc k ((packet.take (packet.length - 32)).drop 6) with
    | .error _ => .error .protocol
    | .ok decrypted =>
      if SHA256.sha256 (packet.take 6 ++ decrypted) ≠ packet.drop (packet.length - 32) then .error .protocol
      else
        match (packet.take 6)[5]? with
        | none => .error indexError
        | some b5 => .ok (stripCounterPad decrypted (b5.toNat / 16))

/-- `_decode_handshake_response(packet)`: `packet[6:][2:]` -/
def decodeHandshakeResponse (packet : Bytes) : Bytes := (packet.drop 6).drop 2

/-- `_process_packet(packet)` -/
def processPacket (key : Option Bytes) (packet : Bytes) : R Bytes :=
  if packet.take 2 ≠ [0x83, 0x70] then .error .protocol else
  match packet[4]? with
  | none => .error indexError
  | some b4 =>
    if b4 ≠ 0x20 then .error .protocol else
    match packet[5]? with
    | none => .error indexError
    | some b5 =>
      if b5.toNat % 16 = ptEncryptedResponse then decodeEncryptedResponse key packet
      else if b5.toNat % 16 = ptHandshakeResponse then .ok (decodeHandshakeResponse packet)
      else .error .protocol

/-- `_get_local_key(key, data)`: 64 bytes = AES-CBC(key, nonce) ++ sha256(nonce); result nonce XOR key -/
def getLocalKey (key data : Bytes) : R Bytes :=
  if data.length ≠ 64 then .error .auth else
  match decryptCbc key (data.take 32) with
  | .error e => .error e
  | .ok dec =>
    if SHA256.sha256 dec ≠ data.drop 32 then .error .auth
    else if dec.length ≠ key.length then .error (.py "ValueError")   -- strxor needs equal lengths
    else .ok (Py.xorBytes dec key)

end Msmart.Model
