/-
  Model of msmart/device/AC/device.py (AirConditioner) and base_device.Device._send_command's
  result handling, over a *frame oracle*: every `await self._send_command(cmd)` is answered by the
  next list of frames supplied by the environment (what `LAN.send` returned, or `[]` after a
  timeout / protocol error).  Mutable object -> record; methods -> functions returning the new record.
-/
import Msmart.Model.Response

namespace Msmart.Model

def enumValues (e : List (String × Nat)) : List Nat := e.map Prod.snd

/-- `MideaIntEnum.get_from_value(v)` with the enum's DEFAULT -/
def enumGet (e : List (String × Nat)) (dflt : Nat) (v : Nat) : Nat :=
  if (enumValues e).contains v then v else dflt

structure Dev where
  beep : Bool := false
  power : Bool := false
  tempCenti : Int := 1700
  mode : Nat := 1
  fan : Int := 102
  swing : Nat := 0
  eco : Bool := false
  turbo : Bool := false
  freeze : Option Bool := some false
  sleep : Bool := false
  fahrenheit : Bool := false
  displayOn : Bool := false
  filterAlert : Bool := false
  followMe : Bool := false
  purifier : Bool := false
  humidity : Option Nat := some 40
  indoor : Option Int := none
  outdoor : Option Int := none
  indoorHumidity : Option Nat := none
  -- capabilities (constructor defaults)
  supOpModes : List Nat := enumValues Generated.operationalMode
  supSwingModes : List Nat := enumValues Generated.swingMode
  supFanSpeeds : List Nat := enumValues Generated.fanSpeed
  supCustomFan : Bool := true
  supEco : Bool := true
  supTurbo : Bool := true
  supFreeze : Bool := true
  supDisplay : Bool := true
  supFilter : Bool := true
  supPurifier : Bool := true
  supHumidity : Bool := false
  supTargetHumidity : Bool := false
  minTempHalf : Nat := 32          -- in half degrees (16)
  maxTempHalf : Nat := 60          -- (30)
  requestEnergy : Bool := false
  useBinaryEnergy : Bool := false
  totalEnergy : Option Nat := none     -- hundredths
  currentEnergy : Option Nat := none   -- hundredths
  realTimePower : Option Nat := none   -- tenths
  supportedProps : List Nat := []      -- a set; kept duplicate-free
  updatedProps : List Nat := []        -- a set
  hAngle : Nat := 0
  vAngle : Nat := 0
  selfClean : Bool := false
  rateSelect : Nat := 100
  supRateSelects : List Nat := [100]
  breezeMode : Nat := 1
  ieco : Bool := false
  auxMode : Nat := 0
  supAuxModes : List Nat := [0]
  online : Bool := false
  supported : Bool := false
  deriving DecidableEq, Repr

def setAdd (s : List Nat) (x : Nat) : List Nat := if s.contains x then s else s ++ [x]

def breezeOff : Nat := 1
def breezeAway : Nat := 2
def breezeMild : Nat := 3
def breezeLess : Nat := 4

def propNat : PropDecoded → Nat
  | .n v => v
  | .b v => if v then 1 else 0
def propTruthy : PropDecoded → Bool
  | .n v => v ≠ 0
  | .b v => v

/-- the `StateResponse` branch of `_update_state` -/
def Dev.updateFromState (d : Dev) (s : StateResp) : Dev :=
  { d with
    power := s.power
    tempCenti := s.tempCenti
    mode := enumGet Generated.operationalMode Generated.operationalModeDefault s.mode
    fan := if d.supCustomFan then (s.fan : Int)
           else (enumGet Generated.fanSpeed Generated.fanSpeedDefault s.fan : Nat)
    swing := enumGet Generated.swingMode Generated.swingModeDefault s.swing
    eco := s.eco, turbo := s.turbo, freeze := s.freeze, sleep := s.sleep
    indoor := s.indoor, outdoor := s.outdoor
    displayOn := s.displayOn, fahrenheit := s.fahrenheit, filterAlert := s.filterAlert
    followMe := s.followMe, purifier := s.purifier, humidity := s.humidity
    auxMode := if s.indepAuxHeat then 2 else if s.auxHeat then 1 else 0 }

/-- breeze part of the properties branch: breeze control supersedes; otherwise an active
    breezeless, else an active breeze away, else OFF when either was reported
    (repaired by `fix:` d7: an inactive breezeless no longer hides an active breeze away) -/
def breezeFromProps (cur : Nat) (p : PropDict) : Nat :=
  match dictGet p pidBreezeControl with
  | some v => if (enumValues Generated.breezeMode).contains (propNat v) then propNat v else breezeOff
  | none =>
    match dictGet p pidBreezeAway, dictGet p pidBreezeless with
    | none, none => cur
    | away, less =>
      if (less.map propTruthy).getD false then breezeLess
      else if (away.map propTruthy).getD false then breezeAway
      else breezeOff

/-- the `PropertiesResponse` branch of `_update_state` -/
def Dev.updateFromProps (d : Dev) (p : PropDict) : Dev :=
  { d with
    hAngle := match dictGet p pidSwingLR with
      | some v => enumGet Generated.swingAngle Generated.swingAngleDefault (propNat v) | none => d.hAngle
    vAngle := match dictGet p pidSwingUD with
      | some v => enumGet Generated.swingAngle Generated.swingAngleDefault (propNat v) | none => d.vAngle
    selfClean := match dictGet p pidSelfClean with | some v => propTruthy v | none => d.selfClean
    rateSelect := match dictGet p pidRateSelect with
      | some v => enumGet Generated.rateSelect Generated.rateSelectDefault (propNat v) | none => d.rateSelect
    breezeMode := breezeFromProps d.breezeMode p
    ieco := match dictGet p pidIeco with | some v => propTruthy v | none => d.ieco }

def Dev.updateFromEnergy (d : Dev) (e : EnergyResp) : Dev :=
  if ¬ e.valid then { d with totalEnergy := none, currentEnergy := none, realTimePower := none }
  else if d.useBinaryEnergy then
    { d with totalEnergy := some (e.totalBin * 10), currentEnergy := some (e.currentBin * 10),
             realTimePower := some e.powerBin }
  else
    { d with totalEnergy := some e.totalBcd, currentEnergy := some e.currentBcd,
             realTimePower := some e.powerBcd }

/-- `_update_state(res)` -/
def Dev.updateState (d : Dev) : Resp → Dev
  | .state s => d.updateFromState s
  | .props _ p => d.updateFromProps p
  | .energy e => d.updateFromEnergy e
  | .humidity h => { d with indoorHumidity := h }
  | .base _ _ => d
  | .caps _ => d

/-! ### capabilities -/

def capBool (c : CapDict) (k : String) : Bool :=
  match dictGet c k with | some (.b v) => v | some (.half n) => n ≠ 0 | none => false

def capHasPrefix (c : CapDict) (pre : String) : Bool := c.any (fun kv => kv.1.startsWith pre)

/-- `_get_fan_speed(speed)` -/
def capFan (c : CapDict) (speed : String) : Bool :=
  if capHasPrefix c "fan_" then capBool c ("fan_" ++ speed) || capBool c "fan_custom"
  else speed = "low" || speed = "medium" || speed = "high" || speed = "auto"

/-- value of a `*_temperature` capability in half degrees, or the default (an integer degree) -/
def capTempHalf (c : CapDict) (k : String) (dflt : Nat) : Nat :=
  match dictGet c k with | some (.half n) => n | some (.b v) => if v then 2 else 0 | none => 2 * dflt

def capMinTemp (c : CapDict) : Nat :=
  min (capTempHalf c "cool_min_temperature" 16)
    (min (capTempHalf c "auto_min_temperature" 16) (capTempHalf c "heat_min_temperature" 16))
def capMaxTemp (c : CapDict) : Nat :=
  max (capTempHalf c "cool_max_temperature" 30)
    (max (capTempHalf c "auto_max_temperature" 30) (capTempHalf c "heat_max_temperature" 30))

def rateSelectLevels (c : CapDict) : Option Nat :=
  if capBool c "rate_select_5_level" then some 5
  else if capBool c "rate_select_2_level" then some 2 else none

def condList (l : List (Bool × Nat)) : List Nat := (l.filter Prod.fst).map Prod.snd

/-- `_update_capabilities(res)` -/
def Dev.updateCapabilities (d : Dev) (c : CapDict) : Dev :=
  { d with
    supOpModes := [5] ++ condList [(capBool c "dry_mode", 3), (capBool c "cool_mode", 2),
      (capBool c "heat_mode", 4), (capBool c "auto_mode", 1), (capBool c "humidity_manual_set", 6)]
    supSwingModes := [0] ++ condList [(capBool c "swing_horizontal", 0x3), (capBool c "swing_vertical", 0xC),
      (capBool c "swing_vertical" && capBool c "swing_horizontal", 0xF)]
    supFanSpeeds := condList [(capFan c "silent", 20), (capFan c "low", 40), (capFan c "medium", 60),
      (capFan c "high", 80), (capFan c "auto", 102), (capBool c "fan_custom", 100)]
    supCustomFan := capBool c "fan_custom"
    supEco := capBool c "eco"
    supTurbo := capBool c "turbo_heat" || capBool c "turbo_cool"
    supFreeze := capBool c "freeze_protection"
    supDisplay := capBool c "display_control"
    supFilter := capBool c "filter_notice"
    supPurifier := capBool c "anion"
    supAuxModes := [0] ++ condList [(capBool c "aux_electric_heat" || capBool c "aux_heat_mode", 1),
      (capBool c "aux_mode", 2)]
    minTempHalf := capMinTemp c
    maxTempHalf := capMaxTemp c
    requestEnergy := d.requestEnergy || capBool c "energy_stats"
    supHumidity := capBool c "humidity_auto_set" || capBool c "humidity_manual_set"
    supTargetHumidity := capBool c "humidity_manual_set"
    supportedProps :=
      condList [(capBool c "swing_vertical_angle", pidSwingUD), (capBool c "swing_horizontal_angle", pidSwingLR),
        (capBool c "self_clean", pidSelfClean), ((rateSelectLevels c).isSome, pidRateSelect),
        (capBool c "breeze_control", pidBreezeControl),
        (!capBool c "breeze_control" && capBool c "breeze_away", pidBreezeAway),
        (!capBool c "breeze_control" && capBool c "breezeless", pidBreezeless),
        (capBool c "ieco", pidIeco)]
    supRateSelects := match rateSelectLevels c with
      | some n => if n > 2 then [100, 80, 60, 40, 20, 1] else [100, 75, 50]
      | none => d.supRateSelects }

/-! ### exchanges over the frame oracle -/

/-- environment: the frame lists returned by successive `_send_command` calls; a call beyond the
    end of the script gets `[]` (no response) -/
abbrev Replies := List (List Bytes)

/-- trace of what the object did: commands emitted, in order -/
structure Run where
  dev : Dev
  counter : Nat              -- Command._message_id
  replies : Replies
  sent : List Cmd := []

/-- `Response.construct` over a list of frames, skipping InvalidFrame/InvalidResponse;
    any other exception propagates -/
def constructAll : List Bytes → R (List Resp)
  | [] => .ok []
  | f :: t =>
    match construct f with
    | .ok r => do let rest ← constructAll t; pure (r :: rest)
    | .error .invalidFrame => constructAll t
    | .error .invalidResponse => constructAll t
    | .error e => .error e

/-- `_send_command_get_responses(cmd)`: emits the command (advancing the counter), consumes one
    reply list, constructs the valid responses, sets `supported` -/
def sendGet (r : Run) (c : Cmd) : R (Run × List Resp) :=
  match (c.toBytes r.counter).1 with
  | .error e => .error e
  | .ok _ =>
    match constructAll (r.replies.headD []) with
    | .error e => .error e
    | .ok rs =>
      .ok ({ r with counter := (c.toBytes r.counter).2, replies := r.replies.drop 1, sent := r.sent ++ [c],
                    dev := { r.dev with supported := !rs.isEmpty } }, rs)

def applyResponses (d : Dev) (rs : List Resp) : Dev := rs.foldl Dev.updateState d

/-- the list of commands `refresh()` builds (the order of property ids is an input: iteration
    order of a Python set) -/
def refreshCommands (d : Dev) : List Cmd :=
  [.getState] ++ (if d.requestEnergy then [.getEnergy] else []) ++
  (if d.supHumidity then [.getHumidity] else []) ++
  (if d.supportedProps.isEmpty then [] else [.getProperties d.supportedProps])

def sendAll : Run → List Cmd → R (Run × List Resp)
  | r, [] => .ok (r, [])
  | r, c :: t => do
    let (r1, rs1) ← sendGet r c
    let (r2, rs2) ← sendAll r1 t
    pure (r2, rs1 ++ rs2)

/-- `refresh()` -/
def refresh (r : Run) : R Run := do
  let (r1, rs) ← sendAll r (refreshCommands r.dev)
  pure { r1 with dev := applyResponses { r1.dev with online := !rs.isEmpty } rs }

def setStateOfDev (d : Dev) : SetState :=
  { beep := d.beep, power := d.power, tempCenti := d.tempCenti, mode := d.mode, fan := d.fan,
    swing := d.swing, eco := d.eco, turbo := d.turbo, freeze := d.freeze.getD false,
    sleep := d.sleep, fahrenheit := d.fahrenheit, followMe := d.followMe, purifier := d.purifier,
    humidity := d.humidity.getD 40, auxHeat := d.auxMode = 1, forceAuxHeat := false,
    indepAuxHeat := d.auxMode = 2 }

def b2n (b : Bool) : Nat := if b then 1 else 0

/-- `_PROPERTY_MAP[k](self)` -/
def propMapValue (d : Dev) (k : Nat) : Nat :=
  if k = pidBreezeAway then b2n (d.breezeMode = breezeAway)
  else if k = pidBreezeControl then d.breezeMode
  else if k = pidBreezeless then b2n (d.breezeMode = breezeLess)
  else if k = pidIeco then b2n d.ieco
  else if k = pidRateSelect then d.rateSelect
  else if k = pidSwingLR then d.hAngle
  else d.vAngle

/-- `_apply_properties(props)`: always adds the buzzer, sends, applies responses -/
def applyProperties (r : Run) (props : List (Nat × Nat)) : R Run := do
  let (r1, rs) ← sendGet r (.setProperties (dictSet props pidBuzzer (b2n r.dev.beep)))
  pure { r1 with dev := applyResponses r1.dev rs }

/-- `apply()` -/
def apply (r : Run) : R Run := do
  let (r1, rs) ← sendGet r (.setState (setStateOfDev r.dev))
  let r2 := { r1 with dev := applyResponses r1.dev rs }
  if r2.dev.updatedProps.isEmpty then pure r2 else do
    let keys := r2.dev.updatedProps.filter (fun k => Generated.propertyMapKeys.contains k)
    let r3 ← applyProperties r2 (keys.map (fun k => (k, propMapValue r2.dev k)))
    pure { r3 with dev := { r3.dev with updatedProps := [] } }

/-- `_send_command_get_response_with_id(cmd, CAPABILITIES, CapabilitiesResponse)`: first response
    with the id AND of the class (repaired by `fix:` commit 11f899b) -/
def firstCaps : List Resp → Option CapsResp
  | [] => none
  | .caps c :: _ => some c
  | _ :: t => firstCaps t

def sendGetCaps (r : Run) (c : Cmd) : R (Run × Option CapsResp) := do
  let (r1, rs) ← sendGet r c
  pure (r1, firstCaps rs)

/-- `get_capabilities()` -/
def getCapabilities (r : Run) : R Run := do
  let (r1, first) ← sendGetCaps r (.getCapabilities false)
  match first with
  | some c =>
    if c.additional then do
      let (r2, second) ← sendGetCaps r1 (.getCapabilities true)
      match second with
      | some c2 => pure { r2 with dev := r2.dev.updateCapabilities (c.merge c2).caps }
      | none => pure { r2 with dev := r2.dev.updateCapabilities c.caps }
    else pure { r1 with dev := r1.dev.updateCapabilities c.caps }
  | none => pure r1

/-- `toggle_display()` -/
def toggleDisplay (r : Run) : R Run := do
  let (r1, _) ← sendGet r (.toggleDisplay r.dev.beep)
  refresh r1

/-- `start_self_clean()` -/
def startSelfClean (r : Run) : R Run := applyProperties r [(pidSelfClean, 1)]

/-! ### setters (the ones with bookkeeping) -/

def Dev.setBreezeAway (d : Dev) (en : Bool) : Dev :=
  { d with breezeMode := if en then breezeAway else breezeOff
           updatedProps := setAdd d.updatedProps
             (if d.supportedProps.contains pidBreezeControl then pidBreezeControl else pidBreezeAway) }
def Dev.setBreezeMild (d : Dev) (en : Bool) : Dev :=
  { d with breezeMode := if en then breezeMild else breezeOff
           updatedProps := setAdd d.updatedProps pidBreezeControl }
def Dev.setBreezeless (d : Dev) (en : Bool) : Dev :=
  { d with breezeMode := if en then breezeLess else breezeOff
           updatedProps := setAdd d.updatedProps
             (if d.supportedProps.contains pidBreezeControl then pidBreezeControl else pidBreezeless) }
def Dev.setHAngle (d : Dev) (a : Nat) : Dev :=
  { d with hAngle := a, updatedProps := setAdd d.updatedProps pidSwingLR }
def Dev.setVAngle (d : Dev) (a : Nat) : Dev :=
  { d with vAngle := a, updatedProps := setAdd d.updatedProps pidSwingUD }
def Dev.setIeco (d : Dev) (en : Bool) : Dev :=
  { d with ieco := en, updatedProps := setAdd d.updatedProps pidIeco }
def Dev.setRateSelect (d : Dev) (v : Nat) : Dev :=
  { d with rateSelect := v, updatedProps := setAdd d.updatedProps pidRateSelect }

end Msmart.Model
