import Msmart.Crypto.AES
import Msmart.Crypto.AESProps
/-
Properties of the AES block functions, ECB/CBC modes, chunking and PKCS#7 padding.
Core Lean only.  Axioms: `propext`, `Quot.sound` (and possibly `Classical.choice` via `omega`/`simp`).
-/
namespace Msmart.Crypto.AES

/-! ## 7. XOR -/

@[simp] theorem xorBytes_length (s k : List UInt8) : (xorBytes s k).length = s.length := by
  fun_induction xorBytes s k <;> simp_all

@[simp] theorem xorBytes_nil_right (s : List UInt8) : xorBytes s [] = s := by
  cases s <;> rfl

@[simp] theorem xorBytes_nil_left (k : List UInt8) : xorBytes [] k = [] := by
  cases k <;> rfl

/-- Right cancellation, no length hypotheses. -/
theorem xorBytes_right_cancel {a b k : List UInt8} (h : xorBytes a k = xorBytes b k) : a = b := by
  rw [← xorBytes_cancel a k, h, xorBytes_cancel]

theorem xorBytes_right_inj (a b k : List UInt8) : xorBytes a k = xorBytes b k ↔ a = b :=
  ⟨xorBytes_right_cancel, fun h => h ▸ rfl⟩

theorem xorBytes_comm (a b : List UInt8) (h : a.length = b.length) : xorBytes a b = xorBytes b a := by
  fun_induction xorBytes a b with
  | case1 x xs y ys ih => simp_all [xorBytes, UInt8.xor_comm]
  | case2 xs => simp at h; subst h; rfl
  | case3 y ys => simp at h

/-- Left cancellation (all three lists of the same length, e.g. 32-byte `nonce XOR key`). -/
theorem xorBytes_left_cancel {k a b : List UInt8} (ha : a.length = k.length) (hb : b.length = k.length)
    (h : xorBytes k a = xorBytes k b) : a = b := by
  rw [xorBytes_comm k a ha.symm, xorBytes_comm k b hb.symm] at h
  exact xorBytes_right_cancel h

/-- `xorBytes · k` is an involution also in the form `xorBytes k (xorBytes k a) = a` for equal lengths. -/
theorem xorBytes_cancel_left (k a : List UInt8) (h : a.length = k.length) :
    xorBytes k (xorBytes k a) = a := by
  rw [xorBytes_comm k a h.symm, xorBytes_comm k _ (by simp [h]), xorBytes_cancel]

/-! ## 1. Lengths of the block functions (unconditional) -/

@[simp] theorem addRoundKey_length (s k : List UInt8) : (addRoundKey s k).length = s.length :=
  xorBytes_length s k

@[simp] theorem subBytes_length (s : List UInt8) : (subBytes s).length = s.length := by
  simp [subBytes]

@[simp] theorem invSubBytes_length (s : List UInt8) : (invSubBytes s).length = s.length := by
  simp [invSubBytes]

@[simp] theorem shiftRows_length (s : List UInt8) : (shiftRows s).length = s.length := by
  unfold shiftRows; split <;> rfl

@[simp] theorem invShiftRows_length (s : List UInt8) : (invShiftRows s).length = s.length := by
  unfold invShiftRows; split <;> rfl

@[simp] theorem mixColumns_length (s : List UInt8) : (mixColumns s).length = s.length := by
  fun_induction mixColumns s <;> simp_all

@[simp] theorem invMixColumns_length (s : List UInt8) : (invMixColumns s).length = s.length := by
  fun_induction invMixColumns s <;> simp_all

@[simp] theorem encRound_length (s k : List UInt8) : (encRound s k).length = s.length := by
  simp [encRound]

@[simp] theorem encFinal_length (s k : List UInt8) : (encFinal s k).length = s.length := by
  simp [encFinal]

@[simp] theorem decRound_length (s k : List UInt8) : (decRound s k).length = s.length := by
  simp [decRound]

@[simp] theorem decFinal_length (s k : List UInt8) : (decFinal s k).length = s.length := by
  simp [decFinal]

theorem foldl_encRound_length (mid : List (List UInt8)) (s : List UInt8) :
    (mid.foldl encRound s).length = s.length := by
  induction mid generalizing s with
  | nil => rfl
  | cons k ks ih => simp [ih]

theorem foldr_decRound_length (mid : List (List UInt8)) (s : List UInt8) :
    (mid.foldr (fun k s => decRound s k) s).length = s.length := by
  induction mid with
  | nil => rfl
  | cons k ks ih => simp [ih]

/-- The cipher preserves the block length for ANY list of round keys. -/
@[simp] theorem cipher_length_eq (ks : List (List UInt8)) (blk : List UInt8) :
    (cipher ks blk).length = blk.length := by
  cases ks with
  | nil => rfl
  | cons k0 rest => simp [cipher, foldl_encRound_length]

@[simp] theorem invCipher_length_eq (ks : List (List UInt8)) (blk : List UInt8) :
    (invCipher ks blk).length = blk.length := by
  cases ks with
  | nil => rfl
  | cons k0 rest => simp [invCipher, foldr_decRound_length]

theorem cipher_length (ks : List (List UInt8)) (blk : List UInt8)
    (_ : ∀ k ∈ ks, k.length = 16) (h : blk.length = 16) : (cipher ks blk).length = 16 := by
  simp [h]

theorem invCipher_length (ks : List (List UInt8)) (blk : List UInt8)
    (_ : ∀ k ∈ ks, k.length = 16) (h : blk.length = 16) : (invCipher ks blk).length = 16 := by
  simp [h]

@[simp] theorem encryptBlock_length (key blk : List UInt8) :
    (encryptBlock key blk).length = blk.length := cipher_length_eq _ _

@[simp] theorem decryptBlock_length (key blk : List UInt8) :
    (decryptBlock key blk).length = blk.length := invCipher_length_eq _ _

/-! ## 2. The other direction: `cipher ∘ invCipher = id` -/

theorem shiftRows_invShiftRows (s : List UInt8) : shiftRows (invShiftRows s) = s := by
  unfold invShiftRows
  split
  · rfl
  · rename_i h
    unfold shiftRows
    split
    · exact absurd rfl (h _ _ _ _ _ _ _ _ _ _ _ _ _ _ _ _)
    · rfl

theorem sbox_invSbox_all :
    (List.range 256).all (fun i => sbox (invSbox i.toUInt8) = i.toUInt8) = true := by
  decide +kernel

theorem sbox_invSbox (x : UInt8) : sbox (invSbox x) = x := by
  have h := List.all_eq_true.mp sbox_invSbox_all x.toNat (List.mem_range.mpr x.toNat_lt)
  simpa using h

theorem subBytes_invSubBytes (s : List UInt8) : subBytes (invSubBytes s) = s := by
  simp [invSubBytes, subBytes, Function.comp_def, sbox_invSbox]

theorem mix0_invMix (a b c d : UInt8) :
    mix0 (invMix0 a b c d) (invMix1 a b c d) (invMix2 a b c d) (invMix3 a b c d) = a := by mix_tac
theorem mix1_invMix (a b c d : UInt8) :
    mix1 (invMix0 a b c d) (invMix1 a b c d) (invMix2 a b c d) (invMix3 a b c d) = b := by mix_tac
theorem mix2_invMix (a b c d : UInt8) :
    mix2 (invMix0 a b c d) (invMix1 a b c d) (invMix2 a b c d) (invMix3 a b c d) = c := by mix_tac
theorem mix3_invMix (a b c d : UInt8) :
    mix3 (invMix0 a b c d) (invMix1 a b c d) (invMix2 a b c d) (invMix3 a b c d) = d := by mix_tac

theorem mixColumns_invMixColumns (s : List UInt8) : mixColumns (invMixColumns s) = s := by
  fun_induction invMixColumns s with
  | case1 a b c d t ih =>
    simp [mixColumns, ih, mix0_invMix, mix1_invMix, mix2_invMix, mix3_invMix]
  | case2 s h =>
    unfold mixColumns
    split
    · exact absurd rfl (h _ _ _ _ _)
    · rfl

theorem encRound_decRound (s k : List UInt8) : encRound (decRound s k) k = s := by
  simp [decRound, encRound, addRoundKey_cancel, mixColumns_invMixColumns,
    shiftRows_invShiftRows, subBytes_invSubBytes]

theorem encFinal_decFinal (s k : List UInt8) : encFinal (decFinal s k) k = s := by
  simp [decFinal, encFinal, addRoundKey_cancel, shiftRows_invShiftRows, subBytes_invSubBytes]

theorem foldl_encRound_foldr_decRound (mid : List (List UInt8)) (s : List UInt8) :
    mid.foldl encRound (mid.foldr (fun k s => decRound s k) s) = s := by
  induction mid with
  | nil => rfl
  | cons k ks ih => simp [List.foldl_cons, List.foldr_cons, ih, encRound_decRound]

theorem cipher_invCipher (ks : List (List UInt8)) (blk : List UInt8) :
    cipher ks (invCipher ks blk) = blk := by
  cases ks with
  | nil => rfl
  | cons k0 rest =>
    simp [invCipher, cipher, encFinal_decFinal, foldl_encRound_foldr_decRound, addRoundKey_cancel]

theorem encryptBlock_decryptBlock (key blk : List UInt8) :
    encryptBlock key (decryptBlock key blk) = blk :=
  cipher_invCipher _ _

theorem cipher_injective (ks : List (List UInt8)) {a b : List UInt8}
    (h : cipher ks a = cipher ks b) : a = b := by
  rw [← invCipher_cipher ks a, h, invCipher_cipher]

theorem invCipher_injective (ks : List (List UInt8)) {a b : List UInt8}
    (h : invCipher ks a = invCipher ks b) : a = b := by
  rw [← cipher_invCipher ks a, h, cipher_invCipher]

theorem encryptBlock_injective (key : List UInt8) {a b : List UInt8}
    (h : encryptBlock key a = encryptBlock key b) : a = b := cipher_injective _ h

theorem decryptBlock_injective (key : List UInt8) {a b : List UInt8}
    (h : decryptBlock key a = decryptBlock key b) : a = b := invCipher_injective _ h

/-! ## 3. Chunking -/

@[simp] theorem chunksAux_nil (n fuel : Nat) : chunksAux n fuel [] = [] := by
  cases fuel <;> simp [chunksAux]

theorem chunksAux_cons_eq (n fuel : Nat) (l : List UInt8) (h : l ≠ []) :
    chunksAux n (fuel + 1) l = l.take (n + 1) :: chunksAux n fuel (l.drop (n + 1)) := by
  simp [chunksAux, h]

theorem chunksAux_flatten (n : Nat) (fuel : Nat) (l : List UInt8) (h : l.length ≤ fuel) :
    (chunksAux n fuel l).flatten = l := by
  induction fuel generalizing l with
  | zero => have : l = [] := List.eq_nil_of_length_eq_zero (by omega); subst this; rfl
  | succ f ih =>
    by_cases hl : l = []
    · subst hl; simp
    · rw [chunksAux_cons_eq n f l hl, List.flatten_cons, ih _ (by simp; omega), List.take_append_drop]

/-- Shape of a chunk-length list for chunk size `n+1`: all chunks nonempty and at most `n+1` long,
and all but the last exactly `n+1` long. -/
def ChunkLens (n : Nat) : List Nat → Prop
  | [] => True
  | c :: cs => 0 < c ∧ c ≤ n + 1 ∧ (cs ≠ [] → c = n + 1) ∧ ChunkLens n cs

theorem chunkLens_of_all_eq (n : Nat) (ls : List Nat) (h : ∀ c ∈ ls, c = n + 1) : ChunkLens n ls := by
  induction ls with
  | nil => trivial
  | cons c cs ih =>
    have hc := h c (by simp)
    exact ⟨by omega, by omega, fun _ => hc, ih (fun x hx => h x (by simp [hx]))⟩

theorem chunksAux_chunkLens (n fuel : Nat) (l : List UInt8) (h : l.length ≤ fuel) :
    ChunkLens n ((chunksAux n fuel l).map List.length) := by
  induction fuel generalizing l with
  | zero => simp [chunksAux, ChunkLens]
  | succ f ih =>
    by_cases hl : l = []
    · subst hl; simp [ChunkLens]
    · rw [chunksAux_cons_eq n f l hl, List.map_cons]
      have hpos : 0 < l.length := List.length_pos_iff.mpr hl
      refine ⟨by simp; omega, by simp; omega, ?_, ih _ (by simp; omega)⟩
      intro hne
      by_cases hlt : l.length ≤ n + 1
      · exfalso; apply hne
        have : l.drop (n + 1) = [] := List.drop_eq_nil_of_le hlt
        simp [this]
      · simp; omega

/-- Re-chunking the concatenation of a chunk-shaped list of blocks gives the blocks back. -/
theorem chunksAux_flatten_of_chunkLens (n : Nat) (bs : List (List UInt8)) (fuel : Nat)
    (hs : ChunkLens n (bs.map List.length)) (hf : bs.flatten.length ≤ fuel) :
    chunksAux n fuel bs.flatten = bs := by
  induction bs generalizing fuel with
  | nil => simp
  | cons c cs ih =>
    obtain ⟨hpos, hle, hfull, hrest⟩ := hs
    have hc : c ≠ [] := List.length_pos_iff.mp hpos
    rw [List.flatten_cons, List.length_append] at hf
    cases fuel with
    | zero => omega
    | succ f =>
      have hne : (c :: cs).flatten ≠ [] := by simp [hc]
      rw [chunksAux_cons_eq n f _ hne]
      by_cases hcs : cs = []
      · subst hcs
        simp [List.take_of_length_le hle, List.drop_of_length_le hle]
      · have hlen : c.length = n + 1 := hfull (by simpa using hcs)
        have h1 : ((c :: cs).flatten).take (n + 1) = c := by
          rw [List.flatten_cons, ← hlen, List.take_left']
          rfl
        have h2 : ((c :: cs).flatten).drop (n + 1) = cs.flatten := by
          rw [List.flatten_cons, ← hlen, List.drop_left']
          rfl
        rw [h1, h2, ih f hrest (by omega)]


theorem chunksAux_all_full (n fuel : Nat) (l : List UInt8) (h : l.length % (n + 1) = 0) :
    ∀ c ∈ chunksAux n fuel l, c.length = n + 1 := by
  induction fuel generalizing l with
  | zero => simp [chunksAux]
  | succ f ih =>
    by_cases hl : l = []
    · subst hl; simp
    · have hpos : 0 < l.length := List.length_pos_iff.mpr hl
      have hge : n + 1 ≤ l.length := by
        apply Nat.le_of_not_lt
        intro hlt
        rw [Nat.mod_eq_of_lt hlt] at h
        omega
      rw [chunksAux_cons_eq n f l hl]
      intro c hc
      rcases List.mem_cons.mp hc with rfl | hc
      · rw [List.length_take]; omega
      · refine ih (l.drop (n + 1)) ?_ c hc
        rw [List.length_drop, ← Nat.mod_eq_sub_mod hge]
        exact h

theorem length_flatten_of_all_length {α : Type} (k : Nat) (bs : List (List α))
    (h : ∀ b ∈ bs, b.length = k) : bs.flatten.length = k * bs.length := by
  induction bs with
  | nil => rfl
  | cons b bs ih =>
    rw [List.flatten_cons, List.length_append, h b (by simp), ih (fun x hx => h x (by simp [hx])),
      List.length_cons, Nat.mul_succ, Nat.add_comm]

theorem flatten_length_congr {α : Type} (bs cs : List (List α))
    (h : bs.map List.length = cs.map List.length) : bs.flatten.length = cs.flatten.length := by
  rw [List.length_flatten, List.length_flatten, h]

theorem map_length_map (f : List UInt8 → List UInt8) (hf : ∀ b, (f b).length = b.length)
    (bs : List (List UInt8)) : (bs.map f).map List.length = bs.map List.length := by
  rw [List.map_map]
  exact List.map_congr_left (fun b _ => hf b)

theorem chunks16_flatten (l : List UInt8) : (chunks16 l).flatten = l :=
  chunksAux_flatten 15 _ l (Nat.le_refl _)

theorem chunks4_flatten (l : List UInt8) : (chunks4 l).flatten = l :=
  chunksAux_flatten 3 _ l (Nat.le_refl _)

theorem chunks16_chunkLens (l : List UInt8) : ChunkLens 15 ((chunks16 l).map List.length) :=
  chunksAux_chunkLens 15 _ l (Nat.le_refl _)

theorem chunks16_of_chunkLens (bs : List (List UInt8)) (h : ChunkLens 15 (bs.map List.length)) :
    chunks16 bs.flatten = bs :=
  chunksAux_flatten_of_chunkLens 15 bs _ h (Nat.le_refl _)

theorem chunks16_of_blocks (bs : List (List UInt8)) (h : ∀ b ∈ bs, b.length = 16) :
    chunks16 bs.flatten = bs := by
  apply chunks16_of_chunkLens
  apply chunkLens_of_all_eq
  intro c hc
  obtain ⟨b, hb, rfl⟩ := List.mem_map.mp hc
  exact h b hb

theorem chunks16_lengths (l : List UInt8) (h : l.length % 16 = 0) :
    ∀ c ∈ chunks16 l, c.length = 16 :=
  chunksAux_all_full 15 _ l h

theorem chunks4_lengths (l : List UInt8) (h : l.length % 4 = 0) :
    ∀ c ∈ chunks4 l, c.length = 4 :=
  chunksAux_all_full 3 _ l h

theorem chunks16_length (l : List UInt8) (h : l.length % 16 = 0) :
    (chunks16 l).length = l.length / 16 := by
  have h1 := length_flatten_of_all_length 16 (chunks16 l) (chunks16_lengths l h)
  rw [chunks16_flatten] at h1
  omega

/-- Re-chunking after a blockwise length-preserving map. -/
theorem chunks16_of_same_lengths (bs : List (List UInt8)) (l : List UInt8)
    (h : bs.map List.length = (chunks16 l).map List.length) : chunks16 bs.flatten = bs :=
  chunks16_of_chunkLens bs (h ▸ chunks16_chunkLens l)

/-! ## 4. ECB -/

theorem ecbDecrypt_ecbEncrypt (key data : List UInt8) :
    ecbDecrypt key (ecbEncrypt key data) = data := by
  unfold ecbDecrypt ecbEncrypt
  rw [chunks16_of_same_lengths _ data (map_length_map _ (cipher_length_eq _) _), List.map_map]
  have : invCipher (keyExpansion key) ∘ cipher (keyExpansion key) = id :=
    funext (fun b => invCipher_cipher _ b)
  rw [this, List.map_id, chunks16_flatten]

theorem ecbEncrypt_ecbDecrypt (key data : List UInt8) :
    ecbEncrypt key (ecbDecrypt key data) = data := by
  unfold ecbDecrypt ecbEncrypt
  rw [chunks16_of_same_lengths _ data (map_length_map _ (invCipher_length_eq _) _), List.map_map]
  have : cipher (keyExpansion key) ∘ invCipher (keyExpansion key) = id :=
    funext (fun b => cipher_invCipher _ b)
  rw [this, List.map_id, chunks16_flatten]

theorem ecbEncrypt_length (key data : List UInt8) : (ecbEncrypt key data).length = data.length := by
  unfold ecbEncrypt
  rw [flatten_length_congr _ _ (map_length_map _ (cipher_length_eq _) _), chunks16_flatten]

theorem ecbDecrypt_length (key data : List UInt8) : (ecbDecrypt key data).length = data.length := by
  unfold ecbDecrypt
  rw [flatten_length_congr _ _ (map_length_map _ (invCipher_length_eq _) _), chunks16_flatten]

theorem ecbEncrypt_injective (key : List UInt8) {a b : List UInt8}
    (h : ecbEncrypt key a = ecbEncrypt key b) : a = b := by
  rw [← ecbDecrypt_ecbEncrypt key a, h, ecbDecrypt_ecbEncrypt]

theorem ecbDecrypt_injective (key : List UInt8) {a b : List UInt8}
    (h : ecbDecrypt key a = ecbDecrypt key b) : a = b := by
  rw [← ecbEncrypt_ecbDecrypt key a, h, ecbEncrypt_ecbDecrypt]

/-! ## 5. CBC -/

theorem cbcEncBlocks_cbcDecBlocks (ks : List (List UInt8)) (iv : List UInt8)
    (cs : List (List UInt8)) : cbcEncBlocks ks iv (cbcDecBlocks ks iv cs) = cs := by
  induction cs generalizing iv with
  | nil => rfl
  | cons c cs ih => simp [cbcEncBlocks, cbcDecBlocks, cipher_invCipher, xorBytes_cancel, ih]

theorem cbcEncBlocks_map_length (ks : List (List UInt8)) (iv : List UInt8)
    (bs : List (List UInt8)) : (cbcEncBlocks ks iv bs).map List.length = bs.map List.length := by
  induction bs generalizing iv with
  | nil => rfl
  | cons b bs ih => simp [cbcEncBlocks, ih]

theorem cbcDecBlocks_map_length (ks : List (List UInt8)) (iv : List UInt8)
    (cs : List (List UInt8)) : (cbcDecBlocks ks iv cs).map List.length = cs.map List.length := by
  induction cs generalizing iv with
  | nil => rfl
  | cons c cs ih => simp [cbcDecBlocks, ih]

theorem cbcDecrypt_cbcEncrypt (key iv data : List UInt8) :
    cbcDecrypt key iv (cbcEncrypt key iv data) = data := by
  unfold cbcDecrypt cbcEncrypt
  rw [chunks16_of_same_lengths _ data (cbcEncBlocks_map_length _ _ _), cbcDecBlocks_cbcEncBlocks,
    chunks16_flatten]

theorem cbcEncrypt_cbcDecrypt (key iv data : List UInt8) :
    cbcEncrypt key iv (cbcDecrypt key iv data) = data := by
  unfold cbcDecrypt cbcEncrypt
  rw [chunks16_of_same_lengths _ data (cbcDecBlocks_map_length _ _ _), cbcEncBlocks_cbcDecBlocks,
    chunks16_flatten]

theorem cbcEncrypt_length (key iv data : List UInt8) :
    (cbcEncrypt key iv data).length = data.length := by
  unfold cbcEncrypt
  rw [flatten_length_congr _ _ (cbcEncBlocks_map_length _ _ _), chunks16_flatten]

theorem cbcDecrypt_length (key iv data : List UInt8) :
    (cbcDecrypt key iv data).length = data.length := by
  unfold cbcDecrypt
  rw [flatten_length_congr _ _ (cbcDecBlocks_map_length _ _ _), chunks16_flatten]

theorem cbcEncrypt_injective (key iv : List UInt8) {a b : List UInt8}
    (h : cbcEncrypt key iv a = cbcEncrypt key iv b) : a = b := by
  rw [← cbcDecrypt_cbcEncrypt key iv a, h, cbcDecrypt_cbcEncrypt]

theorem cbcDecrypt_injective (key iv : List UInt8) {c c' : List UInt8}
    (h : cbcDecrypt key iv c = cbcDecrypt key iv c') : c = c' := by
  rw [← cbcEncrypt_cbcDecrypt key iv c, h, cbcEncrypt_cbcDecrypt]

/-! ## 6. PKCS#7 -/

theorem pkcs7Pad_length (d : List UInt8) :
    (pkcs7Pad d).length = d.length + (16 - d.length % 16) := by
  simp [pkcs7Pad]

theorem pkcs7Pad_length_mod (d : List UInt8) : (pkcs7Pad d).length % 16 = 0 := by
  rw [pkcs7Pad_length]; omega

theorem pkcs7Pad_length_pos (d : List UInt8) : 0 < (pkcs7Pad d).length := by
  rw [pkcs7Pad_length]; omega

theorem pkcs7Pad_length_gt (d : List UInt8) : d.length < (pkcs7Pad d).length := by
  rw [pkcs7Pad_length]; omega

theorem pkcs7Pad_length_le (d : List UInt8) : (pkcs7Pad d).length ≤ d.length + 16 := by
  rw [pkcs7Pad_length]; omega

theorem toUInt8_toNat_of_le (p : Nat) (h : p ≤ 16) : p.toUInt8.toNat = p := by
  simp [Nat.toUInt8]; omega

theorem pkcs7Unpad_pkcs7Pad (d : List UInt8) : pkcs7Unpad (pkcs7Pad d) = some d := by
  have hlen := pkcs7Pad_length d
  generalize hp : 16 - d.length % 16 = p at hlen
  have hp1 : 1 ≤ p := by omega
  have hp16 : p ≤ 16 := by omega
  have hx : pkcs7Pad d = d ++ List.replicate p p.toUInt8 := by simp [pkcs7Pad, hp]
  have hlast : (pkcs7Pad d).getLastD 0 = p.toUInt8 := by
    rw [hx, List.getLastD_eq_getLast?, List.getLast?_append]
    have : (List.replicate p p.toUInt8).getLast? = some p.toUInt8 := by
      rw [List.getLast?_replicate]; simp; omega
    simp [this]
  have hn : (p.toUInt8).toNat = p := toUInt8_toNat_of_le p hp16
  unfold pkcs7Unpad
  rw [hlast, hn, hlen]
  rw [if_neg (by omega), if_neg (by omega), if_neg (by omega)]
  have hsub : d.length + p - p = d.length := by omega
  rw [hsub, hx, List.drop_left, List.take_left]
  simp


/-- Everything `pkcs7Unpad` checks, as a characterisation of success. -/
theorem pkcs7Unpad_eq_some_iff (x d : List UInt8) :
    pkcs7Unpad x = some d ↔
      x.length ≠ 0 ∧ x.length % 16 = 0 ∧
      1 ≤ (x.getLastD 0).toNat ∧ (x.getLastD 0).toNat ≤ min 16 x.length ∧
      x.drop (x.length - (x.getLastD 0).toNat) = List.replicate (x.getLastD 0).toNat (x.getLastD 0) ∧
      d = x.take (x.length - (x.getLastD 0).toNat) := by
  unfold pkcs7Unpad
  split
  · simp_all
  · split
    · simp_all
    · split
      · rename_i h; simp only [false_iff, reduceCtorEq]; omega
      · split
        · simp_all
        · rename_i h1 h2 h3 h4
          simp only [Option.some.injEq]
          constructor
          · intro h; subst h
            exact ⟨h1, by simpa using h2, by omega, by omega, by simpa using h4, rfl⟩
          · intro h; exact h.2.2.2.2.2.symm

/-- `pkcs7Unpad` is a partial inverse of `pkcs7Pad`. -/
theorem pkcs7Unpad_some {x d : List UInt8} (h : pkcs7Unpad x = some d) : x = pkcs7Pad d := by
  obtain ⟨h0, hmod, hp1, hp2, hdrop, hd⟩ := (pkcs7Unpad_eq_some_iff x d).mp h
  generalize hq : (x.getLastD 0).toNat = p at *
  have hp16 : p ≤ 16 := by omega
  have hpl : p ≤ x.length := by omega
  have hdl : d.length = x.length - p := by rw [hd, List.length_take]; omega
  have hpad : 16 - d.length % 16 = p := by omega
  have hb : p.toUInt8 = x.getLastD 0 := by rw [← hq]; simp
  unfold pkcs7Pad
  rw [hpad, hb, ← hdrop, hd, List.take_append_drop]

theorem pkcs7Unpad_eq_some (x d : List UInt8) : pkcs7Unpad x = some d ↔ x = pkcs7Pad d :=
  ⟨pkcs7Unpad_some, fun h => h ▸ pkcs7Unpad_pkcs7Pad d⟩

theorem pkcs7Pad_injective {a b : List UInt8} (h : pkcs7Pad a = pkcs7Pad b) : a = b := by
  have := pkcs7Unpad_pkcs7Pad a
  rw [h, pkcs7Unpad_pkcs7Pad] at this
  exact (Option.some.inj this).symm

/-- `pkcs7Unpad` is injective where it succeeds. -/
theorem pkcs7Unpad_injective {x y d : List UInt8} (hx : pkcs7Unpad x = some d)
    (hy : pkcs7Unpad y = some d) : x = y := by
  rw [pkcs7Unpad_some hx, pkcs7Unpad_some hy]

theorem pkcs7Unpad_length {x d : List UInt8} (h : pkcs7Unpad x = some d) :
    d.length < x.length ∧ x.length ≤ d.length + 16 ∧ x.length % 16 = 0 := by
  rw [pkcs7Unpad_some h]
  exact ⟨pkcs7Pad_length_gt d, pkcs7Pad_length_le d, pkcs7Pad_length_mod d⟩

/-! ## 1b. Key expansion: every round key has 16 bytes -/

theorem expandWords_spec (nk fuel i : Nat) (acc : List (List UInt8))
    (hnk : 1 ≤ nk) (hacc : nk ≤ acc.length) (hw : ∀ w ∈ acc, w.length = 4) :
    (∀ w ∈ expandWords nk fuel i acc, w.length = 4) ∧
      (expandWords nk fuel i acc).length = acc.length + fuel := by
  induction fuel generalizing i acc with
  | zero => exact ⟨hw, rfl⟩
  | succ f ih =>
    unfold expandWords
    have hidx : nk - 1 < acc.length := by omega
    have hnew : (xorBytes (acc.getD (nk - 1) []) (expandTemp nk i (acc.headD []))).length = 4 := by
      rw [xorBytes_length, List.getD_eq_getElem?_getD, List.getElem?_eq_getElem hidx, Option.getD_some]
      exact hw _ (List.getElem_mem hidx)
    have := ih (i + 1) (xorBytes (acc.getD (nk - 1) []) (expandTemp nk i (acc.headD [])) :: acc)
      (by simp; omega)
      (by intro w hm; rcases List.mem_cons.mp hm with rfl | hm
          · exact hnew
          · exact hw w hm)
    refine ⟨this.1, ?_⟩
    rw [this.2, List.length_cons]; omega

/-- For a key whose length is a positive multiple of 4 (in particular 16 or 32 bytes) the key
schedule consists of `key.length / 4 + 7` round keys of 16 bytes each. -/
theorem keyExpansion_spec (key : List UInt8) (h4 : key.length % 4 = 0) (hpos : 4 ≤ key.length) :
    (∀ k ∈ keyExpansion key, k.length = 16) ∧ (keyExpansion key).length = key.length / 4 + 7 := by
  have hc4 := chunks4_lengths key h4
  have hcnt : 4 * (chunks4 key).length = key.length := by
    rw [← length_flatten_of_all_length 4 _ hc4, chunks4_flatten]
  obtain ⟨hw, hl⟩ := expandWords_spec (key.length / 4) (key.length / 4 * 3 + 28) (key.length / 4)
    (chunks4 key).reverse (by omega) (by rw [List.length_reverse]; omega)
    (by intro w hm; exact hc4 w (List.mem_reverse.mp hm))
  rw [List.length_reverse] at hl
  have hflat : (expandWords (key.length / 4) (key.length / 4 * 3 + 28) (key.length / 4)
      (chunks4 key).reverse).reverse.flatten.length = 16 * (key.length / 4 + 7) := by
    rw [length_flatten_of_all_length 4 _ (by intro w hm; exact hw w (List.mem_reverse.mp hm)),
      List.length_reverse, hl]
    omega
  have hall : ∀ k ∈ keyExpansion key, k.length = 16 := by
    unfold keyExpansion
    exact chunks16_lengths _ (by rw [hflat]; omega)
  refine ⟨hall, ?_⟩
  have h16 := length_flatten_of_all_length 16 _ hall
  unfold keyExpansion at h16 ⊢
  rw [chunks16_flatten, hflat] at h16
  omega

theorem keyExpansion_lengths (key : List UInt8) (h : key.length = 16 ∨ key.length = 32) :
    ∀ k ∈ keyExpansion key, k.length = 16 :=
  (keyExpansion_spec key (by omega) (by omega)).1

theorem keyExpansion_length_128 (key : List UInt8) (h : key.length = 16) :
    (keyExpansion key).length = 11 := by
  rw [(keyExpansion_spec key (by omega) (by omega)).2, h]

theorem keyExpansion_length_256 (key : List UInt8) (h : key.length = 32) :
    (keyExpansion key).length = 15 := by
  rw [(keyExpansion_spec key (by omega) (by omega)).2, h]

/-! ## Axiom audit -/
#print axioms cipher_length_eq
#print axioms keyExpansion_spec
#print axioms cipher_invCipher
#print axioms chunks16_of_blocks
#print axioms ecbDecrypt_ecbEncrypt
#print axioms ecbEncrypt_ecbDecrypt
#print axioms cbcDecrypt_cbcEncrypt
#print axioms cbcEncrypt_cbcDecrypt
#print axioms cbcDecrypt_injective
#print axioms pkcs7Unpad_pkcs7Pad
#print axioms pkcs7Unpad_some
#print axioms xorBytes_left_cancel

end Msmart.Crypto.AES
