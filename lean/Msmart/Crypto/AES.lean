/-
AES-128 / AES-256 (FIPS-197) on plain `List UInt8`, plus ECB / CBC modes and
PKCS#7 padding (mirroring pycryptodome `Crypto.Util.Padding`).

Core Lean only, total, no `partial`; the kernel can evaluate everything
(`decide +kernel`).

State layout: the 16-byte block IS the FIPS state in column-major order, i.e.
bytes `4c .. 4c+3` form column `c` and byte `4c+r` sits in row `r`.

Design notes for later proofs: every step function is total on ALL lists and is
the identity / "keep the tail" outside its intended domain, chosen such that each
inverse step cancels its forward step for ALL inputs (no length side conditions):
* `addRoundKey = xorBytes` keeps the tail of the state when the key is shorter;
* `shiftRows` / `invShiftRows` are the identity on lists whose length is not 16;
* `mixColumns` / `invMixColumns` recurse over 4-byte columns, keeping a short tail.
-/
namespace Msmart.Crypto.AES

/-! ## S-boxes

The tables are `List`s, not `Array`s: kernel evaluation of `List.getD` on a literal list is
several times faster than `Array.getD` (measured), and compiled speed is irrelevant here. -/

def sboxTable : List UInt8 := [
0x63,0x7c,0x77,0x7b,0xf2,0x6b,0x6f,0xc5,0x30,0x01,0x67,0x2b,0xfe,0xd7,0xab,0x76,
0xca,0x82,0xc9,0x7d,0xfa,0x59,0x47,0xf0,0xad,0xd4,0xa2,0xaf,0x9c,0xa4,0x72,0xc0,
0xb7,0xfd,0x93,0x26,0x36,0x3f,0xf7,0xcc,0x34,0xa5,0xe5,0xf1,0x71,0xd8,0x31,0x15,
0x04,0xc7,0x23,0xc3,0x18,0x96,0x05,0x9a,0x07,0x12,0x80,0xe2,0xeb,0x27,0xb2,0x75,
0x09,0x83,0x2c,0x1a,0x1b,0x6e,0x5a,0xa0,0x52,0x3b,0xd6,0xb3,0x29,0xe3,0x2f,0x84,
0x53,0xd1,0x00,0xed,0x20,0xfc,0xb1,0x5b,0x6a,0xcb,0xbe,0x39,0x4a,0x4c,0x58,0xcf,
0xd0,0xef,0xaa,0xfb,0x43,0x4d,0x33,0x85,0x45,0xf9,0x02,0x7f,0x50,0x3c,0x9f,0xa8,
0x51,0xa3,0x40,0x8f,0x92,0x9d,0x38,0xf5,0xbc,0xb6,0xda,0x21,0x10,0xff,0xf3,0xd2,
0xcd,0x0c,0x13,0xec,0x5f,0x97,0x44,0x17,0xc4,0xa7,0x7e,0x3d,0x64,0x5d,0x19,0x73,
0x60,0x81,0x4f,0xdc,0x22,0x2a,0x90,0x88,0x46,0xee,0xb8,0x14,0xde,0x5e,0x0b,0xdb,
0xe0,0x32,0x3a,0x0a,0x49,0x06,0x24,0x5c,0xc2,0xd3,0xac,0x62,0x91,0x95,0xe4,0x79,
0xe7,0xc8,0x37,0x6d,0x8d,0xd5,0x4e,0xa9,0x6c,0x56,0xf4,0xea,0x65,0x7a,0xae,0x08,
0xba,0x78,0x25,0x2e,0x1c,0xa6,0xb4,0xc6,0xe8,0xdd,0x74,0x1f,0x4b,0xbd,0x8b,0x8a,
0x70,0x3e,0xb5,0x66,0x48,0x03,0xf6,0x0e,0x61,0x35,0x57,0xb9,0x86,0xc1,0x1d,0x9e,
0xe1,0xf8,0x98,0x11,0x69,0xd9,0x8e,0x94,0x9b,0x1e,0x87,0xe9,0xce,0x55,0x28,0xdf,
0x8c,0xa1,0x89,0x0d,0xbf,0xe6,0x42,0x68,0x41,0x99,0x2d,0x0f,0xb0,0x54,0xbb,0x16]

def invSboxTable : List UInt8 := [
0x52,0x09,0x6a,0xd5,0x30,0x36,0xa5,0x38,0xbf,0x40,0xa3,0x9e,0x81,0xf3,0xd7,0xfb,
0x7c,0xe3,0x39,0x82,0x9b,0x2f,0xff,0x87,0x34,0x8e,0x43,0x44,0xc4,0xde,0xe9,0xcb,
0x54,0x7b,0x94,0x32,0xa6,0xc2,0x23,0x3d,0xee,0x4c,0x95,0x0b,0x42,0xfa,0xc3,0x4e,
0x08,0x2e,0xa1,0x66,0x28,0xd9,0x24,0xb2,0x76,0x5b,0xa2,0x49,0x6d,0x8b,0xd1,0x25,
0x72,0xf8,0xf6,0x64,0x86,0x68,0x98,0x16,0xd4,0xa4,0x5c,0xcc,0x5d,0x65,0xb6,0x92,
0x6c,0x70,0x48,0x50,0xfd,0xed,0xb9,0xda,0x5e,0x15,0x46,0x57,0xa7,0x8d,0x9d,0x84,
0x90,0xd8,0xab,0x00,0x8c,0xbc,0xd3,0x0a,0xf7,0xe4,0x58,0x05,0xb8,0xb3,0x45,0x06,
0xd0,0x2c,0x1e,0x8f,0xca,0x3f,0x0f,0x02,0xc1,0xaf,0xbd,0x03,0x01,0x13,0x8a,0x6b,
0x3a,0x91,0x11,0x41,0x4f,0x67,0xdc,0xea,0x97,0xf2,0xcf,0xce,0xf0,0xb4,0xe6,0x73,
0x96,0xac,0x74,0x22,0xe7,0xad,0x35,0x85,0xe2,0xf9,0x37,0xe8,0x1c,0x75,0xdf,0x6e,
0x47,0xf1,0x1a,0x71,0x1d,0x29,0xc5,0x89,0x6f,0xb7,0x62,0x0e,0xaa,0x18,0xbe,0x1b,
0xfc,0x56,0x3e,0x4b,0xc6,0xd2,0x79,0x20,0x9a,0xdb,0xc0,0xfe,0x78,0xcd,0x5a,0xf4,
0x1f,0xdd,0xa8,0x33,0x88,0x07,0xc7,0x31,0xb1,0x12,0x10,0x59,0x27,0x80,0xec,0x5f,
0x60,0x51,0x7f,0xa9,0x19,0xb5,0x4a,0x0d,0x2d,0xe5,0x7a,0x9f,0x93,0xc9,0x9c,0xef,
0xa0,0xe0,0x3b,0x4d,0xae,0x2a,0xf5,0xb0,0xc8,0xeb,0xbb,0x3c,0x83,0x53,0x99,0x61,
0x17,0x2b,0x04,0x7e,0xba,0x77,0xd6,0x26,0xe1,0x69,0x14,0x63,0x55,0x21,0x0c,0x7d]

def sbox (x : UInt8) : UInt8 := sboxTable.getD x.toNat 0
def invSbox (x : UInt8) : UInt8 := invSboxTable.getD x.toNat 0

/-! ## GF(2^8) arithmetic (modulus x^8 + x^4 + x^3 + x + 1) -/

/-- Multiplication by `x` (i.e. by 2). -/
def xtime (x : UInt8) : UInt8 :=
  (x <<< 1) ^^^ (if x &&& 0x80 = 0 then 0 else 0x1b)

def mul2 (x : UInt8) : UInt8 := xtime x
def mul3 (x : UInt8) : UInt8 := xtime x ^^^ x
def mul4 (x : UInt8) : UInt8 := xtime (xtime x)
def mul8 (x : UInt8) : UInt8 := xtime (xtime (xtime x))
def mul9 (x : UInt8) : UInt8 := mul8 x ^^^ x
def mul11 (x : UInt8) : UInt8 := mul8 x ^^^ mul2 x ^^^ x
def mul13 (x : UInt8) : UInt8 := mul8 x ^^^ mul4 x ^^^ x
def mul14 (x : UInt8) : UInt8 := mul8 x ^^^ mul4 x ^^^ mul2 x

/-! ## Round steps -/

/-- Bytewise XOR; if the second list is shorter the tail of the first is kept
(so the length is always that of the first, and `xorBytes (xorBytes s k) k = s`). -/
def xorBytes : List UInt8 → List UInt8 → List UInt8
  | a :: as, b :: bs => (a ^^^ b) :: xorBytes as bs
  | as, [] => as
  | [], _ :: _ => []

def addRoundKey (s k : List UInt8) : List UInt8 := xorBytes s k

def subBytes (s : List UInt8) : List UInt8 := s.map sbox
def invSubBytes (s : List UInt8) : List UInt8 := s.map invSbox

/-- Row `r` is rotated left by `r` (column-major layout). -/
def shiftRows : List UInt8 → List UInt8
  | [s0, s1, s2, s3, s4, s5, s6, s7, s8, s9, s10, s11, s12, s13, s14, s15] =>
    [s0, s5, s10, s15, s4, s9, s14, s3, s8, s13, s2, s7, s12, s1, s6, s11]
  | s => s

/-- Row `r` is rotated right by `r`. -/
def invShiftRows : List UInt8 → List UInt8
  | [s0, s1, s2, s3, s4, s5, s6, s7, s8, s9, s10, s11, s12, s13, s14, s15] =>
    [s0, s13, s10, s7, s4, s1, s14, s11, s8, s5, s2, s15, s12, s9, s6, s3]
  | s => s

/-- MixColumns on one column `(a, b, c, d)`: the four output bytes. -/
def mix0 (a b c d : UInt8) : UInt8 := mul2 a ^^^ mul3 b ^^^ c ^^^ d
def mix1 (a b c d : UInt8) : UInt8 := a ^^^ mul2 b ^^^ mul3 c ^^^ d
def mix2 (a b c d : UInt8) : UInt8 := a ^^^ b ^^^ mul2 c ^^^ mul3 d
def mix3 (a b c d : UInt8) : UInt8 := mul3 a ^^^ b ^^^ c ^^^ mul2 d

/-- InvMixColumns on one column `(a, b, c, d)`: the four output bytes. -/
def invMix0 (a b c d : UInt8) : UInt8 := mul14 a ^^^ mul11 b ^^^ mul13 c ^^^ mul9 d
def invMix1 (a b c d : UInt8) : UInt8 := mul9 a ^^^ mul14 b ^^^ mul11 c ^^^ mul13 d
def invMix2 (a b c d : UInt8) : UInt8 := mul13 a ^^^ mul9 b ^^^ mul14 c ^^^ mul11 d
def invMix3 (a b c d : UInt8) : UInt8 := mul11 a ^^^ mul13 b ^^^ mul9 c ^^^ mul14 d

/-- Apply the column function to each consecutive 4-byte column. -/
def mixColumns : List UInt8 → List UInt8
  | a :: b :: c :: d :: t =>
    mix0 a b c d :: mix1 a b c d :: mix2 a b c d :: mix3 a b c d :: mixColumns t
  | s => s

def invMixColumns : List UInt8 → List UInt8
  | a :: b :: c :: d :: t =>
    invMix0 a b c d :: invMix1 a b c d :: invMix2 a b c d :: invMix3 a b c d :: invMixColumns t
  | s => s

/-! ## Key expansion -/

/-- Split into consecutive chunks of `n+1` bytes (fuel-based; the last chunk may be short,
nothing is dropped). -/
def chunksAux (n : Nat) : Nat → List UInt8 → List (List UInt8)
  | 0, _ => []
  | fuel + 1, l => if l.isEmpty then [] else l.take (n + 1) :: chunksAux n fuel (l.drop (n + 1))

def chunks4 (l : List UInt8) : List (List UInt8) := chunksAux 3 l.length l
def chunks16 (l : List UInt8) : List (List UInt8) := chunksAux 15 l.length l

def rconTable : List UInt8 := [0x01, 0x02, 0x04, 0x08, 0x10, 0x20, 0x40, 0x80, 0x1b, 0x36]

/-- `Rcon[i]` for `i ≥ 1` as a one-byte list (XORed into the first byte of a word). -/
def rcon (i : Nat) : List UInt8 := [rconTable.getD (i - 1) 0]

def rotWord : List UInt8 → List UInt8
  | a :: t => t ++ [a]
  | [] => []

def subWord (w : List UInt8) : List UInt8 := w.map sbox

/-- The word XORed with `w[i-Nk]` to give `w[i]`, where `prev = w[i-1]`. -/
def expandTemp (nk i : Nat) (prev : List UInt8) : List UInt8 :=
  if i % nk = 0 then xorBytes (subWord (rotWord prev)) (rcon (i / nk))
  else if nk > 6 ∧ i % nk = 4 then subWord prev
  else prev

/-- Key schedule words, kept REVERSED (`acc = [w[i-1], w[i-2], ..., w[0]]`);
`fuel` more words are produced, the next one having index `i`. -/
def expandWords (nk : Nat) : Nat → Nat → List (List UInt8) → List (List UInt8)
  | 0, _, acc => acc
  | fuel + 1, i, acc =>
    expandWords nk fuel (i + 1)
      (xorBytes (acc.getD (nk - 1) []) (expandTemp nk i (acc.headD [])) :: acc)

/-- Round keys (16 bytes each): 11 for a 16-byte key, 15 for a 32-byte key. -/
def keyExpansion (key : List UInt8) : List (List UInt8) :=
  chunks16 (expandWords (key.length / 4) (key.length / 4 * 3 + 28) (key.length / 4)
    (chunks4 key).reverse).reverse.flatten

/-! ## Cipher and inverse cipher as folds over the round keys -/

/-- Rounds `1 .. Nr-1`. -/
def encRound (s k : List UInt8) : List UInt8 :=
  addRoundKey (mixColumns (shiftRows (subBytes s))) k

/-- Round `Nr` (no MixColumns). -/
def encFinal (s k : List UInt8) : List UInt8 :=
  addRoundKey (shiftRows (subBytes s)) k

/-- Exact inverse of `fun s => encRound s k`. -/
def decRound (s k : List UInt8) : List UInt8 :=
  invSubBytes (invShiftRows (invMixColumns (addRoundKey s k)))

/-- Exact inverse of `fun s => encFinal s k`. -/
def decFinal (s k : List UInt8) : List UInt8 :=
  invSubBytes (invShiftRows (addRoundKey s k))

/-- FIPS-197 `Cipher` for round keys `k0 :: mid ++ [kLast]`. -/
def cipher (ks : List (List UInt8)) (blk : List UInt8) : List UInt8 :=
  match ks with
  | [] => blk
  | k0 :: rest =>
    encFinal (rest.dropLast.foldl encRound (addRoundKey blk k0)) (rest.getLastD [])

/-- FIPS-197 `InvCipher` (the straightforward one, using the encryption key schedule).
The operation sequence is
`ARK kLast; (ISR; ISB; ARK k; IMC) for mid reversed; ISR; ISB; ARK k0`,
merely grouped as `decFinal kLast; decRound k ...; ARK k0` so that each group
inverts one group of `cipher`. -/
def invCipher (ks : List (List UInt8)) (blk : List UInt8) : List UInt8 :=
  match ks with
  | [] => blk
  | k0 :: rest =>
    addRoundKey (rest.dropLast.foldr (fun k s => decRound s k) (decFinal blk (rest.getLastD []))) k0

def encryptBlock (key blk : List UInt8) : List UInt8 := cipher (keyExpansion key) blk
def decryptBlock (key blk : List UInt8) : List UInt8 := invCipher (keyExpansion key) blk

/-! ## Modes -/

def ecbEncrypt (key data : List UInt8) : List UInt8 :=
  ((chunks16 data).map (cipher (keyExpansion key))).flatten

def ecbDecrypt (key data : List UInt8) : List UInt8 :=
  ((chunks16 data).map (invCipher (keyExpansion key))).flatten

def cbcEncBlocks (ks : List (List UInt8)) : List UInt8 → List (List UInt8) → List (List UInt8)
  | _, [] => []
  | prev, b :: bs => cipher ks (xorBytes b prev) :: cbcEncBlocks ks (cipher ks (xorBytes b prev)) bs

def cbcDecBlocks (ks : List (List UInt8)) : List UInt8 → List (List UInt8) → List (List UInt8)
  | _, [] => []
  | prev, c :: cs => xorBytes (invCipher ks c) prev :: cbcDecBlocks ks c cs

def cbcEncrypt (key iv data : List UInt8) : List UInt8 :=
  (cbcEncBlocks (keyExpansion key) iv (chunks16 data)).flatten

def cbcDecrypt (key iv data : List UInt8) : List UInt8 :=
  (cbcDecBlocks (keyExpansion key) iv (chunks16 data)).flatten

/-! ## PKCS#7 padding, block size 16 (pycryptodome `pad` / `unpad`) -/

def pkcs7Pad (data : List UInt8) : List UInt8 :=
  data ++ List.replicate (16 - data.length % 16) (16 - data.length % 16).toUInt8

/-- `none` corresponds to pycryptodome's `ValueError`. -/
def pkcs7Unpad (data : List UInt8) : Option (List UInt8) :=
  if data.length = 0 then none                                  -- "Zero-length input cannot be unpadded"
  else if data.length % 16 ≠ 0 then none                        -- "Input data is not padded"
  else if (data.getLastD 0).toNat < 1 ∨ (data.getLastD 0).toNat > min 16 data.length then
    none                                                        -- "Padding is incorrect."
  else if data.drop (data.length - (data.getLastD 0).toNat)
      ≠ List.replicate (data.getLastD 0).toNat (data.getLastD 0) then
    none                                                        -- "PKCS#7 padding is incorrect."
  else some (data.take (data.length - (data.getLastD 0).toNat))

end Msmart.Crypto.AES
