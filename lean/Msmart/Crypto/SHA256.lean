/-
SHA-256 (FIPS 180-4) on `List UInt8`.  Core Lean only, total, structurally
recursive / fuel based, so that the kernel can evaluate it (`decide +kernel`).
-/
namespace Msmart.Crypto.SHA256

def K : List UInt32 := [
0x428a2f98,0x71374491,0xb5c0fbcf,0xe9b5dba5,0x3956c25b,0x59f111f1,0x923f82a4,0xab1c5ed5,
0xd807aa98,0x12835b01,0x243185be,0x550c7dc3,0x72be5d74,0x80deb1fe,0x9bdc06a7,0xc19bf174,
0xe49b69c1,0xefbe4786,0x0fc19dc6,0x240ca1cc,0x2de92c6f,0x4a7484aa,0x5cb0a9dc,0x76f988da,
0x983e5152,0xa831c66d,0xb00327c8,0xbf597fc7,0xc6e00bf3,0xd5a79147,0x06ca6351,0x14292967,
0x27b70a85,0x2e1b2138,0x4d2c6dfc,0x53380d13,0x650a7354,0x766a0abb,0x81c2c92e,0x92722c85,
0xa2bfe8a1,0xa81a664b,0xc24b8b70,0xc76c51a3,0xd192e819,0xd6990624,0xf40e3585,0x106aa070,
0x19a4c116,0x1e376c08,0x2748774c,0x34b0bcb5,0x391c0cb3,0x4ed8aa4a,0x5b9cca4f,0x682e6ff3,
0x748f82ee,0x78a5636f,0x84c87814,0x8cc70208,0x90befffa,0xa4506ceb,0xbef9a3f7,0xc67178f2]

def rotr (x : UInt32) (n : UInt32) : UInt32 := (x >>> n) ||| (x <<< (32 - n))

/-- Message padding: 0x80, zeros up to 56 mod 64, 64-bit big-endian bit length. -/
def pad (m : List UInt8) : List UInt8 :=
  m ++ [(0x80 : UInt8)] ++ List.replicate ((119 - m.length % 64) % 64) (0 : UInt8) ++
    (List.range 8).map (fun i => ((m.length * 8) >>> (8*(7-i))).toUInt8)

def be32 (a b c d : UInt8) : UInt32 :=
  (a.toUInt32 <<< 24) ||| (b.toUInt32 <<< 16) ||| (c.toUInt32 <<< 8) ||| d.toUInt32

/-- Big-endian 32-bit words of a byte string (a trailing partial word is dropped). -/
def words : List UInt8 → List UInt32
  | a::b::c::d::t => be32 a b c d :: words t
  | _ => []

/-- Message schedule extension; the list is kept REVERSED (most recent word first). -/
def extend : Nat → List UInt32 → List UInt32
  | 0, l => l
  | n+1, l =>
    let w2 := l.getD 1 0; let w7 := l.getD 6 0; let w15 := l.getD 14 0; let w16 := l.getD 15 0
    let s0 := rotr w15 7 ^^^ rotr w15 18 ^^^ (w15 >>> 3)
    let s1 := rotr w2 17 ^^^ rotr w2 19 ^^^ (w2 >>> 10)
    extend n ((w16 + s0 + w7 + s1) :: l)

structure S where (a b c d e f g h : UInt32)

def round (s : S) (kw : UInt32 × UInt32) : S :=
  let s1 := rotr s.e 6 ^^^ rotr s.e 11 ^^^ rotr s.e 25
  let ch := (s.e &&& s.f) ^^^ ((~~~s.e) &&& s.g)
  let t1 := s.h + s1 + ch + kw.1 + kw.2
  let s0 := rotr s.a 2 ^^^ rotr s.a 13 ^^^ rotr s.a 22
  let mj := (s.a &&& s.b) ^^^ (s.a &&& s.c) ^^^ (s.b &&& s.c)
  ⟨t1 + s0 + mj, s.a, s.b, s.c, s.d + t1, s.e, s.f, s.g⟩

def compress (h : S) (blk : List UInt32) : S :=
  let w := (extend 48 blk.reverse).reverse
  let r := (K.zip w).foldl round h
  ⟨h.a+r.a, h.b+r.b, h.c+r.c, h.d+r.d, h.e+r.e, h.f+r.f, h.g+r.g, h.h+r.h⟩

/-- Fuel-based loop over 16-word blocks. -/
def blocks : Nat → S → List UInt32 → S
  | 0, h, _ => h
  | n+1, h, ws => if ws.length < 16 then h else blocks n (compress h (ws.take 16)) (ws.drop 16)

def out (x : UInt32) : List UInt8 :=
  [(x >>> 24).toUInt8, (x >>> 16).toUInt8, (x >>> 8).toUInt8, x.toUInt8]

def init : S :=
  ⟨0x6a09e667,0xbb67ae85,0x3c6ef372,0xa54ff53a,0x510e527f,0x9b05688c,0x1f83d9ab,0x5be0cd19⟩

def sha256 (m : List UInt8) : List UInt8 :=
  let ws := words (pad m)
  let h := blocks (ws.length / 16 + 1) init ws
  out h.a ++ out h.b ++ out h.c ++ out h.d ++ out h.e ++ out h.f ++ out h.g ++ out h.h

theorem sha256_length (m : List UInt8) : (sha256 m).length = 32 := by simp [sha256, out]

end Msmart.Crypto.SHA256
