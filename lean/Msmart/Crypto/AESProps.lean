import Msmart.Crypto.AES
/-
OPTIONAL extra (not part of the requested set): proof that the inverse cipher inverts the
cipher, for ALL keys and ALL blocks (no length hypotheses are needed because every step
function in `AES.lean` is total and its inverse cancels it on all lists).
Core Lean only; axioms used: `propext`, `Quot.sound` (checked by `#print axioms` below).
-/
namespace Msmart.Crypto.AES

/-! ### XOR facts on `UInt8` -/

theorem xor_left_comm (a b c : UInt8) : a ^^^ (b ^^^ c) = b ^^^ (a ^^^ c) := by
  rw [← UInt8.xor_assoc, UInt8.xor_comm a b, UInt8.xor_assoc]

theorem xor_cancel_left (a b : UInt8) : a ^^^ (a ^^^ b) = b := by
  rw [← UInt8.xor_assoc, UInt8.xor_self, UInt8.zero_xor]

theorem xor_and (x y z : UInt8) : (x ^^^ y) &&& z = (x &&& z) ^^^ (y &&& z) := by
  apply UInt8.toBitVec_inj.1
  ext i
  simp [Bool.and_xor_distrib_right]

/-! ### Step inverses -/

theorem xorBytes_cancel (s k : List UInt8) : xorBytes (xorBytes s k) k = s := by
  fun_induction xorBytes s k <;> simp_all [xorBytes, UInt8.xor_assoc]

theorem addRoundKey_cancel (s k : List UInt8) : addRoundKey (addRoundKey s k) k = s :=
  xorBytes_cancel s k

theorem invShiftRows_shiftRows (s : List UInt8) : invShiftRows (shiftRows s) = s := by
  unfold shiftRows
  split
  · rfl
  · rename_i h
    unfold invShiftRows
    split
    · exact absurd rfl (h _ _ _ _ _ _ _ _ _ _ _ _ _ _ _ _)
    · rfl

theorem invSbox_sbox_all :
    (List.range 256).all (fun i => invSbox (sbox i.toUInt8) = i.toUInt8) = true := by
  decide +kernel

theorem invSbox_sbox (x : UInt8) : invSbox (sbox x) = x := by
  have h := List.all_eq_true.mp invSbox_sbox_all x.toNat (List.mem_range.mpr x.toNat_lt)
  simpa using h

theorem invSubBytes_subBytes (s : List UInt8) : invSubBytes (subBytes s) = s := by
  simp [invSubBytes, subBytes, Function.comp_def, invSbox_sbox]

theorem hibit_all :
    (List.range 256).all (fun i => i.toUInt8 &&& 0x80 = 0 ∨ i.toUInt8 &&& 0x80 = 0x80) = true := by
  decide +kernel

theorem hibit (x : UInt8) : x &&& 0x80 = 0 ∨ x &&& 0x80 = 0x80 := by
  have h := List.all_eq_true.mp hibit_all x.toNat (List.mem_range.mpr x.toNat_lt)
  simpa using h

/-- `xtime` is GF(2)-linear. -/
theorem xtime_xor (x y : UInt8) : xtime (x ^^^ y) = xtime x ^^^ xtime y := by
  unfold xtime
  rw [UInt8.shiftLeft_xor, xor_and]
  rcases hibit x with hx | hx <;> rcases hibit y with hy | hy <;>
    simp [hx, hy, UInt8.xor_assoc, UInt8.xor_comm, xor_left_comm]

/- The column identities hold already in GF(2)[x] (no reduction needed): expand by linearity,
turn the `xtime^k v` terms into atoms, cancel XORs. -/
set_option hygiene false in
macro "mix_tac" : tactic => `(tactic| (
  simp only [invMix0, invMix1, invMix2, invMix3, mix0, mix1, mix2, mix3,
    mul2, mul3, mul4, mul8, mul9, mul11, mul13, mul14, xtime_xor]
  generalize xtime a = a1; generalize xtime a1 = a2; generalize xtime a2 = a3; generalize xtime a3 = a4
  generalize xtime b = b1; generalize xtime b1 = b2; generalize xtime b2 = b3; generalize xtime b3 = b4
  generalize xtime c = c1; generalize xtime c1 = c2; generalize xtime c2 = c3; generalize xtime c3 = c4
  generalize xtime d = d1; generalize xtime d1 = d2; generalize xtime d2 = d3; generalize xtime d3 = d4
  simp [UInt8.xor_assoc, UInt8.xor_comm, xor_left_comm, xor_cancel_left]))

theorem invMix0_mix (a b c d : UInt8) :
    invMix0 (mix0 a b c d) (mix1 a b c d) (mix2 a b c d) (mix3 a b c d) = a := by mix_tac
theorem invMix1_mix (a b c d : UInt8) :
    invMix1 (mix0 a b c d) (mix1 a b c d) (mix2 a b c d) (mix3 a b c d) = b := by mix_tac
theorem invMix2_mix (a b c d : UInt8) :
    invMix2 (mix0 a b c d) (mix1 a b c d) (mix2 a b c d) (mix3 a b c d) = c := by mix_tac
theorem invMix3_mix (a b c d : UInt8) :
    invMix3 (mix0 a b c d) (mix1 a b c d) (mix2 a b c d) (mix3 a b c d) = d := by mix_tac

theorem invMixColumns_mixColumns (s : List UInt8) : invMixColumns (mixColumns s) = s := by
  fun_induction mixColumns s with
  | case1 a b c d t ih =>
    simp [invMixColumns, ih, invMix0_mix, invMix1_mix, invMix2_mix, invMix3_mix]
  | case2 s h =>
    unfold invMixColumns
    split
    · exact absurd rfl (h _ _ _ _ _)
    · rfl

/-! ### Rounds, cipher, modes -/

theorem decRound_encRound (s k : List UInt8) : decRound (encRound s k) k = s := by
  simp [decRound, encRound, addRoundKey_cancel, invMixColumns_mixColumns,
    invShiftRows_shiftRows, invSubBytes_subBytes]

theorem decFinal_encFinal (s k : List UInt8) : decFinal (encFinal s k) k = s := by
  simp [decFinal, encFinal, addRoundKey_cancel, invShiftRows_shiftRows, invSubBytes_subBytes]

theorem foldr_decRound_foldl_encRound (mid : List (List UInt8)) (s : List UInt8) :
    mid.foldr (fun k s => decRound s k) (mid.foldl encRound s) = s := by
  induction mid generalizing s with
  | nil => rfl
  | cons k ks ih => simp [List.foldl_cons, List.foldr_cons, ih, decRound_encRound]

theorem invCipher_cipher (ks : List (List UInt8)) (blk : List UInt8) :
    invCipher ks (cipher ks blk) = blk := by
  cases ks with
  | nil => rfl
  | cons k0 rest =>
    simp [invCipher, cipher, decFinal_encFinal, foldr_decRound_foldl_encRound, addRoundKey_cancel]

/-- Holds for every key and every block (in particular for 16/32-byte keys and 16-byte blocks). -/
theorem decryptBlock_encryptBlock (key blk : List UInt8) :
    decryptBlock key (encryptBlock key blk) = blk :=
  invCipher_cipher _ _

theorem cbcDecBlocks_cbcEncBlocks (ks : List (List UInt8)) (iv : List UInt8)
    (bs : List (List UInt8)) : cbcDecBlocks ks iv (cbcEncBlocks ks iv bs) = bs := by
  induction bs generalizing iv with
  | nil => rfl
  | cons b bs ih => simp [cbcEncBlocks, cbcDecBlocks, invCipher_cipher, xorBytes_cancel, ih]

#print axioms decryptBlock_encryptBlock
#print axioms cbcDecBlocks_cbcEncBlocks

end Msmart.Crypto.AES
