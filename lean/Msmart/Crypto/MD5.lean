/-
MD5 (RFC 1321) on `List UInt8`.  Core Lean only, total, structurally
recursive / fuel based, so that the kernel can evaluate it (`decide +kernel`).
-/
namespace Msmart.Crypto.MD5

/-- `K[i] = floor(2^32 * |sin(i+1)|)`. -/
def K : List UInt32 := [
0xd76aa478,0xe8c7b756,0x242070db,0xc1bdceee,0xf57c0faf,0x4787c62a,0xa8304613,0xfd469501,
0x698098d8,0x8b44f7af,0xffff5bb1,0x895cd7be,0x6b901122,0xfd987193,0xa679438e,0x49b40821,
0xf61e2562,0xc040b340,0x265e5a51,0xe9b6c7aa,0xd62f105d,0x02441453,0xd8a1e681,0xe7d3fbc8,
0x21e1cde6,0xc33707d6,0xf4d50d87,0x455a14ed,0xa9e3e905,0xfcefa3f8,0x676f02d9,0x8d2a4c8a,
0xfffa3942,0x8771f681,0x6d9d6122,0xfde5380c,0xa4beea44,0x4bdecfa9,0xf6bb4b60,0xbebfbc70,
0x289b7ec6,0xeaa127fa,0xd4ef3085,0x04881d05,0xd9d4d039,0xe6db99e5,0x1fa27cf8,0xc4ac5665,
0xf4292244,0x432aff97,0xab9423a7,0xfc93a039,0x655b59c3,0x8f0ccc92,0xffeff47d,0x85845dd1,
0x6fa87e4f,0xfe2ce6e0,0xa3014314,0x4e0811a1,0xf7537e82,0xbd3af235,0x2ad7d2bb,0xeb86d391]

/-- Per-step left-rotation amounts. -/
def R : List UInt32 := [
7,12,17,22,7,12,17,22,7,12,17,22,7,12,17,22,
5,9,14,20,5,9,14,20,5,9,14,20,5,9,14,20,
4,11,16,23,4,11,16,23,4,11,16,23,4,11,16,23,
6,10,15,21,6,10,15,21,6,10,15,21,6,10,15,21]

/-- Per-step message word index: `i`, `5i+1`, `3i+5`, `7i` (mod 16) in the four rounds. -/
def G : List Nat := [
0,1,2,3,4,5,6,7,8,9,10,11,12,13,14,15,
1,6,11,0,5,10,15,4,9,14,3,8,13,2,7,12,
5,8,11,14,1,4,7,10,13,0,3,6,9,12,15,2,
0,7,14,5,12,3,10,1,8,15,6,13,4,11,2,9]

def rotl (x : UInt32) (n : UInt32) : UInt32 := (x <<< n) ||| (x >>> (32 - n))

/-- Message padding: 0x80, zeros up to 56 mod 64, 64-bit LITTLE-endian bit length. -/
def pad (m : List UInt8) : List UInt8 :=
  m ++ [(0x80 : UInt8)] ++ List.replicate ((119 - m.length % 64) % 64) (0 : UInt8) ++
    (List.range 8).map (fun i => ((m.length * 8) >>> (8*i)).toUInt8)

def le32 (a b c d : UInt8) : UInt32 :=
  a.toUInt32 ||| (b.toUInt32 <<< 8) ||| (c.toUInt32 <<< 16) ||| (d.toUInt32 <<< 24)

/-- Little-endian 32-bit words of a byte string (a trailing partial word is dropped). -/
def words : List UInt8 → List UInt32
  | a::b::c::d::t => le32 a b c d :: words t
  | _ => []

structure S where (a b c d : UInt32)

def fF (b c d : UInt32) : UInt32 := (b &&& c) ||| ((~~~b) &&& d)
def fG (b c d : UInt32) : UInt32 := (d &&& b) ||| ((~~~d) &&& c)
def fH (b c d : UInt32) : UInt32 := b ^^^ c ^^^ d
def fI (b c d : UInt32) : UInt32 := c ^^^ (b ||| (~~~d))

/-- One MD5 step with mixing function `f`; the operand is `(K[i], R[i], M[G[i]])`. -/
def step (f : UInt32 → UInt32 → UInt32 → UInt32) (s : S) (x : UInt32 × UInt32 × UInt32) : S :=
  ⟨s.d, s.b + rotl (f s.b s.c s.d + s.a + x.1 + x.2.2) x.2.1, s.b, s.c⟩

/-- The 64 step operands `(K[i], R[i], M[G[i]])` for one 16-word block. -/
def sched (blk : List UInt32) : List (UInt32 × UInt32 × UInt32) :=
  K.zip (R.zip (G.map (fun g => blk.getD g 0)))

def compress (h : S) (blk : List UInt32) : S :=
  let t := sched blk
  let r1 := (t.take 16).foldl (step fF) h
  let r2 := ((t.drop 16).take 16).foldl (step fG) r1
  let r3 := ((t.drop 32).take 16).foldl (step fH) r2
  let r := (t.drop 48).foldl (step fI) r3
  ⟨h.a + r.a, h.b + r.b, h.c + r.c, h.d + r.d⟩

/-- Fuel-based loop over 16-word blocks. -/
def blocks : Nat → S → List UInt32 → S
  | 0, h, _ => h
  | n+1, h, ws => if ws.length < 16 then h else blocks n (compress h (ws.take 16)) (ws.drop 16)

def out (x : UInt32) : List UInt8 :=
  [x.toUInt8, (x >>> 8).toUInt8, (x >>> 16).toUInt8, (x >>> 24).toUInt8]

def init : S := ⟨0x67452301, 0xefcdab89, 0x98badcfe, 0x10325476⟩

def md5 (m : List UInt8) : List UInt8 :=
  let ws := words (pad m)
  let h := blocks (ws.length / 16 + 1) init ws
  out h.a ++ out h.b ++ out h.c ++ out h.d

theorem md5_length (m : List UInt8) : (md5 m).length = 16 := by simp [md5, out]

end Msmart.Crypto.MD5
