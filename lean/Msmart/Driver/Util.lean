/-
  Helpers for the line-protocol driver: tokenising, key=value lookup, canonical printing.
-/
import Msmart.Py.Basic

namespace Msmart.Driver

def kvGet (toks : List String) (key : String) : Option String :=
  toks.findSome? (fun t =>
    match t.splitOn "=" with
    | [k, v] => if k = key then some v else none
    | _ => none)

def kvNat (toks : List String) (key : String) (dflt : Nat := 0) : Nat :=
  match kvGet toks key with
  | some v => v.toNat?.getD dflt
  | none => dflt

def kvInt (toks : List String) (key : String) (dflt : Int := 0) : Int :=
  match kvGet toks key with
  | some v => v.toInt?.getD dflt
  | none => dflt

def kvBool (toks : List String) (key : String) (dflt : Bool := false) : Bool :=
  match kvGet toks key with
  | some v => v = "1"
  | none => dflt

def kvHex (toks : List String) (key : String) : Bytes :=
  match kvGet toks key with
  | some v => (ofHex v).getD []
  | none => []

def b01 (b : Bool) : String := if b then "1" else "0"

def optStr {α} (f : α → String) : Option α → String
  | none => "None"
  | some x => f x

def rStr {α} (f : α → String) : R α → String
  | .ok x => f x
  | .error e => "err:" ++ toString e

def natList (s : String) : List Nat :=
  if s = "-" ∨ s = "" then [] else (s.splitOn ",").filterMap String.toNat?

end Msmart.Driver
