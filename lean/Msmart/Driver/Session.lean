/-
  Driver op for the Session model:
  session rt=2000 ct=5000 as=1000 connects=o,r,h rx=<cid>.<idx>.<delay>.<hex|close>;…
          ops=send.<framehex>|auth.<tokenhex>.<keyhex>|adv.<ms>|life.<ms|none>
-/
import Msmart.Driver.Util
import Msmart.Model.Session

namespace Msmart.Driver
open Msmart Msmart.Model Msmart.Model.Session

def parseRx (s : String) : List ((Nat × Nat) × (Nat × PeerEvent)) :=
  (s.splitOn ";").filterMap (fun r => match r.splitOn "." with
    | [c, i, d, v] => do
      let cn ← c.toNat?; let ix ← i.toNat?; let dl ← d.toNat?
      if v = "close" then pure ((cn, ix), (dl, PeerEvent.close))
      else do let b ← ofHex v; pure ((cn, ix), (dl, PeerEvent.data b))
    | _ => none)

def rxOf (tab : List ((Nat × Nat) × (Nat × PeerEvent))) : Reactions :=
  fun cid idx => (tab.filter (fun r => r.1 = (cid, idx))).map Prod.snd

def parseOp (s : String) : Option Op :=
  match s.splitOn "." with
  | ["send", f] => (ofHex f).map Op.send
  | ["sendn", f, n] => do let b ← ofHex f; let k ← n.toNat?; pure (Op.sendN b k)
  | ["auth", t, k] => do let tb ← ofHex t; let kb ← ofHex k; pure (Op.authenticate tb kb)
  | ["sendc", f, ms] => do let b ← ofHex f; let k ← ms.toNat?; pure (Op.sendCancelled b k)
  | ["authc", t, k, ms] => do let tb ← ofHex t; let kb ← ofHex k; let m ← ms.toNat?; pure (Op.authCancelled tb kb m)
  | ["adv", ms] => ms.toNat?.map Op.advance
  | ["life", "none"] => some (Op.setMaxLifetime none)
  | ["life", ms] => ms.toNat?.map (fun m => Op.setMaxLifetime (some m))
  | _ => none

def short (b : Bytes) : String := toHex (b.take 6)

def showEv : Ev → String
  | .connect c v3 => s!"c{c}v{if v3 then 3 else 2}"
  | .wrHS c n t => s!"hs{c}.{n}.{short t}"
  | .wrData c n k f => s!"d{c}.{n}.{short k}.{toHex f}"
  | .wrV2 c f => s!"v{c}.{toHex f}"
  | .accept c k => s!"a{c}.{short k}"
  | .forget c => s!"f{c}"
  | .closed c => s!"x{c}"

def showOutcome : Outcome → String
  | .frames fs => "frames:" ++ ",".intercalate (fs.map toHex)
  | .done => "done"
  | .failed e => "fail:" ++ toString e

def sessionOp (op : String) (t : List String) : Option String :=
  match op with
  | "session" =>
    let p : Params := { readTimeout := kvNat t "rt" 2000, connectTimeout := kvNat t "ct" 5000, authSleep := kvNat t "as" 1000 }
    let connects := (((kvGet t "connects").getD "").splitOn ",").filterMap (fun c =>
      if c = "o" then some ConnOutcome.ok else if c = "r" then some .refused else if c = "h" then some .hang else none)
    let rx := rxOf (parseRx ((kvGet t "rx").getD ""))
    let ops := (((kvGet t "ops").getD "").splitOn "|").filterMap parseOp
    let (outs, s) := run p rx { w := { connects := connects }, l := {} } ops
    some ("out=" ++ ";".intercalate (outs.map showOutcome) ++ " log=" ++
      ";".intercalate (s.w.log.map (fun te => toString te.1 ++ ":" ++ showEv te.2)) ++ s!" now={s.w.now}")
  | _ => none

end Msmart.Driver
