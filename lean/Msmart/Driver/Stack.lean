/-
  Driver op for the Stack model (device object over the LAN session):
  stackrun rt=.. ct=.. as=.. connects=o,r,h rx=<cid>.<idx>.<delay>.<hex|close>;… counter=N cfg=k:v,…
           ops=auth.<tokenhex>.<keyhex>|refresh|adv.<ms>
  reply: out=<per op: done | ok | fail:<err>> dev=<showDev> log=<session log> now=<ms>
-/
import Msmart.Driver.Session
import Msmart.Driver.Dev
import Msmart.Model.Stack

namespace Msmart.Driver
open Msmart Msmart.Model Msmart.Model.Session Msmart.Model.Stack

def stackStep (p : Params) (rx : Reactions) (st : Run × S) (op : String) : String × (Run × S) :=
  match op.splitOn "." with
  | ["refresh"] =>
    match refreshLan p rx st.1 st.2 with
    | (.ok r', s') => ("ok", (r', s'))
    | (.error e, s') => ("fail:" ++ toString e, (st.1, s'))
  | ["auth", t, k] =>
    match ofHex t, ofHex k with
    | some tb, some kb =>
      match deviceAuthenticate p rx st.2 tb kb with
      | (.ok (), s') => ("done", (st.1, s'))
      | (.error e, s') => ("fail:" ++ toString e, (st.1, s'))
    | _, _ => ("bad-op", st)
  | ["adv", ms] =>
    match ms.toNat? with
    | some m => ("done", (st.1, pump st.2 (st.2.w.now + m)))
    | none => ("bad-op", st)
  | _ => ("bad-op", st)

def stackRun (p : Params) (rx : Reactions) : Run × S → List String → List String × (Run × S)
  | st, [] => ([], st)
  | st, op :: t =>
    let (o, st1) := stackStep p rx st op
    let (os, st2) := stackRun p rx st1 t
    (o :: os, st2)

def stackOp (op : String) (t : List String) : Option String :=
  match op with
  | "stackrun" =>
    let p : Params := { readTimeout := kvNat t "rt" 2000, connectTimeout := kvNat t "ct" 5000, authSleep := kvNat t "as" 1000 }
    let connects := (((kvGet t "connects").getD "").splitOn ",").filterMap (fun c =>
      if c = "o" then some ConnOutcome.ok else if c = "r" then some .refused else if c = "h" then some .hang else none)
    let rx := rxOf (parseRx ((kvGet t "rx").getD ""))
    let cfg := ((kvGet t "cfg").getD "").splitOn ","
    let d0 := cfg.foldl (fun d kv => match kv.splitOn ":" with
      | [k, v] => devSet d k v | _ => d) ({} : Dev)
    let d0 := { d0 with updatedProps := [] }
    let ops := (((kvGet t "ops").getD "").splitOn "|").filter (· ≠ "")
    let (outs, (r, s)) := stackRun p rx ({ dev := d0, counter := kvNat t "counter", replies := [] }, { w := { connects := connects }, l := {} }) ops
    some ("out=" ++ ";".intercalate outs ++ " dev=" ++ (showDev r.dev).replace " " "|" ++ " log=" ++
      ";".intercalate (s.w.log.map (fun te => toString te.1 ++ ":" ++ showEv te.2)) ++ s!" now={s.w.now}")
  | _ => none

end Msmart.Driver
