/-
  Driver operations for the Device model: run an operation sequence over a frame oracle.
  devrun counter=N cfg=k:v,k:v ops=<op>|<op>|...
    op := refresh@R | apply@R | getcaps@R | toggle@R | selfclean@R | set:<name>:<value>
    R  := replies for the successive _send_command calls of that op, separated by `/`;
          each reply is a comma-separated list of hex frames (empty string = no frames)
-/
import Msmart.Driver.AC
import Msmart.Model.Device
import Msmart.Spec.PropertyStore

namespace Msmart.Driver
open Msmart Msmart.Model

def showNatList (l : List Nat) : String := ",".intercalate ((l.mergeSort (· ≤ ·)).map toString)

def showDev (d : Dev) : String :=
  s!"beep={b01 d.beep} power={b01 d.power} temp={d.tempCenti} mode={d.mode} fan={d.fan} swing={d.swing} " ++
  s!"eco={b01 d.eco} turbo={b01 d.turbo} freeze={optStr b01 d.freeze} sleep={b01 d.sleep} f={b01 d.fahrenheit} " ++
  s!"display={b01 d.displayOn} filter={b01 d.filterAlert} follow={b01 d.followMe} pur={b01 d.purifier} " ++
  s!"hum={optStr toString d.humidity} indoor={optStr toString d.indoor} outdoor={optStr toString d.outdoor} " ++
  s!"ihum={optStr toString d.indoorHumidity} " ++
  s!"opmodes={showNatList d.supOpModes} swings={showNatList d.supSwingModes} fans={showNatList d.supFanSpeeds} " ++
  s!"cfan={b01 d.supCustomFan} seco={b01 d.supEco} sturbo={b01 d.supTurbo} sfreeze={b01 d.supFreeze} " ++
  s!"sdisplay={b01 d.supDisplay} sfilter={b01 d.supFilter} spur={b01 d.supPurifier} shum={b01 d.supHumidity} " ++
  s!"sthum={b01 d.supTargetHumidity} tmin={d.minTempHalf} tmax={d.maxTempHalf} reqe={b01 d.requestEnergy} " ++
  s!"bin={b01 d.useBinaryEnergy} te={optStr toString d.totalEnergy} ce={optStr toString d.currentEnergy} " ++
  s!"rp={optStr toString d.realTimePower} sprops={showNatList d.supportedProps} uprops={showNatList d.updatedProps} " ++
  s!"hangle={d.hAngle} vangle={d.vAngle} clean={b01 d.selfClean} rate={d.rateSelect} " ++
  s!"rates={showNatList d.supRateSelects} breeze={d.breezeMode} ieco={b01 d.ieco} auxmode={d.auxMode} " ++
  s!"auxmodes={showNatList d.supAuxModes} online={b01 d.online} supported={b01 d.supported}"

def optNat (s : String) : Option Nat := if s = "None" then none else s.toNat?
def optBool (s : String) : Option Bool := if s = "None" then none else some (s = "1")

/-- apply one `name:value` setting to the record (used for cfg= and for set: ops) -/
def devSet (d : Dev) (name value : String) : Dev :=
  let n := value.toNat?.getD 0
  let b := value = "1"
  match name with
  | "beep" => { d with beep := b }
  | "power" => { d with power := b }
  | "temp" => { d with tempCenti := value.toInt?.getD 0 }
  | "mode" => { d with mode := n }
  | "fan" => { d with fan := value.toInt?.getD 0 }
  | "swing" => { d with swing := n }
  | "eco" => { d with eco := b }
  | "turbo" => { d with turbo := b }
  | "freeze" => { d with freeze := optBool value }
  | "sleep" => { d with sleep := b }
  | "f" => { d with fahrenheit := b }
  | "follow" => { d with followMe := b }
  | "pur" => { d with purifier := b }
  | "hum" => { d with humidity := optNat value }
  | "auxmode" => { d with auxMode := n }
  | "cfan" => { d with supCustomFan := b }
  | "reqe" => { d with requestEnergy := b }
  | "shum" => { d with supHumidity := b }
  | "bin" => { d with useBinaryEnergy := b }
  | "sprops" => { d with supportedProps := natList ((value.replace "+" ",")) }
  | "breeze_away" => d.setBreezeAway b
  | "breeze_mild" => d.setBreezeMild b
  | "breezeless" => d.setBreezeless b
  | "hangle" => d.setHAngle n
  | "vangle" => d.setVAngle n
  | "ieco" => d.setIeco b
  | "rate" => d.setRateSelect n
  | _ => d

def parseReplies (s : String) : Replies :=
  (s.splitOn "/").map (fun r => (r.splitOn ",").filterMap (fun h => if h = "" then none else ofHex h))

def runOp (r : Run) (op : String) : R Run :=
  match op.splitOn "@" with
  | [name, reps] =>
    let r' := { r with replies := parseReplies reps }
    match name with
    | "refresh" => refresh r'
    | "apply" => apply r'
    | "getcaps" => getCapabilities r'
    | "toggle" => toggleDisplay r'
    | "selfclean" => startSelfClean r'
    | _ => .error (.py "bad-op")
  | [single] =>
    match single.splitOn ":" with
    | ["set", name, value] => .ok { r with dev := devSet r.dev name value }
    | _ => .error (.py "bad-op")
  | _ => .error (.py "bad-op")

def runOps : Run → List String → (Run × Option (Err × Nat))
  | r, [] => (r, none)
  | r, op :: t =>
    match runOp r op with
    | .ok r' => runOps r' t
    | .error e => (r, some (e, t.length))

def showSent (counter : Nat) : List Cmd → List String
  | [] => []
  | c :: t => rStr toHex (c.toBytes counter).1 :: showSent (c.toBytes counter).2 t

def devOp (op : String) (t : List String) : Option String :=
  match op with
  | "devrun" =>
    let cfg := ((kvGet t "cfg").getD "").splitOn ","
    let d0 := cfg.foldl (fun d kv => match kv.splitOn ":" with
      | [k, v] => devSet d k v | _ => d) ({} : Dev)
    let d0 := { d0 with updatedProps := [] }
    let counter := kvNat t "counter"
    let ops := (((kvGet t "ops").getD "").splitOn "|").filter (· ≠ "")
    let (r, err) := runOps { dev := d0, counter := counter, replies := [] } ops
    let sent := " sent=" ++ ",".intercalate (showSent counter r.sent)
    match err with
    | none => some ("ok " ++ showDev r.dev ++ sent)
    | some (e, remaining) => some (s!"err:{e} failed_op={ops.length - remaining - 1} " ++ showDev r.dev ++ sent)
  | _ => none

end Msmart.Driver

namespace Msmart.Driver
open Msmart

/-- store state on the wire: `profile=9+10 vals=9:00;227:0100` -/
def showStore (s : Spec.Store) : String :=
  "profile=" ++ "+".intercalate (s.profile.map toString) ++
  " vals=" ++ ";".intercalate (s.vals.map (fun kv => toString kv.1 ++ ":" ++ toHex kv.2))

def parseStore (t : List String) : Spec.Store :=
  let profile := ((kvGet t "profile").getD "").splitOn "+" |>.filterMap String.toNat?
  let vals := (((kvGet t "vals").getD "").splitOn ";").filterMap (fun kv =>
    match kv.splitOn ":" with
    | [k, v] => do let n ← k.toNat?; let b ← ofHex v; pure (n, b)
    | _ => none)
  ⟨profile, vals⟩

def storeOp (op : String) (t : List String) : Option String :=
  match op with
  | "store_new" =>
    some (showStore (Spec.newStore (((kvGet t "profile").getD "").splitOn "+" |>.filterMap String.toNat?)))
  | "store_step" =>
    let (s', resp) := Spec.storeStep (parseStore t) (kvHex t "body")
    some (showStore s' ++ " resp=" ++ (match resp with | some r => toHex r | none => "none"))
  | _ => none

end Msmart.Driver
