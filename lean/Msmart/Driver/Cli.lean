import Msmart.Driver.Util
import Msmart.Driver.Cloud
import Msmart.Model.Cli

namespace Msmart.Driver
open Msmart Msmart.Model.Cli

def parseLit (s : String) : Lit :=
  match s.splitOn ":" with
  | ["int", n] => .int (n.toInt?.getD 0)
  | ["float", c] => .float (c.toInt?.getD 0)
  | ["bool", b] => .bool (b = "1")
  | ["str", h] => .str (hexStr h)
  | ["err", c] => .err c
  | ["other", _, t] => .other (t = "truthy")
  | ["other", _] => .other false
  | _ => .err "bad-lit"

def showValue : Value → String
  | .enumV n => s!"enum:{n}" | .boolV b => s!"bool:{b01 b}" | .intV n => s!"int:{n}" | .floatV c => s!"float:{c}"

def cliOp (op : String) (t : List String) : Option String :=
  match op with
  | "cli_convert" =>
    match convert ((kvGet t "name").getD "") (hexStr ((kvGet t "raw").getD "-")) (parseLit ((kvGet t "lit").getD ""))
        (parseLit ((kvGet t "litcap").getD "")) with
    | .accept v => some ("accept " ++ showValue v)
    | .reject => some "reject"
    | .raise c => some ("raise " ++ c)
    | .unmodelled => some "unmodelled"
  | _ => none

end Msmart.Driver
