/-
  Driver operations for the LAN layer: V2 packets, V3 packets, reassembly, session.
-/
import Msmart.Driver.Util
import Msmart.Model.PacketV2
import Msmart.Spec.V2Spec
import Msmart.Model.Reassembly
import Msmart.Model.PacketV3
import Msmart.Spec.V3Spec
import Msmart.Model.Discover
import Msmart.Spec.DiscoverSpec

namespace Msmart.Driver
open Msmart Msmart.Model

def lanOp (op : String) (t : List String) : Option String :=
  match op with
  | "v2_encode" => some (rStr toHex (packetEncode (kvNat t "id") (kvHex t "ts") (kvHex t "frame")))
  | "v2_decode" => some (rStr toHex (packetDecode (kvHex t "data")))
  | "spec_v2_encode" =>
    some (toHex (Spec.V2.encode (kvNat t "id") (kvHex t "ts") (kvHex t "filler") (kvHex t "frame")))
  | "spec_v2_decode" =>
    match Spec.V2.decode (kvHex t "data") with
    | none => some "none"
    | some (i, f) => some s!"ok id={i} frame={toHex f}"
  | "reasm" =>
    -- successive data_received calls on a fresh protocol: per call the packets queued; final buffer
    let segs := (((kvGet t "segs").getD "").splitOn ",").filterMap (fun h => if h = "" then none else ofHex h)
    let rec go (buf : Bytes) (ss : List Bytes) (acc : List String) : List String × Bytes :=
      match ss with
      | [] => (acc.reverse, buf)
      | s :: rest =>
        let r := feed buf s
        go r.2 rest ((";".intercalate (r.1.map toHex)) :: acc)
    let (outs, buf) := go [] segs []
    some ("q=" ++ "|".intercalate outs ++ " buf=" ++ toHex buf)
  | "v3_enc_request" =>
    let key := if (kvGet t "key").isSome then some (kvHex t "key") else none
    some (rStr toHex (encodeEncryptedRequest key (kvNat t "ctr") (kvHex t "data") (kvHex t "pad")))
  | "v3_hs_request" => some (rStr toHex (encodeHandshakeRequest (kvNat t "ctr") (kvHex t "data")))
  | "v3_process" =>
    let key := if (kvGet t "key").isSome then some (kvHex t "key") else none
    some (rStr toHex (processPacket key (kvHex t "packet")))
  | "v3_local_key" => some (rStr toHex (getLocalKey (kvHex t "key") (kvHex t "data")))
  | "spec_v3_encode" =>
    some (toHex (Spec.V3.encodeEncrypted (kvHex t "key") (kvNat t "type") (kvNat t "ctr") (kvHex t "data") (kvHex t "pad")))
  | "spec_v3_decode" =>
    match Spec.V3.decodeEncrypted (kvHex t "key") (kvHex t "packet") with
    | none => some "none"
    | some d => some s!"ok type={d.ptype} ctr={d.counter} data={toHex d.data}"
  | "spec_v3_hs_reply" => some (toHex (Spec.V3.handshakeReply (kvHex t "key") (kvHex t "nonce") (kvNat t "ctr")))
  | "spec_v3_session_key" => some (toHex (Spec.V3.sessionKey (kvHex t "key") (kvHex t "nonce")))
  | "spec_v3_parse_hs" =>
    match Spec.V3.parseHandshakeRequest (kvHex t "packet") with
    | none => some "none"
    | some (c, tok) => some s!"ok ctr={c} token={toHex tok}"
  | "discover_info" =>
    some (rStr (fun i => s!"ok port={i.port} id={i.id} sn={toHex i.sn} name={toHex i.name} type={i.dtype} version={i.version}")
      (getDeviceInfo (kvNat t "version") (kvHex t "data")))
  | "discover_version" => some (rStr toString (getDeviceVersion (kvBool t "xml") (kvHex t "data")))
  | "discover_run" =>
    -- dgrams=host:xml:hex,host:xml:hex
    let ds := (((kvGet t "dgrams").getD "").splitOn ",").filterMap (fun s =>
      match s.splitOn ":" with
      | [h, x, d] => do let hn ← h.toNat?; let b ← ofHex d; pure ({ host := hn, isXml := x = "1", data := b } : Dgram)
      | _ => none)
    some (";".intercalate ((discoverRun ds).map (fun (h, i) =>
      s!"{h}|port={i.port} id={i.id} sn={toHex i.sn} name={toHex i.name} type={i.dtype} version={i.version}")))
  | "spec_discover_reply" =>
    let b := Spec.Discover.body (kvHex t "iprev") (kvNat t "port") (kvHex t "sn") (kvHex t "name") (kvHex t "extra")
    let v2 := Spec.Discover.replyV2 (kvHex t "pre") (kvNat t "id") (kvHex t "mid") b (kvHex t "tail")
    if kvNat t "version" = 3 then some (toHex (Spec.Discover.replyV3 (kvHex t "prefix") v2 (kvHex t "suffix")))
    else some (toHex v2)
  | "udpid" => some (toHex (udpid (kvHex t "id")))
  | _ => none

end Msmart.Driver
