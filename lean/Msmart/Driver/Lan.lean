/-
  Driver operations for the LAN layer: V2 packets, V3 packets, reassembly, session.
-/
import Msmart.Driver.Util
import Msmart.Model.PacketV2
import Msmart.Spec.V2Spec
import Msmart.Model.Reassembly

namespace Msmart.Driver
open Msmart Msmart.Model

def lanOp (op : String) (t : List String) : Option String :=
  match op with
  | "v2_encode" => some (rStr toHex (packetEncode (kvNat t "id") (kvHex t "ts") (kvHex t "frame")))
  | "v2_decode" => some (rStr toHex (packetDecode (kvHex t "data")))
  | "spec_v2_encode" =>
    some (toHex (Spec.V2.encode (kvNat t "id") (kvHex t "ts") (kvHex t "filler") (kvHex t "frame")))
  | "spec_v2_decode" =>
    match Spec.V2.decode (kvHex t "data") with
    | none => some "none"
    | some (i, f) => some s!"ok id={i} frame={toHex f}"
  | "reasm" =>
    -- successive data_received calls on a fresh protocol: per call the packets queued; final buffer
    let segs := (((kvGet t "segs").getD "").splitOn ",").filterMap (fun h => if h = "" then none else ofHex h)
    let rec go (buf : Bytes) (ss : List Bytes) (acc : List String) : List String × Bytes :=
      match ss with
      | [] => (acc.reverse, buf)
      | s :: rest =>
        let r := feed buf s
        go r.2 rest ((";".intercalate (r.1.map toHex)) :: acc)
    let (outs, buf) := go [] segs []
    some ("q=" ++ "|".intercalate outs ++ " buf=" ++ toHex buf)
  | "udpid" => some (toHex (udpid (kvHex t "id")))
  | _ => none

end Msmart.Driver
