/-
  Driver operations for the cloud model / spec.  Strings travel hex-encoded (UTF-8).
-/
import Msmart.Driver.Util
import Msmart.Model.Cloud
import Msmart.Spec.CloudSpec

namespace Msmart.Driver
open Msmart Msmart.Model

def hexStr (s : String) : String := match ofHex s with
  | some b => (String.fromUTF8? (ByteArray.mk b.toArray)).getD ""
  | none => ""

def parseFields (s : String) : Fields :=
  if s = "" ∨ s = "-" then [] else
  (s.splitOn ",").filterMap (fun kv => match kv.splitOn ":" with
    | [k, v] => some (hexStr k, hexStr v)
    | _ => none)

def cloudOp (op : String) (t : List String) : Option String :=
  match op with
  | "cloud_sign" => some (cloudSign (hexStr ((kvGet t "path").getD "-")) (parseFields ((kvGet t "fields").getD "")))
  | "cloud_password" => some (encryptPassword (hexStr ((kvGet t "loginid").getD "-")) (hexStr ((kvGet t "password").getD "-")))
  | "spec_cloud_verify" =>
    some (b01 (Spec.Cloud.verifySign (hexStr ((kvGet t "path").getD "-")) (parseFields ((kvGet t "fields").getD ""))))
  | "spec_cloud_password" =>
    some (Spec.Cloud.expectedPassword (hexStr ((kvGet t "loginid").getD "-")) (hexStr ((kvGet t "password").getD "-")))
  | "cloud_get_token" =>
    -- list=udpid:token:key,...
    let tl := (((kvGet t "list").getD "").splitOn ",").filterMap (fun e => match e.splitOn ":" with
      | [a, b, c] => some (a, b, c) | _ => none)
    some (rStr (fun p => p.1 ++ ":" ++ p.2) (getToken tl ((kvGet t "udpid").getD "")))
  | "cloud_post" =>
    -- answers=t,h,a,o (timeout, http error, api error, ok) ; retries=N
    let ans := ((kvGet t "answers").getD "").splitOn ","
    let f : Nat → Attempt Unit := fun i => match ans.getD i "t" with
      | "o" => .ok () | "h" => .httpError | "a" => .apiError 1 | _ => .timeout
    let r := postRequest f (kvNat t "retries") 0
    some ((match r.1 with | .ok (some _) => "ok" | .ok none => "none" | .error e => "err:" ++ toString e) ++ s!" attempts={r.2}")
  | _ => none

end Msmart.Driver
