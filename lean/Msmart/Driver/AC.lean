/-
  Driver operations for the AC application layer (frame, commands, responses).
-/
import Msmart.Driver.Util
import Msmart.Model.Response
import Msmart.Spec.FrameSpec
import Msmart.Spec.DeviceSpec

namespace Msmart.Driver
open Msmart Msmart.Model

def showState (s : StateResp) : String :=
  s!"state power={b01 s.power} temp={s.tempCenti} mode={s.mode} fan={s.fan} swing={s.swing} turbo={b01 s.turbo} eco={b01 s.eco} sleep={b01 s.sleep} f={b01 s.fahrenheit} indoor={optStr toString s.indoor} outdoor={optStr toString s.outdoor} filter={b01 s.filterAlert} display={b01 s.displayOn} freeze={optStr b01 s.freeze} follow={b01 s.followMe} pur={b01 s.purifier} hum={optStr toString s.humidity} aux={b01 s.auxHeat} iaux={b01 s.indepAuxHeat}"

def showCapVal : CapVal → String
  | .b v => "b" ++ b01 v
  | .half n => "h" ++ toString n

def showCapDict (d : CapDict) : String :=
  let items := (d.map (fun kv => kv.1 ++ "=" ++ showCapVal kv.2)).mergeSort (fun a b => a ≤ b)
  "{" ++ ",".intercalate items ++ "}"

def showPropVal : PropDecoded → String
  | .b v => "b" ++ b01 v
  | .n v => "n" ++ toString v

def showPropDict (d : PropDict) : String :=
  let items := (d.mergeSort (fun a b => a.1 ≤ b.1)).map (fun kv => toString kv.1 ++ "=" ++ showPropVal kv.2)
  "{" ++ ",".intercalate items ++ "}"

def showResp : Resp → String
  | .base i p => s!"base id={i.toNat} payload={toHex p}"
  | .state s => showState s
  | .caps c => s!"caps add={b01 c.additional} {showCapDict c.caps}"
  | .props i d => s!"props id={i.toNat} {showPropDict d}"
  | .energy e => s!"energy valid={b01 e.valid} tb={e.totalBcd} cb={e.currentBcd} pb={e.powerBcd} tn={e.totalBin} cn={e.currentBin} pn={e.powerBin}"
  | .humidity h => s!"humidity h={optStr toString h}"

def parseSetState (t : List String) : SetState :=
  { beep := kvBool t "beep", power := kvBool t "power", tempCenti := kvInt t "temp",
    mode := kvNat t "mode", fan := kvInt t "fan", eco := kvBool t "eco", swing := kvNat t "swing",
    turbo := kvBool t "turbo", fahrenheit := kvBool t "fahr", sleep := kvBool t "sleep",
    freeze := kvBool t "freeze", followMe := kvBool t "follow", purifier := kvBool t "pur",
    humidity := kvNat t "hum", auxHeat := kvBool t "aux", forceAuxHeat := kvBool t "faux",
    indepAuxHeat := kvBool t "iaux" }

/-- `props=9:50,24:1` -/
def parsePropPairs (s : String) : List (Nat × Nat) :=
  if s = "-" ∨ s = "" then [] else
  (s.splitOn ",").filterMap (fun p =>
    match p.splitOn ":" with
    | [a, b] => do let x ← a.toNat?; let y ← b.toNat?; pure (x, y)
    | _ => none)

def parseCmd (kind : String) (t : List String) : Option Cmd :=
  match kind with
  | "getcaps" => some (.getCapabilities (kvBool t "additional"))
  | "getstate" => some .getState
  | "getenergy" => some .getEnergy
  | "gethumidity" => some .getHumidity
  | "setstate" => some (.setState (parseSetState t))
  | "toggledisplay" => some (.toggleDisplay (kvBool t "beep"))
  | "getprops" => some (.getProperties (natList ((kvGet t "ids").getD "-")))
  | "setprops" => some (.setProperties (parsePropPairs ((kvGet t "props").getD "-")))
  | _ => none

def acOp (op : String) (t : List String) : Option String :=
  match op with
  | "crc8" => some (toString (crc8 (kvHex t "data")).toNat)
  | "checksum" => some (toString (checksum (kvHex t "data")).toNat)
  | "frame_validate" => some (rStr (fun _ => "ok") (frameValidate (kvHex t "frame")))
  | "construct" => some (rStr showResp (construct (kvHex t "frame")))
  | "cmd" =>
    match parseCmd ((kvGet t "kind").getD "") t with
    | none => some "bad-op"
    | some c =>
      let r := c.toBytes (kvNat t "counter")
      some (rStr toHex r.1 ++ " counter=" ++ toString r.2)
  | "spec_parse_frame" =>
    match Spec.parseFrame (kvHex t "frame") with
    | none => some "none"
    | some p => some s!"ok dev={p.deviceType.toNat} ft={p.frameType.toNat} body={toHex p.body} id={p.msgId.toNat}"
  | "spec_decode_setstate" =>
    match Spec.decodeSetState (kvHex t "body") with
    | none => some "none"
    | some s => some s!"ok power={b01 s.power} beep={b01 s.beep} mode={s.mode} temp={s.tempHalf} fan={s.fan} swing={s.swing} eco={b01 s.eco} turbo={b01 s.turbo} sleep={b01 s.sleep} f={b01 s.fahrenheit} freeze={b01 s.freeze} follow={b01 s.followMe} pur={b01 s.purifier} hum={s.humidity} aux={s.aux}"
  | "spec_reported" =>
    let r := Spec.reportedOf (kvHex t "payload")
    some s!"power={b01 r.power} mode={r.mode} temp={r.tempHalf} fan={r.fan} swing={r.swing} turbo={b01 r.turbo} eco={b01 r.eco} sleep={b01 r.sleep} f={b01 r.fahrenheit} filter={b01 r.filterAlert} display={b01 r.displayOn} follow={b01 r.followMe} pur={b01 r.purifier} aux={r.aux} hum={optStr toString r.humidity} freeze={optStr b01 r.freeze}"
  | "spec_resp_frame" =>
    some (toHex (Spec.respFrame (kvNat t "ft").toUInt8 (kvNat t "proto").toUInt8
      (if kvGet t "style" = some "sum" then .sum else .crc) (kvHex t "payload")))
  | "spec_status_payload" =>
    let st : Spec.DevState := ⟨kvBool t "power", false, kvNat t "mode", kvNat t "temp", kvNat t "fan", kvNat t "swing",
      kvBool t "eco", kvBool t "turbo", kvBool t "sleep", kvBool t "f", kvBool t "freeze", kvBool t "follow",
      kvBool t "pur", kvNat t "hum", kvNat t "aux"⟩
    some (toHex (Spec.statusPayload st (kvBool t "display") (kvBool t "filter") (kvNat t "indoor").toUInt8
      (kvNat t "outdoor").toUInt8 (kvNat t "digits").toUInt8 (kvNat t "msgid").toUInt8))
  | "parse_temp" => some (optStr toString (parseTemp (kvNat t "data") (kvNat t "d") (kvBool t "f")))
  | _ => none

end Msmart.Driver
