/-
  Python-semantics library used by every model: byte strings, Python slicing with
  clamping/negative indices, indexing that raises IndexError, int.from_bytes / to_bytes,
  and the error type of all models (errors are values; `py cls` = any other Python exception
  class escaping).  Import-free on purpose (the driver is linked as an executable).
-/
namespace Msmart

abbrev Bytes := List UInt8

/-- Outcome classes of the real code.  `py cls` is "some other Python exception escaped". -/
inductive Err where
  | protocol | auth | timeout | invalidFrame | invalidResponse
  | cloud | discover | cancelled
  | py (cls : String)
  deriving DecidableEq, Repr, Inhabited

abbrev R := Except Err

def Err.toString : Err → String
  | .protocol => "protocol" | .auth => "auth" | .timeout => "timeout"
  | .invalidFrame => "invalid_frame" | .invalidResponse => "invalid_response"
  | .cloud => "cloud" | .discover => "discover" | .cancelled => "cancelled"
  | .py c => "py:" ++ c

instance : ToString Err := ⟨Err.toString⟩

def indexError : Err := .py "IndexError"

namespace Py

/-- Python's normalisation of a slice bound against a length: negative bounds count from the
    end, everything is clamped into `0..len`. -/
def clampIdx (len : Nat) (i : Int) : Nat :=
  if i < 0 then (if i + len < 0 then 0 else (i + len).toNat) else min i.toNat len

/-- `l[start:stop]` with optional bounds (None = omitted). -/
def slice {α} (l : List α) (start stop : Option Int) : List α :=
  ((l.take (match stop with | none => l.length | some j => clampIdx l.length j)).drop
     (match start with | none => 0 | some i => clampIdx l.length i))

/-- `l[i]` with Python's negative indexing; `IndexError` outside. -/
def index {α} (l : List α) (i : Int) : R α :=
  if i < 0 then
    (if i + l.length < 0 then .error indexError
     else match l[(i + l.length).toNat]? with | some x => .ok x | none => .error indexError)
  else match l[i.toNat]? with | some x => .ok x | none => .error indexError

/-- `l[i]` for a natural index. -/
def idx {α} (l : List α) (i : Nat) : R α :=
  match l[i]? with | some x => .ok x | none => .error indexError

/-- `int.from_bytes(b, "little")` -/
def fromLE : Bytes → Nat
  | [] => 0
  | b :: t => b.toNat + 256 * fromLE t

/-- `int.from_bytes(b, "big")` -/
def fromBE (b : Bytes) : Nat := b.foldl (fun acc x => acc * 256 + x.toNat) 0

/-- `n.to_bytes(k, "little")` without the overflow check (callers check). -/
def toLE : Nat → Nat → Bytes
  | 0, _ => []
  | k+1, n => (n % 256).toUInt8 :: toLE k (n / 256)

def toBE (k n : Nat) : Bytes := (toLE k n).reverse

/-- `n.to_bytes(k, order)` raising OverflowError when it does not fit. -/
def toBytesLE (k n : Nat) : R Bytes :=
  if n < 256 ^ k then .ok (toLE k n) else .error (.py "OverflowError")
def toBytesBE (k n : Nat) : R Bytes :=
  if n < 256 ^ k then .ok (toBE k n) else .error (.py "OverflowError")

/-- `bytes.find(needle2)` for a two-byte needle: index of the first occurrence. -/
def find2 (a b : UInt8) : Bytes → Option Nat
  | [] => none
  | [_] => none
  | x :: y :: t => if x = a ∧ y = b then some 0 else (find2 a b (y :: t)).map (· + 1)

def zeros (n : Nat) : Bytes := List.replicate n 0

def xorBytes : Bytes → Bytes → Bytes
  | a :: as, b :: bs => (a ^^^ b) :: xorBytes as bs
  | _, _ => []

end Py

/-! hex helpers for the driver -/
def hexDigit (n : Nat) : Char :=
  if n < 10 then Char.ofNat (48 + n) else Char.ofNat (87 + n)

def toHex (b : Bytes) : String :=
  if b.isEmpty then "-" else
  String.ofList (b.foldr (fun x acc => hexDigit (x.toNat / 16) :: hexDigit (x.toNat % 16) :: acc) [])

def hexVal (c : Char) : Option Nat :=
  if '0' ≤ c ∧ c ≤ '9' then some (c.toNat - 48)
  else if 'a' ≤ c ∧ c ≤ 'f' then some (c.toNat - 87)
  else if 'A' ≤ c ∧ c ≤ 'F' then some (c.toNat - 55)
  else none

def ofHexChars : List Char → Option Bytes
  | [] => some []
  | [_] => none
  | a :: b :: t => do
    let x ← hexVal a
    let y ← hexVal b
    let r ← ofHexChars t
    pure ((x * 16 + y).toUInt8 :: r)

def ofHex (s : String) : Option Bytes :=
  if s = "-" then some [] else ofHexChars s.toList

end Msmart
