/-
  Python integer / bytes operators used by the TRANSLATED code (`Generated/Codec.lean`, written by
  harness/pytrans.py from the source text of /repo).  Python ints are `Int`; `&`, `|`, `^` follow
  Python's infinite two's-complement semantics.  Import-free.
-/
import Msmart.Py.Basic

namespace Msmart.Py

/-- number of bits of a natural number (`int.bit_length`) -/
def bitLenAux : Nat → Nat → Nat
  | 0, _ => 0
  | fuel + 1, m => if m = 0 then 0 else 1 + bitLenAux fuel (m / 2)
def bitLen (m : Nat) : Nat := bitLenAux m m

/-- `x & m` for a NON-NEGATIVE literal `m`: only the low `bitLen m` bits of `x` matter, and in two's
    complement those are the bits of `x mod 2^(bitLen m)` — for negative `x` too. -/
def band (x : Int) (m : Nat) : Int := (((x % ((2 ^ bitLen m : Nat) : Int)).toNat &&& m : Nat) : Int)

/-- bits set in `a` and clear in `b` -/
def ldiff (a b : Nat) : Nat := Nat.bitwise (fun x y => x && !y) a b

/-- `a & b` on arbitrary ints -/
def land : Int → Int → Int
  | .ofNat m, .ofNat n => ((m &&& n : Nat) : Int)
  | .ofNat m, .negSucc n => ((ldiff m n : Nat) : Int)
  | .negSucc m, .ofNat n => ((ldiff n m : Nat) : Int)
  | .negSucc m, .negSucc n => .negSucc (m ||| n)

/-- `a | b` -/
def bor : Int → Int → Int
  | .ofNat m, .ofNat n => ((m ||| n : Nat) : Int)
  | .ofNat m, .negSucc n => .negSucc (ldiff n m)
  | .negSucc m, .ofNat n => .negSucc (ldiff m n)
  | .negSucc m, .negSucc n => .negSucc (m &&& n)

/-- `a ^ b` -/
def bxor : Int → Int → Int
  | .ofNat m, .ofNat n => ((m ^^^ n : Nat) : Int)
  | .ofNat m, .negSucc n => .negSucc (m ^^^ n)
  | .negSucc m, .ofNat n => .negSucc (m ^^^ n)
  | .negSucc m, .negSucc n => ((m ^^^ n : Nat) : Int)

/-- `bytes([...])` / `bytearray([...])`: every element must be in `range(256)`, else ValueError -/
def bytesOf (l : List Int) : R Bytes :=
  if l.all (fun x => decide (0 ≤ x) && decide (x < 256)) then .ok (l.map (fun x => x.toNat.toUInt8))
  else .error (.py "ValueError")

/-- `payload[i]` (a Python int 0..255) for a natural index -/
def idxI (l : Bytes) (i : Nat) : R Int :=
  match l[i]? with | some x => .ok (x.toNat : Int) | none => .error indexError

/-- a bytes object as the list of its Python ints -/
def ints (b : Bytes) : List Int := b.map (fun x => (x.toNat : Int))

/-- `sum(seq)` -/
def sumI (l : List Int) : Int := l.foldl (· + ·) 0

/-- `TABLE[i]` for an index the translator has shown to be in range (`expr & mask`, mask < len) -/
def tableGet (t : List Int) (i : Int) : Int := t.getD i.toNat 0

/-- values Python range-checks on the way (bytearray item assignment, `append`): ValueError when one is outside
    `range(256)`, otherwise the rest of the computation -/
def guardRange {α} (vals : List Int) (k : R α) : R α :=
  if vals.all (fun x => decide (0 ≤ x) && decide (x < 256)) then k else .error (.py "ValueError")

/-- `b[i]` as a Python int, constant (possibly negative) index -/
def indexI (l : Bytes) (i : Int) : R Int :=
  match Py.index l i with | .ok b => .ok (b.toNat : Int) | .error e => .error e

/-- `n.to_bytes(k, "little" | "big")` on a Python int: OverflowError when negative or too large -/
def toBytesLEI (k : Nat) (n : Int) : R Bytes :=
  if n < 0 then .error (.py "OverflowError") else toBytesLE k n.toNat
def toBytesBEI (k : Nat) (n : Int) : R Bytes :=
  if n < 0 then .error (.py "OverflowError") else toBytesBE k n.toNat

/-- `try: … except <cls>: raise <e>` around one operation -/
def mapErr {α} (cls : String) (e : Err) (r : R α) : R α :=
  match r with
  | .error (.py c) => if c = cls then .error e else .error (.py c)
  | r => r

/-- `Crypto.Util.strxor.strxor`: ValueError unless both have the same length -/
def strxor (a b : Bytes) : R Bytes :=
  if a.length ≠ b.length then .error (.py "ValueError") else .ok (xorBytes a b)

/-- `b.find(pat)` from offset `i` on: index of the first occurrence of `pat`, −1 when there is none -/
def findFrom (pat : Bytes) : Bytes → Nat → Int
  | [], i => if pat.isEmpty then (i : Int) else -1
  | x :: xs, i => if pat.isPrefixOf (x :: xs) then (i : Int) else findFrom pat xs (i + 1)

/-- `b.find(pat)` -/
def findI (b pat : Bytes) : Int := findFrom pat b 0

/-- `SomeIntEnum.get_from_value(x)`: x when it is the value of a member, else the enum's DEFAULT (both as ints) -/
def enumGetI (e : List (String × Nat)) (dflt : Nat) (x : Int) : Int :=
  if decide (0 ≤ x) && (e.map Prod.snd).contains x.toNat then x else (dflt : Int)

theorem findFrom_ge (pat : Bytes) (b : Bytes) (i : Nat) : -1 ≤ findFrom pat b i := by
  induction b generalizing i with
  | nil => unfold findFrom; split <;> omega
  | cons x xs ih => unfold findFrom; split
                    · omega
                    · exact ih (i + 1)

/-- `bytes.find` returns -1 or an index: the translator writes `find(...) < 0`, `<= -1`, `== -1` as one test -/
theorem findI_ge (b pat : Bytes) : -1 ≤ findI b pat := findFrom_ge pat b 0

theorem band_ofNat (n m : Nat) : band (n : Int) m = ((n % 2 ^ bitLen m &&& m : Nat) : Int) := by
  unfold band
  have : ((n : Int) % ((2 ^ bitLen m : Nat) : Int)) = ((n % 2 ^ bitLen m : Nat) : Int) := by
    omega
  rw [this, Int.toNat_natCast]

theorem bor_ofNat (m n : Nat) : bor (m : Int) (n : Int) = ((m ||| n : Nat) : Int) := rfl

theorem idxI_eq (l : Bytes) (i : Nat) : idxI l i = (idx l i).map (fun b => (b.toNat : Int)) := by
  unfold idxI idx; cases l[i]? <;> rfl

end Msmart.Py
