/-
  Spec: the *device* side of the AC application protocol, written from the vendor reference
  (reference/T_0000_AC_00000Q14_2024013001.lua: control body 0x40 lines 3286-3445, status body 0xC0
  lines 1664-1836) with the choices recorded in DESIGN.md §6 C10/C11.  Independent of Model.
-/
import Msmart.Py.Basic
import Msmart.Spec.FrameSpec

namespace Msmart.Spec

/-- the state a user can set / a device holds, as far as the properties list it -/
structure DevState where
  power : Bool
  beep : Bool
  mode : Nat          -- 0..7 (documented 1..6)
  tempHalf : Nat      -- setpoint in half degrees Celsius: 13.0 ↦ 26 … 43.5 ↦ 87
  fan : Nat           -- 0..255
  swing : Nat         -- low four bits of the swing byte
  eco : Bool
  turbo : Bool
  sleep : Bool
  fahrenheit : Bool
  freeze : Bool
  followMe : Bool
  purifier : Bool
  humidity : Nat      -- 0..127
  aux : Nat           -- 0 off, 1 aux heat, 2 aux only (independent)
  deriving DecidableEq, Repr

def tb (b m : UInt8) : Bool := b &&& m ≠ 0

/-- whole degrees from the primary code (b2 low nibble, +16) or the alternate code (b18 low five
    bits, +12) when the latter is non-zero; linear reading (DESIGN §6 C10) -/
def setpointHalf (b2 b18 : UInt8) : Nat :=
  (if b18 &&& 0x1F ≠ 0 then (b18 &&& 0x1F).toNat + 12 else (b2 &&& 0x0F).toNat + 16) * 2
    + (if tb b2 0x10 then 1 else 0)

/-- the device's reading of a 0x40 control body (24 bytes before message id and CRC) -/
def decodeSetState (body : Bytes) : Option DevState :=
  match body with
  | [b0, b1, b2, b3, _, _, _, b7, b8, b9, b10, _, _, _, _, _, _, _, b18, b19, _, b21, b22, _] =>
    if b0 ≠ 0x40 then none else
    some {
      power := tb b1 0x01
      beep := tb b1 0x40
      mode := (b2 >>> 5).toNat
      tempHalf := setpointHalf b2 b18
      fan := b3.toNat
      swing := (b7 &&& 0x0F).toNat
      turbo := tb b8 0x20 || tb b10 0x02
      followMe := tb b8 0x80
      eco := tb b9 0x80
      purifier := tb b9 0x20
      sleep := tb b10 0x01
      fahrenheit := tb b10 0x04
      humidity := (b19 &&& 0x7F).toNat
      freeze := tb b21 0x80
      aux := if tb b22 0x08 then 2 else if tb b9 0x08 then 1 else 0 }
  | _ => none

/-- the domain the property quantifies over -/
def DevState.Valid (s : DevState) : Prop :=
  s.mode < 8 ∧ 26 ≤ s.tempHalf ∧ s.tempHalf ≤ 87 ∧ s.fan < 256 ∧ s.swing < 16 ∧
  s.humidity < 128 ∧ s.aux < 3

instance (s : DevState) : Decidable s.Valid := by unfold DevState.Valid; infer_instance

end Msmart.Spec

namespace Msmart.Spec

/-! ### device-side framing of a response -/

def byteSum' (l : Bytes) : Nat := (l.map UInt8.toNat).sum
/-- two's-complement checksum: all bytes after the start byte, including it, sum to 0 mod 256 -/
def frameChecksum (l : Bytes) : UInt8 := ((256 - byteSum' l % 256) % 256).toUInt8

inductive CheckStyle where | crc | sum
  deriving DecidableEq, Repr

end Msmart.Spec

namespace Msmart.Spec

/-- trailing body check byte in either style real devices use -/
def bodyCheck (style : CheckStyle) (p : Bytes) : UInt8 :=
  match style with
  | .crc => crc8 p
  | .sum => frameChecksum p

/-- a device's response frame around payload `p` (response id … message id) -/
def respFrame (frameType proto : UInt8) (style : CheckStyle) (p : Bytes) : Bytes :=
  [0xAA, (p.length + 11).toUInt8, 0xAC, 0, 0, 0, 0, 0, proto, frameType] ++ p ++ [bodyCheck style p] ++
    [frameChecksum ([(p.length + 11).toUInt8, 0xAC, 0, 0, 0, 0, 0, proto, frameType] ++ p ++ [bodyCheck style p])]

/-! ### the device's status body 0xC0 (vendor Lua 1664-1836), fields the properties list -/

structure Reported where
  power : Bool
  mode : Nat
  tempHalf : Nat              -- setpoint in half degrees
  fan : Nat
  swing : Nat
  turbo : Bool
  eco : Bool
  sleep : Bool
  fahrenheit : Bool
  filterAlert : Bool
  displayOn : Bool
  followMe : Bool
  purifier : Bool
  aux : Nat                   -- 0 off, 1 aux heat (PTC), 2 independent
  humidity : Option Nat       -- present from 20 payload bytes on
  freeze : Option Bool        -- present from 22 payload bytes on
  indoorRaw : Nat
  outdoorRaw : Nat
  indoorDigit : Nat
  outdoorDigit : Nat
  deriving DecidableEq, Repr

def byteAt (p : Bytes) (i : Nat) : UInt8 := p.getD i 0

/-- meaning of a status payload of at least 16 bytes -/
def reportedOf (p : Bytes) : Reported :=
  { power := tb (byteAt p 1) 0x01
    mode := (byteAt p 2 >>> 5).toNat
    tempHalf := setpointHalf (byteAt p 2) (byteAt p 13)
    fan := (byteAt p 3).toNat
    swing := (byteAt p 7 &&& 0x0F).toNat
    turbo := tb (byteAt p 8) 0x20 || tb (byteAt p 10) 0x02
    eco := tb (byteAt p 9) 0x10
    sleep := tb (byteAt p 10) 0x01
    fahrenheit := tb (byteAt p 10) 0x04
    filterAlert := tb (byteAt p 13) 0x20
    displayOn := byteAt p 14 ≠ 0x70
    followMe := tb (byteAt p 8) 0x80
    purifier := tb (byteAt p 9) 0x20
    aux := if tb (byteAt p 8) 0x40 then 2 else if tb (byteAt p 9) 0x08 then 1 else 0
    humidity := if p.length < 20 then none else some (byteAt p 19 &&& 0x7F).toNat
    freeze := if p.length < 22 then none else some (tb (byteAt p 21) 0x80)
    indoorRaw := (byteAt p 11).toNat
    outdoorRaw := (byteAt p 12).toNat
    indoorDigit := (byteAt p 15 &&& 0x0F).toNat
    outdoorDigit := (byteAt p 15 >>> 4).toNat }

end Msmart.Spec

namespace Msmart.Spec

def fl (b : Bool) (v : UInt8) : UInt8 := if b then v else 0

/-- the status payload (0xC0, 24 bytes incl. the trailing message id) a device in state `s`
    reports; `display` on/off, raw sensor bytes and tenths digits, filter flag and message id are
    the remaining reportable items.  Setpoints 17..30 °C use the primary code, others the alternate. -/
def statusPayload (s : DevState) (displayOn filterAlert : Bool) (indoorRaw outdoorRaw digits msgId : UInt8) : Bytes :=
  [0xC0,
   fl s.power 0x01,
   ((s.mode % 8) * 32).toUInt8 ||| (if 34 ≤ s.tempHalf ∧ s.tempHalf ≤ 61 then (s.tempHalf / 2 - 16).toUInt8 else 0)
     ||| fl (s.tempHalf % 2 = 1) 0x10,
   s.fan.toUInt8,
   0x7F, 0x7F, 0x00,
   0x30 ||| (s.swing % 16).toUInt8,
   fl s.followMe 0x80 ||| fl (s.aux = 2) 0x40,
   fl s.eco 0x10 ||| fl s.purifier 0x20 ||| fl (s.aux = 1) 0x08,
   fl s.sleep 0x01 ||| fl s.turbo 0x02 ||| fl s.fahrenheit 0x04,
   indoorRaw, outdoorRaw,
   (if 34 ≤ s.tempHalf ∧ s.tempHalf ≤ 61 then 0 else (s.tempHalf / 2 - 12).toUInt8) ||| fl filterAlert 0x20,
   (if displayOn then 0x00 else 0x70),
   digits,
   0, 0, 0,
   (s.humidity % 128).toUInt8,
   0,
   fl s.freeze 0x80,
   0,
   msgId]

end Msmart.Spec
