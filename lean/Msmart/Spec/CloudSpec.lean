/-
  Spec: a conforming NetHome Plus cloud server, as far as the contract of cloud.py goes:
  sign = sha256(path ++ canonical(sorted fields) ++ APP_KEY); password = sha256(loginId ++
  sha256(password).hex ++ APP_KEY).hex; the session id issued at login must be echoed.
  Canonicalisation is done with its own (insertion) sort.  Independent of Model.
-/
import Msmart.Py.Basic
import Msmart.Crypto.SHA256

namespace Msmart.Spec.Cloud
open Msmart Msmart.Crypto

def appKey : String := "3742e9e5842d4ad59c2db887e12449f9"

def insertKV (kv : String × String) : List (String × String) → List (String × String)
  | [] => [kv]
  | h :: t => if kv.1 ≤ h.1 then kv :: h :: t else h :: insertKV kv t

def sortKV : List (String × String) → List (String × String)
  | [] => []
  | h :: t => insertKV h (sortKV t)

def hexNibble (n : Nat) : Char := if n < 10 then Char.ofNat (48 + n) else Char.ofNat (87 + n)
def hex (b : Bytes) : String :=
  String.ofList (b.foldr (fun x acc => hexNibble (x.toNat / 16) :: hexNibble (x.toNat % 16) :: acc) [])

def expectedSign (path : String) (fieldsWithoutSign : List (String × String)) : String :=
  hex (SHA256.sha256 (path ++ "&".intercalate ((sortKV fieldsWithoutSign).map (fun kv => kv.1 ++ "=" ++ kv.2))
    ++ appKey).toUTF8.toList)

/-- the server's check of a posted form -/
def verifySign (path : String) (form : List (String × String)) : Bool :=
  match form.find? (fun kv => kv.1 = "sign") with
  | none => false
  | some s => s.2 = expectedSign path (form.filter (fun kv => kv.1 ≠ "sign"))

def expectedPassword (loginId password : String) : String :=
  hex (SHA256.sha256 (loginId ++ hex (SHA256.sha256 password.toUTF8.toList) ++ appKey).toUTF8.toList)

end Msmart.Spec.Cloud
