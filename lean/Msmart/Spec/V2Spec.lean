/-
  Spec: an independent implementation of the V2 LAN packet format, field by field:
  start marker 5A5A, message type 0111, little-endian TOTAL length at 4..6, device id (LE) at
  20..28, payload = AES-128-ECB/PKCS7 under the fixed key at 40..len-16, keyed MD5 over everything
  before the last 16 bytes.  Does not import Model.
-/
import Msmart.Py.Basic
import Msmart.Crypto.AES
import Msmart.Crypto.MD5

namespace Msmart.Spec.V2
open Msmart Msmart.Crypto

/-- ASCII of "xhdiwjnchekd4d512chdjx5d8e4c394D2D7S" -/
def signKey : Bytes := [120, 104, 100, 105, 119, 106, 110, 99, 104, 101, 107, 100, 52, 100, 53, 49, 50, 99, 104, 100, 106, 120, 53, 100, 56, 101, 52, 99, 51, 57, 52, 68, 50, 68, 55, 83]
def encKey : Bytes := MD5.md5 signKey

/-- little-endian serialisation of `n` in `k` bytes -/
def le : Nat → Nat → Bytes
  | 0, _ => []
  | k+1, n => (n % 256).toUInt8 :: le k (n / 256)
/-- little-endian value -/
def unle : Bytes → Nat
  | [] => 0
  | b :: t => b.toNat + 256 * unle t

def body (frame : Bytes) : Bytes := AES.ecbEncrypt encKey (AES.pkcs7Pad frame)

def header (deviceId : Nat) (ts filler : Bytes) (frame : Bytes) : Bytes :=
  [0x5A, 0x5A, 0x01, 0x11] ++ le 2 (56 + (body frame).length) ++ [0x20, 0x00] ++ [0, 0, 0, 0] ++
    ts ++ le 8 deviceId ++ filler

/-- what a device / second implementation emits for a frame (`ts` 8 bytes, `filler` 12 bytes) -/
def encode (deviceId : Nat) (ts filler : Bytes) (frame : Bytes) : Bytes :=
  header deviceId ts filler frame ++ body frame ++
    MD5.md5 (header deviceId ts filler frame ++ body frame ++ signKey)

/-- strict parse: every field checked -/
def decode (p : Bytes) : Option (Nat × Bytes) :=
  if p.length < 56 then none else
  if p.take 2 ≠ [0x5A, 0x5A] then none else
  if unle ((p.drop 4).take 2) ≠ p.length then none else
  if MD5.md5 (p.take (p.length - 16) ++ signKey) ≠ p.drop (p.length - 16) then none else
  if ((p.take (p.length - 16)).drop 40).length % 16 ≠ 0 then none else
  match AES.pkcs7Unpad (AES.ecbDecrypt encKey ((p.take (p.length - 16)).drop 40)) with
  | none => none
  | some frame => some (unle ((p.drop 20).take 8), frame)

end Msmart.Spec.V2
