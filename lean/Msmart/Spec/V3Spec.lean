/-
  Spec: an independent implementation of the V3 packet format (the device side):
  header 83 70 | size (BE16) | 20 | pad<<4 | type ; encrypted packets carry
  AES-256-CBC(zero IV)(counter(BE16) ++ data ++ pad bytes) ++ SHA-256(header ++ plaintext),
  size = |data| + pad + 32, pad = (16 − (|data|+2) mod 16) mod 16.  Does not import Model.
-/
import Msmart.Py.Basic
import Msmart.Crypto.AES
import Msmart.Crypto.SHA256

namespace Msmart.Spec.V3
open Msmart Msmart.Crypto

def be16 (n : Nat) : Bytes := [(n / 256 % 256).toUInt8, (n % 256).toUInt8]
def unbe16 (b : Bytes) : Nat := (b.getD 0 0).toNat * 256 + (b.getD 1 0).toNat

def iv : Bytes := List.replicate 16 0

def padOf (n : Nat) : Nat := (16 - (n + 2) % 16) % 16

def header (size pad ptype : Nat) : Bytes := [0x83, 0x70] ++ be16 size ++ [0x20, (pad * 16 + ptype).toUInt8]

/-- encode an encrypted packet of the given type (3 = response, 6 = request) -/
def encodeEncrypted (key : Bytes) (ptype counter : Nat) (data padBytes : Bytes) : Bytes :=
  header (data.length + padOf data.length + 32) (padOf data.length) ptype ++
    AES.cbcEncrypt key iv (be16 counter ++ data ++ padBytes) ++
    SHA256.sha256 (header (data.length + padOf data.length + 32) (padOf data.length) ptype ++
                   (be16 counter ++ data ++ padBytes))

structure Decoded where
  ptype : Nat
  counter : Nat
  data : Bytes
  deriving DecidableEq, Repr

/-- strict decode of an encrypted packet: every header field checked for consistency -/
def decodeEncrypted (key : Bytes) (p : Bytes) : Option Decoded :=
  if p.length < 6 + 16 + 32 then none else
  if p.take 2 ≠ [0x83, 0x70] then none else
  if p.getD 4 0 ≠ 0x20 then none else
  if unbe16 ((p.drop 2).take 2) + 8 ≠ p.length then none else
  if ((p.take (p.length - 32)).drop 6).length % 16 ≠ 0 then none else
  if SHA256.sha256 (p.take 6 ++ AES.cbcDecrypt key iv ((p.take (p.length - 32)).drop 6)) ≠ p.drop (p.length - 32) then none else
  -- size = |data| + pad + 32  with  |plaintext| = 2 + |data| + pad
  if (p.getD 5 0).toNat / 16 + 2 > (AES.cbcDecrypt key iv ((p.take (p.length - 32)).drop 6)).length then none else
  if padOf ((AES.cbcDecrypt key iv ((p.take (p.length - 32)).drop 6)).length - 2 - (p.getD 5 0).toNat / 16)
      ≠ (p.getD 5 0).toNat / 16 then none else
  some { ptype := (p.getD 5 0).toNat % 16
         counter := unbe16 ((AES.cbcDecrypt key iv ((p.take (p.length - 32)).drop 6)).take 2)
         data := ((AES.cbcDecrypt key iv ((p.take (p.length - 32)).drop 6)).drop 2).take
                   ((AES.cbcDecrypt key iv ((p.take (p.length - 32)).drop 6)).length - 2 - (p.getD 5 0).toNat / 16) }

/-- the device's handshake reply for a nonce: type 1, payload = CBC(key, nonce) ++ SHA-256(nonce) -/
def handshakeReply (key nonce : Bytes) (counter : Nat) : Bytes :=
  header 64 0 1 ++ be16 counter ++ AES.cbcEncrypt key iv nonce ++ SHA256.sha256 nonce

/-- the device's session key -/
def sessionKey (key nonce : Bytes) : Bytes := AES.xorBytes nonce key

/-- parse a handshake request: (counter, token) -/
def parseHandshakeRequest (p : Bytes) : Option (Nat × Bytes) :=
  if p.length < 8 then none else
  if p.take 2 ≠ [0x83, 0x70] then none else
  if p.getD 4 0 ≠ 0x20 ∨ p.getD 5 0 ≠ 0x00 then none else
  if unbe16 ((p.drop 2).take 2) + 8 ≠ p.length then none else
  some (unbe16 ((p.drop 6).take 2), p.drop 8)

def errorPacket : Bytes := [0x83, 0x70, 0x00, 0x00, 0x20, 0x0F, 0x00, 0x00]

end Msmart.Spec.V3
