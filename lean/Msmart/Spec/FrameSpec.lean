/-
  Spec: what a spec-conforming *device* does with an AC frame.  Independent of Model:
  the CRC is the bitwise CRC-8/MAXIM (x^8+x^5+x^4+1, reflected 0x8C — the algorithm the vendor Lua
  calls crc8_854), the checksum is "all bytes after the start byte sum to zero mod 256".
-/
import Msmart.Py.Basic

namespace Msmart.Spec

def crcBit (c : UInt8) : UInt8 := if c &&& 1 = 1 then (c >>> 1) ^^^ 0x8C else c >>> 1
def crcByte (b : UInt8) : UInt8 :=
  crcBit (crcBit (crcBit (crcBit (crcBit (crcBit (crcBit (crcBit b)))))))
def crc8 (data : Bytes) : UInt8 := data.foldl (fun c m => crcByte (c ^^^ m)) 0

def byteSum (l : Bytes) : Nat := (l.map UInt8.toNat).sum

structure ParsedFrame where
  deviceType : UInt8
  frameType : UInt8
  body : Bytes          -- command body without message id and CRC
  msgId : UInt8
  deriving DecidableEq, Repr

/-- device-side acceptance of a frame: start byte, length byte = |frame| − 1, header of ten
    bytes, body ++ [message id] ++ [CRC-8 over body ++ id], two's-complement checksum. -/
def parseFrame (f : Bytes) : Option ParsedFrame :=
  if f.length < 13 then none else
  if f[0]? ≠ some 0xAA then none else
  if (f[1]?).map UInt8.toNat ≠ some (f.length - 1) then none else
  if byteSum (f.drop 1) % 256 ≠ 0 then none else
  -- payload = everything between the 10-byte header and the checksum
  if crc8 (((f.drop 10).dropLast).dropLast) ≠ ((f.drop 10).dropLast).getLastD 0 then none else
  some { deviceType := f.getD 2 0, frameType := f.getD 9 0,
         body := (((f.drop 10).dropLast).dropLast).dropLast,
         msgId := (((f.drop 10).dropLast).dropLast).getLastD 0 }

/-- documented frame type of each command kind: control (0x02) for writes, query (0x03) otherwise -/
def ftControl : UInt8 := 0x02
def ftQuery : UInt8 := 0x03

end Msmart.Spec
