/-
  Spec: the device side of discovery — the UDP reply a V2 / V3 device sends.
  body = ip (4 bytes, reversed) ++ port (LE, 4 bytes) ++ serial (32 ASCII bytes) ++ [len name] ++
  name ++ extra; V2 reply = 20 header bytes ++ device id (6 bytes LE) ++ 14 header bytes ++
  AES-128-ECB/PKCS7(body) ++ 16 trailing bytes; V3 reply = 8 bytes ++ V2 reply ++ 16 bytes.
  The port real V2/V3 devices listen on for the probe is 6445 (20086 for V1).  Independent of Model.
-/
import Msmart.Spec.V2Spec

namespace Msmart.Spec.Discover
open Msmart Msmart.Crypto

def probePort : Nat := 6445
def probePortV1 : Nat := 20086

def body (ipRev : Bytes) (port : Nat) (sn name extra : Bytes) : Bytes :=
  ipRev ++ Spec.V2.le 4 port ++ sn ++ [name.length.toUInt8] ++ name ++ extra

def replyV2 (pre : Bytes) (id : Nat) (mid : Bytes) (bodyBytes tail : Bytes) : Bytes :=
  pre ++ Spec.V2.le 6 id ++ mid ++ AES.ecbEncrypt Spec.V2.encKey (AES.pkcs7Pad bodyBytes) ++ tail

def replyV3 (prefix8 : Bytes) (v2 : Bytes) (suffix16 : Bytes) : Bytes := prefix8 ++ v2 ++ suffix16

/-- two hex digits of a byte, lower or upper case -/
def hexDigit (upper : Bool) (n : Nat) : UInt8 :=
  if n < 10 then (0x30 + n).toUInt8 else if upper then (0x41 + n - 10).toUInt8 else (0x61 + n - 10).toUInt8
def hex2 (upper : Bool) (b : Nat) : Bytes := [hexDigit upper (b / 16), hexDigit upper (b % 16)]

/-- `net_<hh>_<suffix>` -/
def nameOf (upper : Bool) (dtype : Nat) (suffix : Bytes) : Bytes :=
  [0x6E, 0x65, 0x74, 0x5F] ++ hex2 upper dtype ++ [0x5F] ++ suffix

end Msmart.Spec.Discover
