/-
  Spec: the device side of the property protocol (0xB0 write / 0xB1 read), vendor value
  encodings: breeze-away 1 (off) / 2 (on); breeze-control 1..4; breezeless / self-clean 0/1; swing
  angles and rate select by value; iECO written as [frame, number, switch, …] and read back as
  [number, switch].  Properties the profile lacks are answered with size-0 records (as the
  captured frames in the repo's tests show real units do).  The three breeze settings are
  mutually exclusive in the store.  Independent of Model.
-/
import Msmart.Spec.DeviceSpec

namespace Msmart.Spec

def pSwingUD : Nat := 0x0009
def pSwingLR : Nat := 0x000A
def pBreezeless : Nat := 0x0018
def pBuzzer : Nat := 0x001A
def pSelfClean : Nat := 0x0039
def pBreezeAway : Nat := 0x0042
def pBreezeControl : Nat := 0x0043
def pRateSelect : Nat := 0x0048
def pIeco : Nat := 0x00E3

structure Store where
  profile : List Nat                 -- ids the device implements
  vals : List (Nat × Bytes)          -- stored values in READ encoding
  deriving DecidableEq, Repr

def sGet (s : Store) (pid : Nat) : Option Bytes := (s.vals.find? (fun kv => kv.1 = pid)).map Prod.snd
def sSet (s : Store) (pid : Nat) (v : Bytes) : Store :=
  { s with vals := (s.vals.filter (fun kv => kv.1 ≠ pid)) ++ [(pid, v)] }

def defaultValue (pid : Nat) : Bytes :=
  if pid = pBreezeAway then [1] else if pid = pBreezeControl then [1]
  else if pid = pRateSelect then [100] else if pid = pIeco then [1, 0] else [0]

def newStore (profile : List Nat) : Store :=
  profile.foldl (fun s p => sSet s p (defaultValue p)) ⟨profile, []⟩

/-- read encoding of a written value -/
def readForm (pid : Nat) (written : Bytes) : Bytes :=
  if pid = pIeco then [written.getD 1 0, written.getD 2 0] else written

/-- store one written property, keeping the breeze settings mutually exclusive -/
def writeOne (s : Store) (pid : Nat) (written : Bytes) : Store :=
  if ¬ s.profile.contains pid then s else
  let s1 := sSet s pid (readForm pid written)
  if pid = pBreezeAway ∧ written = [2] ∧ s.profile.contains pBreezeless then sSet s1 pBreezeless [0]
  else if pid = pBreezeless ∧ written.getD 0 0 ≠ 0 ∧ s.profile.contains pBreezeAway then sSet s1 pBreezeAway [1]
  else s1

def idBytes (pid : Nat) : Bytes := [(pid % 256).toUInt8, (pid / 256 % 256).toUInt8]

/-- one record of a 0xB0 / 0xB1 response: id, result byte, size, data -/
def respRecord (s : Store) (pid : Nat) : Bytes :=
  match (if s.profile.contains pid then sGet s pid else none) with
  | some v => idBytes pid ++ [0x00, v.length.toUInt8] ++ v
  | none => idBytes pid ++ [0x00, 0x00]

/-- parse the records of a 0xB0 write body (after the two header bytes): (id, value) list -/
def parseWrites : Nat → Bytes → List (Nat × Bytes)
  | 0, _ => []
  | n+1, lo :: hi :: len :: rest =>
      (lo.toNat + 256 * hi.toNat, rest.take len.toNat) :: parseWrites n (rest.drop len.toNat)
  | _, _ => []

def parseReads : Nat → Bytes → List Nat
  | 0, _ => []
  | n+1, lo :: hi :: rest => (lo.toNat + 256 * hi.toNat) :: parseReads n rest
  | _, _ => []

/-- the device's reaction to a command body (without message id / CRC): new store and the
    response payload (without the trailing message id), or none for other commands -/
def storeStep (s : Store) (body : Bytes) : Store × Option Bytes :=
  match body with
  | 0xB0 :: n :: rest =>
    let ws := parseWrites n.toNat rest
    let s' := ws.foldl (fun st w => writeOne st w.1 w.2) s
    (s', some ([0xB0, ws.length.toUInt8] ++ (ws.map (fun w => respRecord s' w.1)).flatten))
  | 0xB1 :: n :: rest =>
    let ids := parseReads n.toNat rest
    (s, some ([0xB1, ids.length.toUInt8] ++ (ids.map (respRecord s)).flatten))
  | _ => (s, none)

end Msmart.Spec
