/-
  C13 — corrupted responses are rejected and never change state.
-/
import Msmart.Lemmas.CodecEqLan
import Msmart.Lemmas.Crc
import Msmart.Lemmas.Contained
import Msmart.Props.C14
import Msmart.Lemmas.CodecEq

namespace Msmart.Props.C13
open Msmart Msmart.Model Msmart.Lemmas

theorem frameValidate_snoc (s cs : UInt8) (rest : Bytes) :
    frameValidate (s :: (rest ++ [cs])) =
      if checksum rest = cs then .ok () else .error .invalidFrame := by
  unfold frameValidate
  have h1 : (s :: (rest ++ [cs])).getLast? = some cs := by
    rw [← List.cons_append, List.getLast?_concat]
  rw [h1]
  simp only [List.drop_succ_cons, List.drop_zero, List.dropLast_concat]

/-- **C13 (outer checksum).** Substituting any single byte after the start byte — header, body,
    or the check byte — of a frame whose checksum is valid gives a frame `Frame.validate` rejects.
    `s` is the start byte, `pre ++ [x] ++ post` the rest before the checksum `cs`. -/
theorem outer_checksum_detects (s x y cs : UInt8) (pre post : Bytes) (hxy : x ≠ y)
    (hvalid : frameValidate (s :: ((pre ++ [x] ++ post) ++ [cs])) = .ok ()) :
    frameValidate (s :: ((pre ++ [y] ++ post) ++ [cs])) = .error .invalidFrame := by
  rw [frameValidate_snoc] at hvalid ⊢
  split at hvalid
  · rename_i hcs
    rw [if_neg]
    intro hcs'
    exact hxy (checksum_single_byte pre post x y (hcs.trans hcs'.symm))
  · cases hvalid

/-- … and substituting the checksum byte itself is rejected too -/
theorem outer_checksum_byte_detects (s cs cs' : UInt8) (rest : Bytes) (hne : cs ≠ cs')
    (hvalid : frameValidate (s :: (rest ++ [cs])) = .ok ()) :
    frameValidate (s :: (rest ++ [cs'])) = .error .invalidFrame := by
  rw [frameValidate_snoc] at hvalid ⊢
  split at hvalid
  · rename_i hcs
    rw [if_neg]
    intro h; exact hne (hcs.symm.trans h)
  · cases hvalid

/-- **C13 about the translated `Frame.validate`** (`Generated/Codec.lean`, regenerated from the source on every run): a
    valid frame with any single byte after the start byte substituted is rejected as an invalid frame. -/
theorem outer_checksum_detects_code (s x y cs : UInt8) (pre post : Bytes) (hxy : x ≠ y)
    (hvalid : Generated.Codec.frameValidate (s :: ((pre ++ [x] ++ post) ++ [cs])) = .ok ()) :
    Generated.Codec.frameValidate (s :: ((pre ++ [y] ++ post) ++ [cs])) = .error .invalidFrame := by
  rw [CodecEq.frameValidate_eq] at hvalid ⊢; exact outer_checksum_detects s x y cs pre post hxy hvalid

theorem outer_checksum_byte_detects_code (s cs cs' : UInt8) (rest : Bytes) (hne : cs ≠ cs')
    (hvalid : Generated.Codec.frameValidate (s :: (rest ++ [cs])) = .ok ()) :
    Generated.Codec.frameValidate (s :: (rest ++ [cs'])) = .error .invalidFrame := by
  rw [CodecEq.frameValidate_eq] at hvalid ⊢; exact outer_checksum_byte_detects s cs cs' rest hne hvalid

/-- … and the translated `crc8.calculate` is sensitive to every single byte -/
theorem crc_single_byte_sensitive_code (a b : Bytes) (x y : UInt8)
    (h : Generated.Codec.crc8Calculate (Py.ints (a ++ [x] ++ b)) = Generated.Codec.crc8Calculate (Py.ints (a ++ [y] ++ b))) : x = y := by
  rw [CodecEq.crc8Calculate_eq, CodecEq.crc8Calculate_eq] at h
  exact crc_single_byte a b x y (UInt8.toNat_inj.mp (by exact_mod_cast h))

/-- single-byte sensitivity of the CRC-8 (from the generated table being a permutation) -/
theorem crc_single_byte_sensitive (a b : Bytes) (x y : UInt8)
    (h : crc8 (a ++ [x] ++ b) = crc8 (a ++ [y] ++ b)) : x = y := crc_single_byte a b x y h

/-- acceptance of the body check: the last byte equals CRC-8 or the additive checksum of the rest -/
theorem respValidate_ok_iff (body : Bytes) (c : UInt8) :
    respValidate (body ++ [c]) = .ok () ↔ (crc8 body = c ∨ checksum body = c) := by
  unfold respValidate
  rw [List.getLast?_concat]
  simp only [List.dropLast_concat]
  constructor
  · intro h
    split at h
    · cases h
    · rename_i hn
      by_cases h1 : crc8 body = c
      · exact .inl h1
      · by_cases h2 : checksum body = c
        · exact .inr h2
        · exact absurd ⟨h1, h2⟩ hn
  · intro h
    rw [if_neg]
    rintro ⟨h1, h2⟩
    rcases h with h | h
    · exact h1 h
    · exact h2 h

/-- **C13 (inner check, exact acceptance set).** Take a body `a ++ [x] ++ b` with check byte `c`
    that the inner check accepts, and substitute one byte (`y ≠ x`).  The substituted body is
    accepted **only** through the *other* of the two accepted algorithms: if the original matched
    CRC-8 the substitute must match the additive checksum, and vice versa. -/
theorem inner_check_only_other_algorithm (a b : Bytes) (x y c : UInt8) (hxy : x ≠ y)
    (_horig : respValidate (a ++ [x] ++ b ++ [c]) = .ok ())
    (hsub : respValidate (a ++ [y] ++ b ++ [c]) = .ok ()) :
    (crc8 (a ++ [x] ++ b) = c → checksum (a ++ [y] ++ b) = c ∧ crc8 (a ++ [y] ++ b) ≠ c) ∧
    (checksum (a ++ [x] ++ b) = c → crc8 (a ++ [y] ++ b) = c ∧ checksum (a ++ [y] ++ b) ≠ c) := by
  rw [respValidate_ok_iff] at hsub
  constructor
  · intro hc
    have hne : crc8 (a ++ [y] ++ b) ≠ c := fun h => hxy (crc_single_byte a b x y (hc.trans h.symm))
    rcases hsub with h | h
    · exact absurd h hne
    · exact ⟨h, hne⟩
  · intro hs
    have hne : checksum (a ++ [y] ++ b) ≠ c :=
      fun h => hxy (checksum_single_byte a b x y (hs.trans h.symm))
    rcases hsub with h | h
    · exact ⟨h, hne⟩
    · exact absurd h hne

/-- … and for each position at most ONE substitute value is accepted. -/
theorem inner_check_at_most_one (a b : Bytes) (x y₁ y₂ c : UInt8) (h1 : x ≠ y₁) (h2 : x ≠ y₂)
    (horig : respValidate (a ++ [x] ++ b ++ [c]) = .ok ())
    (hs1 : respValidate (a ++ [y₁] ++ b ++ [c]) = .ok ())
    (hs2 : respValidate (a ++ [y₂] ++ b ++ [c]) = .ok ()) : y₁ = y₂ := by
  have o1 := inner_check_only_other_algorithm a b x y₁ c h1 horig hs1
  have o2 := inner_check_only_other_algorithm a b x y₂ c h2 horig hs2
  rcases (respValidate_ok_iff _ _).mp horig with hc | hs
  · exact checksum_single_byte a b y₁ y₂ ((o1.1 hc).1.trans (o2.1 hc).1.symm)
  · exact crc_single_byte a b y₁ y₂ ((o1.2 hs).1.trans (o2.2 hs).1.symm)

/-- a body that matches BOTH algorithms admits no accepted substitute at all -/
theorem inner_check_both_none (a b : Bytes) (x y c : UInt8) (hxy : x ≠ y)
    (hc : crc8 (a ++ [x] ++ b) = c) (hs : checksum (a ++ [x] ++ b) = c) :
    respValidate (a ++ [y] ++ b ++ [c]) = .error .invalidResponse := by
  unfold respValidate
  rw [List.getLast?_concat]
  simp only [List.dropLast_concat]
  rw [if_pos]
  exact ⟨fun h => hxy (crc_single_byte a b x y (hc.trans h.symm)),
         fun h => hxy (checksum_single_byte a b x y (hs.trans h.symm))⟩

/-! ### the body check as translated from the source text -/

/-- **C13 about the translated `Response.validate`**: a payload is accepted exactly when its last byte is the CRC-8 or the
    additive checksum of the rest. -/
theorem body_check_code (body : Bytes) (c : UInt8) :
    Generated.Codec.responseValidate (body ++ [c]) = .ok () ↔ (crc8 body = c ∨ checksum body = c) := by
  rw [CodecEq.responseValidate_eq]; exact respValidate_ok_iff body c

/-- **C13 about the translated `Response.validate`**: of all the single-byte substitutions at one position of a payload
    that passed, at most one passes again (and only through the other algorithm). -/
theorem inner_check_at_most_one_code (a b : Bytes) (x y₁ y₂ c : UInt8) (h1 : x ≠ y₁) (h2 : x ≠ y₂)
    (horig : Generated.Codec.responseValidate (a ++ [x] ++ b ++ [c]) = .ok ())
    (hs1 : Generated.Codec.responseValidate (a ++ [y₁] ++ b ++ [c]) = .ok ())
    (hs2 : Generated.Codec.responseValidate (a ++ [y₂] ++ b ++ [c]) = .ok ()) : y₁ = y₂ := by
  rw [CodecEq.responseValidate_eq] at horig hs1 hs2
  exact inner_check_at_most_one a b x y₁ y₂ c h1 h2 horig hs1 hs2

/-- every reply frame of the script is rejected -/
def AllRejected (replies : Replies) : Prop :=
  ∀ reply ∈ replies, ∀ f ∈ reply, ∃ e, construct f = .error e

theorem constructAll_rejected (fs : List Bytes) (h : ∀ f ∈ fs, ∃ e, construct f = .error e) :
    constructAll fs = .ok [] := by
  rw [C14.constructAll_decodable]
  congr 1
  rw [List.filterMap_eq_nil_iff]
  intro f hf
  obtain ⟨e, he⟩ := h f hf
  simp [he, Except.toOption]

theorem sendGet_rejected (r : Run) (c : Cmd) (h : AllRejected r.replies) (out : Run × List Resp)
    (ho : sendGet r c = .ok out) :
    out.2 = [] ∧ out.1.dev = { r.dev with supported := false } ∧ AllRejected out.1.replies := by
  unfold sendGet at ho
  split at ho
  · cases ho
  · have hfs : ∀ f ∈ r.replies.headD [], ∃ e, construct f = .error e := by
      cases hr : r.replies with
      | nil => simp
      | cons a t => simp only [List.headD_cons]; exact h a (by simp [hr])
    rw [constructAll_rejected _ hfs] at ho
    cases ho
    refine ⟨rfl, rfl, ?_⟩
    intro reply hmem
    exact h reply (List.mem_of_mem_drop hmem)

theorem sendAll_rejected (cs : List Cmd) (r : Run) (h : AllRejected r.replies) (out : Run × List Resp)
    (ho : sendAll r cs = .ok out) :
    out.2 = [] ∧ (cs ≠ [] → out.1.dev = { r.dev with supported := false }) ∧ (cs = [] → out.1.dev = r.dev) := by
  induction cs generalizing r out with
  | nil => simp [sendAll] at ho; cases ho; simp
  | cons c t ih =>
    unfold sendAll at ho
    cases h1 : sendGet r c with
    | error e => simp [h1, bind, Except.bind] at ho
    | ok o1 =>
      obtain ⟨e1, d1, a1⟩ := sendGet_rejected r c h o1 h1
      simp only [h1, bind, Except.bind] at ho
      cases h2 : sendAll o1.1 t with
      | error e => simp [h2] at ho
      | ok o2 =>
        obtain ⟨e2, d2, d2'⟩ := ih o1.1 a1 o2 h2
        simp only [h2, pure, Except.pure] at ho
        cases ho
        refine ⟨by simp [e1, e2], fun _ => ?_, fun hc => absurd hc (by simp)⟩
        by_cases ht : t = []
        · rw [d2' ht, d1]
        · rw [d2 ht, d1]

/-- **C13 (state).** If every frame of every reply of a refresh is rejected, the device object is
    exactly as before except that it is reported offline and unsupported. -/
theorem rejected_frames_leave_state (r r' : Run) (h : AllRejected r.replies)
    (hr : refresh r = .ok r') :
    r'.dev = { r.dev with online := false, supported := false } := by
  unfold refresh at hr
  cases hs : sendAll r (refreshCommands r.dev) with
  | error e => simp [hs, bind, Except.bind] at hr
  | ok o =>
    obtain ⟨he, hd, _⟩ := sendAll_rejected _ r h o hs
    simp only [hs, bind, Except.bind, pure, Except.pure] at hr
    cases hr
    have hne : refreshCommands r.dev ≠ [] := by simp [refreshCommands]
    obtain ⟨o1, o2⟩ := o
    simp only at he hd
    subst he
    simp [applyResponses, hd hne]

/-! non-vacuity: a real captured state frame is accepted, and one substituted byte is rejected -/
example : (frameValidate [0xaa,0x22,0xac,0,0,0,0,0,3,3,0xc0,1,0x45,0x66,0,0,0,0x30,0,0x10,4,0x5c,0xff,0x20,0x70,0,0,0,0,0,0,0,0x8b,0xed,0x19]).toBool = true := by decide +kernel
example : AllRejected [[[0xaa, 0x00]]] := by
  intro reply hr f hf
  simp at hr; subst hr; simp at hf; subst hf
  exact ⟨_, rfl⟩

/-! ### `Response._construct` as translated: frame check, dispatch, body check -/

/-- **C13 about the translated `Response._construct`**: a frame whose outer checksum does not match is rejected before
    anything else is looked at, with the frame-level error. -/
theorem dispatch_rejects_bad_frame_code (frame : Bytes) (e : Err) (h : frameValidate frame = .error e) :
    Generated.Codec.constructDispatch frame = .error e := by
  rw [CodecEq.constructDispatch_eq]; unfold constructDispatch; rw [h]; rfl

/-- **C13 about the translated `Response._construct`**: whatever it hands to a response class other than the properties
    class has passed the frame check AND the body check, and is the payload `frame[10:-2]`. -/
theorem dispatch_accepts_only_checked_code (frame p : Bytes) (t : Int)
    (h : Generated.Codec.constructDispatch frame = .ok (t, p)) :
    frameValidate frame = .ok () ∧ p = ((frame.drop 10).dropLast).dropLast ∧
      (t = 3 ∨ respValidate ((frame.drop 10).dropLast) = .ok ()) := by
  rw [CodecEq.constructDispatch_eq] at h
  unfold constructDispatch at h
  cases hv : frameValidate frame with
  | error e => rw [hv] at h; cases h
  | ok u =>
    rw [hv] at h
    cases hc : respClass frame with
    | error e => simp [hc, bind, Except.bind] at h
    | ok cls =>
      simp only [hc, bind, Except.bind] at h
      cases hb : validateUnlessProps cls frame with
      | error e => simp [hb] at h
      | ok u2 =>
        simp only [hb, pure, Except.pure, Except.ok.injEq, Prod.mk.injEq] at h
        refine ⟨rfl, h.2.symm, ?_⟩
        unfold validateUnlessProps at hb
        by_cases hp : cls = .props
        · left; rw [← h.1, hp]; rfl
        · right; rw [if_pos hp] at hb; rw [hb]

end Msmart.Props.C13
