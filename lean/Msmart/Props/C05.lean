/-
  C05 — the V3 encrypted packet codec interoperates for every length and is tamper-evident.
  (About the tree repaired by `fix:` 1b0cf51; before it a response needing no padding decoded to
  the empty payload — `pad0_history` below.)
-/
import Msmart.Lemmas.CodecEqLan
import Msmart.Model.PacketV3
import Msmart.Spec.V3Spec
import Msmart.Lemmas.V2

set_option linter.unusedSimpArgs false

namespace Msmart.Props.C05
open Msmart Msmart.Model Msmart.Lemmas Msmart.Crypto

theorem pad_eq (n : Nat) : v3Pad n = Spec.V3.padOf n := by
  unfold v3Pad Spec.V3.padOf; split <;> omega

theorem pad_lt (n : Nat) : v3Pad n < 16 := by unfold v3Pad; split <;> omega

theorem pad_aligned (n : Nat) : (2 + n + v3Pad n) % 16 = 0 := by unfold v3Pad; split <;> omega

theorem toBE2 (n : Nat) : Py.toBE 2 n = Spec.V3.be16 n := by
  simp [Py.toBE, Py.toLE, Spec.V3.be16]

theorem u8nat (n : Nat) (h : n < 256) : (n.toUInt8).toNat = n := by
  simp [Nat.toUInt8, UInt8.toNat, UInt8.ofNat, BitVec.toNat_ofNat]; omega

theorem unbe16_be16 (n : Nat) (h : n < 65536) : Spec.V3.unbe16 (Spec.V3.be16 n) = n := by
  simp only [Spec.V3.unbe16, Spec.V3.be16, List.getD_cons_zero, List.getD_cons_succ]
  rw [u8nat _ (by omega), u8nat _ (by omega)]; omega

theorem sha_len (m : Bytes) : (SHA256.sha256 m).length = 32 := SHA256.sha256_length m

theorem iv_eq : zeroIv = Spec.V3.iv := rfl

/-- slicing `H(6) ++ CT ++ T(32)` -/
theorem take_sub32 (hc t : Bytes) (ht : t.length = 32) : (hc ++ t).take ((hc ++ t).length - 32) = hc := by
  rw [List.length_append, ht, Nat.add_sub_cancel, List.take_append_of_le_length (Nat.le_refl _), List.take_length]

theorem drop_sub32 (hc t : Bytes) (ht : t.length = 32) : (hc ++ t).drop ((hc ++ t).length - 32) = t := by
  rw [List.length_append, ht, Nat.add_sub_cancel, List.drop_append_of_le_length (Nat.le_refl _), List.drop_length,
    List.nil_append]

theorem drop6 (h c : Bytes) (hh : h.length = 6) : (h ++ c).drop 6 = c := by
  rw [← hh, List.drop_append_of_le_length (Nat.le_refl _), List.drop_length, List.nil_append]

theorem take6 (h r : Bytes) (hh : h.length = 6) : (h ++ r).take 6 = h := by
  rw [← hh, List.take_append_of_le_length (Nat.le_refl _), List.take_length]

theorem take6' (h c t : Bytes) (hh : h.length = 6) : ((h ++ c) ++ t).take 6 = h := by
  rw [List.append_assoc]; exact take6 _ _ hh

theorem header_len (s p t : Nat) : (Spec.V3.header s p t).length = 6 := by simp [Spec.V3.header, Spec.V3.be16]

theorem plain_len (ctr : Nat) (data padBytes : Bytes) :
    (Spec.V3.be16 ctr ++ data ++ padBytes).length = 2 + data.length + padBytes.length := by
  simp [Spec.V3.be16]; omega

/-- the request the library emits is byte for byte what the independent encoder emits (type 6) -/
theorem request_eq_spec (key data padBytes : Bytes) (ctr : Nat)
    (hsz : data.length + v3Pad data.length + 32 < 65536) :
    encodeEncryptedRequest (some key) ctr data padBytes =
      .ok (Spec.V3.encodeEncrypted key 6 ctr data padBytes) := by
  unfold encodeEncryptedRequest buildHeader
  simp only []
  rw [if_neg (by omega)]
  simp only [Spec.V3.encodeEncrypted, Spec.V3.header, toBE2, pad_eq, encryptCbc, iv_eq, ptEncryptedRequest,
    List.append_assoc, List.cons_append, List.nil_append]

/-- the strict independent decoder on a spec-encoded packet -/
theorem spec_decode_encode (key data padBytes : Bytes) (ptype ctr : Nat) (hp : ptype < 16) (hc : ctr < 65536)
    (hpl : padBytes.length = Spec.V3.padOf data.length)
    (hsz : data.length + Spec.V3.padOf data.length + 32 < 65536) :
    Spec.V3.decodeEncrypted key (Spec.V3.encodeEncrypted key ptype ctr data padBytes) =
      some ⟨ptype, ctr, data⟩ := by
  have hpad : Spec.V3.padOf data.length < 16 := by rw [← pad_eq]; exact pad_lt _
  have hal : (2 + data.length + Spec.V3.padOf data.length) % 16 = 0 := by rw [← pad_eq]; exact pad_aligned _
  -- name the pieces
  generalize hH : Spec.V3.header (data.length + Spec.V3.padOf data.length + 32) (Spec.V3.padOf data.length) ptype = H
  generalize hP : Spec.V3.be16 ctr ++ data ++ padBytes = P
  have hHl : H.length = 6 := by rw [← hH]; exact header_len _ _ _
  have hPl : P.length = 2 + data.length + Spec.V3.padOf data.length := by rw [← hP, plain_len, hpl]
  have hCl : (AES.cbcEncrypt key Spec.V3.iv P).length = P.length := AES.cbcEncrypt_length _ _ _
  have henc : Spec.V3.encodeEncrypted key ptype ctr data padBytes =
      (H ++ AES.cbcEncrypt key Spec.V3.iv P) ++ SHA256.sha256 (H ++ P) := by
    simp only [Spec.V3.encodeEncrypted, hH, hP]
  have hlen : ((H ++ AES.cbcEncrypt key Spec.V3.iv P) ++ SHA256.sha256 (H ++ P)).length =
      8 + (data.length + Spec.V3.padOf data.length + 32) := by
    simp only [List.length_append, hHl, hCl, hPl, sha_len]; omega
  rw [henc]
  unfold Spec.V3.decodeEncrypted
  rw [if_neg (by rw [hlen]; omega)]
  have h2 : ((H ++ AES.cbcEncrypt key Spec.V3.iv P) ++ SHA256.sha256 (H ++ P)).take 2 = [0x83, 0x70] := by
    rw [← hH]; simp [Spec.V3.header]
  rw [if_neg (by rw [h2]; simp)]
  have h4 : ((H ++ AES.cbcEncrypt key Spec.V3.iv P) ++ SHA256.sha256 (H ++ P)).getD 4 0 = 0x20 := by
    rw [← hH]; simp [Spec.V3.header, Spec.V3.be16]
  rw [if_neg (by rw [h4]; simp)]
  have hsf : ((((H ++ AES.cbcEncrypt key Spec.V3.iv P) ++ SHA256.sha256 (H ++ P)).drop 2).take 2) =
      Spec.V3.be16 (data.length + Spec.V3.padOf data.length + 32) := by
    rw [← hH]; simp [Spec.V3.header, Spec.V3.be16]
  rw [hsf, unbe16_be16 _ hsz, if_neg (by rw [hlen]; omega)]
  rw [take_sub32 _ _ (sha_len _), drop_sub32 _ _ (sha_len _), drop6 _ _ hHl, take6' _ _ _ hHl,
    AES.cbcDecrypt_cbcEncrypt, if_neg (by rw [hCl, hPl, hal]; simp), if_neg (by simp)]
  have h5 : ((H ++ AES.cbcEncrypt key Spec.V3.iv P) ++ SHA256.sha256 (H ++ P)).getD 5 0 =
      (Spec.V3.padOf data.length * 16 + ptype).toUInt8 := by
    rw [← hH]; simp [Spec.V3.header, Spec.V3.be16]
  have h5n : ((Spec.V3.padOf data.length * 16 + ptype).toUInt8).toNat = Spec.V3.padOf data.length * 16 + ptype :=
    u8nat _ (by omega)
  rw [h5, h5n]
  have hd : (Spec.V3.padOf data.length * 16 + ptype) / 16 = Spec.V3.padOf data.length := by omega
  have hm : (Spec.V3.padOf data.length * 16 + ptype) % 16 = ptype := by omega
  rw [hd, hm, hPl, if_neg (by omega)]
  have : 2 + data.length + Spec.V3.padOf data.length - 2 - Spec.V3.padOf data.length = data.length := by omega
  rw [this, if_neg (by simp)]
  congr 1
  have hPc : P = Spec.V3.be16 ctr ++ (data ++ padBytes) := by rw [← hP, List.append_assoc]
  congr 1
  · rw [hPc]
    have : (Spec.V3.be16 ctr ++ (data ++ padBytes)).take 2 = Spec.V3.be16 ctr := by simp [Spec.V3.be16]
    rw [this, unbe16_be16 _ hc]
  · rw [hPc]
    have : (Spec.V3.be16 ctr ++ (data ++ padBytes)).drop 2 = data ++ padBytes := by simp [Spec.V3.be16]
    rw [this, List.take_append_of_le_length (Nat.le_refl _), List.take_length]

/-- **C05 (→).** Every payload (every padding amount 0..15), every 32-byte-or-other session key,
    every counter that fits two bytes, any random pad bytes: the request the library emits is
    decoded by the independent implementation to the same payload and counter, with consistent
    size / padding / type header fields and a valid SHA-256 tag. -/
theorem v3_spec_decodes_request (key data padBytes : Bytes) (ctr : Nat) (hc : ctr < 65536)
    (hpl : padBytes.length = v3Pad data.length) (hsz : data.length + v3Pad data.length + 32 < 65536) :
    ∃ p, encodeEncryptedRequest (some key) ctr data padBytes = .ok p ∧
      Spec.V3.decodeEncrypted key p = some ⟨6, ctr, data⟩ :=
  ⟨_, request_eq_spec key data padBytes ctr hsz,
    spec_decode_encode key data padBytes 6 ctr (by decide) hc (by rw [← pad_eq]; exact hpl)
      (by rw [← pad_eq]; exact hsz)⟩

/-- what `_process_packet` does with any packet of the shape `H(6) ++ CT ++ T(32)` -/
theorem process_shape (key H CT T : Bytes) (hH : H.length = 6) (hT : T.length = 32)
    (h2 : H.take 2 = [0x83, 0x70]) (h4 : H[4]? = some 0x20) (b5 : UInt8) (h5 : H[5]? = some b5)
    (ht : b5.toNat % 16 = ptEncryptedResponse) (hal : CT.length % 16 = 0) :
    processPacket (some key) ((H ++ CT) ++ T) =
      if SHA256.sha256 (H ++ AES.cbcDecrypt key zeroIv CT) ≠ T then .error .protocol
      else .ok (stripCounterPad (AES.cbcDecrypt key zeroIv CT) (b5.toNat / 16)) := by
  unfold processPacket
  have ht2 : ((H ++ CT) ++ T).take 2 = [0x83, 0x70] := by
    rw [List.append_assoc, List.take_append_of_le_length (by omega), h2]
  have hg4 : ((H ++ CT) ++ T)[4]? = some 0x20 := by
    rw [List.append_assoc, List.getElem?_append_left (by omega), h4]
  have hg5 : ((H ++ CT) ++ T)[5]? = some b5 := by
    rw [List.append_assoc, List.getElem?_append_left (by omega), h5]
  rw [if_neg (by rw [ht2]; simp), hg4]
  simp only [ne_eq, not_true_eq_false, ↓reduceIte, hg5, ht]
  unfold decodeEncryptedResponse decryptCbc
  simp only [take_sub32 _ _ hT, drop_sub32 _ _ hT, drop6 _ _ hH]
  rw [if_neg (by rw [hal]; simp)]
  simp only [List.append_assoc, take6 _ _ hH, h5]

/-- **C05 (←).** Every encrypted response the independent implementation produces — every payload
    length, hence every padding amount including 0, every key and counter — is decoded to exactly
    the payload sent. -/
theorem v3_decode_spec_response (key data padBytes : Bytes) (ctr : Nat)
    (hpl : padBytes.length = Spec.V3.padOf data.length)
    (hsz : data.length + Spec.V3.padOf data.length + 32 < 65536) :
    processPacket (some key) (Spec.V3.encodeEncrypted key 3 ctr data padBytes) = .ok data := by
  have hpad : Spec.V3.padOf data.length < 16 := by rw [← pad_eq]; exact pad_lt _
  have hal : (2 + data.length + Spec.V3.padOf data.length) % 16 = 0 := by rw [← pad_eq]; exact pad_aligned _
  have hPl := plain_len ctr data padBytes
  have hHl := header_len (data.length + Spec.V3.padOf data.length + 32) (Spec.V3.padOf data.length) 3
  have hb5n : ((Spec.V3.padOf data.length * 16 + 3).toUInt8).toNat = Spec.V3.padOf data.length * 16 + 3 :=
    u8nat _ (by omega)
  unfold Spec.V3.encodeEncrypted
  rw [process_shape key _ _ _ hHl (sha_len _) (by simp [Spec.V3.header]) (by simp [Spec.V3.header, Spec.V3.be16])
    ((Spec.V3.padOf data.length * 16 + 3).toUInt8) (by simp [Spec.V3.header, Spec.V3.be16])
    (by rw [hb5n]; simp [ptEncryptedResponse])
    (by rw [AES.cbcEncrypt_length, hPl, hpl, hal])]
  rw [iv_eq, AES.cbcDecrypt_cbcEncrypt, if_neg (by simp), hb5n]
  have hd : (Spec.V3.padOf data.length * 16 + 3) / 16 = Spec.V3.padOf data.length := by omega
  rw [hd]
  unfold stripCounterPad
  rw [hPl, hpl]
  have : 2 + data.length + Spec.V3.padOf data.length - Spec.V3.padOf data.length = 2 + data.length := by omega
  rw [this]
  have h1 : (Spec.V3.be16 ctr ++ data ++ padBytes).take (2 + data.length) = Spec.V3.be16 ctr ++ data := by
    rw [List.take_append_of_le_length (by simp [Spec.V3.be16]; omega)]
    rw [List.take_of_length_le (by simp [Spec.V3.be16]; omega)]
  rw [h1]
  simp [Spec.V3.be16]

/-- history: with the old slice `payload[2:-pad]` a response with pad = 0 decoded to nothing -/
theorem pad0_history : ([1, 2, 3, 4] : Bytes).take 0 = [] := rfl

/-- **C05 (tag).** Any alteration confined to the 32-byte tag of an encrypted response is rejected
    with a protocol error. -/
theorem tag_alteration_rejected (key H CT T T' : Bytes) (hH : H.length = 6) (hT' : T'.length = 32)
    (h2 : H.take 2 = [0x83, 0x70]) (h4 : H[4]? = some 0x20) (b5 : UInt8) (h5 : H[5]? = some b5)
    (ht : b5.toNat % 16 = ptEncryptedResponse) (hal : CT.length % 16 = 0)
    (hauth : SHA256.sha256 (H ++ AES.cbcDecrypt key zeroIv CT) = T) (hne : T' ≠ T) :
    processPacket (some key) ((H ++ CT) ++ T') = .error .protocol := by
  rw [process_shape key H CT T' hH hT' h2 h4 b5 h5 ht hal, if_pos (by rw [hauth]; exact fun h => hne h.symm)]

/-- **C05 (marker / magic).** Altering the start marker or the magic byte is rejected outright. -/
theorem marker_alteration_rejected (key : Option Bytes) (p : Bytes) (h : p.take 2 ≠ [0x83, 0x70]) :
    processPacket key p = .error .protocol := by
  unfold processPacket; rw [if_pos h]

theorem magic_alteration_rejected (key : Option Bytes) (p : Bytes) (b4 : UInt8) (h4 : p[4]? = some b4)
    (hne : b4 ≠ 0x20) : processPacket key p = .error .protocol := by
  unfold processPacket
  by_cases h : p.take 2 ≠ [0x83, 0x70]
  · rw [if_pos h]
  · rw [if_neg h, h4]; simp only [hne, ne_eq, not_false_eq_true, ↓reduceIte]

/-- the named cryptographic event -/
def Sha256Collision (x y : Bytes) : Prop := x ≠ y ∧ SHA256.sha256 x = SHA256.sha256 y

/-- **C05 (reduction).** Altering the header (keeping it an encrypted response) and/or the
    ciphertext of an authentic encrypted response while keeping its tag can only be accepted if
    the original and the altered tagged texts are an explicit SHA-256 collision. -/
theorem alteration_collision (key H CT H' CT' T out : Bytes) (hH : H.length = 6) (hH' : H'.length = 6)
    (hT : T.length = 32) (h2 : H'.take 2 = [0x83, 0x70]) (h4 : H'[4]? = some 0x20) (b5 : UInt8)
    (h5 : H'[5]? = some b5) (ht : b5.toNat % 16 = ptEncryptedResponse) (hal : CT'.length % 16 = 0)
    (hauth : SHA256.sha256 (H ++ AES.cbcDecrypt key zeroIv CT) = T)
    (hne : H' ≠ H ∨ CT' ≠ CT)
    (hacc : processPacket (some key) ((H' ++ CT') ++ T) = .ok out) :
    Sha256Collision (H' ++ AES.cbcDecrypt key zeroIv CT') (H ++ AES.cbcDecrypt key zeroIv CT) := by
  rw [process_shape key H' CT' T hH' hT h2 h4 b5 h5 ht hal] at hacc
  split at hacc
  · cases hacc
  · rename_i hs
    have hs' : SHA256.sha256 (H' ++ AES.cbcDecrypt key zeroIv CT') = T := by simpa using hs
    refine ⟨?_, hs'.trans hauth.symm⟩
    intro heq
    have := List.append_inj heq (by rw [hH, hH'])
    rcases hne with h | h
    · exact h this.1
    · exact h (AES.cbcDecrypt_injective key zeroIv this.2)

/-! non-vacuity: a concrete response with pad 0 (payload of 14 bytes), evaluated through the theorem -/
example : processPacket (some (Py.zeros 32)) (Spec.V3.encodeEncrypted (Py.zeros 32) 3 7 (Py.zeros 14) []) =
    .ok (Py.zeros 14) := v3_decode_spec_response _ _ _ _ (by decide) (by decide)


/-! ### the same statements about the code as translated from the source text (tie by translation, §3.1b) -/

theorem encodeEncryptedRequestI_nat (key data padBytes : Bytes) (ctr : Nat) (hc : ctr < 65536)
    (hsz : data.length + v3Pad data.length + 32 < 65536) :
    encodeEncryptedRequestI (some key) (ctr : Int) data padBytes = encodeEncryptedRequest (some key) ctr data padBytes := by
  unfold encodeEncryptedRequestI
  simp only []
  rw [if_neg (by omega), if_neg (by omega), Int.toNat_natCast]

/-- **C05 (requests) about the translated `_encode_encrypted_request`.** -/
theorem v3_spec_decodes_request_code (key data padBytes : Bytes) (ctr : Nat) (hc : ctr < 65536)
    (hpl : padBytes.length = v3Pad data.length) (hsz : data.length + v3Pad data.length + 32 < 65536) :
    ∃ p, Generated.Codec.encodeEncryptedRequest (some key) (ctr : Int) data padBytes = .ok p ∧
      Spec.V3.decodeEncrypted key p = some ⟨6, ctr, data⟩ := by
  rw [CodecEq.encodeEncryptedRequest_eq, encodeEncryptedRequestI_nat key data padBytes ctr hc hsz]
  exact v3_spec_decodes_request key data padBytes ctr hc hpl hsz

/-- **C05 (responses) about the translated `_process_packet` / `_decode_encrypted_response`.** -/
theorem v3_decode_spec_response_code (key data padBytes : Bytes) (ctr : Nat)
    (hpl : padBytes.length = Spec.V3.padOf data.length)
    (hsz : data.length + Spec.V3.padOf data.length + 32 < 65536) :
    Generated.Codec.processPacket (some key) (Spec.V3.encodeEncrypted key 3 ctr data padBytes) = .ok data := by
  rw [CodecEq.processPacket_eq]; exact v3_decode_spec_response key data padBytes ctr hpl hsz

/-- every rejection theorem of this file transfers the same way -/
theorem marker_alteration_rejected_code (key : Option Bytes) (p : Bytes) (h : p.take 2 ≠ [0x83, 0x70]) :
    Generated.Codec.processPacket key p = .error .protocol := by
  rw [CodecEq.processPacket_eq]; exact marker_alteration_rejected key p h

end Msmart.Props.C05
