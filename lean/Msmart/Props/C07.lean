/-
  C07 — V3 session discipline: the theorems about the Session model (`Props/C07Session.lean`) and the counter discipline of
  `_LanProtocolV3.write` as translated from the current source text (`Props/C07Code.lean`).
-/
import Msmart.Props.C07Session
import Msmart.Props.C07Code
import Msmart.Props.C07Finding
