import Msmart.Model.Session
namespace Msmart.Props.C07
end Msmart.Props.C07
