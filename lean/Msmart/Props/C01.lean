/-
  C01 — end-to-end fidelity: the layer compositions (`Props/C01Layers.lean`: apply / refresh through
  command encoding, V2 framing, V3 encryption, any segmentation, reassembly, decoding; duplicates and
  unsolicited frames) and the whole-stack capstone over the Session model (`Props/C01Stack.lean`).
-/
import Msmart.Props.C01Layers
import Msmart.Props.C01Stack
import Msmart.Props.C01Code
