/-
  C10 — the control command encodes exactly the requested state (vendor bit layout); distinct
  requested states never produce the same body.
-/
import Msmart.Model.Device
import Msmart.Spec.DeviceSpec
import Msmart.Lemmas.CodecEq

set_option linter.unusedSimpArgs false

namespace Msmart.Props.C10
open Msmart Msmart.Model

/-- the attributes of an `AirConditioner` object after the user has assigned the state `s`
    through the public setters -/
def devOf (s : Spec.DevState) : Dev :=
  { ({} : Dev) with
    power := s.power, beep := s.beep, mode := s.mode, tempCenti := (s.tempHalf : Int) * 50,
    fan := (s.fan : Int), swing := s.swing, eco := s.eco, turbo := s.turbo, sleep := s.sleep,
    fahrenheit := s.fahrenheit, freeze := some s.freeze, followMe := s.followMe,
    purifier := s.purifier, humidity := some s.humidity, auxMode := s.aux }

/-! per-byte lemmas over the (small) domains each byte depends on -/

theorem b1_rt : ∀ p b : Bool,
    Spec.tb ((2 : UInt8) ||| flag b 0x40 ||| flag p 0x01) 0x01 = p ∧
    Spec.tb ((2 : UInt8) ||| flag b 0x40 ||| flag p 0x01) 0x40 = b := by decide

theorem temp_rt : ∀ t : Nat, t < 88 → 26 ≤ t → ∀ m : Nat, m < 8 →
    Spec.setpointHalf (tempByte (Int.ofNat t * 50) ||| ((m % 8 * 32).toUInt8))
      (tempAltByte (Int.ofNat t * 50)) = t ∧
    ((tempByte (Int.ofNat t * 50) ||| ((m % 8 * 32).toUInt8)) >>> 5).toNat = m := by
  decide +kernel

theorem b7_rt : ∀ s, s < 16 → (((0x30 : UInt8) ||| (s % 64).toUInt8) &&& 0x0F).toNat = s := by decide

theorem b8_rt : ∀ f t : Bool,
    Spec.tb (flag f 0x80 ||| flag t 0x20) 0x80 = f ∧ Spec.tb (flag f 0x80 ||| flag t 0x20) 0x20 = t := by
  decide

theorem b9_rt : ∀ e p a : Bool,
    Spec.tb (flag e 0x80 ||| flag p 0x20 ||| flag false 0x10 ||| flag a 0x08) 0x80 = e ∧
    Spec.tb (flag e 0x80 ||| flag p 0x20 ||| flag false 0x10 ||| flag a 0x08) 0x20 = p ∧
    Spec.tb (flag e 0x80 ||| flag p 0x20 ||| flag false 0x10 ||| flag a 0x08) 0x08 = a := by decide

theorem b10_rt : ∀ s t f : Bool,
    Spec.tb (flag s 0x01 ||| flag t 0x02 ||| flag f 0x04) 0x01 = s ∧
    Spec.tb (flag s 0x01 ||| flag t 0x02 ||| flag f 0x04) 0x02 = t ∧
    Spec.tb (flag s 0x01 ||| flag t 0x02 ||| flag f 0x04) 0x04 = f := by decide

theorem b19_rt : ∀ h, h < 128 → ((h % 128).toUInt8 &&& 0x7F).toNat = h := by decide
theorem b21_rt : ∀ f : Bool, Spec.tb (flag f 0x80) 0x80 = f := by decide
theorem b22_rt : ∀ f : Bool, Spec.tb (flag f 0x08) 0x08 = f := by decide
theorem fan_rt : ∀ f, f < 256 → (f.toUInt8).toNat = f := by decide +kernel

theorem b9_b22_rt : ∀ (eco pur : Bool) (aux : Nat), aux < 3 →
    Spec.tb (flag eco 128 ||| flag pur 32 ||| flag false 16 ||| flag (decide (aux = 1)) 8) 128 = eco ∧
    Spec.tb (flag eco 128 ||| flag pur 32 ||| flag false 16 ||| flag (decide (aux = 1)) 8) 32 = pur ∧
    (if Spec.tb (flag (decide (aux = 2)) 8) 8 = true then 2
     else if Spec.tb (flag eco 128 ||| flag pur 32 ||| flag false 16 ||| flag (decide (aux = 1)) 8) 8 = true then 1
     else 0) = aux := by decide +kernel

/-- the explicit body for an in-range fan speed -/
def bodyOf (s : SetState) : Bytes :=
  [0x40,
   (Generated.controlSource.toUInt8) ||| flag s.beep 0x40 ||| flag s.power 0x01,
   tempByte s.tempCenti ||| (((s.mode % 8) * 32).toUInt8),
   s.fan.toNat.toUInt8,
   0x7F, 0x7F, 0x00,
   0x30 ||| ((s.swing % 64).toUInt8),
   flag s.followMe 0x80 ||| flag s.turbo 0x20,
   flag s.eco 0x80 ||| flag s.purifier 0x20 ||| flag s.forceAuxHeat 0x10 ||| flag s.auxHeat 0x08,
   flag s.sleep 0x01 ||| flag s.turbo 0x02 ||| flag s.fahrenheit 0x04,
   0, 0, 0, 0, 0, 0, 0,
   tempAltByte s.tempCenti,
   (s.humidity % 128).toUInt8,
   0,
   flag s.freeze 0x80,
   flag s.indepAuxHeat 0x08,
   0]

theorem setStateBody_ok (s : SetState) (h : ¬ (s.fan < 0 ∨ s.fan > 255)) :
    setStateBody s = .ok (bodyOf s) := by
  unfold setStateBody bodyOf; rw [if_neg h]

/-- **C10 (round trip).** For every settable state in the domain, the 0x40 body `apply()` puts on
    the wire decodes, under the vendor layout, to exactly that state. -/
theorem setstate_roundtrip (s : Spec.DevState) (hv : s.Valid) :
    ∃ body, setStateBody (setStateOfDev (devOf s)) = .ok body ∧
      Spec.decodeSetState body = some s := by
  obtain ⟨power, beep, mode, t, fan, swing, eco, turbo, sleep, fahr, freeze, follow, pur, hum, aux⟩ := s
  obtain ⟨hm, ht1, ht2, hf, hs, hh, ha⟩ := hv
  simp only at hm ht1 ht2 hf hs hh ha
  have h1 := b1_rt power beep
  have ht := temp_rt t (by omega) ht1 mode hm
  have h7 := b7_rt swing hs
  have h8 := b8_rt follow turbo
  have h9 := b9_rt eco pur (decide (aux = 1))
  have h10 := b10_rt sleep turbo fahr
  have h19 := b19_rt hum hh
  have h21 := b21_rt freeze
  have h22 := b22_rt (decide (aux = 2))
  have hfan := fan_rt fan hf
  have hcs : Generated.controlSource.toUInt8 = 2 := rfl
  refine ⟨_, setStateBody_ok _ (by simp only [setStateOfDev, devOf]; omega), ?_⟩
  simp only [bodyOf, setStateOfDev, devOf, Option.getD_some]
  simp only [Spec.decodeSetState, hcs, Int.toNat_natCast]
  simp only [Int.ofNat_eq_natCast] at ht
  simp only [ne_eq, not_true_eq_false, ↓reduceIte, h1.1, h1.2, ht.1, ht.2, h7, h8.1, h8.2, h9.1, h9.2.1,
    h10.1, h10.2.1, h10.2.2, h19, h21, hfan, Bool.or_self, h22, h9.2.2]
  congr 1
  simp only [Spec.DevState.mk.injEq, true_and]
  exact b9_b22_rt eco pur aux ha

/-- **C10 (injectivity).** Distinct requested states never produce the same command body. -/
theorem setstate_injective (s₁ s₂ : Spec.DevState) (h₁ : s₁.Valid) (h₂ : s₂.Valid)
    (h : setStateBody (setStateOfDev (devOf s₁)) = setStateBody (setStateOfDev (devOf s₂))) :
    s₁ = s₂ := by
  obtain ⟨b₁, e₁, d₁⟩ := setstate_roundtrip s₁ h₁
  obtain ⟨b₂, e₂, d₂⟩ := setstate_roundtrip s₂ h₂
  rw [e₁, e₂] at h
  cases h
  rw [d₁] at d₂
  exact Option.some.inj d₂

/-- outside the byte range the code raises instead of emitting a wrong command -/
theorem fan_out_of_range (s : SetState) (h : s.fan < 0 ∨ 255 < s.fan) :
    setStateBody s = .error (.py "ValueError") := by
  unfold setStateBody; rw [if_pos h]

/-! ### the same statements about the code as translated from the source text (tie by translation) -/

/-- **C10 about the translated `SetStateCommand.tobytes`** (`Generated/Codec.lean`, regenerated from the source on
    every run): the body it builds for every settable state decodes, under the vendor layout, to that state. -/
theorem setstate_roundtrip_code (s : Spec.DevState) (hv : s.Valid) :
    ∃ body, CodecEq.setStateCode (setStateOfDev (devOf s)) = .ok body ∧
      Spec.decodeSetState body = some s := by
  rw [CodecEq.setStateBody_eq]; exact setstate_roundtrip s hv

theorem setstate_injective_code (s₁ s₂ : Spec.DevState) (h₁ : s₁.Valid) (h₂ : s₂.Valid)
    (h : CodecEq.setStateCode (setStateOfDev (devOf s₁)) = CodecEq.setStateCode (setStateOfDev (devOf s₂))) :
    s₁ = s₂ := by
  rw [CodecEq.setStateBody_eq, CodecEq.setStateBody_eq] at h; exact setstate_injective s₁ s₂ h₁ h₂ h

/-- **C10 about `apply()` AND `SetStateCommand.tobytes` as translated**: from the attributes of the device object to the
    bytes of the 0x40 body, for every settable state. -/
theorem setstate_roundtrip_apply_code (s : Spec.DevState) (hv : s.Valid) :
    ∃ body, CodecEq.applyThenTobytes (devOf s) = .ok body ∧ Spec.decodeSetState body = some s := by
  rw [CodecEq.applyThenTobytes_eq]; exact setstate_roundtrip s hv

/-! non-vacuity -/
example : (⟨true, false, 2, 41, 102, 0xC, true, false, true, false, true, false, true, 55, 2⟩ : Spec.DevState).Valid := by
  decide
example : Spec.decodeSetState [0x40, 0x43, 0x54, 102, 0x7f, 0x7f, 0, 0x3c, 0, 0x80, 0, 0,0,0,0,0,0,0, 0, 40, 0, 0, 0, 0]
    = some ⟨true, true, 2, 41, 102, 0xC, true, false, false, false, false, false, false, 40, 0⟩ := by decide

end Msmart.Props.C10
