/-
  C12 — every emitted command is a well-formed, device-acceptable frame; message ids advance by
  one modulo 256 indefinitely.  ONLY property theorems and non-vacuity examples live here.
-/
import Msmart.Lemmas.CodecEq
import Msmart.Model.Command
import Msmart.Spec.FrameSpec
import Msmart.Lemmas.Crc

set_option linter.unusedSimpArgs false

namespace Msmart.Props.C12
open Msmart Msmart.Model Msmart.Lemmas

/-- documented frame type per command kind (Spec side): writes are CONTROL, everything else QUERY -/
def documentedType : Cmd → UInt8
  | .setState _ => Spec.ftControl
  | .setProperties _ => Spec.ftControl
  | _ => Spec.ftQuery

/-- The generated CRC table (from /repo/msmart/crc8.py) is the CRC-8/MAXIM table. -/
theorem crc_table_is_maxim (b : UInt8) : crcT b = Spec.crcByte b := table_is_maxim b

theorem byteSum_eq_sumB (l : Bytes) : Spec.byteSum l = sumB l := rfl

/-- `Command.tobytes(data)` for any body of at most 243 bytes yields a frame the device-side
    parser accepts, carrying exactly that body, message id and frame type. -/
theorem frame_wellformed (ft msgId : UInt8) (data : Bytes) (hlen : data.length ≤ 243) :
    ∃ f, commandToBytes ft msgId data = .ok f ∧
      Spec.parseFrame f = some ⟨0xAC, ft, data, msgId⟩ := by
  have hgen : Generated.frameHeaderLength = 10 := rfl
  unfold commandToBytes frameToBytes
  simp only [hgen, List.length_append, List.length_cons, List.length_nil]
  rw [if_neg (by omega)]
  refine ⟨_, rfl, ?_⟩
  have hL : ((data.length + (0 + 1) + (0 + 1) + 10).toUInt8).toNat = data.length + 12 := by
    simp [Nat.toUInt8, UInt8.toNat, UInt8.ofNat, BitVec.toNat_ofNat]; omega
  unfold Spec.parseFrame
  simp only [List.length_append, List.length_cons, List.length_nil, List.cons_append,
    List.drop_succ_cons, List.drop_zero, List.nil_append]
  rw [if_neg (by omega)]
  simp only [List.getElem?_cons_zero, List.getElem?_cons_succ, ne_eq, not_true_eq_false, ↓reduceIte,
    Option.map_some, hL]
  rw [if_neg (by simp)]
  have hsum := sum_with_checksum
    ((data.length + (0 + 1) + (0 + 1) + 10).toUInt8 :: devTypeAC :: 0 :: 0 :: 0 :: 0 :: 0 :: 0 :: ft ::
      (data ++ [msgId] ++ [crc8 (data ++ [msgId])]))
  rw [byteSum_eq_sumB]
  rw [if_neg (by
    rw [← List.cons_append, ← List.cons_append, ← List.cons_append, ← List.cons_append,
      ← List.cons_append, ← List.cons_append, ← List.cons_append, ← List.cons_append,
      ← List.cons_append, sumB_append]
    simpa [sumB] using hsum)]
  simp only [List.dropLast_concat, ← List.append_assoc]
  simp only [List.getLastD_concat, List.dropLast_concat, List.append_assoc, List.dropLast_concat]
  rw [if_neg (by simp [← List.append_assoc, List.dropLast_concat, List.getLastD_concat, crc8_eq_spec])]
  simp [← List.append_assoc, List.dropLast_concat, List.getLastD_concat, devTypeAC]


theorem documentedType_eq (c : Cmd) : c.frameType = documentedType c := by
  cases c <;> rfl

/-- **C12 (well-formedness).** Whatever command object and whatever value the process-wide counter
    has, if `tobytes()` returns a frame then the device-side parser accepts it as an 0xAC frame
    of the documented type carrying exactly the command's body and the next message id. -/
theorem command_wellformed (c : Cmd) (counter : Nat) (f : Bytes)
    (h : (c.toBytes counter).1 = .ok f) :
    ∃ body, c.body = .ok body ∧ body.length ≤ 243 ∧
      Spec.parseFrame f = some ⟨0xAC, documentedType c, body, ((counter + 1) % 256).toUInt8⟩ := by
  unfold Cmd.toBytes at h
  cases hb : c.body with
  | error e => simp [hb] at h
  | ok body =>
    simp only [hb] at h
    refine ⟨body, rfl, ?_⟩
    by_cases hlen : body.length ≤ 243
    · obtain ⟨f', hf', hp⟩ := frame_wellformed c.frameType (nextMessageId counter).2 body hlen
      rw [hf'] at h
      cases h
      exact ⟨hlen, by rw [hp, documentedType_eq]; rfl⟩
    · exfalso
      unfold commandToBytes frameToBytes at h
      have hgen : Generated.frameHeaderLength = 10 := rfl
      simp only [hgen, List.length_append, List.length_cons, List.length_nil] at h
      rw [if_pos (by omega)] at h
      cases h

/-- and conversely every command whose body fits is emitted (the only failures are the explicit
    Python error branches: ValueError for an oversized body or an out-of-range byte,
    NotImplementedError for a property id whose encoding is not implemented) -/
theorem command_emitted (c : Cmd) (counter : Nat) (body : Bytes)
    (hb : c.body = .ok body) (hlen : body.length ≤ 243) :
    ∃ f, (c.toBytes counter).1 = .ok f := by
  obtain ⟨f, hf, _⟩ := frame_wellformed c.frameType (nextMessageId counter).2 body hlen
  exact ⟨f, by simp [Cmd.toBytes, hb, hf]⟩

theorem command_oversize (c : Cmd) (counter : Nat) (body : Bytes)
    (hb : c.body = .ok body) (hlen : 243 < body.length) :
    (c.toBytes counter).1 = .error (.py "ValueError") := by
  have hgen : Generated.frameHeaderLength = 10 := rfl
  simp only [Cmd.toBytes, hb, commandToBytes, frameToBytes, hgen, List.length_append,
    List.length_cons, List.length_nil]
  rw [if_pos (by omega)]

/-- counter after emitting a list of commands (a command whose body raises does not advance it) -/
def runCounter (counter : Nat) : List Cmd → Nat
  | [] => counter
  | c :: t => runCounter (c.toBytes counter).2 t

theorem counter_step (c : Cmd) (counter : Nat) :
    (c.toBytes counter).2 = counter + 1 ∨ (c.toBytes counter).2 = counter := by
  unfold Cmd.toBytes
  cases c.body <;> simp [nextMessageId]

/-- **C12 (message ids).** In any sequence of successfully emitted commands, of any length, the
    n-th command after a counter value `k` carries message id `(k + n) mod 256`: consecutive ids
    advance by one modulo 256 indefinitely. -/
theorem message_id_step (cs : List Cmd) (counter : Nat)
    (hall : ∀ c ∈ cs, ∃ b, c.body = .ok b) (c : Cmd) (f : Bytes)
    (h : (c.toBytes (runCounter counter cs)).1 = .ok f) :
    ∃ body, Spec.parseFrame f =
      some ⟨0xAC, documentedType c, body, ((counter + cs.length + 1) % 256).toUInt8⟩ := by
  have hrc : ∀ (cs : List Cmd) (k : Nat), (∀ c ∈ cs, ∃ b, c.body = .ok b) →
      runCounter k cs = k + cs.length := by
    intro cs
    induction cs with
    | nil => intro k _; rfl
    | cons c t ih =>
      intro k hall
      obtain ⟨b, hb⟩ := hall c (by simp)
      have : (c.toBytes k).2 = k + 1 := by simp [Cmd.toBytes, hb, nextMessageId]
      simp only [runCounter, this, List.length_cons]
      rw [ih (k + 1) (fun c hc => hall c (by simp [hc]))]
      omega
  rw [hrc cs counter hall] at h
  obtain ⟨body, _, _, hp⟩ := command_wellformed c _ f h
  exact ⟨body, hp⟩

/-! non-vacuity: concrete commands meet the hypotheses -/
/-! ### the command bodies as translated from the source text (tie by translation, `Generated/Codec.lean`) -/

/-- **C12 about the translated `Command.tobytes` + `Frame.tobytes` + `crc8.calculate` + `Frame.checksum`**: for every frame
    type, message id and payload the bytes they produce are the model's `commandToBytes` (for which `frame_wellformed` /
    `command_wellformed` are proved), including the ValueError for an oversized payload. -/
theorem command_frame_code (ft id : UInt8) (data : Bytes) :
    (Generated.Codec.commandPayload data (id.toNat : Int) >>= fun p =>
        Generated.Codec.frameTobytes ((devTypeAC).toNat : Int) 0 (ft.toNat : Int) p) = commandToBytes ft id data :=
  CodecEq.commandToBytes_eq ft id data

/-- **C12 about the translated code.** The bodies the translated `tobytes` methods hand to `Command.tobytes` are the
    bodies of the model's commands (for which `command_wellformed` is proved) - for every parameter value. -/
theorem command_bodies_code :
    Generated.Codec.getStateBody (((Generated.temperatureType.lookup "INDOOR").getD 0 : Nat) : Int) = Cmd.body .getState ∧
    Generated.Codec.getEnergyBody = Cmd.body .getEnergy ∧
    Generated.Codec.getHumidityBody = Cmd.body .getHumidity ∧
    (∀ a, Generated.Codec.getCapabilitiesBody a = Cmd.body (.getCapabilities a)) ∧
    (∀ b, Generated.Codec.toggleDisplayBody b = Cmd.body (.toggleDisplay b)) ∧
    (∀ s, CodecEq.setStateCode s = Cmd.body (.setState s)) :=
  ⟨CodecEq.getState_eq, CodecEq.getEnergy_eq, CodecEq.getHumidity_eq, CodecEq.getCapabilities_eq,
   CodecEq.toggleDisplay_eq, CodecEq.setStateBody_eq⟩

example : ∃ f, ((Cmd.getState).toBytes 0).1 = .ok f := ⟨_, rfl⟩
example : ((Cmd.setState {}).toBytes 255).2 = 256 := rfl
example : ∃ b, (Cmd.setProperties [(pidIeco, 1), (pidBuzzer, 0)]).body = .ok b := ⟨_, rfl⟩
example : (Cmd.setProperties [(pidAnion, 1)]).body = .error (.py "NotImplementedError") := rfl

/-! ### the message-id counter as translated -/

/-- the ids returned by `n` successive calls of the translated `_next_message_id`, the class counter being `c` before -/
def idsCode : Int → Nat → List Int
  | _, 0 => []
  | c, n + 1 => (Generated.Codec.nextMessageId c).1 :: idsCode (Generated.Codec.nextMessageId c).2 n

/-- **C12 (message ids) about the translated code.** From ANY counter value, for ANY number of calls: the i-th id handed out
    is `(c + i + 1) mod 256` - consecutive ids advance by one modulo 256 indefinitely (the Python int never wraps). -/
theorem message_ids_advance_code (c n i : Nat) (h : i < n) :
    (idsCode (c : Int) n)[i]? = some (((c + i + 1) % 256 : Nat) : Int) := by
  induction n generalizing c i with
  | zero => omega
  | succ m ih =>
    unfold idsCode
    rw [CodecEq.nextMessageId_eq]
    simp only [Model.nextMessageId, CodecEq.u8_mod]
    cases i with
    | zero => simp
    | succ j =>
      simp only [List.getElem?_cons_succ]
      rw [ih (c + 1) j (by omega)]
      have e : (c + 1 + j + 1) % 256 = (c + (j + 1) + 1) % 256 := by omega
      rw [e]

example : idsCode 253 4 = [254, 255, 0, 1] := by decide +kernel


end Msmart.Props.C12
