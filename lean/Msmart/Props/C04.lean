/-
  C04 — V3 stream reassembly: the theorems about the model of `data_received` (`Props/C04Stream.lean`) and the same
  theorems about the loop body as translated from the current source text (`Props/C04Code.lean`).
-/
import Msmart.Props.C04Stream
import Msmart.Props.C04Code
