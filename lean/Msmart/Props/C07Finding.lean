/-
  C07 — known finding D13 (a late handshake reply is taken as the answer to the next handshake request): the witness history,
  evaluated in the Session model by the kernel.  The same history is replayed on the implementation by the C07 check
  (stream `late_handshake_reply`), which reports it as KNOWN-FINDING.
-/
import Msmart.Props.C07Session
import Msmart.Spec.V3Spec
open Msmart Msmart.Model Msmart.Model.Session

namespace Msmart.Props.C07

def wKey : Bytes := List.replicate 32 0x11
def wToken : Bytes := List.replicate 64 0x22
def wNonce1 : Bytes := List.replicate 32 0x33
def wNonce2 : Bytes := List.replicate 32 0x44
def wFrame : Bytes := [0xAA, 0x01, 0x02]
/-- a unit that answers every handshake request 2.137 s late (137 ms after the client's read timed out), with a fresh nonce -/
def wRx : Reactions := fun cid idx =>
  if cid = 1 ∧ idx = 0 then [(2137, .data (Spec.V3.handshakeReply wKey wNonce1 0))]
  else if cid = 1 ∧ idx = 1 then [(2137, .data (Spec.V3.handshakeReply wKey wNonce2 1))]
  else []

def wLog : List Ev := ((run {} wRx { w := { connects := [.ok, .ok, .ok] }, l := {} }
    [.authenticate wToken wKey, .send wFrame]).2.w.log).map Prod.snd


/-- **C07 — known finding D13, witness in the model.**  A unit that answers handshake requests 137 ms after the client's
    read has timed out: `authenticate` writes handshake request 0, times out, writes request 1, and then ACCEPTS the reply
    to request 0; the data packet of the following `send` is encrypted under the key of handshake 0, while the unit - which
    replaced its key when it answered request 1 - holds the key of handshake 1.  (The theorem `data_under_latest_handshake_key`
    is about the key the client ACCEPTED last; this is the history in which that is not the key of the latest handshake.) -/
theorem late_handshake_reply_witness :
    wLog = [.connect 1 true, .forget 1, .wrHS 1 0 wToken, .forget 1, .wrHS 1 1 wToken,
            .accept 1 (Spec.V3.sessionKey wKey wNonce1), .wrData 1 2 (Spec.V3.sessionKey wKey wNonce1) wFrame, .closed 1]
    ∧ Spec.V3.sessionKey wKey wNonce1 ≠ Spec.V3.sessionKey wKey wNonce2 := by decide +kernel

end Msmart.Props.C07
