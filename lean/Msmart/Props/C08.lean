import Msmart.Model.Session
namespace Msmart.Props.C08
end Msmart.Props.C08
