/-
  C08 — retry, timeout and recovery contract of an exchange.

  Over the Session model, for EVERY peer (reaction function), every connection outcome and every
  state: the number of transmissions of a request is bounded by the retry budget, a success needed
  at least one, a final timeout used all of them and dropped the connection.  For peers that stay
  silent for k transmissions and then answer promptly: exactly k + 1 transmissions, and the answer is
  returned (retransmission stops as soon as a response arrives).  Device level: the failures are
  reported as "no response", and a refresh without responses reports the device offline.
  Recovery: from every state in which the connection is not alive (dropped, closed by the peer,
  refused, expired), on a quiet network, the next exchange with a promptly responding V2 device
  returns its response after a single transmission on a new connection.
-/
import Msmart.Lemmas.SessionRetry
import Msmart.Lemmas.SessionRecover
import Msmart.Lemmas.SessionSettle
import Msmart.Lemmas.SessionSettleV2
import Msmart.Props.C01Layers
import Msmart.Props.C06
import Msmart.Lemmas.SessionContain
import Msmart.Props.C13

namespace Msmart.Props.C08
open Msmart Msmart.Model Msmart.Model.Session Msmart.Lemmas.Sess

theorem nData_of_shape_c {tc : List Ev} (h : ∀ e ∈ tc, isClosed e = true ∨ isConnect e = true) : nData tc = 0 := by
  unfold nData
  rw [List.length_eq_zero_iff, List.filter_eq_nil_iff]
  intro e he; rcases h e he with h1 | h1 <;> cases e <;> simp_all [isClosed, isConnect, isData]

theorem nData_of_shape_a {t : Option Bytes} {ta : List Ev}
    (h : ∀ e ∈ ta, HsTok t e ∨ isKeyEv e = true ∨ isClosed e = true) : nData ta = 0 := by
  unfold nData
  rw [List.length_eq_zero_iff, List.filter_eq_nil_iff]
  intro e he
  rcases h e he with ⟨_, _, _, rfl, _⟩ | h1 | h1
  · simp [isData]
  · cases e <;> simp_all [isAccept, isKeyEv, isData]
  · cases e <;> simp_all [isClosed, isData]

/-- **C08 (transmission bounds).** For every peer and every state: an exchange transmits its request at
    most `retries` times; if it returns responses it transmitted at least once (for `retries ≥ 1`);
    if it fails with a timeout after transmitting at all, the connection has been dropped and — unless
    the caller cancelled the call — it transmitted exactly `retries` times.
    (`tx` = data packets the exchange appended to the write log.) -/
theorem tx_bounds (p : Params) (rx : Reactions) (s s' : S) (frame : Bytes) (retries : Nat) (r : R (List Bytes))
    (h : lanSend p rx s frame retries = (r, s')) :
    ∃ tr, evsOf s' = evsOf s ++ tr ∧ nData tr ≤ retries ∧
      (∀ got, r = .ok got → retries = 0 ∨ 1 ≤ nData tr) ∧
      (r = .error .timeout → nData tr ≠ 0 → s'.l.conn = none ∧ (s.w.cancelAt = none → nData tr = retries)) ∧
      (∀ e ∈ tr, isData e = true → DataOf frame e) := by
  obtain ⟨s1, s2, tc, ta, te, g1, g2, g3, k1, k2, k3, k4, _, _, _, k8, k9⟩ := lanSend_tr h
  have hz1 := nData_of_shape_c k1
  have hz2 := nData_of_shape_a k2
  have hn : nData (tc ++ ta ++ te) = nData te := by rw [nData_append, nData_append, hz1, hz2]; omega
  refine ⟨tc ++ ta ++ te, ((g1.trans g2).trans g3).evs, by rw [hn]; exact k4, ?_, ?_, ?_⟩
  · intro got hg; rw [hn]; exact k9 got hg
  · intro hr hne
    rw [hn] at hne ⊢
    have hte : te ≠ [] := by intro h0; rw [h0] at hne; exact hne rfl
    obtain ⟨h2, h1⟩ := k8 hr hte
    refine ⟨?_, h1⟩
    cases hc : s'.l.conn with
    | none => rfl
    | some c => simp [coreOf, hc] at h2
  · intro e he hd
    rcases List.mem_append.1 he with he | he
    · rcases List.mem_append.1 he with he | he
      · rcases k1 e he with h1 | h1 <;> cases e <;> simp_all [isClosed, isConnect, isData]
      · rcases k2 e he with ⟨_, _, _, rfl, _⟩ | h1 | h1
        · simp [isData] at hd
        · cases e <;> simp_all [isAccept, isKeyEv, isData]
        · cases e <;> simp_all [isClosed, isData]
    · rcases k3 e he with h1 | h1
      · exact h1
      · cases e <;> simp_all [isClosed, isData]

/-- **C08 (retransmission stops when a response arrives).** On an idle connection and a quiet network:
    if the peer leaves the first `k` transmissions unanswered and answers the next one within the
    read timeout with a decodable response `f`, the retry loop (any budget `n > k`) returns `f` after
    exactly `k + 1` transmissions. -/
theorem stops_when_answered (p : Params) (rx : Reactions) (frame : Bytes) (k n : Nat) (s : S) (c : Conn)
    (acc : List Bytes) (hk : k < n) (h : Ready s c) (hsil : SilentFor rx c k)
    (d : Nat) (b pkt f : Bytes) (rest : List Bytes)
    (hrx : rx c.core.cid (c.core.nWrites + k) = [(d, .data b)]) (hd : d ≤ p.readTimeout)
    (hseg : segQueue c.core.v3 c.buffer b = pkt :: rest) (hdec : decodeWith c.core.v3 c.core.localKey pkt = .ok f) :
    ∃ s', sendLoop p rx frame n s acc = (.ok (acc ++ [f]), s') ∧ nData (evsOf s') = nData (evsOf s) + (k + 1) := by
  obtain ⟨s', _, h1, h2, _⟩ := sendLoop_answered_at (p := p) (rx := rx) (frame := frame) k n s c acc hk h hsil d b pkt f rest hrx hd hseg hdec
  exact ⟨s', h1, h2⟩

/-- **C08 (exhausting the retries).** If none of the `n ≥ 1` transmissions is answered: exactly `n`
    transmissions, a timeout, and the connection is dropped. -/
theorem timeout_after_all_retries (p : Params) (rx : Reactions) (frame : Bytes) (n : Nat) (s : S) (c : Conn)
    (acc : List Bytes) (h : Ready s c) (hsil : SilentFor rx c (n + 1)) :
    ∃ s', sendLoop p rx frame (n + 1) s acc = (.error .timeout, s') ∧
      nData (evsOf s') = nData (evsOf s) + (n + 1) ∧ s'.l.conn = none :=
  sendLoop_all_silent n s c acc h hsil

/-- **C08 (device level).** `Device._send_command` turns a timeout, a protocol error and an
    authentication error into "no response" (an empty list) -/
theorem failures_become_no_response (p : Params) (rx : Reactions) (s : S) (frame : Bytes) (e : Err)
    (he : e = .timeout ∨ e = .protocol ∨ e = .auth)
    (h : (lanSend p rx s frame Generated.lanRetries).1 = .error e) : (deviceSend p rx s frame).1 = .ok [] := by
  unfold deviceSend
  cases hl : lanSend p rx s frame Generated.lanRetries with
  | mk r s1 =>
    rw [hl] at h
    simp only at h
    subst h
    rcases he with rfl | rfl | rfl <;> rfl

/-- … and a `refresh()` whose commands all got no response reports the device offline (and leaves
    every other attribute as it was) -/
theorem no_response_reported_offline (r r' : Run) (h : ∀ reply ∈ r.replies, reply = [])
    (hr : refresh r = .ok r') : r'.dev = { r.dev with online := false, supported := false } := by
  apply C13.rejected_frames_leave_state r r' _ hr
  intro reply hm f hf
  rw [h reply hm] at hf; cases hf

/-! ### recovery -/


/-- **C08 (recovery, V2).** From EVERY state in which the connection is not alive — which is where a
    final timeout, a protocol error of the read, a peer close, a refused or a hanging connect leave
    the object (see `tx_bounds`, `failed_read_drops_connection`) — on a quiet network: if the next
    connection attempt succeeds and the device answers the first packet on it within the read
    timeout with a packet that decodes to `f`, the exchange returns exactly `[f]` after a single
    transmission; no user intervention. -/
theorem recovery_v2 (p : Params) (rx : Reactions) (s : S) (frame : Bytes) (n : Nat) (cs : List ConnOutcome)
    (hver : s.l.version ≠ 3) (hal : connAlive s = false) (hquiet : s.w.pending = []) (hnc : s.w.cancelAt = none)
    (hconn : s.w.connects = .ok :: cs)
    (d : Nat) (b f : Bytes) (hrx : rx (s.w.nConn + 1) 0 = [(d, .data b)]) (hd : d ≤ p.readTimeout)
    (hdec : packetDecode b = .ok f) :
    ∃ s', lanSend p rx s frame (n + 1) = (.ok [f], s') ∧ nData (evsOf s') = nData (evsOf s) + 1 := by
  let s1 := opConnected (dropConnect (opDisconnect s))
  have hoc : opConnect p (opDisconnect s) = (.ok (), s1) := by
    unfold opConnect; rw [connects_opDisconnect, hconn]
  have hv1 : isV3 s1 = false := by
    rw [isV3_opConnected]; simp [dropConnect, hver]
  have hea : ensureAuth p rx s1 = (.ok (), s1) := by unfold ensureAuth; simp [hv1]
  let c1 : Conn := { core := { cid := s.w.nConn + 1, v3 := decide (s.l.version = 3) } }
  have hc1 : s1.l.conn = some c1 := by
    simp [s1, opConnected, logEv, dropConnect, nConn_opDisconnect, c1]
  have hv : c1.core.v3 = false := by simp [c1, hver]
  have hready : Ready s1 c1 := ⟨hc1, rfl, rfl, by
      show (opDisconnect s).w.pending = []
      rw [pending_opDisconnect]; exact hquiet, (by rw [hv]; intro h; cases h), (by
      show (opDisconnect s).w.cancelAt = none
      rw [cancelAt_opDisconnect]; exact hnc)⟩
  have hpre : readAvailable (queueLen s1 + 1) s1 [] = (.ok [], s1) := by
    simp [readAvailable, queueHead, hc1, c1]
  obtain ⟨s2, c2, hloop, hn2, hc2, hq2, _⟩ := sendLoop_answered_at (p := p) (rx := rx) (frame := frame) 0 (n + 1) s1 c1 []
    (by omega) hready (by intro i hi; omega) d b b f [] (by simpa [c1] using hrx) hd (by simp [segQueue, hv])
    (by simp [decodeWith, hv]; exact hdec)
  have hpost : readAvailable (queueLen s2 + 1) s2 ([] ++ [f]) = (.ok [f], s2) := by
    simp [readAvailable, queueHead, hc2, hq2]
  refine ⟨s2, ?_, ?_⟩
  · unfold lanSend
    rw [if_pos (by simp [hal]), hoc]
    simp only
    rw [hea]
    simp only
    unfold exchange
    rw [hpre]; simp only
    rw [hloop]; simp only
    exact hpost
  · rw [hn2]
    have : nData (evsOf s1) = nData (evsOf s) := by
      have h1 : evsOf s1 = evsOf (opDisconnect s) ++ [.connect ((opDisconnect s).w.nConn + 1) (decide ((opDisconnect s).l.version = 3))] := by
        simp [s1, opConnected, evsOf, logEv, dropConnect]
      rw [h1, nData_append, nData_evsOf_opDisconnect]
      simp [nData, isData]
    rw [this]

/-- **C08 (a failed read drops the connection).** Whatever the peer sent: if the retry loop ends in an
    error, either the connection has been dropped, or the transport had refused the write (it is
    closing / closed, or not authenticated) and the state is unchanged — in both cases the next
    exchange starts by reconnecting (`C07.lifetime_forces_new_connection`). -/
theorem failed_read_drops_connection (p : Params) (rx : Reactions) (frame : Bytes) (n : Nat) :
    ∀ (s s' : S) (acc : List Bytes) (e : Err), QOk s → (coreOf s).isSome = true →
      sendLoop p rx frame n s acc = (.error e, s') →
      s'.l.conn = none ∨ opWrite rx s' frame = .error e := by
  induction n with
  | zero => intro s s' acc e _ _ h; unfold sendLoop at h; cases h
  | succ n ih =>
    intro s s' acc e hq hs h
    unfold sendLoop at h
    have hw := opWrite_contain (rx := rx) (f := frame) hs hq
    split at h
    · rename_i e' he
      simp only [Prod.mk.injEq, Except.error.injEq] at h
      obtain ⟨rfl, rfl⟩ := h
      exact .inr he
    · rename_i s1 hw1
      have hq1 := hw.2 s1 hw1
      obtain ⟨ev, hdata, ht1⟩ := opWrite_tr hw1
      have hk1 := tr_keeps_conn ht1 (by
        intro x hx; simp only [List.mem_singleton] at hx; subst hx
        rcases hdata with ⟨_, _, _, rfl⟩ | ⟨_, rfl⟩ <;> exact ⟨rfl, rfl⟩) hs
      split at h
      · rename_i s2 ha
        obtain ⟨hq2, _⟩ := qok_awaitQueue _ hq1 ha
        have hs2 : (coreOf s2).isSome = true := coreSome_of_abs (abs_of_awaitQueue ha) hk1.1
        split at h
        · exact ih s2 s' acc e hq2 hs2 h
        · simp only [Prod.mk.injEq] at h
          obtain ⟨_, rfl⟩ := h
          exact .inl (conn_opDisconnect s2)
      · rename_i s2 ha
        simp only [Prod.mk.injEq] at h
        obtain ⟨_, rfl⟩ := h
        exact .inl (conn_opDisconnect s2)
      · rename_i raw s2 ha
        obtain ⟨hq2, hlen⟩ := qok_awaitQueue _ hq1 ha
        split at h
        · simp only [Prod.mk.injEq] at h
          obtain ⟨_, rfl⟩ := h
          exact .inl (conn_opDisconnect s2)
        · simp only [Prod.mk.injEq] at h
          obtain ⟨_, rfl⟩ := h
          exact .inl (conn_opDisconnect s2)
        · rename_i e' hne _ he
          exact absurd (decodeRead_protocol (hlen raw rfl) he) hne
        · simp only [Prod.mk.injEq] at h
          obtain ⟨h1, _⟩ := h
          cases h1

/-- **C08 (recovery, V3, abstract peer).** From EVERY state whose connection is not alive, on a quiet
    network, with stored credentials and a connect that succeeds: if the peer answers the handshake
    request with one packet whose payload yields a session key, and the following data request with
    one packet that decodes under that key, the exchange reconnects, authenticates first and returns
    exactly the peer's response after a single data transmission. -/
theorem recovery_v3 {p : Params} {rx : Reactions} {s : S} (frame : Bytes) (n : Nat) (cs : List ConnOutcome)
    (tok key : Bytes) (hver : s.l.version = 3) (hal : connAlive s = false) (hquiet : s.w.pending = [])
    (hnc : s.w.cancelAt = none)
    (hconn : s.w.connects = .ok :: cs) (hexp : FreshExpiryOk s)
    (htok : s.l.token = some tok) (hkey : s.l.key = some key)
    (htok' : tok.isEmpty = false ∧ tok.length < 65536) (hkey' : key.isEmpty = false)
    (d0 : Nat) (b0 reply payload lk : Bytes) (hrx0 : rx (s.w.nConn + 1) 0 = [(d0, .data b0)]) (hd0 : d0 ≤ p.readTimeout)
    (hparse0 : parseLoop b0 = ([reply], [])) (hproc : processPacket none reply = .ok payload)
    (hlk : getLocalKey key payload = .ok lk)
    (d1 : Nat) (b1 pkt f : Bytes) (hrx1 : rx (s.w.nConn + 1) 1 = [(d1, .data b1)]) (hd1 : d1 ≤ p.readTimeout)
    (hparse1 : parseLoop b1 = ([pkt], [])) (hdec : decodeWith true (some lk) pkt = .ok f) :
    ∃ s', lanSend p rx s frame (n + 1) = (.ok [f], s') ∧ nData (evsOf s') = nData (evsOf s) + 1 ∧
      ∃ tr, evsOf s' = evsOf s ++ tr ∧ .accept (s.w.nConn + 1) lk ∈ tr :=
  lanSend_recovers_v3 frame n cs tok key hver hal hquiet hnc hconn hexp htok hkey htok' hkey' d0 b0 reply payload lk
    hrx0 hd0 hparse0 hproc hlk d1 b1 pkt f hrx1 hd1 hparse1 hdec

/-- **C08 (recovery, V3, same connection).** After a failed handshake that left the connection open, or
    once the 12 h authentication lifetime has elapsed on a live connection: the next exchange
    handshakes on the same connection and returns the peer's response after one data transmission. -/
theorem recovery_v3_same_connection {p : Params} {rx : Reactions} {s : S} {c : Conn} (frame : Bytes) (n : Nat)
    (tok key : Bytes) (hc : s.l.conn = some c) (hcl : c.closing = false) (hv : c.core.v3 = true)
    (hal : connAlive s = true) (hna : authenticated s = false) (hquiet : s.w.pending = [])
    (hnc : s.w.cancelAt = none) (hbuf : c.buffer = [])
    (htok : s.l.token = some tok) (hkey : s.l.key = some key)
    (htok' : tok.isEmpty = false ∧ tok.length < 65536) (hkey' : key.isEmpty = false)
    (d0 : Nat) (b0 reply payload lk : Bytes) (hrx0 : rx c.core.cid c.core.nWrites = [(d0, .data b0)])
    (hd0 : d0 ≤ p.readTimeout) (hparse0 : parseLoop b0 = ([reply], [])) (hproc : processPacket none reply = .ok payload)
    (hlk : getLocalKey key payload = .ok lk)
    (d1 : Nat) (b1 pkt f : Bytes) (hrx1 : rx c.core.cid (c.core.nWrites + 1) = [(d1, .data b1)]) (hd1 : d1 ≤ p.readTimeout)
    (hparse1 : parseLoop b1 = ([pkt], [])) (hdec : decodeWith true (some lk) pkt = .ok f) :
    ∃ s', lanSend p rx s frame (n + 1) = (.ok [f], s') ∧ nData (evsOf s') = nData (evsOf s) + 1 ∧
      ∃ tr, evsOf s' = evsOf s ++ tr ∧ .accept c.core.cid lk ∈ tr :=
  lanSend_reauth_same_connection frame n tok key hc hcl hv hal hna hquiet hnc hbuf htok hkey htok' hkey'
    d0 b0 reply payload lk hrx0 hd0 hparse0 hproc hlk d1 b1 pkt f hrx1 hd1 hparse1 hdec

theorem handshakeReply_wf (key nonce : Bytes) (hn : nonce.length = 32) (ctr : Nat) :
    C04.WfPacket (Spec.V3.handshakeReply key nonce ctr) := by
  have hcl : (Crypto.AES.cbcEncrypt key Spec.V3.iv nonce).length = 32 := by rw [Crypto.AES.cbcEncrypt_length, hn]
  have hsl : (Crypto.SHA256.sha256 nonce).length = 32 := Crypto.SHA256.sha256_length nonce
  refine ⟨by simp [Spec.V3.handshakeReply, Spec.V3.header], ?_, ?_⟩
  · simp [Spec.V3.handshakeReply, Spec.V3.header, Spec.V3.be16, hcl, hsl]
  · have hlen : (Spec.V3.handshakeReply key nonce ctr).length = 72 := by
      simp [Spec.V3.handshakeReply, Spec.V3.header, Spec.V3.be16, hcl, hsl]
    rw [hlen]
    simp [sizeField, Spec.V3.handshakeReply, Spec.V3.header, Spec.V3.be16]

/-- **C08 (recovery, V3, honest device).** The same with the peer instantiated by the independent
    device specification: the device answers the handshake request with `Spec.V3.handshakeReply` for
    the stored key and a fresh 32-byte nonce, and the data request with its response frame in a V2
    packet encrypted under the session key `nonce XOR key`, each in one TCP segment within the read
    timeout.  Then — from ANY state with a dead connection — `LAN.send` returns exactly the device's
    frame.  (Composition of C02, C04, C05, C06 with the Session model.) -/
theorem recovery_v3_honest_device {p : Params} {rx : Reactions} {s : S} (frame : Bytes) (n : Nat) (cs : List ConnOutcome)
    (tok key nonce : Bytes) (hver : s.l.version = 3) (hal : connAlive s = false) (hquiet : s.w.pending = [])
    (hnc : s.w.cancelAt = none) (hconn : s.w.connects = .ok :: cs) (hexp : FreshExpiryOk s)
    (htok : s.l.token = some tok) (hkey : s.l.key = some key)
    (htok' : tok.isEmpty = false ∧ tok.length < 65536) (hk32 : key.length = 32) (hn32 : nonce.length = 32)
    (d0 ctr0 : Nat) (hd0 : d0 ≤ p.readTimeout)
    (hrx0 : rx (s.w.nConn + 1) 0 = [(d0, .data (Spec.V3.handshakeReply key nonce ctr0))])
    (d1 ctr1 id : Nat) (ts filler padBytes resp : Bytes) (hd1 : d1 ≤ p.readTimeout)
    (hts : ts.length = 8) (hfl : filler.length = 12) (hresp : resp.length ≤ 255)
    (hpl : padBytes.length = Spec.V3.padOf (Spec.V2.encode id ts filler resp).length)
    (hrx1 : rx (s.w.nConn + 1) 1 = [(d1, .data (Spec.V3.encodeEncrypted (Spec.V3.sessionKey key nonce) 3 ctr1
        (Spec.V2.encode id ts filler resp) padBytes))]) :
    ∃ s', lanSend p rx s frame (n + 1) = (.ok [resp], s') ∧ nData (evsOf s') = nData (evsOf s) + 1 := by
  have hfit : 56 + (encryptAes resp).length < 65536 := C02.small_frames_fit resp hresp
  have hv2len : (Spec.V2.encode id ts filler resp).length = 56 + (encryptAes resp).length :=
    C03.authentic_length id ts filler resp hts hfl hfit
  have hel : (encryptAes resp).length ≤ 272 := by rw [Lemmas.encryptAes_length]; omega
  have hpadlt : Spec.V3.padOf (Spec.V2.encode id ts filler resp).length < 16 := by unfold Spec.V3.padOf; omega
  have hsz : (Spec.V2.encode id ts filler resp).length + Spec.V3.padOf (Spec.V2.encode id ts filler resp).length + 32 < 65536 := by
    omega
  obtain ⟨payload, hproc, hlk⟩ := C06.handshake_agreement key nonce hn32 hk32 ctr0 none
  have hkne : key.isEmpty = false := by cases key <;> simp_all
  have hparse0 : parseLoop (Spec.V3.handshakeReply key nonce ctr0) = ([Spec.V3.handshakeReply key nonce ctr0], []) := by
    have := C04.parse_complete_stream [Spec.V3.handshakeReply key nonce ctr0]
      (by intro q hq; simp at hq; subst hq; exact handshakeReply_wf key nonce hn32 ctr0) (by simp) [] rfl
    simpa using this
  have hwf1 := C01.v3_packet_wf (Spec.V3.sessionKey key nonce) (Spec.V2.encode id ts filler resp) padBytes 3 ctr1 hpl hsz
  have hparse1 : parseLoop (Spec.V3.encodeEncrypted (Spec.V3.sessionKey key nonce) 3 ctr1 (Spec.V2.encode id ts filler resp) padBytes)
      = ([Spec.V3.encodeEncrypted (Spec.V3.sessionKey key nonce) 3 ctr1 (Spec.V2.encode id ts filler resp) padBytes], []) := by
    have := C04.parse_complete_stream [_] (by intro q hq; simp at hq; subst hq; exact hwf1) (by simp) [] rfl
    simpa using this
  have hdec : decodeWith true (some (Spec.V3.sessionKey key nonce))
      (Spec.V3.encodeEncrypted (Spec.V3.sessionKey key nonce) 3 ctr1 (Spec.V2.encode id ts filler resp) padBytes) = .ok resp := by
    unfold decodeWith
    simp only [↓reduceIte]
    rw [C05.v3_decode_spec_response _ _ padBytes ctr1 hpl hsz]
    simp only
    exact C02.v2_decode_spec_encode resp ts filler id hts hfl hfit
  obtain ⟨s', h1, h2, _⟩ := recovery_v3 (p := p) (rx := rx) (s := s) frame n cs tok key hver hal hquiet hnc hconn hexp htok hkey htok' hkne
    d0 _ _ payload _ hrx0 hd0 hparse0 hproc hlk d1 _ _ resp hrx1 hd1 hparse1 hdec
  exact ⟨s', h1, h2⟩

/-- **C08 (cancellation).** If the caller cancels a `send` while it waits for the response (the read is
    cancelled), the call ends as a timeout and the connection has been dropped — so the next exchange
    reconnects (and, on V3, re-authenticates: `C07.lifetime_forces_new_connection`) -/
theorem cancelled_read_drops_connection (p : Params) (rx : Reactions) (frame : Bytes) (n : Nat) (s s1 s2 : S)
    (acc : List Bytes) (hw : opWrite rx s frame = .ok s1)
    (ha : awaitQueue (s1.w.pending.length + 1) s1 (s1.w.now + p.readTimeout) = (.cancelled, s2)) :
    sendLoop p rx frame (n + 1) s acc = (.error .timeout, opDisconnect s2) ∧ (opDisconnect s2).l.conn = none := by
  refine ⟨?_, conn_opDisconnect s2⟩
  unfold sendLoop
  rw [hw]; simp only
  rw [ha]

/-! ### where the faults of the alphabet lead: settled states -/

/-- operations of a history against a gentle peer: exchanges with any retry budget, explicit
    authentications with a token that fits the size field, clock jumps, lifetime changes -/
def PlainOp : Op → Prop
  | .send _ => True
  | .sendN _ _ => True
  | .authenticate t _ => t.length < 65536
  | .advance _ => True
  | .setMaxLifetime _ => True
  | _ => False

def TokOk (s : S) : Prop := ∀ t, s.l.token = some t → t.length < 65536

theorem step_settled (p : Params) (rx : Reactions) (hg : Gentle p rx) (s : S) (op : Op) (hs : Settled s) (ht : TokOk s)
    (hop : PlainOp op) : Settled (step p rx s op).2 ∧ TokOk (step p rx s op).2 := by
  cases op with
  | send f =>
    simp only [step]
    cases hl : lanSend p rx s f Generated.lanRetries with
    | mk r s1 =>
      have h1 := lanSend_settled hg hs ht hl
      have h2 : TokOk s1 := by
        have := creds_lanSend hl; simp only [creds, Prod.mk.injEq] at this
        intro t htk; rw [this.1] at htk; exact ht t htk
      cases r <;> exact ⟨h1, h2⟩
  | sendN f n =>
    simp only [step]
    cases hl : lanSend p rx s f n with
    | mk r s1 =>
      have h1 := lanSend_settled hg hs ht hl
      have h2 : TokOk s1 := by
        have := creds_lanSend hl; simp only [creds, Prod.mk.injEq] at this
        intro t htk; rw [this.1] at htk; exact ht t htk
      cases r <;> exact ⟨h1, h2⟩
  | authenticate t k =>
    simp only [step]
    cases hl : lanAuthenticate p rx s (some t) (some k) Generated.lanRetries with
    | mk r s1 =>
      have hpt : ∀ x, pickCred (some t) (some k) s.l.token = some x → x.length < 65536 := by
        intro x hx; simp [pickCred] at hx; subst hx; exact hop
      have h1 := lanAuthenticate_settled hg hs hpt hl
      have h2 : TokOk s1 := by
        rcases creds_lanAuthenticate hl with ⟨_, hc⟩ | ⟨_, hc⟩
        · simp only [creds, Prod.mk.injEq] at hc
          intro x hx; rw [hc.1] at hx; exact hpt x hx
        · simp only [creds, Prod.mk.injEq] at hc
          intro x hx; rw [hc.1] at hx; exact ht x hx
      cases r <;> exact ⟨h1, h2⟩
  | advance ms =>
    refine ⟨settled_pump _ hs, ?_⟩
    have : creds (pump s (s.w.now + ms)) = creds s := creds_pump _ _
    simp only [creds, Prod.mk.injEq] at this
    intro t htk
    exact ht t (by rw [← this.1]; exact htk)
  | setMaxLifetime m => exact ⟨⟨hs.quiet, hs.unarmed, hs.ver, hs.conn⟩, ht⟩
  | sendCancelled f ms => exact hop.elim
  | authCancelled t k ms => exact hop.elim

/-- **C08 (faults leave nothing behind).** Against a gentle peer — every reaction to a write is nothing
    (drop), or one prompt event: a close, or a segment holding exactly one packet of ANY content (a
    response, an error packet, garbage) — and for any outcomes of the connection attempts (refused,
    hanging), every history of exchanges, authentications and clock jumps from a settled V3 session ends
    in a settled session: nothing pending on the network, nothing queued or buffered on an open
    connection.  (Induction over histories of any length.) -/
theorem faults_leave_settled (p : Params) (rx : Reactions) (hg : Gentle p rx) (ops : List Op) :
    ∀ s, Settled s → TokOk s → (∀ op ∈ ops, PlainOp op) →
      Settled (run p rx s ops).2 ∧ TokOk (run p rx s ops).2 := by
  induction ops with
  | nil => intro s hs ht _; exact ⟨hs, ht⟩
  | cons op t ih =>
    intro s hs ht hops
    obtain ⟨h1, h2⟩ := step_settled p rx hg s op hs ht (hops op (List.mem_cons_self ..))
    have := ih (step p rx s op).2 h1 h2 (fun o ho => hops o (List.mem_cons_of_mem _ ho))
    simpa [run] using this

/-- **C08 (a settled session is recoverable).** A settled V3 session is in exactly one of three
    situations, and each has its recovery theorem: the connection is dead (`recovery_v3`,
    `recovery_v3_honest_device`); it is alive but not authenticated (`recovery_v3_same_connection`); it is
    alive, authenticated and idle (`exchange_on_idle_session`). -/
theorem settled_is_recoverable {s : S} (hs : Settled s) :
    connAlive s = false ∨
    (∃ c, s.l.conn = some c ∧ c.closing = false ∧ c.core.v3 = true ∧ c.queue = [] ∧ c.buffer = [] ∧
        connAlive s = true ∧ authenticated s = false) ∨
    (∃ c, Ready s c ∧ c.buffer = [] ∧ connAlive s = true ∧ authenticated s = true) :=
  settled_cases hs

theorem exchange_on_idle_session {p : Params} {rx : Reactions} {s : S} {c : Conn} (frame : Bytes) (n : Nat)
    (hr : Ready s c) (hal : connAlive s = true) (hauth : isV3 s = true → authenticated s = true)
    (d : Nat) (b pkt f : Bytes) (hrx : rx c.core.cid c.core.nWrites = [(d, .data b)]) (hd : d ≤ p.readTimeout)
    (hseg : segQueue c.core.v3 c.buffer b = [pkt]) (hdec : decodeWith c.core.v3 c.core.localKey pkt = .ok f) :
    ∃ s', lanSend p rx s frame (n + 1) = (.ok [f], s') ∧ nData (evsOf s') = nData (evsOf s) + 1 :=
  lanSend_ready_answered frame n hr hal hauth d b pkt f hrx hd hseg hdec


/-! ### V2 sessions: histories of faults, then recovery -/

/-- operations of a V2 history: exchanges with any retry budget, clock jumps, lifetime changes -/
def PlainOp2 : Op → Prop
  | .send _ => True
  | .sendN _ _ => True
  | .advance _ => True
  | .setMaxLifetime _ => True
  | _ => False

theorem step_settled_v2 (p : Params) (rx : Reactions) (hg : Gentle2 p rx) (s : S) (op : Op) (hs : Settled2 s)
    (hop : PlainOp2 op) : Settled2 (step p rx s op).2 := by
  cases op with
  | send f =>
    simp only [step]
    cases hl : lanSend p rx s f Generated.lanRetries with
    | mk r s1 => have h1 := lanSend_settled2 hg hs hl; cases r <;> exact h1
  | sendN f n =>
    simp only [step]
    cases hl : lanSend p rx s f n with
    | mk r s1 => have h1 := lanSend_settled2 hg hs hl; cases r <;> exact h1
  | advance ms => exact settled2_pump _ hs
  | setMaxLifetime m => exact ⟨hs.quiet, hs.unarmed, hs.ver, hs.conn⟩
  | authenticate t k => cases hop
  | sendCancelled f ms => cases hop
  | authCancelled t k ms => cases hop

/-- **C08 (V2: faults leave nothing behind).** Any history of exchanges, clock jumps and lifetime changes
    on a V2 session, against a peer that reacts to each write with nothing or with ONE prompt event of
    any kind — an answer, an error packet, garbage, a close — and with any connect outcomes (success,
    refusal, hang), ends in a settled session.  (Induction over histories of any length.) -/
theorem faults_leave_settled_v2 (p : Params) (rx : Reactions) (hg : Gentle2 p rx) (ops : List Op) :
    ∀ s, Settled2 s → (∀ op ∈ ops, PlainOp2 op) → Settled2 (run p rx s ops).2 := by
  induction ops with
  | nil => intro s hs _; exact hs
  | cons op t ih =>
    intro s hs hops
    have h1 := step_settled_v2 p rx hg s op hs (hops op (List.mem_cons_self ..))
    have := ih (step p rx s op).2 h1 (fun o ho => hops o (List.mem_cons_of_mem _ ho))
    simpa [run] using this

/-- where the next transmission will go: the live connection's next write, or the first write of the
    connection that has to be opened -/
def nextWrite (s : S) : Nat × Nat :=
  match s.l.conn with
  | some c => if connAlive s then (c.core.cid, c.core.nWrites) else (s.w.nConn + 1, 0)
  | none => (s.w.nConn + 1, 0)

/-- **C08 (V2: the next exchange after any faults succeeds).** After ANY such history of faults, with no
    user intervention: if the connection attempt the next exchange may need succeeds and the device
    answers the next transmission within the read timeout with a packet that decodes to `f`, `LAN.send`
    returns exactly `[f]` after that single transmission. -/
theorem recovery_after_faults_v2 (p : Params) (rx : Reactions) (hg : Gentle2 p rx) (ops : List Op) (s0 : S)
    (hs0 : Settled2 s0) (hops : ∀ op ∈ ops, PlainOp2 op) (frame : Bytes) (n : Nat) (d : Nat) (b f : Bytes)
    (hconn : connAlive (run p rx s0 ops).2 = false → ∃ cs, (run p rx s0 ops).2.w.connects = .ok :: cs)
    (hrx : rx (nextWrite (run p rx s0 ops).2).1 (nextWrite (run p rx s0 ops).2).2 = [(d, .data b)])
    (hd : d ≤ p.readTimeout) (hdec : packetDecode b = .ok f) :
    ∃ s', lanSend p rx (run p rx s0 ops).2 frame (n + 1) = (.ok [f], s') ∧
      nData (evsOf s') = nData (evsOf (run p rx s0 ops).2) + 1 := by
  have hs := faults_leave_settled_v2 p rx hg ops s0 hs0 hops
  generalize (run p rx s0 ops).2 = s at hs hconn hrx
  rcases settled2_cases hs with hdead | ⟨c, hr, hv, hal⟩
  · obtain ⟨cs, hcs⟩ := hconn hdead
    have hnw : nextWrite s = (s.w.nConn + 1, 0) := by
      unfold nextWrite
      cases hc : s.l.conn with
      | none => rfl
      | some c => simp [hdead]
    rw [hnw] at hrx
    exact recovery_v2 p rx s frame n cs hs.ver hdead hs.quiet hs.unarmed hcs d b f hrx hd hdec
  · have hnw : nextWrite s = (c.core.cid, c.core.nWrites) := by
      unfold nextWrite; rw [hr.conn]; simp [hal]
    rw [hnw] at hrx
    exact exchange_on_idle_session frame n hr hal (by intro h; simp [isV3, hr.conn, hv] at h) d b b f hrx hd
      (by simp [segQueue, hv]) (by simp [decodeWith, hv, hdec])

/-- a fresh V2 `LAN` object is settled -/
theorem settled_v2_fresh (s : S) (h1 : s.w.pending = []) (h2 : s.w.cancelAt = none) (h3 : s.l.version ≠ 3)
    (h4 : s.l.conn = none) : Settled2 s :=
  ⟨h1, h2, h3, by intro c hc; rw [h4] at hc; cases hc⟩

example : Settled2 ({} : S) := settled_v2_fresh _ rfl rfl (by decide) rfl

/-! non-vacuity: a ready state exists and a one-packet V2 answer is a `segQueue` of one item -/
example : Ready { l := { conn := some { core := { cid := 1, v3 := false } } } } { core := { cid := 1, v3 := false } } :=
  ⟨rfl, rfl, rfl, rfl, (by intro h; cases h), rfl⟩
example : segQueue false [] [1, 2, 3] = [[1, 2, 3]] := rfl

end Msmart.Props.C08
