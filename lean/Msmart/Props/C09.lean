/-
  C09 — transport containment, complete: the transport-level theorems (`Props/C09Transport.lean`, for
  every peer: `LAN.send` / `LAN.authenticate` / `Device._send_command` end in frames, a protocol /
  authentication error or a timeout) composed with the application-level containment of C14 through
  the glue of `Lemmas/Stack.lean` — "device-level operations report an unresponsive device instead of
  crashing their caller".
-/
import Msmart.Props.C09Transport
import Msmart.Lemmas.Stack

namespace Msmart.Props.C09
open Msmart Msmart.Model Msmart.Model.Session Msmart.Model.Stack Msmart.Lemmas.Sess

/-- **C09 (device level, composed).** `AirConditioner.refresh()` running over the LAN session never
    raises, whatever the peer sends at the transport level or inside the frames, from every good
    session state (fresh object, or any state reached by contained operations), for every device
    object advertising at most 120 property ids; and the session state stays good. -/
theorem refresh_never_raises (p : Params) (rx : Reactions) (r : Run) (s : S) (hg : Good s)
    (hp : r.dev.supportedProps.length ≤ 120) :
    ∃ r', (refreshLan p rx r s).1 = .ok r' ∧ Good (refreshLan p rx r s).2 :=
  Lemmas.Stack.refreshLan_total p rx r s hg hp

/-- **glue.** `refresh()` over the LAN session is `refresh()` on a reply script (what
    `Device._send_command` returned, command by command): the theorems of C13 / C14 / C16 that hold
    for every reply script hold over every peer. -/
theorem refresh_over_lan_is_refresh_on_a_script (p : Params) (rx : Reactions) (r : Run) (s : S) (hg : Good s) :
    ∃ script : Replies, (refreshLan p rx r s).1 = refresh { r with replies := script ++ r.replies } :=
  Lemmas.Stack.refreshLan_refines p rx r s hg

end Msmart.Props.C09
