import Msmart.Model.PacketV3
namespace Msmart.Props.C09
end Msmart.Props.C09
