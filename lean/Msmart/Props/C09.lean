/-
  C09 — transport containment, complete: the transport-level theorems (`Props/C09Transport.lean`, for
  every peer: `LAN.send` / `LAN.authenticate` / `Device._send_command` end in frames, a protocol /
  authentication error or a timeout) composed with the application-level containment of C14 through
  the glue of `Lemmas/Stack.lean` — "device-level operations report an unresponsive device instead of
  crashing their caller".
-/
import Msmart.Props.C09Transport
import Msmart.Lemmas.CodecEqLan
import Msmart.Lemmas.PacketErr
import Msmart.Props.C04Code
import Msmart.Lemmas.Stack

namespace Msmart.Props.C09
open Msmart Msmart.Model Msmart.Model.Session Msmart.Model.Stack Msmart.Lemmas.Sess

/-- **C09 (device level, composed).** `AirConditioner.refresh()` running over the LAN session never
    raises, whatever the peer sends at the transport level or inside the frames, from every good
    session state (fresh object, or any state reached by contained operations), for every device
    object advertising at most 120 property ids; and the session state stays good. -/
theorem refresh_never_raises (p : Params) (rx : Reactions) (r : Run) (s : S) (hg : Good s)
    (hp : r.dev.supportedProps.length ≤ 120) :
    ∃ r', (refreshLan p rx r s).1 = .ok r' ∧ Good (refreshLan p rx r s).2 :=
  Lemmas.Stack.refreshLan_total p rx r s hg hp

/-- **glue.** `refresh()` over the LAN session is `refresh()` on a reply script (what
    `Device._send_command` returned, command by command): the theorems of C13 / C14 / C16 that hold
    for every reply script hold over every peer. -/
theorem refresh_over_lan_is_refresh_on_a_script (p : Params) (rx : Reactions) (r : Run) (s : S) (hg : Good s) :
    ∃ script : Replies, (refreshLan p rx r s).1 = refresh { r with replies := script ++ r.replies } :=
  Lemmas.Stack.refreshLan_refines p rx r s hg

/-! ### the receive path as translated from the source text -/
section Code
open Msmart.Model Msmart.Lemmas

/-- what the reassembly loop queues has at least the 8 bytes `_process_packet` indexes into -/
theorem reasmStep_packet_len {b p r : Bytes} (h : reasmStep b = some (p, r)) : 8 ≤ p.length := by
  unfold reasmStep at h
  split at h
  · cases h
  · unfold takePacket at h
    split at h
    · cases h
    · split at h
      · cases h
      · simp only [Option.some.injEq, Prod.mk.injEq] at h
        obtain ⟨rfl, _⟩ := h
        rename_i h1 h2
        simp only [List.length_take]
        omega

theorem parseLoop_packet_len (b : Bytes) : ∀ p ∈ (parseLoop b).1, 8 ≤ p.length := by
  induction hn : b.length using Nat.strongRecOn generalizing b with
  | _ n ih =>
    rw [parseLoop.eq_def b]
    split
    · intro p hp; cases hp
    · rename_i p r hstep
      intro q hq
      simp only [List.mem_cons] at hq
      rcases hq with rfl | hq
      · exact reasmStep_packet_len hstep
      · exact ih r.length (by have := reasmStep_shrinks hstep; omega) r rfl q hq

/-- **C09 about the translated code (V3 receive path).** WHATEVER byte sequence the peer sends, in whatever segments: the
    translated loop body of `data_received`, iterated, never raises; every packet it queues has at least 8 bytes; and the
    translated `_process_packet` on such a packet - under any session key or none - returns bytes or fails with a
    ProtocolError, nothing else. -/
theorem v3_receive_contained_code (segs : List Bytes) (key : Option Bytes) :
    ∃ ps rest, C04.feedAllCode [] segs = .ok (ps, rest) ∧
      ∀ p ∈ ps, 8 ≤ p.length ∧ ∀ e, Generated.Codec.processPacket key p = .error e → e = .protocol := by
  refine ⟨(parseLoop segs.flatten).1, (parseLoop segs.flatten).2, C04.segmentation_independent_code segs, ?_⟩
  intro p hp
  have hl := parseLoop_packet_len _ p hp
  refine ⟨hl, fun e he => ?_⟩
  rw [CodecEq.processPacket_eq] at he
  exact processPacket_err (by omega) he

/-- **C09 about the translated `_Packet.decode`**: on ANY byte string it returns a frame or fails with a ProtocolError. -/
theorem v2_decode_contained_code (d : Bytes) (e : Err) (h : Generated.Codec.packetDecode d = .error e) : e = .protocol := by
  rw [CodecEq.packetDecode_eq] at h; exact packetDecode_err h

/-- **C09 about the translated `_get_local_key`**: with a 32-byte key, on ANY reply payload it returns a key or fails with an
    AuthenticationError. -/
theorem handshake_reply_contained_code (key data : Bytes) (hk : key.length = 32) (e : Err)
    (h : Generated.Codec.getLocalKey key data = .error e) : e = .auth := by
  rw [CodecEq.getLocalKey_eq] at h; exact getLocalKey_err hk h

end Code

end Msmart.Props.C09
