/-
  C14 — application containment: no response frame makes an operation raise; undecodable
  responses are skipped and the decodable ones of the same exchange are still applied.
  (About the tree repaired by the `fix:` commits e1e5d79 and 11f899b; before them `construct`
  returned `py "IndexError"` — see `constructInner_can_raise_indexError` — and `get_capabilities`
  could raise AttributeError.)
-/
import Msmart.Lemmas.Contained
import Msmart.Lemmas.CodecEqLan
import Msmart.Props.C12

namespace Msmart.Props.C14
open Msmart Msmart.Model Msmart.Lemmas

/-- **C14 (decoder).** For every byte string whatsoever, `Response.construct` returns a response
    or raises InvalidFrameException / InvalidResponseException — nothing else. -/
theorem construct_contained (f : Bytes) (e : Err) (h : construct f = .error e) :
    e = .invalidFrame ∨ e = .invalidResponse := by
  unfold construct at h
  split at h
  · rename_i e' hc
    cases h
    rcases constructInner_tri f e' hc with h | h | h
    · left; subst h; rfl
    · right; subst h; rfl
    · right; subst h; rfl
  · cases h

/-- history: what the repair removed — the inner decoder does hit IndexError (empty frame) -/
theorem constructInner_can_raise_indexError : constructInner [] = .error indexError := rfl

/-- **C14 (exchange).** `_send_command_get_responses` never raises on any list of frames and
    returns exactly the decodable frames, decoded, in order. -/
theorem constructAll_decodable (fs : List Bytes) :
    constructAll fs = .ok (fs.filterMap (fun f => (construct f).toOption)) := by
  induction fs with
  | nil => rfl
  | cons f t ih =>
    unfold constructAll
    cases hc : construct f with
    | ok r => simp [ih, Except.toOption, hc, bind, Except.bind, pure, Except.pure]
    | error e =>
      rcases construct_contained f e hc with h | h <;> subst h <;>
        simp [ih, Except.toOption, hc]

/-- an error that comes from *encoding a command* (a user-set attribute that does not fit a byte,
    an unsupported property id, an oversized body) — never from a response -/
def EmitErr (e : Err) : Prop := ∃ (c : Cmd) (ctr : Nat), (c.toBytes ctr).1 = .error e

def OnlyEmit {α} (r : R α) : Prop := ∀ e, r = .error e → EmitErr e

theorem bind_onlyEmit {α β} {x : R α} {f : α → R β} (hx : OnlyEmit x) (hf : ∀ a, OnlyEmit (f a)) :
    OnlyEmit (x >>= f) := by
  intro e he
  cases x with
  | error e' => simp only [bind, Except.bind] at he; cases he; exact hx _ rfl
  | ok a => exact hf a e he

theorem pure_onlyEmit {α} (a : α) : OnlyEmit (pure a : R α) := by intro e he; cases he

theorem sendGet_onlyEmit (r : Run) (c : Cmd) : OnlyEmit (sendGet r c) := by
  intro e he
  unfold sendGet at he
  split at he
  · rename_i e' hc; cases he; exact ⟨c, r.counter, hc⟩
  · rw [constructAll_decodable] at he; simp at he

theorem sendAll_onlyEmit (cs : List Cmd) (r : Run) : OnlyEmit (sendAll r cs) := by
  induction cs generalizing r with
  | nil => intro e he; simp [sendAll] at he
  | cons c t ih =>
    unfold sendAll
    apply bind_onlyEmit (sendGet_onlyEmit r c); intro a
    apply bind_onlyEmit (ih a.1); intro b
    exact pure_onlyEmit _

theorem refresh_onlyEmit (r : Run) : OnlyEmit (refresh r) := by
  unfold refresh
  apply bind_onlyEmit (sendAll_onlyEmit _ r); intro a
  exact pure_onlyEmit _

theorem applyProperties_onlyEmit (r : Run) (ps : List (Nat × Nat)) : OnlyEmit (applyProperties r ps) := by
  unfold applyProperties
  apply bind_onlyEmit (sendGet_onlyEmit _ _); intro a
  exact pure_onlyEmit _

theorem apply_onlyEmit (r : Run) : OnlyEmit (apply r) := by
  unfold apply
  apply bind_onlyEmit (sendGet_onlyEmit _ _); intro a
  obtain ⟨r1, rs⟩ := a
  dsimp only
  split
  · exact pure_onlyEmit _
  · apply bind_onlyEmit (applyProperties_onlyEmit _ _); intro b
    exact pure_onlyEmit _

theorem sendGetCaps_onlyEmit (r : Run) (c : Cmd) : OnlyEmit (sendGetCaps r c) := by
  unfold sendGetCaps
  apply bind_onlyEmit (sendGet_onlyEmit _ _); intro a
  exact pure_onlyEmit _

theorem getCapabilities_onlyEmit (r : Run) : OnlyEmit (getCapabilities r) := by
  unfold getCapabilities
  apply bind_onlyEmit (sendGetCaps_onlyEmit _ _); intro a
  obtain ⟨r1, first⟩ := a
  dsimp only
  split
  · split
    · apply bind_onlyEmit (sendGetCaps_onlyEmit _ _); intro b
      obtain ⟨r2, second⟩ := b
      dsimp only
      split <;> exact pure_onlyEmit _
    · exact pure_onlyEmit _
  · exact pure_onlyEmit _

theorem toggleDisplay_onlyEmit (r : Run) : OnlyEmit (toggleDisplay r) := by
  unfold toggleDisplay
  apply bind_onlyEmit (sendGet_onlyEmit _ _); intro a
  exact refresh_onlyEmit _

theorem startSelfClean_onlyEmit (r : Run) : OnlyEmit (startSelfClean r) :=
  applyProperties_onlyEmit _ _

/-- **C14 (operations).** For every device state, every counter and *every* script of reply frame
    lists, refresh / apply / get_capabilities / toggle_display / start_self_clean either return
    normally or fail with an error produced by encoding one of their own commands; no reply frame
    can make them raise. -/
theorem operations_contained (r : Run) :
    OnlyEmit (refresh r) ∧ OnlyEmit (apply r) ∧ OnlyEmit (getCapabilities r) ∧
    OnlyEmit (toggleDisplay r) ∧ OnlyEmit (startSelfClean r) :=
  ⟨refresh_onlyEmit r, apply_onlyEmit r, getCapabilities_onlyEmit r, toggleDisplay_onlyEmit r,
   startSelfClean_onlyEmit r⟩

theorem sendGet_ok (r : Run) (c : Cmd) (b : Bytes) (hb : c.body = .ok b) (hl : b.length ≤ 243) :
    ∃ out, sendGet r c = .ok out := by
  obtain ⟨f, hf⟩ := C12.command_emitted c r.counter b hb hl
  unfold sendGet
  rw [hf, constructAll_decodable]
  exact ⟨_, rfl⟩

theorem sendAll_ok (cs : List Cmd) (hcs : ∀ c ∈ cs, ∃ b, c.body = .ok b ∧ b.length ≤ 243) (r : Run) :
    ∃ out, sendAll r cs = .ok out := by
  induction cs generalizing r with
  | nil => exact ⟨_, rfl⟩
  | cons c t ih =>
    obtain ⟨b, hb, hl⟩ := hcs c (by simp)
    obtain ⟨o1, h1⟩ := sendGet_ok r c b hb hl
    obtain ⟨o2, h2⟩ := ih (fun c hc => hcs c (by simp [hc])) o1.1
    unfold sendAll
    rw [h1]
    simp only [bind, Except.bind]
    rw [h2]
    exact ⟨_, rfl⟩

/-- **C14 (refresh is total).** Whatever the device replies — any frames, any number, in answer to
    any of the queries — `refresh()` returns normally, for every device object whose advertised
    property set has at most 120 ids (there are 12 property ids in all). -/
theorem refresh_total (r : Run) (hp : r.dev.supportedProps.length ≤ 120) :
    ∃ r', refresh r = .ok r' := by
  have hcs : ∀ c ∈ refreshCommands r.dev, ∃ b, c.body = .ok b ∧ b.length ≤ 243 := by
    intro c hc
    unfold refreshCommands at hc
    simp only [List.mem_append, List.mem_singleton] at hc
    rcases hc with ((rfl | hc) | hc) | hc
    · exact ⟨_, rfl, by decide⟩
    · split at hc
      · simp only [List.mem_singleton] at hc; subst hc; exact ⟨_, rfl, by decide⟩
      · simp at hc
    · split at hc
      · simp only [List.mem_singleton] at hc; subst hc; exact ⟨_, rfl, by decide⟩
      · simp at hc
    · split at hc
      · simp at hc
      · simp only [List.mem_singleton] at hc; subst hc
        refine ⟨_, by simp only [Cmd.body]; rw [if_neg (by omega)], ?_⟩
        have hsum : ∀ l : List Nat, (List.map (fun _ => 2) l).sum = 2 * l.length := by
          intro l; induction l with
          | nil => rfl
          | cons _ t ih => simp [ih]; omega
        simp [List.length_flatten, le16, Function.comp_def, hsum]
        omega
  obtain ⟨o, ho⟩ := sendAll_ok _ hcs r
  unfold refresh
  rw [ho]
  exact ⟨_, rfl⟩

/-! non-vacuity -/
example : construct [] = .error .invalidResponse := rfl
example : (construct [0xaa,0x22,0xac,0,0,0,0,0,3,3,0xc0,1,0x45,0x66,0,0,0,0x30,0,0x10,4,0x5c,0xff,0x20,0x70,0,0,0,0,0,0,0,0x8b,0xed,0x19]).toOption.isSome = true := by decide +kernel


/-! ### histories: any number of operations in a row on the same object -/

/-- the public operations of the property, plus arbitrary changes of the local attributes between them
    (`tweak`: what setter calls do to the record) -/
inductive HOp where
  | refresh | apply | getCapabilities | toggleDisplay | startSelfClean
  | tweak (f : Dev → Dev)

def stepH (r : Run) : HOp → R Run
  | .refresh => refresh r
  | .apply => apply r
  | .getCapabilities => getCapabilities r
  | .toggleDisplay => toggleDisplay r
  | .startSelfClean => startSelfClean r
  | .tweak f => pure { r with dev := f r.dev }

def runH : Run → List HOp → R Run
  | r, [] => pure r
  | r, op :: t => stepH r op >>= fun r1 => runH r1 t

theorem stepH_onlyEmit (r : Run) (op : HOp) : OnlyEmit (stepH r op) := by
  cases op with
  | refresh => exact refresh_onlyEmit r
  | apply => exact apply_onlyEmit r
  | getCapabilities => exact getCapabilities_onlyEmit r
  | toggleDisplay => exact toggleDisplay_onlyEmit r
  | startSelfClean => exact startSelfClean_onlyEmit r
  | tweak f => exact pure_onlyEmit _

/-- **C14 (histories).** For EVERY sequence of operations on one device object - refresh, apply, capability query,
    display toggle, self-clean, with arbitrary local attribute changes in between - and EVERY reply script (whatever an
    earlier response left behind in the object), the sequence can only fail by failing to ENCODE one of its own commands;
    nothing a device sends makes a later operation raise. -/
theorem history_contained (ops : List HOp) (r : Run) : OnlyEmit (runH r ops) := by
  induction ops generalizing r with
  | nil => exact pure_onlyEmit r
  | cons op t ih => exact bind_onlyEmit (stepH_onlyEmit r op) (fun r1 => ih r1)

example : ∃ r', runH { dev := {}, replies := [[], [[0xAA]], []], counter := 7, sent := [] } [.refresh, .tweak (fun d => { d with power := true }), .toggleDisplay] = .ok r' :=
  ⟨_, rfl⟩

/-! ### the dispatch of `Response.construct` as translated from the source text -/

/-- **C14 about the translated `Response.construct` / `_construct`** (everything up to the call of the response class): on ANY
    byte string it either selects a class and a payload or fails with InvalidFrameException / InvalidResponseException - the two
    exceptions the device layer catches - and with nothing else (IndexError is mapped by the translated `try … except`). -/
theorem construct_dispatch_contained_code (frame : Bytes) (e : Err)
    (h : Generated.Codec.constructOuter frame = .error e) : e = .invalidFrame ∨ e = .invalidResponse := by
  rw [CodecEq.constructOuter_eq] at h
  cases hd : constructDispatch frame with
  | ok r => rw [hd] at h; cases h
  | error e0 =>
    rw [hd] at h
    rcases CodecEq.constructDispatch_errs hd with r | r | r
    · subst r; cases h; exact .inl rfl
    · subst r; cases h; exact .inr rfl
    · subst r
      have : Py.mapErr "IndexError" Err.invalidResponse (Except.error indexError : R (Int × Bytes)) = .error .invalidResponse := by
        rfl
      rw [this] at h; cases h; exact .inr rfl

/-- **C14 about the translated `HumidityResponse._parse`**: on ANY payload it yields the reading (unknown for 0) or fails with
    the IndexError that `Response.construct` maps - nothing else. -/
theorem humidity_parse_contained_code (p : Bytes) (e : Err) (h : Generated.Codec.parseHumidity p = .error e) : e = indexError := by
  rw [CodecEq.parseHumidity_eq] at h
  unfold parseHumidity at h
  cases hi : Py.idx p 4 with
  | error e' =>
    rw [hi] at h
    simp only [bind, Except.bind, Except.map] at h
    cases h
    exact CodecEq.idx_errs hi
  | ok x => rw [hi] at h; simp [bind, Except.bind, Except.map, pure, Except.pure] at h

end Msmart.Props.C14
