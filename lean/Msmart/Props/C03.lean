/-
  C03 — V2 packet integrity: a packet is accepted only when its signature matches its content;
  truncations and alterations are rejected outright or reduce to an explicit MD5 event.
-/
import Msmart.Lemmas.CodecEqLan
import Msmart.Props.C02

set_option linter.unusedSimpArgs false

namespace Msmart.Props.C03
open Msmart Msmart.Model Msmart.Lemmas Msmart.Crypto

/-- **C03 (accepted only when signed).** Whatever bytes arrive, if the decoder gets past its
    checks then the bytes carry the start marker, a length field not exceeding what arrived, and —
    for the packet cut to that length — a last-16-byte tag equal to the keyed MD5 of everything
    before it; the ciphertext handed to the cipher is exactly bytes 40.. of that signed part. -/
theorem accepted_only_when_signed (data enc : Bytes) (h : packetCheck data = .ok enc) :
    6 ≤ data.length ∧ data.take 2 = [0x5A, 0x5A] ∧
    Py.fromLE ((data.drop 4).take 2) ≤ data.length ∧
    sign ((v2Cut data).take ((v2Cut data).length - 16)) = (v2Cut data).drop ((v2Cut data).length - 16) ∧
    enc = ((v2Cut data).take ((v2Cut data).length - 16)).drop 40 := by
  unfold packetCheck at h
  split at h
  · cases h
  · split at h
    · cases h
    · split at h
      · cases h
      · split at h
        · cases h
        · rename_i h1 h2 h3 h4
          cases h
          exact ⟨by omega, by simpa using h2, by omega, by simpa using h4, rfl⟩

theorem decode_accepts_only_signed (data f : Bytes) (h : packetDecode data = .ok f) :
    ∃ enc, packetCheck data = .ok enc := by
  unfold packetDecode at h
  cases hc : packetCheck data with
  | error e => simp [hc] at h
  | ok enc => exact ⟨enc, rfl⟩

theorem decode_of_check_err {d : Bytes} {e : Err} (h : packetCheck d = .error e) :
    packetDecode d = .error e := by
  unfold packetDecode; rw [h]

/-- an authentic packet: what a device (the independent encoder) emits for a frame -/
def authentic (id : Nat) (ts filler frame : Bytes) : Bytes := Spec.V2.encode id ts filler frame

theorem authentic_shape (id : Nat) (ts filler frame : Bytes) :
    authentic id ts filler frame =
      (Spec.V2.header id ts filler frame ++ encryptAes frame) ++
        sign (Spec.V2.header id ts filler frame ++ encryptAes frame) := by
  simp [authentic, Spec.V2.encode, spec_body_eq, List.append_assoc, sign, signKey_eq]

theorem authentic_length (id : Nat) (ts filler frame : Bytes) (hts : ts.length = 8) (hfl : filler.length = 12)
    (hlen : 56 + (encryptAes frame).length < 65536) :
    (authentic id ts filler frame).length = 56 + (encryptAes frame).length := by
  obtain ⟨hH, _, _, _⟩ := C02.spec_header_facts frame ts filler id hts hfl hlen
  rw [authentic_shape]; simp [hH, sign_length]; omega

/-- **C03 (truncation).** Every proper prefix of an authentic packet is rejected with a protocol
    error (too short, or shorter than its own length field). -/
theorem truncation_rejected (id : Nat) (ts filler frame : Bytes) (hts : ts.length = 8) (hfl : filler.length = 12)
    (hlen : 56 + (encryptAes frame).length < 65536) (n : Nat)
    (hn : n < (authentic id ts filler frame).length) :
    packetDecode ((authentic id ts filler frame).take n) = .error .protocol := by
  obtain ⟨hH, h2, hl, _⟩ := C02.spec_header_facts frame ts filler id hts hfl hlen
  have hL := authentic_length id ts filler frame hts hfl hlen
  have htl : ((authentic id ts filler frame).take n).length = n := by
    rw [List.length_take]; omega
  apply decode_of_check_err
  unfold packetCheck
  by_cases h6 : n < 6
  · rw [if_pos (by rw [htl]; exact h6)]
  · rw [if_neg (by rw [htl]; exact h6)]
    have hfield : Py.fromLE ((((authentic id ts filler frame).take n).drop 4).take 2) = 56 + (encryptAes frame).length := by
      have : (((authentic id ts filler frame).take n).drop 4).take 2 =
          ((Spec.V2.header id ts filler frame).drop 4).take 2 := by
        rw [authentic_shape, List.append_assoc, List.drop_take, List.take_take,
          C02.drop_take_of_prefix _ _ 4 _ (by omega)]
        congr 1; omega
      rw [this, hl]
    by_cases hm : ((authentic id ts filler frame).take n).take 2 ≠ [0x5A, 0x5A]
    · rw [if_pos hm]
    · rw [if_neg hm, if_pos (by rw [hfield, htl]; omega)]

/-- **C03 (tag).** Any alteration confined to the 16-byte signature is rejected outright. -/
theorem tag_alteration_rejected (id : Nat) (ts filler frame tag' : Bytes) (hts : ts.length = 8)
    (hfl : filler.length = 12) (hlen : 56 + (encryptAes frame).length < 65536)
    (htl : tag'.length = 16)
    (hne : tag' ≠ sign (Spec.V2.header id ts filler frame ++ encryptAes frame)) :
    packetDecode ((Spec.V2.header id ts filler frame ++ encryptAes frame) ++ tag') = .error .protocol := by
  obtain ⟨hH, h2, hl, _⟩ := C02.spec_header_facts frame ts filler id hts hfl hlen
  have hlen' : ((Spec.V2.header id ts filler frame ++ encryptAes frame) ++ tag').length = 56 + (encryptAes frame).length := by
    simp [hH, htl]; omega
  have hf : Py.fromLE ((((Spec.V2.header id ts filler frame ++ encryptAes frame) ++ tag').drop 4).take 2) =
      56 + (encryptAes frame).length := by
    rw [List.append_assoc, C02.drop_take_of_prefix _ _ 4 2 (by omega), hl]
  have hcut : v2Cut ((Spec.V2.header id ts filler frame ++ encryptAes frame) ++ tag') =
      (Spec.V2.header id ts filler frame ++ encryptAes frame) ++ tag' := by
    unfold v2Cut; rw [hf, ← hlen', List.take_length]
  apply decode_of_check_err
  unfold packetCheck
  rw [if_neg (by rw [hlen']; omega)]
  by_cases hm : ((Spec.V2.header id ts filler frame ++ encryptAes frame) ++ tag').take 2 ≠ [0x5A, 0x5A]
  · rw [if_pos hm]
  · rw [if_neg hm, if_neg (by rw [hf, hlen']; omega), hcut, take_sub16 _ _ htl, drop_sub16 _ _ htl,
      if_pos (fun h => hne h.symm)]

/-- **C03 (marker).** Any alteration of the start marker is rejected outright. -/
theorem marker_alteration_rejected (data : Bytes) (h : data.take 2 ≠ [0x5A, 0x5A]) :
    packetDecode data = .error .protocol := by
  apply decode_of_check_err
  unfold packetCheck
  by_cases h6 : data.length < 6
  · rw [if_pos h6]
  · rw [if_neg h6, if_pos h]

/-- **C03 (length field).** A length field that claims more than what arrived is rejected outright. -/
theorem length_increase_rejected (data : Bytes) (h : data.length < Py.fromLE ((data.drop 4).take 2)) :
    packetDecode data = .error .protocol := by
  apply decode_of_check_err
  unfold packetCheck
  by_cases h6 : data.length < 6
  · rw [if_pos h6]
  · rw [if_neg h6]
    by_cases hm : data.take 2 ≠ [0x5A, 0x5A]
    · rw [if_pos hm]
    · rw [if_neg hm, if_pos h]

/-- the named cryptographic event: two different inputs with the same MD5 -/
def Md5Collision (x y : Bytes) : Prop := x ≠ y ∧ MD5.md5 x = MD5.md5 y

/-- **C03 (reduction).** Take an authentic packet and alter its signed part (header or encrypted
    payload, in any number of bytes) while keeping its length, its length field and its tag. If
    the decoder gets past the signature check at all, then the original and the altered signed
    text (each followed by the fixed key) are an explicit MD5 collision.  In particular a decoded
    frame different from the one sent is impossible without that event. -/
theorem payload_alteration_collision (id : Nat) (ts filler frame hb' enc : Bytes) (hts : ts.length = 8)
    (hfl : filler.length = 12) (hlen : 56 + (encryptAes frame).length < 65536)
    (hsame : hb'.length = (Spec.V2.header id ts filler frame ++ encryptAes frame).length)
    (hne : hb' ≠ Spec.V2.header id ts filler frame ++ encryptAes frame)
    (hlf : Py.fromLE ((hb'.drop 4).take 2) = 56 + (encryptAes frame).length)
    (hacc : packetCheck (hb' ++ sign (Spec.V2.header id ts filler frame ++ encryptAes frame)) = .ok enc) :
    Md5Collision (hb' ++ Generated.signKey)
      ((Spec.V2.header id ts filler frame ++ encryptAes frame) ++ Generated.signKey) := by
  obtain ⟨hH, _, _, _⟩ := C02.spec_header_facts frame ts filler id hts hfl hlen
  obtain ⟨_, _, _, hsig, _⟩ := accepted_only_when_signed _ _ hacc
  have hbl : hb'.length = 40 + (encryptAes frame).length := by rw [hsame]; simp [hH]
  have htot : (hb' ++ sign (Spec.V2.header id ts filler frame ++ encryptAes frame)).length =
      56 + (encryptAes frame).length := by simp [hbl, sign_length]; omega
  have hf : Py.fromLE (((hb' ++ sign (Spec.V2.header id ts filler frame ++ encryptAes frame)).drop 4).take 2) =
      56 + (encryptAes frame).length := by
    rw [C02.drop_take_of_prefix _ _ 4 2 (by omega), hlf]
  have hcut : v2Cut (hb' ++ sign (Spec.V2.header id ts filler frame ++ encryptAes frame)) =
      hb' ++ sign (Spec.V2.header id ts filler frame ++ encryptAes frame) := by
    unfold v2Cut; rw [hf, ← htot, List.take_length]
  rw [hcut, take_sub16 _ _ (sign_length _), drop_sub16 _ _ (sign_length _)] at hsig
  refine ⟨fun h => hne (List.append_cancel_right h), hsig⟩

/-! non-vacuity: the hypotheses are met by a concrete authentic packet -/
example : (authentic 7 (Py.zeros 8) (Py.zeros 12) [1, 2, 3]).length = 72 := by
  rw [authentic_length _ _ _ _ rfl rfl (by rw [encryptAes_length]; decide), encryptAes_length]; rfl


/-! ### about the code as translated from the source text (tie by translation, §3.1b) -/

/-- **C03 about the translated `_Packet.decode`**: it IS the model's `packetDecode` on every byte string, so every
    theorem of this file (exact acceptance condition, truncation, tag / marker / length alterations, the collision
    reduction) is a statement about the translated code; the acceptance condition restated: -/
theorem decode_accepts_only_signed_code (data f : Bytes) (h : Generated.Codec.packetDecode data = .ok f) :
    ∃ enc, packetCheck data = .ok enc := by
  rw [CodecEq.packetDecode_eq] at h; exact decode_accepts_only_signed data f h

theorem marker_alteration_rejected_code (data : Bytes) (h : data.take 2 ≠ [0x5A, 0x5A]) :
    Generated.Codec.packetDecode data = .error .protocol := by
  rw [CodecEq.packetDecode_eq]; exact marker_alteration_rejected data h

end Msmart.Props.C03
