/-
  C04 — V3 stream reassembly is segmentation-independent: each packet is delivered exactly once,
  complete, in order, as soon as its last byte has arrived; garbage before a marker is skipped.
-/
import Msmart.Model.Reassembly

set_option linter.unusedSimpArgs false

namespace Msmart.Props.C04
open Msmart Msmart.Model

theorem find2_append {a b : UInt8} {x : Bytes} {i : Nat} (y : Bytes) (h : Py.find2 a b x = some i) :
    Py.find2 a b (x ++ y) = some i := by
  induction x generalizing i with
  | nil => simp [Py.find2] at h
  | cons c t ih =>
    cases t with
    | nil => simp [Py.find2] at h
    | cons d t' =>
      simp only [List.cons_append, Py.find2] at h ⊢
      split
      · simp_all
      · rename_i hne
        simp only [hne, ↓reduceIte, Option.map_eq_some_iff] at h
        obtain ⟨j, hj, rfl⟩ := h
        have := ih hj
        simp only [List.cons_append] at this
        simp [this]

theorem find2_lt {a b : UInt8} {x : Bytes} {i : Nat} (h : Py.find2 a b x = some i) : i + 2 ≤ x.length := by
  induction x generalizing i with
  | nil => simp [Py.find2] at h
  | cons c t ih =>
    cases t with
    | nil => simp [Py.find2] at h
    | cons d t' =>
      simp only [Py.find2] at h
      split at h
      · simp at h; subst h; simp
      · simp only [Option.map_eq_some_iff] at h
        obtain ⟨j, hj, rfl⟩ := h
        have := ih hj
        simp at this ⊢; omega

theorem findMarker_append {x : Bytes} {i : Nat} (y : Bytes) (h : findMarker x = some i) :
    findMarker (x ++ y) = some i := find2_append y h

theorem findMarker_lt {x : Bytes} {i : Nat} (h : findMarker x = some i) : i + 2 ≤ x.length := find2_lt h

theorem step_append {x p r : Bytes} (y : Bytes) (h : reasmStep x = some (p, r)) :
    reasmStep (x ++ y) = some (p, r ++ y) := by
  unfold reasmStep at h ⊢
  split at h
  · simp at h
  · rename_i start hs
    have hlt := findMarker_lt hs
    rw [findMarker_append y hs]
    simp only
    unfold takePacket at h ⊢
    split at h
    · simp at h
    · rename_i h6
      split at h
      · simp at h
      · rename_i htot
        simp only [Option.some.injEq, Prod.mk.injEq] at h
        obtain ⟨rfl, rfl⟩ := h
        have hd : (x ++ y).drop start = x.drop start ++ y := by
          rw [List.drop_append_of_le_length (by omega)]
        have hsz : sizeField (x.drop start ++ y) = sizeField (x.drop start) := by
          simp only [List.length_drop, Nat.not_lt] at h6
          unfold sizeField
          have h2 : 2 < (x.drop start).length := by simp; omega
          have h3 : 3 < (x.drop start).length := by simp; omega
          simp [List.getD_eq_getElem?_getD, List.getElem?_append_left h2, List.getElem?_append_left h3]
        rw [hd, hsz]
        simp only [List.length_drop, Nat.not_lt] at h6 htot
        have hl : ¬ ((x.drop start ++ y).length < 6) := by simp; omega
        have ht : ¬ ((x.drop start ++ y).length < sizeField (x.drop start) + 8) := by simp; omega
        simp only [hl, ht, ↓reduceIte, Option.some.injEq, Prod.mk.injEq]
        constructor
        · rw [List.take_append_of_le_length (by simp; omega)]
        · rw [List.drop_append_of_le_length (by simp; omega)]

/-- **prefix stability**: what has been queued from a prefix of the stream stays queued, and the
    rest of the stream is processed from the left-over buffer -/
theorem parseLoop_append (x y : Bytes) :
    parseLoop (x ++ y) = ((parseLoop x).1 ++ (parseLoop ((parseLoop x).2 ++ y)).1,
                          (parseLoop ((parseLoop x).2 ++ y)).2) := by
  induction hn : x.length using Nat.strongRecOn generalizing x with
  | _ n ih =>
    rw [parseLoop.eq_def x]
    split
    · simp
    · rename_i p r hstep
      have hsa := step_append y hstep
      rw [parseLoop.eq_def (x ++ y)]
      split
      · rename_i hc; rw [hsa] at hc; simp at hc
      · rename_i p' r' hc
        rw [hsa] at hc
        simp only [Option.some.injEq, Prod.mk.injEq] at hc
        obtain ⟨rfl, rfl⟩ := hc
        have := ih r.length (by have := reasmStep_shrinks hstep; omega) r rfl
        simp only [this, List.cons_append]

/-- a buffer from which no complete packet can be taken -/
def Stable (b : Bytes) : Prop := reasmStep b = none

theorem parseLoop_stable {b : Bytes} (h : Stable b) : parseLoop b = ([], b) := by
  rw [parseLoop.eq_def]; split
  · rfl
  · rename_i p r hs; rw [h] at hs; cases hs

theorem parseLoop_remainder_stable (x : Bytes) : Stable (parseLoop x).2 := by
  induction hn : x.length using Nat.strongRecOn generalizing x with
  | _ n ih =>
    rw [parseLoop.eq_def x]
    split
    · rename_i h; exact h
    · rename_i p r hstep
      exact ih r.length (by have := reasmStep_shrinks hstep; omega) r rfl

theorem stable_nil : Stable [] := rfl

/-- **C04 (segmentation independence).** However TCP splits or coalesces the stream — any number
    of cuts, down to single bytes, up to many packets per segment — the packets queued by the
    successive `data_received` calls, and the buffer left over, are those of one call with the whole
    stream. -/
theorem segmentation_independent (segs : List Bytes) (buf : Bytes) (hb : Stable buf) :
    feedAll buf segs = parseLoop (buf ++ segs.flatten) := by
  induction segs generalizing buf with
  | nil => simp only [feedAll, List.flatten_nil, List.append_nil]; exact (parseLoop_stable hb).symm
  | cons s t ih =>
    simp only [feedAll, feed, List.flatten_cons]
    rw [ih _ (parseLoop_remainder_stable _), ← List.append_assoc, parseLoop_append (buf ++ s)]

/-- two segmentations of the same byte stream deliver the same packets and leave the same buffer -/
theorem same_stream_same_result (segs₁ segs₂ : List Bytes) (h : segs₁.flatten = segs₂.flatten) :
    feedAll [] segs₁ = feedAll [] segs₂ := by
  rw [segmentation_independent _ _ stable_nil, segmentation_independent _ _ stable_nil, h]

/-! ### well-formed streams -/

/-- a V3 packet as a device sends it: marker, 2-byte big-endian size, and size + 4 more bytes
    (any content — including bytes that look like a marker) -/
structure WfPacket (p : Bytes) : Prop where
  marker : p.take 2 = [0x83, 0x70]
  len : 8 ≤ p.length
  size : p.length = sizeField p + 8

def MarkerFree (g : Bytes) : Prop := findMarker g = none

theorem findMarker_garbage_packet (g p rest : Bytes) (hg : MarkerFree g) (hp : p.take 2 = [0x83, 0x70]) :
    findMarker (g ++ p ++ rest) = some g.length := by
  obtain ⟨t, rfl⟩ : ∃ t, p = 0x83 :: 0x70 :: t := by
    match p, hp with
    | a :: b :: t, h => simp at h; obtain ⟨rfl, rfl⟩ := h; exact ⟨t, rfl⟩
  unfold MarkerFree findMarker at hg
  unfold findMarker
  induction g with
  | nil => simp [Py.find2]
  | cons c g' ih =>
    cases g' with
    | nil =>
      simp only [List.cons_append, List.nil_append, Py.find2, List.length_cons, List.length_nil]
      split
      · rename_i h; exact absurd h.2 (by decide)
      · simp
    | cons d g'' =>
      simp only [Py.find2] at hg
      split at hg
      · simp at hg
      · rename_i hne
        simp only [Option.map_eq_none_iff] at hg
        have := ih hg
        simp only [List.cons_append, Py.find2, hne, ↓reduceIte, List.length_cons] at this ⊢
        rw [this]; simp

theorem sizeField_append (p rest : Bytes) (h : 4 ≤ p.length) : sizeField (p ++ rest) = sizeField p := by
  unfold sizeField
  simp [List.getD_eq_getElem?_getD, List.getElem?_append_left (show 2 < p.length by omega),
    List.getElem?_append_left (show 3 < p.length by omega)]

theorem reasmStep_garbage (g p rest : Bytes) (hg : MarkerFree g) (hp : p.take 2 = [0x83, 0x70]) :
    reasmStep (g ++ p ++ rest) = takePacket (p ++ rest) := by
  unfold reasmStep
  rw [findMarker_garbage_packet g p rest hg hp]
  have hd : (g ++ p ++ rest).drop g.length = p ++ rest := by
    rw [List.append_assoc, List.drop_append_of_le_length (Nat.le_refl _), List.drop_length, List.nil_append]
  simp only [hd]

/-- skipping marker-free garbage, a complete well-formed packet is taken off whole, whatever follows -/
theorem step_garbage_packet (g p rest : Bytes) (hg : MarkerFree g) (hp : WfPacket p) :
    reasmStep (g ++ p ++ rest) = some (p, rest) := by
  rw [reasmStep_garbage g p rest hg hp.marker]
  unfold takePacket
  have hsz := sizeField_append p rest (by have := hp.len; omega)
  rw [hsz]
  have h1 : ¬ (p ++ rest).length < 6 := by have := hp.len; simp; omega
  have h2 : ¬ (p ++ rest).length < sizeField p + 8 := by have := hp.size; simp; omega
  rw [if_neg h1, if_neg h2, ← hp.size, List.take_append_of_le_length (Nat.le_refl _), List.take_length,
    List.drop_append_of_le_length (Nat.le_refl _), List.drop_length, List.nil_append]

/-- a proper prefix (of at least two bytes) of a well-formed packet is not yet a packet -/
theorem takePacket_partial (p : Bytes) (hp : WfPacket p) (j : Nat) (hj : j < p.length) :
    takePacket (p.take j) = none := by
  unfold takePacket
  have hlen : (p.take j).length = j := by rw [List.length_take]; omega
  by_cases h6 : (p.take j).length < 6
  · rw [if_pos h6]
  · rw [if_neg h6]
    have hsz : sizeField (p.take j) = sizeField p := by
      unfold sizeField
      have h2 : 2 < j := by omega
      have h3 : 3 < j := by omega
      simp only [List.getD_eq_getElem?_getD, List.getElem?_take, h2, h3, ↓reduceIte]
    rw [if_pos (by rw [hsz, hlen]; have := hp.size; omega)]

theorem markerFree_snoc83 (g : Bytes) (hg : MarkerFree g) : MarkerFree (g ++ [0x83]) := by
  unfold MarkerFree findMarker at *
  induction g with
  | nil => rfl
  | cons c g' ih =>
    cases g' with
    | nil =>
      simp only [List.cons_append, List.nil_append, Py.find2]
      split
      · rename_i h; exact absurd h.2 (by decide)
      · rfl
    | cons d g'' =>
      simp only [Py.find2] at hg
      split at hg
      · simp at hg
      · rename_i hne
        simp only [Option.map_eq_none_iff] at hg
        have := ih hg
        simp only [List.cons_append, Py.find2, hne, ↓reduceIte, Option.map_eq_none_iff] at this ⊢
        exact this

/-- garbage followed by a proper prefix of a packet: nothing can be taken yet -/
theorem stable_garbage_partial (g q : Bytes) (hg : MarkerFree g) (hq : WfPacket q) (j : Nat)
    (hj : j < q.length) : Stable (g ++ q.take j) := by
  obtain ⟨t, rfl⟩ : ∃ t, q = 0x83 :: 0x70 :: t := by
    have := hq.marker
    match q, this with
    | a :: b :: t, h => simp at h; obtain ⟨rfl, rfl⟩ := h; exact ⟨t, rfl⟩
  unfold Stable
  match j, hj with
  | 0, _ =>
    simp only [List.take_zero, List.append_nil]
    unfold reasmStep; rw [show findMarker g = none from hg]
  | 1, _ =>
    simp only [List.take_succ_cons, List.take_zero]
    unfold reasmStep; rw [show findMarker (g ++ [0x83]) = none from markerFree_snoc83 g hg]
  | j + 2, hj =>
    have := reasmStep_garbage g (List.take (j + 2) (0x83 :: 0x70 :: t)) [] hg (by simp)
    simp only [List.append_nil] at this
    rw [this]
    exact takePacket_partial _ hq (j + 2) hj

/-- **C04 (exactly once, complete, in order; garbage skipped; delivered on the last byte).**
    For any marker-free garbage prefix `g`, any list of well-formed packets `ps`, and any proper
    prefix of one further well-formed packet `q` (possibly empty), feeding
    `g ++ p₁ ++ … ++ pₙ ++ q[:j]` queues exactly `[p₁, …, pₙ]` — each once, whole, in order — and
    keeps the unfinished `q[:j]`: so a packet is queued by the call that carries its last byte, not
    earlier (proper prefix: not queued) and not later. -/
theorem parse_stream (ps : List Bytes) (hps : ∀ p ∈ ps, WfPacket p) (g q : Bytes) (hg : MarkerFree g)
    (hq : WfPacket q) (j : Nat) (hj : j < q.length) :
    parseLoop (g ++ ps.flatten ++ q.take j) = (ps, (if ps = [] then g else []) ++ q.take j) := by
  induction ps generalizing g with
  | nil =>
    simp only [List.flatten_nil, List.append_nil, ↓reduceIte]
    exact parseLoop_stable (stable_garbage_partial g q hg hq j hj)
  | cons p t ih =>
    have hp := hps p (by simp)
    have hstep : reasmStep (g ++ (p :: t).flatten ++ q.take j) = some (p, t.flatten ++ q.take j) := by
      have := step_garbage_packet g p (t.flatten ++ q.take j) hg hp
      simpa [List.flatten_cons, List.append_assoc] using this
    rw [parseLoop.eq_def]
    split
    · rename_i hc; rw [hstep] at hc; cases hc
    · rename_i p' r' hc
      rw [hstep] at hc
      simp only [Option.some.injEq, Prod.mk.injEq] at hc
      obtain ⟨rfl, rfl⟩ := hc
      have := ih (fun x hx => hps x (by simp [hx])) [] rfl
      simp only [List.nil_append] at this
      rw [this]
      simp

/-- complete stream, nothing pending: everything delivered, buffer empty -/
theorem parse_complete_stream (ps : List Bytes) (hps : ∀ p ∈ ps, WfPacket p) (hne : ps ≠ []) (g : Bytes)
    (hg : MarkerFree g) :
    parseLoop (g ++ ps.flatten) = (ps, []) := by
  have hq : WfPacket [0x83, 0x70, 0, 0, 0, 0, 0, 0] := ⟨rfl, by decide, by decide⟩
  have := parse_stream ps hps g _ hg hq 0 (by decide)
  simpa [hne] using this

/-! non-vacuity -/
example : WfPacket [0x83, 0x70, 0x00, 0x02, 0x20, 0x00, 0x83, 0x70, 0xAA, 0xBB] := ⟨rfl, by decide, by decide⟩
example : MarkerFree [0x12, 0x83, 0x83] := by unfold MarkerFree; decide

end Msmart.Props.C04
