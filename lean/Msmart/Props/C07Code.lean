/-
  C07 about the TRANSLATED `_LanProtocolV3.write` (`Generated.Codec.writeV3`, rewritten from the source text of /repo on
  every run): successive writes on one connection carry consecutive counters modulo 4096, each decodable by the
  independent implementation under the session key; an unknown packet type writes nothing.
-/
import Msmart.Props.C05
import Msmart.Lemmas.CodecEqLan

namespace Msmart.Props.C07
open Msmart Msmart.Model Msmart.Generated

/-- one `write(data)` (encrypted request) with counter `c < 4096`: the packet decodes, at the independent implementation,
    to exactly this counter and payload, and the counter afterwards is `c + 1` wrapped to 12 bits -/
theorem write_data_code (k data pad : Bytes) (c : Nat) (hc : c < 4096)
    (hpl : pad.length = v3Pad data.length) (hsz : data.length + v3Pad data.length + 32 < 65536) :
    ∃ p, Codec.writeV3 (some k) (c : Int) data 6 pad = .ok (p, (((c + 1) % 4096 : Nat) : Int)) ∧
      Spec.V3.decodeEncrypted k p = some ⟨6, c, data⟩ := by
  obtain ⟨p, hp, hd⟩ := C05.v3_spec_decodes_request_code k data pad c (by omega) hpl hsz
  refine ⟨p, ?_, hd⟩
  rw [CodecEq.writeV3_eq]
  unfold writeV3I
  rw [if_pos rfl, ← CodecEq.encodeEncryptedRequest_eq, hp]
  simp only []
  first
  | done
  | (have e : ((c : Int) + 1) % 4096 = (((c + 1) % 4096 : Nat) : Int) := by omega
     rw [e])
  | (congr 2 <;> omega)

/-- a packet type other than ENCRYPTED_REQUEST / HANDSHAKE_REQUEST: TypeError, nothing handed to the transport -/
theorem write_bad_type_code (key : Option Bytes) (c : Int) (data pad : Bytes) (t : Int) (h6 : t ≠ 6) (h0 : t ≠ 0) :
    Codec.writeV3 key c data t pad = .error (.py "TypeError") := by
  rw [CodecEq.writeV3_eq]; unfold writeV3I; rw [if_neg h6, if_neg h0]

/-- successive `write(dataᵢ)` calls on one protocol object, starting at counter `c` -/
def writesCode (key : Option Bytes) : Int → List (Bytes × Bytes) → R (List Bytes × Int)
  | c, [] => .ok ([], c)
  | c, (d, r) :: t =>
    match Codec.writeV3 key c d 6 r with
    | .error e => .error e
    | .ok (p, c') =>
      match writesCode key c' t with
      | .ok (ps, c'') => .ok (p :: ps, c'')
      | .error e => .error e

/-- what an encrypted request needs to be encodable: pad bytes of the right length, size field fits -/
def WfReq (d : Bytes × Bytes) : Prop := d.2.length = v3Pad d.1.length ∧ d.1.length + v3Pad d.1.length + 32 < 65536

/-- **C07 (counters) about the translated code.** ANY number of successive writes from ANY 12-bit counter: the i-th packet
    decodes at the independent implementation to counter `(c + i) mod 4096` and the i-th payload — consecutive counters,
    wrapping from 4095 to 0, none skipped or repeated — and the counter afterwards is `(c + n) mod 4096`. -/
theorem counters_consecutive_code (k : Bytes) (ds : List (Bytes × Bytes)) (hds : ∀ d ∈ ds, WfReq d) (c : Nat) (hc : c < 4096) :
    ∃ ps, writesCode (some k) (c : Int) ds = .ok (ps, (((c + ds.length) % 4096 : Nat) : Int)) ∧ ps.length = ds.length ∧
      ∀ i (h : i < ds.length), ∃ p, ps[i]? = some p ∧
        Spec.V3.decodeEncrypted k p = some ⟨6, (c + i) % 4096, (ds[i]'h).1⟩ := by
  induction ds generalizing c with
  | nil => exact ⟨[], by simp [writesCode, Nat.mod_eq_of_lt hc], rfl, fun i h => absurd h (by simp)⟩
  | cons d t ih =>
    obtain ⟨dd, dr⟩ := d
    have hw := hds (dd, dr) (by simp)
    obtain ⟨p, hp, hdec⟩ := write_data_code k dd dr c hc hw.1 hw.2
    obtain ⟨ps, hps, hlen, hall⟩ := ih (fun x hx => hds x (by simp [hx])) ((c + 1) % 4096) (Nat.mod_lt _ (by decide))
    refine ⟨p :: ps, ?_, by simp [hlen], ?_⟩
    · unfold writesCode
      rw [hp]
      simp only []
      rw [hps]
      simp only [List.length_cons]
      have e : ((c + 1) % 4096 + t.length) % 4096 = (c + (t.length + 1)) % 4096 := by omega
      rw [e]
    · intro i h
      cases i with
      | zero => exact ⟨p, rfl, by simpa [Nat.mod_eq_of_lt hc] using hdec⟩
      | succ j =>
        obtain ⟨q, hq, hqd⟩ := hall j (by simpa using h)
        refine ⟨q, by simpa using hq, ?_⟩
        have e : ((c + 1) % 4096 + j) % 4096 = (c + (j + 1)) % 4096 := by omega
        rw [e] at hqd
        simpa using hqd

/-! non-vacuity: a request is encodable -/
example : WfReq ([1, 2, 3], List.replicate 11 0) := by unfold WfReq v3Pad; decide

end Msmart.Props.C07
