/-
  C07 — V3 session discipline: no data before handshake, right key, bounded counter, expiry.

  Stated over the Session model (`Model/Session.lean`: `LAN` + `_LanProtocolV3` as a discrete-event
  simulation; the peer is an ARBITRARY reaction function, connection attempts have arbitrary
  outcomes, the clock jumps arbitrarily) and proved for histories of ANY length by refinement:
  every operation of the model is a run of the abstract connection automaton
  (`Lemmas/SessionTrace.lean`), and every run of the automaton preserves the invariant
  (`Lemmas/SessionAbs.lean`).  The write log is structural (kind, connection, counter, key, token,
  frame); that the bytes on the wire carry exactly these is C05 (`request_eq_spec`,
  `v3_spec_decodes_request`).
-/
import Msmart.Lemmas.SessionTrace
import Msmart.Lemmas.SessionCreds

namespace Msmart.Props.C07
open Msmart Msmart.Model Msmart.Model.Session Msmart.Lemmas.Sess

/-- a fresh `LAN` object: nothing logged, no connection (any scripted environment, any version) -/
def Fresh (s : S) : Prop := s.w.log = [] ∧ s.w.nConn = 0 ∧ s.l.conn = none

theorem inv_fresh {s : S} (h : Fresh s) : Inv (abs s) := by
  obtain ⟨h1, h2, h3⟩ := h
  refine ⟨?_, ?_, ?_, ?_⟩ <;> simp [abs, evsOf, coreOf, h1, h3, wf_nil]

/-- **C07 (refinement + invariant).** After ANY history (any operations, any peer reactions, any
    connection outcomes, any clock jumps) the session state satisfies the automaton invariant. -/
theorem session_invariant (p : Params) (rx : Reactions) (ops : List Op) (s : S) (h : Inv (abs s)) :
    Inv (abs (run p rx s ops).2) := by
  obtain ⟨tr, htr⟩ := run_tr p rx ops s
  exact h.run htr

/-- the structural write log after a history -/
def logAfter (p : Params) (rx : Reactions) (s : S) (ops : List Op) : List Ev := evsOf (run p rx s ops).2

theorem log_wf (p : Params) (rx : Reactions) (ops : List Op) (s : S) (h : Fresh s) :
    WF (logAfter p rx s ops) := (session_invariant p rx ops s (inv_fresh h)).wf

/-- **C07 (no data before a handshake; right key).** In every history: an encrypted request is only
    ever written on a connection on which a handshake reply was accepted earlier, and it is encrypted
    under the session key of the LATEST handshake accepted on that same connection; the connection
    was opened earlier in the history and not closed since. -/
theorem data_under_latest_handshake_key (p : Params) (rx : Reactions) (ops : List Op) (s : S) (h : Fresh s)
    (pre post : List Ev) (cid ctr : Nat) (k f : Bytes)
    (hlog : logAfter p rx s ops = pre ++ [.wrData cid ctr k f] ++ post) :
    lastAccept cid pre = some k ∧ (∃ v3, .connect cid v3 ∈ pre) ∧ .closed cid ∉ pre := by
  have := log_wf p rx ops s h pre _ post hlog
  exact ⟨this.1, this.2.2.1, this.2.2.2⟩

theorem foldl_keyStep_mem {cid : Nat} (l : List Ev) (k0 : Option Bytes) {k : Bytes}
    (h : l.foldl (keyStep cid) k0 = some k) : k0 = some k ∨ .accept cid k ∈ l := by
  induction l generalizing k0 with
  | nil => exact .inl h
  | cons e t ih =>
    simp only [List.foldl_cons] at h
    rcases ih _ h with h1 | h1
    · cases e <;> simp only [keyStep] at h1
      case accept c k' =>
        by_cases hc : c = cid
        · rw [if_pos hc] at h1; cases h1; subst hc; exact .inr (List.mem_cons_self ..)
        · rw [if_neg hc] at h1; exact .inl h1
      case forget c =>
        by_cases hc : c = cid
        · rw [if_pos hc] at h1; cases h1
        · rw [if_neg hc] at h1; exact .inl h1
      all_goals exact .inl h1
    · exact .inr (List.mem_cons_of_mem _ h1)

theorem lastAccept_some_mem {cid : Nat} {l : List Ev} {k : Bytes} (h : lastAccept cid l = some k) : .accept cid k ∈ l := by
  rcases foldl_keyStep_mem l none h with h1 | h1
  · cases h1
  · exact h1

/-- the handshake whose key a data packet uses is the LATEST handshake started on the connection: no
    later handshake attempt (successful or not) lies between that acceptance and the data packet -/
theorem lastAccept_no_later_forget {cid : Nat} (l1 l2 : List Ev) {k : Bytes}
    (h : lastAccept cid (l1 ++ [.forget cid] ++ l2) = some k) : .accept cid k ∈ l2 := by
  unfold lastAccept at h
  rw [List.foldl_append, List.foldl_append] at h
  simp only [List.foldl_cons, List.foldl_nil, keyStep, if_true] at h
  rcases foldl_keyStep_mem l2 none h with h1 | h1
  · cases h1
  · exact h1

/-- in particular an accepted handshake reply precedes every encrypted request on its connection -/
theorem handshake_precedes_data (p : Params) (rx : Reactions) (ops : List Op) (s : S) (h : Fresh s)
    (pre post : List Ev) (cid ctr : Nat) (k f : Bytes)
    (hlog : logAfter p rx s ops = pre ++ [.wrData cid ctr k f] ++ post) : .accept cid k ∈ pre :=
  lastAccept_some_mem (data_under_latest_handshake_key p rx ops s h pre post cid ctr k f hlog).1

/-- **C07 (no data after a failed handshake).** If a handshake was started on the connection (the
    previous key is forgotten at that moment) before an encrypted request, then a handshake reply was
    accepted AFTER that start: once a re-handshake has been attempted, the old key is never used again —
    whether the attempt failed by timeout, error packet, a reply that does not verify, or cancellation. -/
theorem no_data_after_failed_handshake (p : Params) (rx : Reactions) (ops : List Op) (s : S) (h : Fresh s)
    (l1 l2 post : List Ev) (cid ctr : Nat) (k f : Bytes)
    (hlog : logAfter p rx s ops = l1 ++ [.forget cid] ++ l2 ++ [.wrData cid ctr k f] ++ post) :
    .accept cid k ∈ l2 := by
  have := (data_under_latest_handshake_key p rx ops s h (l1 ++ [.forget cid] ++ l2) post cid ctr k f hlog).1
  exact lastAccept_no_later_forget l1 l2 this

/-- **C07 (counter).** In every history, of any length: each V3 packet (handshake request or encrypted
    request) carries as its counter the number of V3 packets written earlier on the same connection,
    modulo 4096 — i.e. 0 for the first packet of a connection and the previous counter plus one,
    wrapping to zero, for every later one; no bound on the number of packets. -/
theorem counter_is_packet_index (p : Params) (rx : Reactions) (ops : List Op) (s : S) (h : Fresh s)
    (pre post : List Ev) (e : Ev) (hlog : logAfter p rx s ops = pre ++ [e] ++ post) :
    (∀ cid ctr k f, e = .wrData cid ctr k f → ctr = nPackets cid pre % 4096) ∧
    (∀ cid ctr tok, e = .wrHS cid ctr tok → ctr = nPackets cid pre % 4096) := by
  have := log_wf p rx ops s h pre e post hlog
  refine ⟨?_, ?_⟩
  · intro cid ctr k f he; subst he; exact this.2.1
  · intro cid ctr tok he; subst he; exact this.1

def pktCid : Ev → Option Nat
  | .wrHS c _ _ => some c | .wrData c _ _ _ => some c | _ => none
def pktCtr : Ev → Nat
  | .wrHS _ c _ => c | .wrData _ c _ _ => c | _ => 0

theorem nPackets_skip (cid : Nat) (mid : List Ev) (h : ∀ x ∈ mid, pktCid x ≠ some cid) : nPackets cid mid = 0 := by
  induction mid with
  | nil => rfl
  | cons x t ih =>
    have hx := h x (List.mem_cons_self ..)
    have ht := ih (fun y hy => h y (List.mem_cons_of_mem _ hy))
    cases x <;> simp only [nPackets, ht, pktCid] at * <;> (try rw [if_neg (by intro hh; exact hx (by rw [hh]))])

/-- the same in "previous plus one" form: two consecutive V3 packets of one connection -/
theorem counter_step (p : Params) (rx : Reactions) (ops : List Op) (s : S) (h : Fresh s)
    (pre mid post : List Ev) (e1 e2 : Ev) (cid : Nat)
    (h1 : pktCid e1 = some cid) (h2 : pktCid e2 = some cid) (hmid : ∀ x ∈ mid, pktCid x ≠ some cid)
    (hlog : logAfter p rx s ops = pre ++ [e1] ++ mid ++ [e2] ++ post) :
    pktCtr e2 = (pktCtr e1 + 1) % 4096 := by
  have w := log_wf p rx ops s h
  have w1 := w pre e1 (mid ++ [e2] ++ post) (by rw [hlog]; simp)
  have w2 := w (pre ++ [e1] ++ mid) e2 post (by rw [hlog])
  have hn : nPackets cid (pre ++ [e1] ++ mid) = nPackets cid pre + 1 := by
    rw [nPackets_append, nPackets_append, nPackets_skip cid mid hmid]
    cases e1 <;> simp [pktCid] at h1 <;> subst h1 <;> simp [nPackets]
  have c1 : pktCtr e1 = nPackets cid pre % 4096 := by
    cases e1 <;> simp [pktCid] at h1 <;> subst h1
    · exact w1.1
    · exact w1.2.1
  have c2 : pktCtr e2 = nPackets cid (pre ++ [e1] ++ mid) % 4096 := by
    cases e2 <;> simp [pktCid] at h2 <;> subst h2
    · exact w2.1
    · exact w2.2.1
  rw [c2, c1, hn]; omega

/-- the first V3 packet on a connection carries counter 0 -/
theorem counter_starts_at_zero (p : Params) (rx : Reactions) (ops : List Op) (s : S) (h : Fresh s)
    (pre post : List Ev) (e : Ev) (cid : Nat) (h1 : pktCid e = some cid) (hpre : ∀ x ∈ pre, pktCid x ≠ some cid)
    (hlog : logAfter p rx s ops = pre ++ [e] ++ post) : pktCtr e = 0 := by
  have w := log_wf p rx ops s h pre e post hlog
  have hz := nPackets_skip cid pre hpre
  cases e <;> simp [pktCid] at h1 <;> subst h1
  · have := w.1; simp [pktCtr, this, hz]
  · have := w.2.1; simp [pktCtr, this, hz]

/-! ### "on a V3 device": after the first `authenticate` nothing but V3 traffic is ever written -/

theorem v3inv_after_authenticate (p : Params) (rx : Reactions) (s : S) (hs : s.l.conn = none) (t k : Bytes) :
    V3Inv (abs (step p rx s (.authenticate t k)).2) := by
  have hal : connAlive s = false := by unfold connAlive; rw [hs]
  have hn : (setVersion3 (opDisconnect s)).l.conn = none := conn_opDisconnect s
  have hv0 : V3Inv (abs (setVersion3 (opDisconnect s))) := ⟨rfl, by simp [abs, coreOf, hn]⟩
  cases hl : lanAuthenticate p rx (setVersion3 (opDisconnect s)) (some t) (some k) Generated.lanRetries with
  | mk r s1 =>
    obtain ⟨s1', tc, ta, g1, g2, _⟩ := lanAuthenticate_tr hl
    have hv1 : V3Inv (abs s1) := (hv0.run (g1.trans g2)).1
    have : (step p rx s (.authenticate t k)).2 = s1 := by
      simp only [step]
      rw [lanAuthenticate_reconnect (.inl hal), hl]
      cases r <;> rfl
    rw [this]; exact hv1

/-- **C07 (V3 only).** In a history that starts with `authenticate` (which is how a `LAN` learns that
    its device is V3), whatever happens afterwards: every connection is opened as a V3 connection
    and no unencrypted V2 packet is ever written. -/
theorem v3_traffic_only (p : Params) (rx : Reactions) (s : S) (h : Fresh s) (t k : Bytes) (ops : List Op) :
    ∀ e ∈ logAfter p rx s (.authenticate t k :: ops),
      (∀ cid f, e ≠ .wrV2 cid f) ∧ (∀ cid v3, e = .connect cid v3 → v3 = true) := by
  -- first step: from the fresh state, through the reconnect branch
  have hs : s.l.conn = none := h.2.2
  have hal : connAlive s = false := by unfold connAlive; rw [hs]
  have hn : (setVersion3 (opDisconnect s)).l.conn = none := conn_opDisconnect s
  have hv0 : V3Inv (abs (setVersion3 (opDisconnect s))) := ⟨rfl, by simp [abs, coreOf, hn]⟩
  have hd0 : opDisconnect s = s := opDisconnect_none hs
  have he0 : evsOf (setVersion3 (opDisconnect s)) = [] := by rw [hd0]; simp [evsOf, setVersion3, h.1]
  cases hl : lanAuthenticate p rx (setVersion3 (opDisconnect s)) (some t) (some k) Generated.lanRetries with
  | mk r s1 =>
    obtain ⟨s1', tc, ta, g1, g2, _⟩ := lanAuthenticate_tr hl
    have hs1 : (step p rx s (.authenticate t k)).2 = s1 := by
      simp only [step]
      rw [lanAuthenticate_reconnect (.inl hal), hl]
      cases r <;> rfl
    obtain ⟨tr2, g3⟩ := run_tr p rx ops s1
    have hrun := (g1.trans g2).trans g3
    obtain ⟨_, hall⟩ := hv0.run hrun
    have hlog : logAfter p rx s (.authenticate t k :: ops) = tc ++ ta ++ tr2 := by
      have := hrun.evs
      simp only [abs] at this
      rw [he0] at this
      simpa [logAfter, run, hs1] using this
    intro e he
    rw [hlog] at he
    exact hall e he

/-! ### the handshake request carries the configured token -/

/-- **C07 (token, explicit authenticate).** Every handshake request written by `authenticate(t, k)`
    carries `t`; and nothing but handshake requests is written by it. -/
theorem authenticate_writes_only_handshakes_with_token (p : Params) (rx : Reactions) (s s' : S) (t k : Bytes)
    (o : Outcome) (h : step p rx s (.authenticate t k) = (o, s')) :
    ∃ tr, evsOf s' = evsOf s ++ tr ∧ (∀ e ∈ tr, isData e = false) ∧
      (∀ cid ctr tok, .wrHS cid ctr tok ∈ tr → tok = t) := by
  simp only [step] at h
  cases hl : lanAuthenticate p rx s (some t) (some k) Generated.lanRetries with
  | mk r s1 =>
    rw [hl] at h
    have hs' : s' = s1 := by cases r <;> simp [outcomeOfAuth] at h <;> exact h.2.symm
    subst hs'
    obtain ⟨s1', tc, ta, g1, g2, g3, g4, _⟩ := lanAuthenticate_tr hl
    refine ⟨tc ++ ta, (g1.trans g2).evs, ?_, ?_⟩
    · intro e he
      rcases List.mem_append.1 he with he | he
      · rcases g3 e he with h1 | h1 <;> cases e <;> simp_all [isClosed, isConnect, isData]
      · rcases g4 e he with ⟨_, _, _, rfl, _⟩ | h1 | h1
        · rfl
        · cases e <;> simp_all [isAccept, isKeyEv, isData]
        · cases e <;> simp_all [isClosed, isData]
    · intro cid ctr tok he
      rcases List.mem_append.1 he with he | he
      · rcases g3 _ he with h1 | h1 <;> simp [isClosed, isConnect] at h1
      · rcases g4 _ he with ⟨_, _, t', heq, htok⟩ | h1 | h1
        · cases heq
          simp [pickCred] at htok
          exact htok.symm
        · simp [isAccept, isKeyEv] at h1
        · simp [isClosed] at h1

/-- **C07 (token, implicit).** Every handshake request written by a `send` (after a reconnect or an
    expiry) carries the stored token, and `send` never changes the stored credentials; the stored
    credentials are exactly those of the last successful `authenticate`. -/
theorem send_handshakes_carry_stored_token (p : Params) (rx : Reactions) (s s' : S) (f : Bytes) (n : Nat)
    (r : R (List Bytes)) (h : lanSend p rx s f n = (r, s')) :
    creds s' = creds s ∧
    ∃ tr, evsOf s' = evsOf s ++ tr ∧ (∀ cid ctr tok, .wrHS cid ctr tok ∈ tr → s.l.token = some tok) := by
  refine ⟨creds_lanSend h, ?_⟩
  obtain ⟨s1, s2, tc, ta, te, g1, g2, g3, k1, k2, k3, _⟩ := lanSend_tr h
  refine ⟨tc ++ ta ++ te, ((g1.trans g2).trans g3).evs, ?_⟩
  intro cid ctr tok he
  rcases List.mem_append.1 he with he | he
  · rcases List.mem_append.1 he with he | he
    · rcases k1 _ he with h1 | h1 <;> simp [isClosed, isConnect] at h1
    · rcases k2 _ he with ⟨_, _, t', heq, htok⟩ | h1 | h1
      · cases heq; exact htok
      · simp [isAccept, isKeyEv] at h1
      · simp [isClosed] at h1
  · rcases k3 _ he with (⟨_, _, _, h1⟩ | ⟨_, h1⟩) | h1
    · cases h1
    · cases h1
    · simp [isClosed] at h1

theorem stored_credentials (p : Params) (rx : Reactions) (s : S) (t k : Bytes) :
    let r := step p rx s (.authenticate t k)
    (r.1 = .done ∧ creds r.2 = (some t, some k)) ∨ (r.1 ≠ .done ∧ creds r.2 = creds s) := by
  simp only [step]
  cases hl : lanAuthenticate p rx s (some t) (some k) Generated.lanRetries with
  | mk r s1 =>
    rcases creds_lanAuthenticate hl with ⟨rfl, hc⟩ | ⟨⟨e, rfl⟩, hc⟩
    · exact .inl ⟨rfl, by simpa [outcomeOfAuth, pickCred] using hc⟩
    · exact .inr ⟨by simp [outcomeOfAuth], by simpa [outcomeOfAuth] using hc⟩

/-! ### expiry -/

theorem mem_split_data {ta te pre post : List Ev} {e : Ev} (h : ta ++ te = pre ++ [e] ++ post)
    (hta : ∀ x ∈ ta, x ≠ e) : ∃ a', pre = ta ++ a' ∧ te = a' ++ [e] ++ post := by
  rw [List.append_assoc] at h
  rcases List.append_eq_append_iff.1 h with ⟨a', h1, h2⟩ | ⟨c', h1, h2⟩
  · exact ⟨a', h1, by rw [h2]; simp⟩
  · cases c' with
    | nil => simp at h1 h2; exact ⟨[], by simp [h1], by simp [h2]⟩
    | cons x t =>
      simp only [List.cons_append, List.cons.injEq] at h2
      exfalso
      exact hta e (by rw [h1]; simp [h2.1]) rfl

/-- **C07 (12 h authentication expiry).** If at the start of an exchange the V3 protocol object is not
    authenticated (in particular: its session key is older than the authentication lifetime
    `AUTHENTICATION_EXPIRATION`, regenerated from the source), then whatever the peer does, every data
    packet written by that exchange is preceded — within the exchange, on the same connection — by a
    newly accepted handshake reply. -/
theorem expiry_forces_handshake (p : Params) (rx : Reactions) (s s' : S) (f : Bytes) (n : Nat) (r : R (List Bytes))
    (hal : connAlive s = true) (hv3 : isV3 s = true) (hna : authenticated s = false)
    (h : lanSend p rx s f n = (r, s')) :
    ∃ tr, evsOf s' = evsOf s ++ tr ∧
      ∀ pre e post, tr = pre ++ [e] ++ post → isData e = true → ∃ k, .accept (evCid e) k ∈ pre := by
  obtain ⟨s1, s2, tc, ta, te, g1, g2, g3, k1, k2, k3, _, k5, _, k7, _⟩ := lanSend_tr h
  have htc := k5 hal; subst htc
  have hrun := (g1.trans g2).trans g3
  refine ⟨[] ++ ta ++ te, hrun.evs, ?_⟩
  intro pre e post hdec hdata
  simp only [List.nil_append] at hdec hrun
  -- e is not in the authentication part
  have hta : ∀ x ∈ ta, x ≠ e := by
    intro x hx hxe; subst hxe
    rcases k2 x hx with ⟨_, _, _, rfl, _⟩ | h1 | h1
    · simp [isData] at hdata
    · cases x <;> simp_all [isAccept, isKeyEv, isData]
    · cases x <;> simp_all [isClosed, isData]
  obtain ⟨a', hpre, hte⟩ := mem_split_data hdec hta
  have hne : te ≠ [] := by rw [hte]; simp
  obtain ⟨_, hacc⟩ := k7 hne
  obtain ⟨x, hx, hxa⟩ := hacc (.inl ⟨hal, hv3, hna⟩)
  -- all events of the exchange are on the connection that was current at its start
  have hnoconn : ∀ y ∈ ta ++ te, isConnect y = false := by
    intro y hy
    rcases List.mem_append.1 hy with hy | hy
    · rcases k2 y hy with ⟨_, _, _, rfl, _⟩ | h1 | h1
      · rfl
      · cases y <;> simp_all [isAccept, isKeyEv, isConnect]
      · cases y <;> simp_all [isClosed, isConnect]
    · rcases k3 y hy with (⟨_, _, _, rfl⟩ | ⟨_, rfl⟩) | h1
      · rfl
      · rfl
      · cases y <;> simp_all [isClosed, isConnect]
  have hcore : ∃ c, (abs s).core = some c := by
    unfold connAlive at hal
    cases hc : s.l.conn with
    | none => rw [hc] at hal; cases hal
    | some c => exact ⟨c.core, by simp [abs, coreOf, hc]⟩
  obtain ⟨c, hc⟩ := hcore
  obtain ⟨hcid, _⟩ := run_same_cid hrun hnoconn c hc
  have hxc := hcid x (List.mem_append.2 (.inl hx))
  have hec := hcid e (by rw [hdec]; simp)
  cases x <;> simp [isAccept] at hxa
  rename_i xc xk
  simp only [evCid] at hxc
  exact ⟨xk, by rw [hec, ← hxc, hpre]; exact List.mem_append.2 (.inl hx)⟩

/-- **C07 (connection lifetime).** If at the start of an exchange the connection is not alive (in
    particular: the configured maximum connection lifetime has elapsed, or the peer closed it), then
    everything the exchange writes is written on a connection opened during that exchange, and every
    data packet is preceded, on that new connection, by a newly accepted handshake reply. -/
theorem lifetime_forces_new_connection (p : Params) (rx : Reactions) (s s' : S) (f : Bytes) (n : Nat)
    (r : R (List Bytes)) (hinv : Inv (abs s)) (hal : connAlive s = false)
    (h : lanSend p rx s f n = (r, s')) :
    ∃ tr, evsOf s' = evsOf s ++ tr ∧
      ∀ pre e post, tr = pre ++ [e] ++ post → (isData e = true ∨ isHs e = true) →
        (∃ v3, .connect (evCid e) v3 ∈ pre) ∧
        (∀ cid ctr k fr, e = .wrData cid ctr k fr → .accept cid k ∈ pre) := by
  obtain ⟨s1, s2, tc, ta, te, g1, g2, g3, k1, k2, k3, _, _, k6, _⟩ := lanSend_tr h
  have hrun := (g1.trans g2).trans g3
  have hinv' : Inv (abs s') := hinv.run hrun
  have hevs : evsOf s' = evsOf s ++ (tc ++ ta ++ te) := hrun.evs
  refine ⟨tc ++ ta ++ te, hevs, ?_⟩
  intro pre e post hdec hkind
  have hwf := hinv'.wf (evsOf s ++ pre) e post (by
    show evsOf s' = _
    rw [hevs, hdec]; simp)
  -- a connection of the old log is closed before anything is written
  have hold : ∀ v3, .connect (evCid e) v3 ∈ evsOf s → .closed (evCid e) ∈ evsOf s ++ pre := by
    intro v3 hm
    rcases hinv.others _ _ hm with hcl | ⟨c, hc, hcid⟩
    · exact List.mem_append.2 (.inl hcl)
    · obtain ⟨tc', htc'⟩ := k6 hal c hc
      -- the first event of the exchange is the close of that connection; e is a write, so it is later
      cases pre with
      | nil =>
        exfalso
        rw [htc'] at hdec
        simp only [List.cons_append, List.nil_append, List.cons.injEq] at hdec
        rcases hkind with hk | hk <;> rw [← hdec.1] at hk <;> simp [isData, isHs] at hk
      | cons x pre' =>
        rw [htc'] at hdec
        simp only [List.cons_append, List.cons.injEq] at hdec
        refine List.mem_append.2 (.inr ?_)
        rw [← hdec.1, hcid]; exact List.mem_cons_self ..
  have hconn_pre : (∃ v3, .connect (evCid e) v3 ∈ evsOf s ++ pre) → .closed (evCid e) ∉ evsOf s ++ pre →
      ∃ v3, .connect (evCid e) v3 ∈ pre := by
    intro ⟨v3, hm⟩ hncl
    rcases List.mem_append.1 hm with hm | hm
    · exact absurd (hold v3 hm) hncl
    · exact ⟨v3, hm⟩
  cases e with
  | connect c v => rcases hkind with hk | hk <;> simp [isData, isHs] at hk
  | closed c => rcases hkind with hk | hk <;> simp [isData, isHs] at hk
  | accept c k => rcases hkind with hk | hk <;> simp [isData, isHs] at hk
  | forget c => rcases hkind with hk | hk <;> simp [isData, isHs] at hk
  | wrHS cid ctr tok =>
    exact ⟨hconn_pre hwf.2.1 hwf.2.2, by intro _ _ _ _ hh; cases hh⟩
  | wrV2 cid fr =>
    exact ⟨hconn_pre ⟨_, hwf.1⟩ hwf.2, by intro _ _ _ _ hh; cases hh⟩
  | wrData cid ctr k fr =>
    have hc := hconn_pre hwf.2.2.1 hwf.2.2.2
    refine ⟨hc, ?_⟩
    intro cid' ctr' k' fr' hh; cases hh
    have hacc := lastAccept_some_mem hwf.1
    rcases List.mem_append.1 hacc with hm | hm
    · -- an acceptance in the old log means the connection existed in the old log: closed by now
      exfalso
      obtain ⟨l1, l2, hsplit⟩ := List.append_of_mem hm
      have hw := hinv.wf l1 (.accept cid k) l2 (by show evsOf s = _; rw [hsplit]; simp)
      obtain ⟨⟨v3, hcm⟩, _⟩ := hw
      have : .connect cid v3 ∈ evsOf s := by rw [hsplit]; exact List.mem_append.2 (.inl hcm)
      exact hwf.2.2.2 (hold v3 this)
    · exact hm

/-! ### non-vacuity: a concrete history reaches the states the theorems talk about -/

/-- a peer that answers the first write of connection 1 with a (bogus) close: the invariant's
    hypotheses are met by real histories, e.g. `authenticate` on a fresh object logs a V3 connect
    followed by a handshake request with counter 0 carrying the token -/
example :
    (logAfter {} (fun _ _ => []) { w := { connects := [.ok] }, l := {} } [.authenticate [1, 2] [3]]).take 3 =
      [.connect 1 true, .forget 1, .wrHS 1 0 [1, 2]] := by decide

example : Fresh { w := { connects := [.ok] }, l := {} } := ⟨rfl, rfl, rfl⟩

/-- the counter theorem at the 70,000th packet of a connection: 70000 mod 4096 -/
example : 70000 % 4096 = 368 := by decide

end Msmart.Props.C07
