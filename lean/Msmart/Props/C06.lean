/-
  C06 — V3 handshake: key agreement when genuine, sound rejection otherwise (codec level:
  `_process_packet` on the reply and `_get_local_key`; the state-machine part — key stored only on
  success, nothing but handshake requests written — is in Props/C07 over the Session model).
-/
import Msmart.Lemmas.CodecEqLan
import Msmart.Props.C05

set_option linter.unusedSimpArgs false

namespace Msmart.Props.C06
open Msmart Msmart.Model Msmart.Lemmas Msmart.Crypto Msmart.Props.C05

/-- `Py.xorBytes` (zip-style, truncating) coincides with the spec's XOR on equal lengths -/
theorem py_xor_eq_spec (a b : Bytes) (h : a.length = b.length) : Py.xorBytes a b = AES.xorBytes a b := by
  induction a generalizing b with
  | nil => cases b <;> simp [Py.xorBytes, AES.xorBytes]
  | cons x xs ih =>
    cases b with
    | nil => simp at h
    | cons y ys =>
      simp only [List.length_cons, Nat.add_right_cancel_iff] at h
      simp [Py.xorBytes, AES.xorBytes, ih ys h]

/-- the 64-byte payload the client extracts from a handshake response packet -/
theorem process_handshake_reply (key nonce : Bytes) (ctr : Nat) (k : Option Bytes) :
    processPacket k (Spec.V3.handshakeReply key nonce ctr) =
      .ok (AES.cbcEncrypt key Spec.V3.iv nonce ++ SHA256.sha256 nonce) := by
  unfold processPacket Spec.V3.handshakeReply
  simp [Spec.V3.header, Spec.V3.be16, ptEncryptedResponse, ptHandshakeResponse, decodeHandshakeResponse]

/-- **C06 (agreement).** For every key and every device nonce of the key's length (32 bytes in the
    protocol): from the genuine reply the client derives exactly the device's session key
    `nonce XOR key`. -/
theorem handshake_agreement (key nonce : Bytes) (hn : nonce.length = 32) (hk : key.length = 32) (ctr : Nat)
    (k : Option Bytes) :
    ∃ payload, processPacket k (Spec.V3.handshakeReply key nonce ctr) = .ok payload ∧
      getLocalKey key payload = .ok (Spec.V3.sessionKey key nonce) := by
  refine ⟨_, process_handshake_reply key nonce ctr k, ?_⟩
  have hcl : (AES.cbcEncrypt key Spec.V3.iv nonce).length = 32 := by rw [AES.cbcEncrypt_length, hn]
  unfold getLocalKey
  rw [if_neg (by simp [hcl, sha_len])]
  have ht : (AES.cbcEncrypt key Spec.V3.iv nonce ++ SHA256.sha256 nonce).take 32 = AES.cbcEncrypt key Spec.V3.iv nonce := by
    rw [← hcl, List.take_append_of_le_length (Nat.le_refl _), List.take_length]
  have hd : (AES.cbcEncrypt key Spec.V3.iv nonce ++ SHA256.sha256 nonce).drop 32 = SHA256.sha256 nonce := by
    rw [← hcl, List.drop_append_of_le_length (Nat.le_refl _), List.drop_length, List.nil_append]
  unfold decryptCbc
  rw [ht, hd, if_neg (by rw [hcl]; decide), iv_eq, AES.cbcDecrypt_cbcEncrypt]
  simp only [ne_eq, not_true_eq_false, ↓reduceIte]
  rw [if_neg (by rw [hn, hk]; simp)]
  rw [py_xor_eq_spec _ _ (by rw [hn, hk])]
  rfl

/-- **C06 (length).** A reply payload of any length other than 64 fails with an authentication error. -/
theorem wrong_length_rejected (key data : Bytes) (h : data.length ≠ 64) : getLocalKey key data = .error .auth := by
  unfold getLocalKey; rw [if_pos h]

/-- **C06 (hash half).** Any alteration confined to the 32-byte proof is rejected outright. -/
theorem proof_alteration_rejected (key ct h' : Bytes) (hc : ct.length = 32) (hh : h'.length = 32)
    (hne : h' ≠ SHA256.sha256 (AES.cbcDecrypt key zeroIv ct)) :
    getLocalKey key (ct ++ h') = .error .auth := by
  unfold getLocalKey decryptCbc
  rw [if_neg (by simp [hc, hh])]
  have ht : (ct ++ h').take 32 = ct := by rw [← hc, List.take_append_of_le_length (Nat.le_refl _), List.take_length]
  have hd : (ct ++ h').drop 32 = h' := by
    rw [← hc, List.drop_append_of_le_length (Nat.le_refl _), List.drop_length, List.nil_append]
  rw [ht, hd, if_neg (by rw [hc]; decide)]
  simp only
  rw [if_pos (fun e => hne e.symm)]

/-- what acceptance of a 64-byte payload means -/
theorem accepted_means_proof (key ct h out : Bytes) (hc : ct.length = 32) (hh : h.length = 32)
    (hacc : getLocalKey key (ct ++ h) = .ok out) :
    SHA256.sha256 (AES.cbcDecrypt key zeroIv ct) = h ∧
      out = Py.xorBytes (AES.cbcDecrypt key zeroIv ct) key := by
  unfold getLocalKey decryptCbc at hacc
  rw [if_neg (by simp [hc, hh])] at hacc
  have ht : (ct ++ h).take 32 = ct := by rw [← hc, List.take_append_of_le_length (Nat.le_refl _), List.take_length]
  have hd : (ct ++ h).drop 32 = h := by
    rw [← hc, List.drop_append_of_le_length (Nat.le_refl _), List.drop_length, List.nil_append]
  rw [ht, hd, if_neg (by rw [hc]; decide)] at hacc
  simp only at hacc
  split at hacc
  · cases hacc
  · rename_i hs
    split at hacc
    · cases hacc
    · cases hacc; exact ⟨by simpa using hs, rfl⟩

/-- **C06 (ciphertext half, reduction).** Altering the encrypted-nonce half of a genuine reply
    while keeping the proof can only be accepted if the genuine and the altered nonce are an explicit
    SHA-256 collision (CBC decryption is proved injective). -/
theorem ciphertext_alteration_collision (key nonce ct' out : Bytes) (hn : nonce.length = 32)
    (hc' : ct'.length = 32) (hne : ct' ≠ AES.cbcEncrypt key zeroIv nonce)
    (hacc : getLocalKey key (ct' ++ SHA256.sha256 nonce) = .ok out) :
    Sha256Collision (AES.cbcDecrypt key zeroIv ct') nonce := by
  obtain ⟨hs, _⟩ := accepted_means_proof key ct' (SHA256.sha256 nonce) out hc' (sha_len nonce) hacc
  refine ⟨?_, hs⟩
  intro heq
  apply hne
  have : AES.cbcDecrypt key zeroIv ct' = AES.cbcDecrypt key zeroIv (AES.cbcEncrypt key zeroIv nonce) := by
    rw [AES.cbcDecrypt_cbcEncrypt]; exact heq
  exact AES.cbcDecrypt_injective key zeroIv this

/-- decrypting under `k` what was encrypted under a different key `k'` gives back the same plaintext -/
def KeyConfusion (k k' p : Bytes) : Prop := k ≠ k' ∧ AES.cbcDecrypt k zeroIv (AES.cbcEncrypt k' zeroIv p) = p

/-- **C06 (different key, reduction).** A genuine-looking reply produced under another key `k'` can
    only be accepted by a client holding `k` through a SHA-256 collision or a key confusion event. -/
theorem wrong_key_reduction (k k' nonce out : Bytes) (hn : nonce.length = 32) (hk : k ≠ k')
    (hacc : getLocalKey k (AES.cbcEncrypt k' zeroIv nonce ++ SHA256.sha256 nonce) = .ok out) :
    Sha256Collision (AES.cbcDecrypt k zeroIv (AES.cbcEncrypt k' zeroIv nonce)) nonce ∨ KeyConfusion k k' nonce := by
  have hcl : (AES.cbcEncrypt k' zeroIv nonce).length = 32 := by rw [AES.cbcEncrypt_length]; exact hn
  obtain ⟨hs, _⟩ := accepted_means_proof k (AES.cbcEncrypt k' zeroIv nonce) (SHA256.sha256 nonce) out hcl
    (sha_len nonce) hacc
  by_cases he : AES.cbcDecrypt k zeroIv (AES.cbcEncrypt k' zeroIv nonce) = nonce
  · right; exact ⟨hk, he⟩
  · left; exact ⟨he, hs⟩

/-- **C06 (type).** An error packet, or any packet type other than a handshake / encrypted
    response, in place of the reply is a protocol error (promoted to an authentication error by
    `_LanProtocolV3.authenticate`); an encrypted response before any key exists likewise. -/
theorem error_packet_rejected (k : Option Bytes) : processPacket k Spec.V3.errorPacket = .error .protocol := by
  unfold processPacket Spec.V3.errorPacket
  simp [ptEncryptedResponse, ptHandshakeResponse]

theorem encrypted_before_key_rejected (p : Bytes) (b5 : UInt8) (h2 : p.take 2 = [0x83, 0x70]) (h4 : p[4]? = some 0x20)
    (h5 : p[5]? = some b5) (ht : b5.toNat % 16 = ptEncryptedResponse) :
    processPacket none p = .error .protocol := by
  unfold processPacket
  rw [if_neg (by rw [h2]; simp), h4]
  simp only [ne_eq, not_true_eq_false, ↓reduceIte, h5]
  rw [if_pos ht]
  rfl

/-! non-vacuity -/
example : ∃ payload, processPacket none (Spec.V3.handshakeReply (Py.zeros 32) (List.replicate 32 7) 0) = .ok payload ∧
    getLocalKey (Py.zeros 32) payload = .ok (Spec.V3.sessionKey (Py.zeros 32) (List.replicate 32 7)) :=
  handshake_agreement _ _ (by decide) (by decide) 0 none


/-! ### the same statements about the code as translated from the source text (tie by translation, §3.1b) -/

/-- **C06 (agreement) about the translated `_process_packet` and `_get_local_key`.** -/
theorem handshake_agreement_code (key nonce : Bytes) (hn : nonce.length = 32) (hk : key.length = 32) (ctr : Nat)
    (k : Option Bytes) :
    ∃ payload, Generated.Codec.processPacket k (Spec.V3.handshakeReply key nonce ctr) = .ok payload ∧
      Generated.Codec.getLocalKey key payload = .ok (Spec.V3.sessionKey key nonce) := by
  obtain ⟨p, h1, h2⟩ := handshake_agreement key nonce hn hk ctr k
  exact ⟨p, by rw [CodecEq.processPacket_eq]; exact h1, by rw [CodecEq.getLocalKey_eq]; exact h2⟩

theorem wrong_length_rejected_code (key data : Bytes) (h : data.length ≠ 64) :
    Generated.Codec.getLocalKey key data = .error .auth := by
  rw [CodecEq.getLocalKey_eq]; exact wrong_length_rejected key data h

end Msmart.Props.C06
