/-
  C17 — discovery reports each replying device with exactly its advertised identity; the probe
  sent is the one real devices answer.
-/
import Msmart.Model.Discover
import Msmart.Spec.DiscoverSpec
import Msmart.Lemmas.V2

set_option linter.unusedSimpArgs false

namespace Msmart.Props.C17
open Msmart Msmart.Model Msmart.Lemmas Msmart.Crypto

/-- `split("_")` takes a separator-free prefix off whole -/
theorem split_prefix (a rest : Bytes) (ha : ∀ c ∈ a, c ≠ 0x5F) :
    splitOn5F (a ++ 0x5F :: rest) = a :: splitOn5F rest := by
  induction a with
  | nil => simp [splitOn5F]
  | cons c t ih =>
    have hc : c ≠ 0x5F := ha c (by simp)
    have iht := ih (fun x hx => ha x (by simp [hx]))
    simp only [List.cons_append, splitOn5F, hc, ↓reduceIte, iht]

theorem split_head (a : Bytes) (rest : Bytes) (ha : ∀ c ∈ a, c ≠ 0x5F) :
    (splitOn5F (a ++ 0x5F :: rest))[0]? = some a := by
  rw [split_prefix a rest ha]; rfl

/-- the type field of a `net_<hh>_<suffix>` name -/
theorem name_type_segment (hh suffix : Bytes) (hhh : ∀ c ∈ hh, c ≠ 0x5F) :
    (splitOn5F ([0x6E, 0x65, 0x74, 0x5F] ++ hh ++ [0x5F] ++ suffix))[1]? = some hh := by
  have h1 : [0x6E, 0x65, 0x74, 0x5F] ++ hh ++ [0x5F] ++ suffix =
      [0x6E, 0x65, 0x74] ++ 0x5F :: (hh ++ 0x5F :: suffix) := by simp
  rw [h1, split_prefix _ _ (by decide), split_prefix hh suffix hhh]
  rfl

/-- every appliance type byte, in either hex case, parses back to itself -/
theorem hex2_roundtrip : ∀ b, b < 256 → ∀ up : Bool, parseHex (Spec.Discover.hex2 up b) = some b := by
  decide +kernel

theorem hex2_no_sep : ∀ b, b < 256 → ∀ up : Bool, ∀ c ∈ Spec.Discover.hex2 up b, c ≠ 0x5F := by
  decide +kernel

theorem hex2_ascii : ∀ b, b < 256 → ∀ up : Bool, isAscii (Spec.Discover.hex2 up b) = true := by
  decide +kernel

theorem isAscii_append (a b : Bytes) : isAscii (a ++ b) = (isAscii a && isAscii b) := by
  simp [isAscii, List.all_append]

/-- the parse of a device-built body -/
theorem parseBody_spec (version id : Nat) (ipRev sn suffix extra : Bytes) (port dtype : Nat) (up : Bool)
    (hip : ipRev.length = 4) (hsn : sn.length = 32) (hsa : isAscii sn = true) (hsx : isAscii suffix = true)
    (hd : dtype < 256) (hnl : (Spec.Discover.nameOf up dtype suffix).length ≤ 255) :
    parseBody version id (Spec.Discover.body ipRev port sn (Spec.Discover.nameOf up dtype suffix) extra) =
      some { port := port % 65536, id := id, sn := sn, name := Spec.Discover.nameOf up dtype suffix,
             dtype := dtype, version := version } := by
  obtain ⟨i0, i1, i2, i3, rfl⟩ : ∃ a b c d, ipRev = [a, b, c, d] := by
    match ipRev, hip with
    | [a, b, c, d], _ => exact ⟨a, b, c, d, rfl⟩
  generalize hname : Spec.Discover.nameOf up dtype suffix = name at hnl ⊢
  have hnlen : (name.length.toUInt8).toNat = name.length := by
    simp [Nat.toUInt8, UInt8.toNat, UInt8.ofNat, BitVec.toNat_ofNat]; omega
  have hbody : Spec.Discover.body [i0, i1, i2, i3] port sn name extra =
      [i0, i1, i2, i3] ++ (Py.toLE 4 port ++ (sn ++ (name.length.toUInt8 :: (name ++ extra)))) := by
    simp [Spec.Discover.body, le_eq_toLE, List.append_assoc]
  have hle4 : (Py.toLE 4 port).length = 4 := toLE_length 4 port
  have hd8 : (Spec.Discover.body [i0, i1, i2, i3] port sn name extra).drop 8 =
      sn ++ (name.length.toUInt8 :: (name ++ extra)) := by
    rw [hbody, ← List.append_assoc, List.drop_append_of_le_length (by simp [hle4])]
    simp [hle4]
  have hsn32 : ((Spec.Discover.body [i0, i1, i2, i3] port sn name extra).drop 8).take 32 = sn := by
    rw [hd8, ← hsn, List.take_append_of_le_length (Nat.le_refl _), List.take_length]
  have hd40 : (Spec.Discover.body [i0, i1, i2, i3] port sn name extra).drop 40 =
      name.length.toUInt8 :: (name ++ extra) := by
    have : (Spec.Discover.body [i0, i1, i2, i3] port sn name extra).drop 40 =
        ((Spec.Discover.body [i0, i1, i2, i3] port sn name extra).drop 8).drop 32 := by
      rw [List.drop_drop]
    rw [this, hd8, ← hsn, List.drop_append_of_le_length (Nat.le_refl _), List.drop_length, List.nil_append]
  have h40 : (Spec.Discover.body [i0, i1, i2, i3] port sn name extra)[40]? = some name.length.toUInt8 := by
    have := congrArg (fun l => l[0]?) hd40
    simpa [List.getElem?_drop] using this
  have hd41 : ((Spec.Discover.body [i0, i1, i2, i3] port sn name extra).drop 41).take name.length = name := by
    have : (Spec.Discover.body [i0, i1, i2, i3] port sn name extra).drop 41 =
        ((Spec.Discover.body [i0, i1, i2, i3] port sn name extra).drop 40).drop 1 := by rw [List.drop_drop]
    rw [this, hd40]
    simp only [List.drop_succ_cons, List.drop_zero]
    rw [List.take_append_of_le_length (Nat.le_refl _), List.take_length]
  have hport : Py.fromLE (((Spec.Discover.body [i0, i1, i2, i3] port sn name extra).drop 4).take 2) = port % 65536 := by
    rw [hbody]
    simp only [List.cons_append, List.nil_append, List.drop_succ_cons, List.drop_zero]
    simp only [Py.toLE, List.cons_append, List.take_succ_cons, List.take_zero, Py.fromLE, u8_mod]
    omega
  have hlen4 : ¬ (Spec.Discover.body [i0, i1, i2, i3] port sn name extra).length < 4 := by
    rw [hbody]; simp
  unfold parseBody
  rw [if_neg hlen4, hsn32, if_neg (by simp [hsa]), h40]
  simp only [hnlen, hd41]
  have hna : isAscii name = true := by
    rw [← hname]
    simp only [Spec.Discover.nameOf, isAscii_append, hex2_ascii dtype hd up, hsx]
    decide
  rw [if_neg (by simp [hna])]
  have hseg : (splitOn5F name)[1]? = some (Spec.Discover.hex2 up dtype) := by
    rw [← hname]; exact name_type_segment _ _ (hex2_no_sep dtype hd up)
  rw [hseg]
  simp only [hex2_roundtrip dtype hd up, hport]

/-- the protocol version is only copied into the result -/
theorem parseBody_version (v v' id : Nat) (dec : Bytes) :
    parseBody v' id dec = (parseBody v id dec).map (fun i => { i with version := v' }) := by
  unfold parseBody
  split
  · rfl
  · split
    · rfl
    · split
      · rfl
      · split
        · rfl
        · split
          · rfl
          · split <;> rfl

/-- **C17 (identity, V2 reply).** For every device id below 2⁴⁸, every port, every 32-byte ASCII
    serial, every name `net_<hh>_<suffix>` with any appliance type byte in either hex case, any
    reported IP and arbitrary other header bytes, the library reports exactly the id, port, serial,
    name, type and version the reply encodes. -/
theorem discover_identity_v2 (pre mid tail ipRev sn suffix extra : Bytes) (id port dtype : Nat) (up : Bool)
    (hpre : pre.length = 20) (hmid : mid.length = 14) (htail : tail.length = 16) (hid : id < 2 ^ 48)
    (hip : ipRev.length = 4) (hsn : sn.length = 32) (hsa : isAscii sn = true) (hsx : isAscii suffix = true)
    (hd : dtype < 256) (hnl : (Spec.Discover.nameOf up dtype suffix).length ≤ 255) :
    getDeviceInfo 2 (Spec.Discover.replyV2 pre id mid
        (Spec.Discover.body ipRev port sn (Spec.Discover.nameOf up dtype suffix) extra) tail) =
      .ok { port := port % 65536, id := id, sn := sn, name := Spec.Discover.nameOf up dtype suffix,
            dtype := dtype, version := 2 } := by
  generalize hb : Spec.Discover.body ipRev port sn (Spec.Discover.nameOf up dtype suffix) extra = b
  have hhdr : (pre ++ Spec.V2.le 6 id ++ mid).length = 40 := by
    simp [le_eq_toLE, toLE_length, hpre, hmid]
  have hshape : Spec.Discover.replyV2 pre id mid b tail =
      ((pre ++ Spec.V2.le 6 id ++ mid) ++ encryptAes b) ++ tail := by
    simp [Spec.Discover.replyV2, encryptAes, encKey_eq, List.append_assoc]
  unfold getDeviceInfo replyInner
  simp only [show (2 : Nat) ≠ 3 by decide, ↓reduceIte]
  rw [hshape, take_sub16 _ _ htail, drop40 _ _ hhdr, decryptAes_encryptAes]
  simp only
  have hidb : ((((pre ++ Spec.V2.le 6 id ++ mid) ++ encryptAes b) ++ tail).drop 20).take 6 = Py.toLE 6 id := by
    rw [List.append_assoc, List.append_assoc, List.append_assoc, ← hpre,
      List.drop_append_of_le_length (Nat.le_refl _), List.drop_length, List.nil_append, le_eq_toLE,
      List.take_append_of_le_length (by simp [toLE_length]), List.take_of_length_le (by simp [toLE_length])]
  rw [hidb, fromLE_toLE 6 id (by simpa using hid), ← hb,
    parseBody_spec 2 id ipRev sn suffix extra port dtype up hip hsn hsa hsx hd hnl]

/-- **C17 (identity, V3 reply).** The same for a V3 reply: 8 prefix bytes and 16 trailing bytes
    around the V2 reply are stripped and the version reported is 3. -/
theorem discover_identity_v3 (prefix8 suffix16 pre mid tail ipRev sn suffix extra : Bytes) (id port dtype : Nat)
    (up : Bool) (hp8 : prefix8.length = 8) (hs16 : suffix16.length = 16)
    (hpre : pre.length = 20) (hmid : mid.length = 14) (htail : tail.length = 16) (hid : id < 2 ^ 48)
    (hip : ipRev.length = 4) (hsn : sn.length = 32) (hsa : isAscii sn = true) (hsx : isAscii suffix = true)
    (hd : dtype < 256) (hnl : (Spec.Discover.nameOf up dtype suffix).length ≤ 255) :
    getDeviceInfo 3 (Spec.Discover.replyV3 prefix8 (Spec.Discover.replyV2 pre id mid
        (Spec.Discover.body ipRev port sn (Spec.Discover.nameOf up dtype suffix) extra) tail) suffix16) =
      .ok { port := port % 65536, id := id, sn := sn, name := Spec.Discover.nameOf up dtype suffix,
            dtype := dtype, version := 3 } := by
  have h2 := discover_identity_v2 pre mid tail ipRev sn suffix extra id port dtype up hpre hmid htail hid hip hsn
    hsa hsx hd hnl
  generalize Spec.Discover.replyV2 pre id mid
    (Spec.Discover.body ipRev port sn (Spec.Discover.nameOf up dtype suffix) extra) tail = v2 at h2 ⊢
  have hinner : replyInner 3 (Spec.Discover.replyV3 prefix8 v2 suffix16) = v2 := by
    unfold replyInner Spec.Discover.replyV3
    simp only [↓reduceIte]
    rw [take_sub16 _ _ hs16, ← hp8, List.drop_append_of_le_length (Nat.le_refl _), List.drop_length, List.nil_append]
  unfold getDeviceInfo at h2 ⊢
  rw [hinner]
  have h2i : replyInner 2 v2 = v2 := by simp [replyInner]
  rw [h2i] at h2
  -- same computation, only the version field differs
  cases hdec : decryptAes (List.drop 40 (List.take (List.length v2 - 16) v2)) with
  | error e => rw [hdec] at h2; cases h2
  | ok dec =>
    rw [hdec] at h2
    simp only at h2 ⊢
    rw [parseBody_version 2 3]
    cases hpb : parseBody 2 (Py.fromLE (List.take 6 (List.drop 20 v2))) dec with
    | none => rw [hpb] at h2; cases h2
    | some info =>
      rw [hpb] at h2
      simp only [Except.ok.injEq] at h2
      subst h2
      rfl

/-- **C17 (class).** Air conditioners (type 0xAC) are instantiated as AC devices, every other type
    as a generic device — `_get_device_class` is a test on the type only. -/
def isAirConditioner (i : DevInfo) : Bool := i.dtype = 0xAC

/-- **C17 (probe).** The discovery probe regenerated from const.py is a well-formed, correctly
    signed V2 packet (strict independent decoder, AES-128 and MD5 evaluated in the kernel). -/
theorem probe_is_valid_v2 : (Spec.V2.decode Generated.discoveryMsg).isSome = true := by decide +kernel

/-! non-vacuity -/
example : Spec.Discover.nameOf false 0xAC [0x31] = [0x6E, 0x65, 0x74, 0x5F, 0x61, 0x63, 0x5F, 0x31] := by decide

end Msmart.Props.C17
