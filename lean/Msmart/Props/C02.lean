/-
  C02 — the V2 packet codec interoperates: every frame and device id round-trips against an
  independent implementation of the format, in both directions.
-/
import Msmart.Lemmas.CodecEqLan
import Msmart.Lemmas.V2

set_option linter.unusedSimpArgs false

namespace Msmart.Props.C02
open Msmart Msmart.Model Msmart.Lemmas Msmart.Crypto

/-- the model's header is the spec's header (same fields, same places) -/
theorem header_eq (frame ts : Bytes) (id : Nat) :
    v2Header (40 + (encryptAes frame).length + 16) ts id =
      Spec.V2.header id ts (Py.zeros 12) frame := by
  unfold v2Header Spec.V2.header
  rw [spec_body_eq, le_eq_toLE, le_eq_toLE]
  have : 40 + (encryptAes frame).length + 16 = 56 + (encryptAes frame).length := by omega
  rw [this]
  simp [Py.zeros, List.append_assoc]

/-- the packet the library emits is byte for byte the packet the independent encoder emits -/
theorem encode_eq_spec (frame ts : Bytes) (id : Nat) (hid : id < 2 ^ 64)
    (hlen : 40 + (encryptAes frame).length + 16 < 65536) :
    packetEncode id ts frame = .ok (Spec.V2.encode id ts (Py.zeros 12) frame) := by
  unfold packetEncode
  rw [if_neg (by omega), if_neg (by omega)]
  unfold Spec.V2.encode sign
  rw [header_eq, spec_body_eq, signKey_eq]

/-! ### shape lemmas: any packet `H(40) ++ B ++ T(16)` -/

theorem take_of_prefix (H R : Bytes) (n : Nat) (h : n ≤ H.length) : (H ++ R).take n = H.take n := by
  rw [List.take_append_of_le_length h]

theorem drop_take_of_prefix (H R : Bytes) (a n : Nat) (h : a + n ≤ H.length) :
    ((H ++ R).drop a).take n = (H.drop a).take n := by
  rw [List.drop_append_of_le_length (by omega), List.take_append_of_le_length (by simp; omega)]

theorem spec_decode_shape (H B T : Bytes) (hH : H.length = 40) (hT : T.length = 16)
    (h2 : H.take 2 = [0x5A, 0x5A]) (hl : Py.fromLE ((H.drop 4).take 2) = 56 + B.length)
    (hsig : MD5.md5 (H ++ B ++ Spec.V2.signKey) = T) (hmod : B.length % 16 = 0) :
    Spec.V2.decode ((H ++ B) ++ T) =
      (AES.pkcs7Unpad (AES.ecbDecrypt Spec.V2.encKey B)).map (fun f => (Py.fromLE ((H.drop 20).take 8), f)) := by
  unfold Spec.V2.decode
  have hlen : ((H ++ B) ++ T).length = 56 + B.length := by simp [hH, hT]; omega
  rw [if_neg (by rw [hlen]; omega)]
  rw [List.append_assoc, take_of_prefix H _ 2 (by omega), h2, if_neg (by simp)]
  rw [drop_take_of_prefix H _ 4 2 (by omega), unle_eq_fromLE, hl, ← List.append_assoc, hlen, if_neg (by simp)]
  rw [← hlen, take_sub16 _ _ hT, drop_sub16 _ _ hT, hsig, if_neg (by simp), drop40 _ _ hH,
    if_neg (by rw [hmod]; simp)]
  rw [List.append_assoc, drop_take_of_prefix H _ 20 8 (by omega), unle_eq_fromLE]
  cases AES.pkcs7Unpad (AES.ecbDecrypt Spec.V2.encKey B) <;> rfl

theorem packetCheck_shape (H B T : Bytes) (hH : H.length = 40) (hT : T.length = 16)
    (h2 : H.take 2 = [0x5A, 0x5A]) (hl : Py.fromLE ((H.drop 4).take 2) = 56 + B.length)
    (hsig : sign (H ++ B) = T) :
    packetCheck ((H ++ B) ++ T) = .ok B := by
  have hlen : ((H ++ B) ++ T).length = 56 + B.length := by simp [hH, hT]; omega
  have hf : Py.fromLE ((((H ++ B) ++ T).drop 4).take 2) = 56 + B.length := by
    rw [List.append_assoc, drop_take_of_prefix H _ 4 2 (by omega), hl]
  have hcut : v2Cut ((H ++ B) ++ T) = (H ++ B) ++ T := by
    unfold v2Cut; rw [hf, ← hlen, List.take_length]
  unfold packetCheck
  rw [if_neg (by rw [hlen]; omega)]
  rw [show ((H ++ B) ++ T).take 2 = H.take 2 by rw [List.append_assoc, take_of_prefix H _ 2 (by omega)], h2,
    if_neg (by simp), if_neg (by rw [hf, hlen]; omega), hcut, take_sub16 _ _ hT, drop_sub16 _ _ hT, hsig,
    if_neg (by simp), drop40 _ _ hH]

theorem spec_header_facts (frame ts filler : Bytes) (id : Nat) (hts : ts.length = 8) (hfl : filler.length = 12)
    (hlen : 56 + (encryptAes frame).length < 65536) :
    (Spec.V2.header id ts filler frame).length = 40 ∧
    (Spec.V2.header id ts filler frame).take 2 = [0x5A, 0x5A] ∧
    Py.fromLE (((Spec.V2.header id ts filler frame).drop 4).take 2) = 56 + (encryptAes frame).length ∧
    ((Spec.V2.header id ts filler frame).drop 20).take 8 = Py.toLE 8 id := by
  obtain ⟨t0, t1, t2, t3, t4, t5, t6, t7, rfl⟩ : ∃ t0 t1 t2 t3 t4 t5 t6 t7, ts = [t0, t1, t2, t3, t4, t5, t6, t7] := by
    match ts, hts with
    | [t0, t1, t2, t3, t4, t5, t6, t7], _ => exact ⟨t0, t1, t2, t3, t4, t5, t6, t7, rfl⟩
  refine ⟨by simp [Spec.V2.header, le_eq_toLE, toLE_length, hfl], by simp [Spec.V2.header], ?_, ?_⟩
  · have : ((Spec.V2.header id [t0, t1, t2, t3, t4, t5, t6, t7] filler frame).drop 4).take 2 =
        Py.toLE 2 (56 + (encryptAes frame).length) := by
      simp [Spec.V2.header, Spec.V2.le, Py.toLE, spec_body_eq]
    rw [this, fromLE_toLE 2 _ (by omega)]
  · simp [Spec.V2.header, Spec.V2.le, Py.toLE]

/-- the strict independent decoder accepts what the independent encoder produces -/
theorem spec_decode_encode (frame ts filler : Bytes) (id : Nat) (hts : ts.length = 8)
    (hfl : filler.length = 12) (hid : id < 2 ^ 64) (hlen : 56 + (encryptAes frame).length < 65536) :
    Spec.V2.decode (Spec.V2.encode id ts filler frame) = some (id, frame) := by
  obtain ⟨hH, h2, hl, hid8⟩ := spec_header_facts frame ts filler id hts hfl hlen
  have henc : Spec.V2.encode id ts filler frame =
      (Spec.V2.header id ts filler frame ++ encryptAes frame) ++
        MD5.md5 (Spec.V2.header id ts filler frame ++ encryptAes frame ++ Spec.V2.signKey) := by
    simp [Spec.V2.encode, spec_body_eq, List.append_assoc]
  rw [henc, spec_decode_shape _ _ _ hH (md5_length _) h2 hl rfl (encryptAes_mod frame), hid8,
    fromLE_toLE 8 id (by simpa using hid)]
  have hdec : AES.pkcs7Unpad (AES.ecbDecrypt Spec.V2.encKey (encryptAes frame)) = some frame := by
    unfold encryptAes; rw [encKey_eq, AES.ecbDecrypt_ecbEncrypt, AES.pkcs7Unpad_pkcs7Pad]
  rw [hdec]; rfl

/-- **C02 (→).** Every frame whose packet fits the 2-byte length field (every frame of 0..65,463
    bytes — 0..255 included), every device id below 2⁶⁴ and every timestamp: the packet the
    library emits is decoded by the independent implementation to the identical id and frame. -/
theorem v2_spec_decodes_encode (frame ts : Bytes) (id : Nat) (hts : ts.length = 8) (hid : id < 2 ^ 64)
    (hlen : 56 + (encryptAes frame).length < 65536) :
    ∃ p, packetEncode id ts frame = .ok p ∧ Spec.V2.decode p = some (id, frame) := by
  refine ⟨_, encode_eq_spec frame ts id hid (by omega), ?_⟩
  exact spec_decode_encode frame ts (Py.zeros 12) id hts (by simp [Py.zeros]) hid hlen

/-- frames of up to 255 bytes always fit -/
theorem small_frames_fit (frame : Bytes) (h : frame.length ≤ 255) :
    56 + (encryptAes frame).length < 65536 := by
  rw [encryptAes_length]; omega

/-- **C02 (←).** Every packet the independent implementation produces for any frame (any id, any
    timestamp, any header filler) is decoded by the library to exactly that frame. -/
theorem v2_decode_spec_encode (frame ts filler : Bytes) (id : Nat) (hts : ts.length = 8)
    (hfl : filler.length = 12) (hlen : 56 + (encryptAes frame).length < 65536) :
    packetDecode (Spec.V2.encode id ts filler frame) = .ok frame := by
  obtain ⟨hH, h2, hl, _⟩ := spec_header_facts frame ts filler id hts hfl hlen
  have henc : Spec.V2.encode id ts filler frame =
      (Spec.V2.header id ts filler frame ++ encryptAes frame) ++
        MD5.md5 (Spec.V2.header id ts filler frame ++ encryptAes frame ++ Spec.V2.signKey) := by
    simp [Spec.V2.encode, spec_body_eq, List.append_assoc]
  unfold packetDecode
  rw [henc, packetCheck_shape _ _ _ hH (md5_length _) h2 hl (by unfold sign; rw [signKey_eq])]
  simp only [decryptAes_encryptAes frame]

/-- PKCS7: every padding length 1..16 occurs and the padded length is a multiple of the block -/
theorem pkcs7_facts (d : Bytes) :
    (AES.pkcs7Pad d).length % 16 = 0 ∧ d.length < (AES.pkcs7Pad d).length ∧
    (AES.pkcs7Pad d).length ≤ d.length + 16 ∧ AES.pkcs7Unpad (AES.pkcs7Pad d) = some d :=
  ⟨AES.pkcs7Pad_length_mod d, AES.pkcs7Pad_length_gt d, AES.pkcs7Pad_length_le d, AES.pkcs7Unpad_pkcs7Pad d⟩

/-- outside the domain the code raises OverflowError (explicit error branch, not totalised) -/
theorem encode_overflow (frame ts : Bytes) (id : Nat)
    (h : 65536 ≤ 40 + (encryptAes frame).length + 16 ∨ 2 ^ 64 ≤ id) :
    packetEncode id ts frame = .error (.py "OverflowError") := by
  unfold packetEncode
  by_cases h1 : 40 + (encryptAes frame).length + 16 ≥ 65536
  · rw [if_pos h1]
  · rw [if_neg h1, if_pos (by omega)]

/-! non-vacuity: a concrete packet, evaluated in the kernel (AES-128, MD5) -/
example : packetDecode (Spec.V2.encode 0x123456789ABC (Py.zeros 8) (Py.zeros 12) [0xAA, 0x0B, 0xAC]) =
    .ok [0xAA, 0x0B, 0xAC] :=
  v2_decode_spec_encode _ _ _ _ rfl rfl (by rw [encryptAes_length]; decide)


/-! ### the same statements about the code as translated from the source text (tie by translation, §3.1b) -/

theorem packetEncodeI_nat (id : Nat) (ts frame : Bytes) :
    packetEncodeI (id : Int) ts frame = packetEncode id ts frame := by
  unfold packetEncodeI packetEncode overflow
  split
  · rfl
  · rw [if_neg (by omega), Int.toNat_natCast]

/-- **C02 (→) about the translated `_Packet.encode`** (`Generated/Codec.lean`, regenerated from lan.py on every run). -/
theorem v2_spec_decodes_encode_code (frame ts : Bytes) (id : Nat) (hts : ts.length = 8) (hid : id < 2 ^ 64)
    (hlen : 56 + (encryptAes frame).length < 65536) :
    ∃ p, Generated.Codec.packetEncode (id : Int) frame ts = .ok p ∧ Spec.V2.decode p = some (id, frame) := by
  rw [CodecEq.packetEncode_eq, packetEncodeI_nat]; exact v2_spec_decodes_encode frame ts id hts hid hlen

/-- **C02 (←) about the translated `_Packet.decode`.** -/
theorem v2_decode_spec_encode_code (frame ts filler : Bytes) (id : Nat) (hts : ts.length = 8)
    (hfl : filler.length = 12) (hlen : 56 + (encryptAes frame).length < 65536) :
    Generated.Codec.packetDecode (Spec.V2.encode id ts filler frame) = .ok frame := by
  rw [CodecEq.packetDecode_eq]; exact v2_decode_spec_encode frame ts filler id hts hfl hlen

end Msmart.Props.C02
