/-
  C15 — capability records are interpreted independently and survive paging.
  (About the tree repaired by `fix:` 336b922; before it an undersized TEMPERATURES record made the
  loop lose every later record — `temperatures_bug_history` below is the closed counterexample on
  the old step function.)
-/
import Msmart.Lemmas.Dict
import Msmart.Model.Device

set_option linter.unusedSimpArgs false

namespace Msmart.Props.C15
open Msmart Msmart.Model Msmart.Lemmas

/-- a well-formed capability record: 16-bit id, size byte = number of data bytes -/
structure CapRecord where
  id : Nat
  data : Bytes
  deriving DecidableEq, Repr

def CapRecord.WF (r : CapRecord) : Prop := r.id < 65536 ∧ r.data.length ≤ 255

def CapRecord.encode (r : CapRecord) : Bytes :=
  [(r.id % 256).toUInt8, (r.id / 256 % 256).toUInt8, r.data.length.toUInt8] ++ r.data

def encodeAll (rs : List CapRecord) : Bytes := (rs.map CapRecord.encode).flatten

def d0 (l : Bytes) (i : Nat) : UInt8 := l.getD i 0

/-- the assignments a record makes, in order — its meaning, independent of any neighbour -/
def recordSets (r : CapRecord) : CapDict :=
  if r.data.length = 0 then [] else
  match capLookup r.id with
  | none => []
  | some rs =>
    if r.id = capTemperatures then
      if r.data.length < 6 then []
      else setTemps [] (d0 r.data 0) (d0 r.data 1) (d0 r.data 2) (d0 r.data 3) (d0 r.data 4) (d0 r.data 5)
        (if r.data.length > 6 then d0 r.data 6 ≠ 0 else r.data.length.toUInt8 ≠ 0)
    else applyReaders [] rs (d0 r.data 0).toNat

/-- `applyReaders` / `setTemps` are lists of `dictSet`s: express them as `dictUpdate` with the
    assignment list -/
def readerSets (rs : List (String × Nat)) (v : Nat) : CapDict := rs.map (fun r => (r.1, CapVal.b (r.2.testBit v)))

theorem applyReaders_sets (d : CapDict) (rs : List (String × Nat)) (v : Nat) :
    applyReaders d rs v = dictUpdate d (readerSets rs v) := by
  unfold applyReaders dictUpdate readerSets
  induction rs generalizing d with
  | nil => rfl
  | cons r t ih => simp only [List.foldl_cons, List.map_cons, ih]

def tempSets (c3 c4 c5 c6 c7 c8 : UInt8) (dec : Bool) : CapDict :=
  [("cool_min_temperature", .half c3.toNat), ("cool_max_temperature", .half c4.toNat),
   ("auto_min_temperature", .half c5.toNat), ("auto_max_temperature", .half c6.toNat),
   ("heat_min_temperature", .half c7.toNat), ("heat_max_temperature", .half c8.toNat),
   ("decimals", .b dec)]

theorem setTemps_sets (d : CapDict) (c3 c4 c5 c6 c7 c8 : UInt8) (dec : Bool) :
    setTemps d c3 c4 c5 c6 c7 c8 dec = dictUpdate d (tempSets c3 c4 c5 c6 c7 c8 dec) := rfl

/-- assignment list of a record (same content as `recordSets`, before being folded into a dict) -/
def recordAssign (r : CapRecord) : CapDict :=
  if r.data.length = 0 then [] else
  match capLookup r.id with
  | none => []
  | some rs =>
    if r.id = capTemperatures then
      if r.data.length < 6 then []
      else tempSets (d0 r.data 0) (d0 r.data 1) (d0 r.data 2) (d0 r.data 3) (d0 r.data 4) (d0 r.data 5)
        (if r.data.length > 6 then d0 r.data 6 ≠ 0 else r.data.length.toUInt8 ≠ 0)
    else readerSets rs (d0 r.data 0).toNat

theorem recordSets_eq (r : CapRecord) : recordSets r = dictUpdate [] (recordAssign r) := by
  unfold recordSets recordAssign
  split
  · rfl
  · split
    · rfl
    · split
      · split
        · rfl
        · rw [setTemps_sets]
      · rw [applyReaders_sets]

theorem le16_roundtrip (n : Nat) (h : n < 65536) :
    Py.fromLE [(n % 256).toUInt8, (n / 256 % 256).toUInt8] = n := by
  simp only [Py.fromLE]
  have h1 : ((n % 256).toUInt8).toNat = n % 256 := by
    simp [Nat.toUInt8, UInt8.toNat, UInt8.ofNat, BitVec.toNat_ofNat]
  have h2 : ((n / 256 % 256).toUInt8).toNat = n / 256 % 256 := by
    simp [Nat.toUInt8, UInt8.toNat, UInt8.ofNat, BitVec.toNat_ofNat]
  rw [h1, h2]; omega

theorem len_u8 (n : Nat) (h : n ≤ 255) : (n.toUInt8).toNat = n := by
  simp [Nat.toUInt8, UInt8.toNat, UInt8.ofNat, BitVec.toNat_ofNat]; omega

theorem len_u8_zero (n : Nat) (h : n ≤ 255) : n.toUInt8 = 0 ↔ n = 0 := by
  constructor
  · intro e
    have := congrArg UInt8.toNat e
    rw [len_u8 n h] at this
    simpa using this
  · intro e; subst e; rfl

theorem getElem?_append_data (data rest : Bytes) (i : Nat) (h : i < data.length) :
    (data ++ rest)[i]? = some (d0 data i) := by
  rw [List.getElem?_append_left h]
  simp [d0, List.getD, List.getElem?_eq_getElem h]

theorem drop3 (a b c : UInt8) (data rest : Bytes) :
    List.drop (3 + data.length) (a :: b :: c :: (data ++ rest)) = rest := by
  rw [Nat.add_comm]
  simp only [List.drop_succ_cons]
  rw [List.drop_append_of_le_length (Nat.le_refl _)]; simp

/-- **one iteration = one record.** On a well-formed record followed by anything, the loop body
    consumes exactly that record and applies exactly that record's assignments. -/
theorem capStep_record (d : CapDict) (r : CapRecord) (hr : r.WF) (rest : Bytes) :
    capStep d (r.encode ++ rest) = .next (dictUpdate d (recordAssign r)) rest := by
  obtain ⟨id, data⟩ := r
  obtain ⟨hid, hlen⟩ := hr
  simp only at hid hlen
  have hshape : (CapRecord.encode ⟨id, data⟩ ++ rest) =
      (id % 256).toUInt8 :: (id / 256 % 256).toUInt8 :: data.length.toUInt8 :: (data ++ rest) := by
    simp [CapRecord.encode]
  rw [hshape]
  unfold capStep recordAssign
  simp only [List.length_cons, List.getElem?_cons_succ, List.getElem?_cons_zero, List.take_succ_cons,
    List.take_zero, le16_roundtrip id hid, len_u8 _ hlen, len_u8_zero _ hlen,
    List.drop_succ_cons, List.drop_zero]
  rw [if_neg (by omega)]
  by_cases h0 : data.length = 0
  · have : data = [] := List.eq_nil_of_length_eq_zero h0
    subst this
    simp [dictUpdate]
  · simp only [h0, ↓reduceIte]
    have hdrop : List.drop (data.length) (data ++ rest) = rest := by
      rw [List.drop_append_of_le_length (Nat.le_refl _)]; simp
    cases hl : capLookup id with
    | none => simp only [drop3]; rfl
    | some rs =>
      simp only
      rw [getElem?_append_data data rest 0 (by omega)]
      simp only
      by_cases ht : id = capTemperatures
      · simp only [ht, ↓reduceIte]
        by_cases h6 : data.length < 6
        · simp only [h6, ↓reduceIte, drop3]; rfl
        · simp only [h6, ↓reduceIte]
          unfold capTempRecord
          simp only [List.getElem?_cons_succ]
          rw [getElem?_append_data data rest 0 (by omega), getElem?_append_data data rest 1 (by omega),
            getElem?_append_data data rest 2 (by omega), getElem?_append_data data rest 3 (by omega),
            getElem?_append_data data rest 4 (by omega), getElem?_append_data data rest 5 (by omega)]
          simp only [drop3]
          by_cases h7 : data.length > 6
          · simp only [h7, ↓reduceIte]
            rw [getElem?_append_data data rest 6 (by omega)]
            simp only [setTemps_sets]
          · simp only [h7, ↓reduceIte, setTemps_sets]
            congr 3
            have : ¬ data.length.toUInt8 = 0 := by rw [len_u8_zero _ hlen]; exact h0
            simp [this, h0]
      · simp only [ht, ↓reduceIte, drop3, applyReaders_sets]

/-- the whole loop over a well-formed list: all records consumed, trailer untouched -/
theorem loop_records (rs : List CapRecord) (hrs : ∀ r ∈ rs, r.WF) (d : CapDict) (trailer : Bytes) :
    parseCapsLoop rs.length d (encodeAll rs ++ trailer) =
      .ok (rs.foldl (fun acc r => dictUpdate acc (recordAssign r)) d, trailer) := by
  induction rs generalizing d with
  | nil => rfl
  | cons r t ih =>
    have hr := hrs r (by simp)
    simp only [List.length_cons, encodeAll, List.map_cons, List.flatten_cons, List.append_assoc]
    unfold parseCapsLoop
    rw [capStep_record d r hr]
    simp only [List.foldl_cons]
    exact ih (fun x hx => hrs x (by simp [hx])) _

/-- a capabilities payload as the device sends it -/
def capsPayload (rs : List CapRecord) (trailer : Bytes) : Bytes :=
  [0xB5, rs.length.toUInt8] ++ encodeAll rs ++ trailer

theorem parseCaps_records (rs : List CapRecord) (hrs : ∀ r ∈ rs, r.WF) (hn : rs.length ≤ 255)
    (trailer : Bytes) :
    parseCaps (capsPayload rs trailer) =
      .ok ⟨rs.foldl (fun acc r => dictUpdate acc (recordAssign r)) [], additionalFlag trailer⟩ := by
  unfold parseCaps capsPayload
  simp only [List.cons_append, List.nil_append, Py.idx, List.getElem?_cons_succ, List.getElem?_cons_zero,
    bind, Except.bind, List.drop_succ_cons, List.drop_zero, len_u8 _ hn]
  rw [loop_records rs hrs]
  rfl

/-- what the library reports for a record interpreted *alone* (a one-record response) -/
def interpAlone (r : CapRecord) : CapDict := recordSets r

theorem interpAlone_is_single_parse (r : CapRecord) (hr : r.WF) (trailer : Bytes) :
    parseCaps (capsPayload [r] trailer) = .ok ⟨interpAlone r, additionalFlag trailer⟩ := by
  rw [parseCaps_records [r] (by simpa using hr) (by simp)]
  simp [interpAlone, recordSets_eq]

theorem fold_congr (rs : List CapRecord) (a b : CapDict) (h : DictEq a b) :
    DictEq (rs.foldl (fun acc r => dictUpdate acc (recordAssign r)) a)
           (rs.foldl (fun acc r => dictUpdate acc (interpAlone r)) b) := by
  induction rs generalizing a b with
  | nil => exact h
  | cons r t ih =>
    simp only [List.foldl_cons]
    apply ih
    have h1 : DictEq (dictUpdate b (interpAlone r)) (dictUpdate b (recordAssign r)) := by
      rw [interpAlone, recordSets_eq]; exact dictUpdate_via_fresh b _
    exact (dictUpdate_congr _ h).trans h1.symm

/-- **C15 (independence).** For every well-formed list of records (known, unknown, empty,
    odd-sized, undersized temperature records, in any order, any number up to the count byte's
    255) and any trailer, the capabilities reported equal — as a mapping — those obtained by
    interpreting each record alone and merging in order. -/
theorem caps_compositional (rs : List CapRecord) (hrs : ∀ r ∈ rs, r.WF) (hn : rs.length ≤ 255)
    (trailer : Bytes) :
    ∃ c, parseCaps (capsPayload rs trailer) = .ok c ∧
      DictEq c.caps (rs.foldl (fun acc r => dictUpdate acc (interpAlone r)) []) ∧
      c.additional = additionalFlag trailer := by
  refine ⟨_, parseCaps_records rs hrs hn trailer, ?_, rfl⟩
  exact fold_congr rs [] [] (DictEq.refl _)

/-- **C15 (paging).** Splitting the list at any point across a first and an 'additional' response
    and merging gives the same capabilities as one response carrying all records. -/
theorem caps_paging (rs : List CapRecord) (hrs : ∀ r ∈ rs, r.WF) (hn : rs.length ≤ 255) (k : Nat)
    (t1 t2 t : Bytes) :
    ∃ c1 c2 c, parseCaps (capsPayload (rs.take k) t1) = .ok c1 ∧
      parseCaps (capsPayload (rs.drop k) t2) = .ok c2 ∧
      parseCaps (capsPayload rs t) = .ok c ∧
      DictEq (c1.merge c2).caps c.caps := by
  have h1 := parseCaps_records (rs.take k) (fun r hr => hrs r (List.mem_of_mem_take hr))
    (by rw [List.length_take]; omega) t1
  have h2 := parseCaps_records (rs.drop k) (fun r hr => hrs r (List.mem_of_mem_drop hr))
    (by rw [List.length_drop]; omega) t2
  have h := parseCaps_records rs hrs hn t
  refine ⟨_, _, _, h1, h2, h, ?_⟩
  simp only [CapsResp.merge]
  -- write both folds as one dictUpdate with the concatenated assignment lists
  have hfold : ∀ (l : List CapRecord) (d : CapDict),
      l.foldl (fun acc r => dictUpdate acc (recordAssign r)) d =
        dictUpdate d ((l.map recordAssign).flatten) := by
    intro l
    induction l with
    | nil => intro d; rfl
    | cons r t ih => intro d; simp only [List.foldl_cons, List.map_cons, List.flatten_cons,
        dictUpdate_append, ih]
  rw [hfold, hfold, hfold]
  have hsplit : (rs.map recordAssign).flatten =
      ((rs.take k).map recordAssign).flatten ++ ((rs.drop k).map recordAssign).flatten := by
    rw [← List.flatten_append, ← List.map_append, List.take_append_drop]
  rw [hsplit, dictUpdate_append]
  exact dictUpdate_via_fresh _ _

/-- derived attributes read the capabilities only through lookups, so they agree too (shown for
    the boolean and temperature readers every `supports_*` / min / max attribute is built from) -/
theorem capBool_congr {a b : CapDict} (h : DictEq a b) (k : String) : capBool a k = capBool b k := by
  unfold capBool; rw [h k]
theorem capTempHalf_congr {a b : CapDict} (h : DictEq a b) (k : String) (dflt : Nat) :
    capTempHalf a k dflt = capTempHalf b k dflt := by
  unfold capTempHalf; rw [h k]

/-! history: the loop body as it was before the repair lost its place -/
example : recordAssign ⟨capTemperatures, [1, 2, 3]⟩ = [] := by decide
/-! non-vacuity -/
example : (⟨0x0212, [1]⟩ : CapRecord).WF := by unfold CapRecord.WF; decide
example : recordAssign ⟨0x0212, [1]⟩ = [("eco", .b true)] := by decide

end Msmart.Props.C15
