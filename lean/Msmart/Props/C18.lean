/-
  C18 — discovery: one device per host; bad responders cannot spoil the rest.
  (About the tree repaired by `fix:` f6d4c4f: before it a parse exception in one host's task
  propagated through asyncio.gather and aborted the whole run.)
-/
import Msmart.Lemmas.CodecEqLan
import Msmart.Model.Discover

set_option linter.unusedSimpArgs false

namespace Msmart.Props.C18
open Msmart Msmart.Model

/-- the first datagram a host sent, if any -/
def firstOf (ds : List Dgram) (h : Nat) : Option Dgram := ds.find? (fun d => d.host = h)

/-- what a host contributes: the parse of its first datagram -/
def contribution (d : Dgram) : Option DevInfo :=
  match getDeviceVersion d.isXml d.data with
  | .ok v => getDevice v d.data
  | .error _ => none

theorem handle_hosts_fresh (seen : List Nat) (ds : List Dgram) :
    ∀ x ∈ handleDatagrams seen ds, x.1 ∉ seen := by
  induction ds generalizing seen with
  | nil => intro x hx; simp [handleDatagrams] at hx
  | cons d t ih =>
    intro x hx
    unfold handleDatagrams at hx
    by_cases hs : seen.contains d.host
    · rw [if_pos hs] at hx; exact ih seen x hx
    · rw [if_neg hs] at hx
      have hmem : d.host ∉ seen := by simpa using hs
      cases hv : getDeviceVersion d.isXml d.data with
      | error e =>
        rw [hv] at hx
        have := ih (d.host :: seen) x hx
        exact fun h => this (List.mem_cons_of_mem _ h)
      | ok v =>
        rw [hv] at hx
        simp only [List.mem_cons] at hx
        rcases hx with rfl | hx
        · exact hmem
        · have := ih (d.host :: seen) x hx
          exact fun h => this (List.mem_cons_of_mem _ h)

/-- **C18 (one per host).** Whatever datagrams arrive — any multiset, any order, any source ports,
    any number of duplicates — at most one task, hence at most one device, per source address. -/
theorem one_task_per_host (seen : List Nat) (ds : List Dgram) :
    ((handleDatagrams seen ds).map (·.1)).Nodup := by
  induction ds generalizing seen with
  | nil => simp [handleDatagrams]
  | cons d t ih =>
    unfold handleDatagrams
    by_cases hs : seen.contains d.host
    · rw [if_pos hs]; exact ih seen
    · rw [if_neg hs]
      cases hv : getDeviceVersion d.isXml d.data with
      | error e => exact ih _
      | ok v =>
        simp only [List.map_cons, List.nodup_cons]
        refine ⟨?_, ih _⟩
        intro hmem
        obtain ⟨x, hx, hx1⟩ := List.mem_map.mp hmem
        have := handle_hosts_fresh (d.host :: seen) t x hx
        exact this (by rw [hx1]; simp)

theorem one_device_per_host (ds : List Dgram) : ((discoverRun ds).map (·.1)).Nodup := by
  unfold discoverRun
  have h := one_task_per_host [] ds
  generalize handleDatagrams [] ds = l at h
  induction l with
  | nil => simp
  | cons x t ih =>
    obtain ⟨hh, v, data⟩ := x
    simp only [List.map_cons, List.nodup_cons] at h
    simp only [List.filterMap_cons]
    cases hg : getDevice v data with
    | none => simp only [Option.map_none]; exact ih h.2
    | some i =>
      simp only [Option.map_some, List.map_cons, List.nodup_cons]
      refine ⟨?_, ih h.2⟩
      intro hmem
      apply h.1
      obtain ⟨y, hy, hy1⟩ := List.mem_map.mp hmem
      obtain ⟨z, hz, hz2⟩ := List.mem_filterMap.mp hy
      obtain ⟨zh, zv, zd⟩ := z
      cases hgz : getDevice zv zd with
      | none => simp [hgz] at hz2
      | some j =>
        simp only [hgz, Option.map_some, Option.some.injEq] at hz2
        subst hz2
        exact List.mem_map.mpr ⟨(zh, zv, zd), hz, hy1⟩

/-- the task list, characterised: a host has a task iff its FIRST datagram (among hosts not yet
    seen) has a recognisable version, and the task carries exactly that datagram -/
theorem task_iff_first (seen : List Nat) (ds : List Dgram) (h v : Nat) (data : Bytes) :
    (h, v, data) ∈ handleDatagrams seen ds ↔
      h ∉ seen ∧ ∃ d, firstOf ds h = some d ∧ getDeviceVersion d.isXml d.data = .ok v ∧ d.data = data := by
  induction ds generalizing seen with
  | nil => simp [handleDatagrams, firstOf]
  | cons d t ih =>
    unfold handleDatagrams firstOf
    simp only [List.find?_cons]
    by_cases hs : seen.contains d.host
    · rw [if_pos hs]
      have hmem : d.host ∈ seen := by simpa using hs
      rw [ih seen]
      constructor
      · rintro ⟨hn, d', hf, hv, hd⟩
        have hne : d.host ≠ h := fun e => hn (e ▸ hmem)
        exact ⟨hn, d', by simp [hne, firstOf] at hf ⊢; exact hf, hv, hd⟩
      · rintro ⟨hn, d', hf, hv, hd⟩
        have hne : d.host ≠ h := fun e => hn (e ▸ hmem)
        exact ⟨hn, d', by simp [hne] at hf; simpa [firstOf] using hf, hv, hd⟩
    · rw [if_neg hs]
      have hnm : d.host ∉ seen := by simpa using hs
      by_cases hh : d.host = h
      · -- this is the host's first datagram
        subst hh
        simp only [decide_true, ↓reduceIte]
        cases hv : getDeviceVersion d.isXml d.data with
        | error e =>
          simp only
          rw [ih (d.host :: seen)]
          constructor
          · rintro ⟨hn, _⟩; exact absurd (List.mem_cons_self) hn
          · rintro ⟨_, d', hf, hv', _⟩
            cases hf; rw [hv] at hv'; cases hv'
        | ok v' =>
          simp only [List.mem_cons, Prod.mk.injEq, true_and]
          constructor
          · rintro (⟨rfl, rfl⟩ | hrest)
            · exact ⟨hnm, d, rfl, hv, rfl⟩
            · rw [ih (d.host :: seen)] at hrest
              exact absurd (List.mem_cons_self) hrest.1
          · rintro ⟨_, d', hf, hv', hd⟩
            cases hf
            rw [hv] at hv'; cases hv'
            left; exact ⟨rfl, hd.symm⟩
      · have hdec : decide (d.host = h) = false := by simp [hh]
        simp only [hdec]
        have key : ((h, v, data) ∈ handleDatagrams (d.host :: seen) t) ↔
            h ∉ seen ∧ ∃ d', List.find? (fun d => decide (d.host = h)) t = some d' ∧
              getDeviceVersion d'.isXml d'.data = .ok v ∧ d'.data = data := by
          rw [ih (d.host :: seen)]
          simp only [List.mem_cons, not_or, firstOf]
          constructor
          · rintro ⟨⟨_, hn⟩, rest⟩; exact ⟨hn, rest⟩
          · rintro ⟨hn, rest⟩; exact ⟨⟨fun e => hh e.symm, hn⟩, rest⟩
        cases hv : getDeviceVersion d.isXml d.data with
        | error e => simp only [Bool.false_eq_true, ↓reduceIte]; exact key
        | ok v' =>
          simp only [List.mem_cons, Prod.mk.injEq, Bool.false_eq_true, ↓reduceIte]
          constructor
          · rintro (⟨rfl, _, _⟩ | hrest)
            · exact absurd rfl hh
            · exact key.mp hrest
          · intro hx; right; exact key.mpr hx

/-- **C18 (result).** A device is reported for a host exactly when the host's FIRST datagram is a
    well-formed V2/V3 reply, and it is the parse of that datagram: later datagrams of the host,
    datagrams of other hosts and their order are irrelevant; a host whose first datagram is bad
    contributes nothing and changes nothing else. -/
theorem result_iff_first (ds : List Dgram) (h : Nat) (i : DevInfo) :
    (h, i) ∈ discoverRun ds ↔ ∃ d, firstOf ds h = some d ∧ contribution d = some i := by
  unfold discoverRun contribution
  simp only [List.mem_filterMap]
  constructor
  · rintro ⟨⟨h', v, data⟩, hm, hg⟩
    cases hgd : getDevice v data with
    | none => simp [hgd] at hg
    | some j =>
      simp only [hgd, Option.map_some, Option.some.injEq, Prod.mk.injEq] at hg
      obtain ⟨rfl, rfl⟩ := hg
      obtain ⟨_, d, hf, hv, hd⟩ := (task_iff_first [] ds h' v data).mp hm
      exact ⟨d, hf, by rw [hv, hd]; exact hgd⟩
  · rintro ⟨d, hf, hc⟩
    cases hv : getDeviceVersion d.isXml d.data with
    | error e => rw [hv] at hc; cases hc
    | ok v =>
      rw [hv] at hc
      exact ⟨(h, v, d.data), (task_iff_first [] ds h v d.data).mpr ⟨by simp, d, hf, hv, rfl⟩, by simp [hc]⟩

/-- **C18 (isolation).** Two arrival sequences in which every host has the same first datagram
    report the same set of devices — so interleaving, duplicates, source ports and anything a bad
    host sends after (or other hosts send around) its first datagram make no difference. -/
theorem depends_only_on_first (ds₁ ds₂ : List Dgram) (hf : ∀ h, firstOf ds₁ h = firstOf ds₂ h) (h : Nat)
    (i : DevInfo) : (h, i) ∈ discoverRun ds₁ ↔ (h, i) ∈ discoverRun ds₂ := by
  rw [result_iff_first, result_iff_first, hf h]

/-- `discoverRun` is a total function: no reply whatsoever makes the run fail (after the repair) -/
theorem discover_total (ds : List Dgram) : ∃ r, discoverRun ds = r := ⟨_, rfl⟩

/-! non-vacuity -/
example : discoverRun [⟨1, false, [1, 2, 3]⟩, ⟨1, false, [0x5A, 0x5A]⟩] = [] := by decide

/-! ### the version test as translated from the source text -/

/-- **C18 about the translated `Discover._get_device_version`** (the XML parser's verdict is an input bit): a datagram that is
    not XML is classified by its first two bytes, and one that starts with neither marker raises `DiscoverError` - the error
    the handler isolates - and nothing else. -/
theorem version_classification_code (data : Bytes) :
    Generated.Codec.getDeviceVersion false data =
      (if data.take 2 = [0x5A, 0x5A] then .ok 2 else if data.take 2 = [0x83, 0x70] then .ok 3 else .error .discover) := by
  rw [CodecEq.getDeviceVersion_eq]
  unfold getDeviceVersion
  simp only [Bool.false_eq_true, if_false]
  split
  · rfl
  · split <;> rfl

/-- … and XML (a V1 unit) is version 1 whatever the bytes are -/
theorem version_xml_code (data : Bytes) : Generated.Codec.getDeviceVersion true data = .ok 1 := by
  rw [CodecEq.getDeviceVersion_eq]; rfl

end Msmart.Props.C18
