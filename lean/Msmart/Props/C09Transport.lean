/-
  C09 — transport containment: whatever the peer sends, an exchange or an authentication ends in
  decoded frames, a protocol / authentication error or a timeout.

  Proved over the Session model for EVERY reaction function of the peer (every byte sequence, at
  every time, on every connection, including closes), every outcome of every connection attempt and
  every history of operations.  The decoders involved are the very models whose byte-level behaviour
  C02–C06 tie to the code (`processPacket`, `packetDecode`, `getLocalKey`, the reassembly loop); their
  error alphabets are in `Lemmas/PacketErr.lean`.  The invariant that makes `packet[4]`, `packet[5]`
  safe — a V3 receive queue only holds what the reassembly cut, at least 8 bytes — is `QOk`.
-/
import Msmart.Lemmas.SessionContain

namespace Msmart.Props.C09
open Msmart Msmart.Model Msmart.Model.Session Msmart.Lemmas.Sess

/-- the allowed ways for a transport-level call to end -/
def Contained {α} (r : R α) : Prop := ∀ e, r = .error e → e = .protocol ∨ e = .auth ∨ e = .timeout

/-- what is assumed of the CALLER (not of the peer): the queue invariant of a reachable state and
    well-formed stored credentials -/
def Good (s : S) : Prop := QOk s ∧ CredOk s ∧ s.w.cancelAt = none

theorem good_fresh (s : S) (h1 : s.l.conn = none) (h2 : s.l.token = none) (h3 : s.l.key = none)
    (h4 : s.w.cancelAt = none) : Good s :=
  ⟨qok_none h1, by unfold CredOk; rw [h2, h3]; simp, h4⟩

/-- **C09 (exchange).** For every peer behaviour: `LAN.send` ends in frames or in a protocol /
    authentication / timeout error, and leaves a state from which the same holds again. -/
theorem send_contained (p : Params) (rx : Reactions) (s s' : S) (frame : Bytes) (n : Nat) (r : R (List Bytes))
    (hg : Good s) (h : lanSend p rx s frame n = (r, s')) : Contained r ∧ Good s' := by
  obtain ⟨a1, a2, a3⟩ := lanSend_contain hg.1 hg.2.1 hg.2.2 h
  refine ⟨a3, a1, a2, ?_⟩
  exact noCancel_lanSend hg.2.2 h

/-- **C09 (authentication).** For every peer behaviour: `LAN.authenticate(token, key)` with a token that
    fits the packet's size field and a 32-byte key ends normally or in a protocol / authentication /
    timeout error. -/
theorem authenticate_contained (p : Params) (rx : Reactions) (s s' : S) (t k : Bytes) (r : R Unit)
    (hg : Good s) (ht : t.length < 65536) (hk : k.length = 32)
    (h : lanAuthenticate p rx s (some t) (some k) Generated.lanRetries = (r, s')) : Contained r ∧ Good s' := by
  have hpt : ∀ x, pickCred (some t) (some k) s.l.token = some x → x.length < 65536 := by
    intro x hx; simp [pickCred] at hx; subst hx; exact ht
  have hpk : ∀ x, pickCred (some k) (some t) s.l.key = some x → x.length = 32 := by
    intro x hx; simp [pickCred] at hx; subst hx; exact hk
  obtain ⟨a1, a2, _⟩ := lanAuthenticate_contain hg.1 lanRetries_pos hg.2.2 hpt hpk h
  refine ⟨a2, a1, ?_, noCancel_lanAuthenticate hg.2.2 h⟩
  rcases creds_lanAuthenticate h with ⟨_, hc⟩ | ⟨_, hc⟩
  · simp only [creds, Prod.mk.injEq] at hc
    unfold CredOk; rw [hc.1, hc.2]; exact ⟨hpt, hpk⟩
  · exact credOk_of_creds hg.2.1 hc

/-- operations whose caller-supplied arguments are well formed -/
def WfOp : Op → Prop
  | .authenticate t k => t.length < 65536 ∧ k.length = 32
  | .sendCancelled .. => False          -- cancellation by the caller is not a peer behaviour; see `cancelled_…` below
  | .authCancelled .. => False
  | _ => True

def OutcomeOk : Outcome → Prop
  | .failed e => e = .protocol ∨ e = .auth ∨ e = .timeout
  | _ => True

theorem step_contained (p : Params) (rx : Reactions) (s : S) (op : Op) (hg : Good s) (hw : WfOp op) :
    OutcomeOk (step p rx s op).1 ∧ Good (step p rx s op).2 := by
  cases op with
  | send f =>
    simp only [step]
    cases hl : lanSend p rx s f Generated.lanRetries with
    | mk r s1 =>
      obtain ⟨c, g⟩ := send_contained p rx s s1 f _ r hg hl
      cases r with
      | ok fs => exact ⟨trivial, g⟩
      | error e => exact ⟨c e rfl, g⟩
  | sendN f n =>
    simp only [step]
    cases hl : lanSend p rx s f n with
    | mk r s1 =>
      obtain ⟨c, g⟩ := send_contained p rx s s1 f _ r hg hl
      cases r with
      | ok fs => exact ⟨trivial, g⟩
      | error e => exact ⟨c e rfl, g⟩
  | authenticate t k =>
    simp only [step]
    cases hl : lanAuthenticate p rx s (some t) (some k) Generated.lanRetries with
    | mk r s1 =>
      obtain ⟨c, g⟩ := authenticate_contained p rx s s1 t k r hg hw.1 hw.2 hl
      cases r with
      | ok u => exact ⟨trivial, g⟩
      | error e => exact ⟨c e rfl, g⟩
  | advance ms =>
    exact ⟨trivial, qok_pump _ hg.1, credOk_of_creds hg.2.1 (creds_pump _ _), by show (pump s (s.w.now + ms)).w.cancelAt = none; rw [cancelAt_pump]; exact hg.2.2⟩
  | setMaxLifetime m =>
    exact ⟨trivial, qok_of_conn_eq hg.1 rfl, credOk_of_creds hg.2.1 rfl, hg.2.2⟩
  | sendCancelled f ms => exact hw.elim
  | authCancelled t k ms => exact hw.elim

/-- **C09 (histories).** In every history of sends, authentications, clock jumps and lifetime changes,
    against every peer: every operation ends in frames / normally / in a protocol, authentication or
    timeout error — no other exception class is ever an outcome. -/
theorem transport_contained (p : Params) (rx : Reactions) (ops : List Op) (s : S) (hg : Good s)
    (hw : ∀ op ∈ ops, WfOp op) :
    (∀ o ∈ (run p rx s ops).1, OutcomeOk o) ∧ Good (run p rx s ops).2 := by
  induction ops generalizing s with
  | nil => exact ⟨by simp [run], hg⟩
  | cons op t ih =>
    obtain ⟨h1, h2⟩ := step_contained p rx s op hg (hw op (List.mem_cons_self ..))
    obtain ⟨i1, i2⟩ := ih (step p rx s op).2 h2 (fun o ho => hw o (List.mem_cons_of_mem _ ho))
    refine ⟨?_, by simpa [run] using i2⟩
    intro o ho
    simp only [run, List.mem_cons] at ho
    rcases ho with rfl | ho
    · exact h1
    · exact i1 o ho

/-- **C09 (device level).** `Device._send_command` never raises: whatever the peer does it returns a
    (possibly empty) list of frames — so `refresh()` and friends report an unresponsive device. -/
theorem device_send_never_raises (p : Params) (rx : Reactions) (s : S) (frame : Bytes) (hg : Good s) :
    ∃ fs, (deviceSend p rx s frame).1 = .ok fs := by
  unfold deviceSend
  cases hl : lanSend p rx s frame Generated.lanRetries with
  | mk r s1 =>
    obtain ⟨c, _⟩ := send_contained p rx s s1 frame _ r hg hl
    cases r with
    | ok fs => exact ⟨fs, rfl⟩
    | error e => rcases c e rfl with rfl | rfl | rfl <;> exact ⟨[], rfl⟩

/-- `Device.authenticate` ends normally or with an AuthenticationError -/
theorem device_authenticate_contained (p : Params) (rx : Reactions) (s : S) (t k : Bytes) (hg : Good s)
    (ht : t.length < 65536) (hk : k.length = 32) :
    (deviceAuthenticate p rx s t k).1 = .ok () ∨ (deviceAuthenticate p rx s t k).1 = .error .auth := by
  unfold deviceAuthenticate
  cases hl : lanAuthenticate p rx s (some t) (some k) Generated.lanRetries with
  | mk r s1 =>
    obtain ⟨c, _⟩ := authenticate_contained p rx s s1 t k r hg ht hk hl
    cases r with
    | ok u => exact .inl rfl
    | error e => rcases c e rfl with rfl | rfl | rfl <;> exact .inr rfl

/-! non-vacuity: a fresh object is `Good`; and the error alphabet is really inhabited — an error
    packet from the peer is a protocol error for the decoder the model runs -/
example : Good { w := { connects := [.ok] }, l := {} } := good_fresh _ rfl rfl rfl rfl
example : processPacket none [0x83, 0x70, 0, 0x20, 0x20, 0x0f, 0, 0] = .error .protocol := by rfl

end Msmart.Props.C09
