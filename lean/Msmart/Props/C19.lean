/-
  C19 — cloud token retrieval follows the API contract and returns only matching credentials.
-/
import Msmart.Model.Cloud
import Msmart.Lemmas.CodecEqLan
import Msmart.Spec.CloudSpec

set_option linter.unusedSimpArgs false

namespace Msmart.Props.C19
open Msmart Msmart.Model

/-! ### signing -/

theorem leKV_trans (a b c : String × String) : leKV a b → leKV b c → leKV a c := by
  simp only [leKV, decide_eq_true_eq]; exact String.le_trans

theorem leKV_total (a b : String × String) : (leKV a b || leKV b a) = true := by
  simp only [leKV, Bool.or_eq_true, decide_eq_true_eq]; exact String.le_total _ _

theorem sorted_unique {l₁ l₂ : Fields} (hnd : (l₁.map Prod.fst).Nodup)
    (h₁ : l₁.Pairwise (fun a b => leKV a b)) (h₂ : l₂.Pairwise (fun a b => leKV a b)) (hp : l₁.Perm l₂) : l₁ = l₂ := by
  apply List.Perm.eq_of_pairwise (le := fun a b => leKV a b) _ h₁ h₂ hp
  intro a b ha hb hab hba
  simp only [leKV, decide_eq_true_eq] at hab hba
  have hk : a.1 = b.1 := String.le_antisymm hab hba
  have hb' : b ∈ l₁ := hp.symm.subset hb
  -- distinct keys: same key means same entry
  have : ∀ (l : Fields), (l.map Prod.fst).Nodup → a ∈ l → b ∈ l → a.1 = b.1 → a = b := by
    intro l
    induction l with
    | nil => intro _ h; cases h
    | cons x t ih =>
      intro hn hax hbx hk
      simp only [List.map_cons, List.nodup_cons] at hn
      simp only [List.mem_cons] at hax hbx
      rcases hax with rfl | hat
      · rcases hbx with rfl | hbt
        · rfl
        · exact absurd (List.mem_map.mpr ⟨b, hbt, hk.symm⟩) hn.1
      · rcases hbx with rfl | hbt
        · exact absurd (List.mem_map.mpr ⟨a, hat, hk⟩) hn.1
        · exact ih hn.2 hat hbt hk
  exact this l₁ hnd ha hb' hk

/-- **C19 (field order).** The signature does not depend on the order in which the body fields
    were put together: any permutation of a body with distinct keys signs identically. -/
theorem sign_order_independent (path : String) (fs gs : Fields) (hp : fs.Perm gs)
    (hnd : (fs.map Prod.fst).Nodup) : cloudSign path fs = cloudSign path gs := by
  unfold cloudSign canonical
  have hs : fs.mergeSort leKV = gs.mergeSort leKV := by
    apply sorted_unique
    · exact ((List.mergeSort_perm fs leKV).map Prod.fst).nodup_iff.mpr hnd
    · exact List.pairwise_mergeSort leKV_trans leKV_total fs
    · exact List.pairwise_mergeSort leKV_trans leKV_total gs
    · exact (List.mergeSort_perm fs leKV).trans (hp.trans (List.mergeSort_perm gs leKV).symm)
  rw [hs]

/-! the independent server's canonicalisation agrees with the library's -/

theorem insertKV_perm (kv : String × String) (l : Fields) : (Spec.Cloud.insertKV kv l).Perm (kv :: l) := by
  induction l with
  | nil => exact List.Perm.refl _
  | cons h t ih =>
    unfold Spec.Cloud.insertKV
    split
    · exact List.Perm.refl _
    · exact (List.Perm.cons h ih).trans (List.Perm.swap kv h t)

theorem sortKV_perm (l : Fields) : (Spec.Cloud.sortKV l).Perm l := by
  induction l with
  | nil => exact List.Perm.refl _
  | cons h t ih => exact (insertKV_perm h _).trans (List.Perm.cons h ih)

theorem insertKV_sorted (kv : String × String) (l : Fields) (hl : l.Pairwise (fun a b => leKV a b)) :
    (Spec.Cloud.insertKV kv l).Pairwise (fun a b => leKV a b) := by
  induction l with
  | nil => simp [Spec.Cloud.insertKV]
  | cons h t ih =>
    unfold Spec.Cloud.insertKV
    have hlt := List.pairwise_cons.mp hl
    split
    · rename_i hle
      refine List.pairwise_cons.mpr ⟨?_, hl⟩
      intro x hx
      simp only [List.mem_cons] at hx
      rcases hx with rfl | hx
      · simp [leKV, hle]
      · exact leKV_trans kv h x (by simp [leKV, hle]) (hlt.1 x hx)
    · rename_i hnle
      have hle' : h.1 ≤ kv.1 := by
        rcases String.le_total kv.1 h.1 with h1 | h1
        · exact absurd h1 hnle
        · exact h1
      refine List.pairwise_cons.mpr ⟨?_, ih hlt.2⟩
      intro x hx
      have := (insertKV_perm kv t).subset hx
      simp only [List.mem_cons] at this
      rcases this with rfl | hx'
      · simp [leKV, hle']
      · exact hlt.1 x hx'

theorem sortKV_sorted (l : Fields) : (Spec.Cloud.sortKV l).Pairwise (fun a b => leKV a b) := by
  induction l with
  | nil => simp [Spec.Cloud.sortKV]
  | cons h t ih => exact insertKV_sorted h _ ih

theorem sort_agree (fs : Fields) (hnd : (fs.map Prod.fst).Nodup) : Spec.Cloud.sortKV fs = fs.mergeSort leKV := by
  apply sorted_unique
  · exact ((sortKV_perm fs).map Prod.fst).nodup_iff.mpr hnd
  · exact sortKV_sorted fs
  · exact List.pairwise_mergeSort leKV_trans leKV_total fs
  · exact (sortKV_perm fs).trans (List.mergeSort_perm fs leKV).symm

theorem hex_agree (b : Bytes) : Spec.Cloud.hex b = hexOf b := rfl
theorem appKey_agree : Generated.appKey = Spec.Cloud.appKey := by decide

/-- **C19 (requests verify).** Every form the library posts — whatever endpoint and body with
    distinct field names not called `sign` — passes the conforming server's signature check. -/
theorem request_verifies (endpoint : String) (body : Fields) (hnd : (body.map Prod.fst).Nodup)
    (hns : ∀ kv ∈ body, kv.1 ≠ "sign") :
    Spec.Cloud.verifySign (apiRequest endpoint body).1 (apiRequest endpoint body).2 = true := by
  unfold apiRequest Spec.Cloud.verifySign
  simp only
  have hfind : (body ++ [("sign", cloudSign endpoint body)]).find? (fun kv => kv.1 = "sign") =
      some ("sign", cloudSign endpoint body) := by
    rw [List.find?_append]
    have : body.find? (fun kv => decide (kv.1 = "sign")) = none := by
      rw [List.find?_eq_none]; intro x hx; simpa using hns x hx
    rw [this]; simp
  have hfilter : (body ++ [("sign", cloudSign endpoint body)]).filter (fun kv => kv.1 ≠ "sign") = body := by
    rw [List.filter_append]
    have : body.filter (fun kv => decide (kv.1 ≠ "sign")) = body := by
      rw [List.filter_eq_self]; intro x hx; simpa using hns x hx
    rw [this]; simp
  rw [hfind, hfilter]
  simp only [decide_eq_true_eq]
  unfold cloudSign Spec.Cloud.expectedSign canonical
  rw [sort_agree body hnd, hex_agree, appKey_agree]
  rfl

/-- the password sent at login is the derivation the server expects -/
theorem password_verifies (loginId password : String) :
    encryptPassword loginId password = Spec.Cloud.expectedPassword loginId password := by
  unfold encryptPassword Spec.Cloud.expectedPassword
  rw [appKey_agree]; rfl

/-- the session id issued by the server is echoed in every later request body -/
theorem session_id_echoed (sid dev stamp : String) (data : Fields) (hd : ∀ kv ∈ data, kv.1 ≠ "sessionId") :
    ("sessionId", sid) ∈ buildBody sid dev stamp data := by
  unfold buildBody
  have : ∀ (acc : Fields), ("sessionId", sid) ∈ acc →
      ("sessionId", sid) ∈ data.foldl (fun acc kv => (acc.filter (fun x => x.1 ≠ kv.1)) ++ [kv]) acc := by
    induction data with
    | nil => intro acc h; exact h
    | cons kv t ih =>
      intro acc h
      simp only [List.foldl_cons]
      apply ih (fun x hx => hd x (by simp [hx]))
      apply List.mem_append_left
      rw [List.mem_filter]
      refine ⟨h, ?_⟩
      have := hd kv (by simp)
      simpa using fun e => this e.symm
  exact this _ (by simp)

/-! ### token selection -/

/-- **C19 (exact match).** The credentials returned are those of the first list entry whose udpId
    equals the requested one — and a cloud error when there is none: never another entry's. -/
theorem token_exact_match (tl : List (String × String × String)) (u t k : String) :
    getToken tl u = .ok (t, k) ↔ ∃ e, tl.find? (fun e => e.1 = u) = some e ∧ e.2.1 = t ∧ e.2.2 = k := by
  unfold getToken
  cases h : tl.find? (fun e => decide (e.1 = u)) with
  | none => simp
  | some e => simp [Prod.ext_iff]

theorem token_entry_matches (tl : List (String × String × String)) (u t k : String)
    (h : getToken tl u = .ok (t, k)) : (u, t, k) ∈ tl := by
  obtain ⟨e, hf, rfl, rfl⟩ := (token_exact_match tl u _ _).mp h
  have hm := List.mem_of_find?_eq_some hf
  have hp := List.find?_some hf
  simp only [decide_eq_true_eq] at hp
  obtain ⟨a, b, c⟩ := e
  simp only at hp; subst hp; exact hm

theorem token_absent (tl : List (String × String × String)) (u : String) (h : ∀ e ∈ tl, e.1 ≠ u) :
    getToken tl u = .error .cloud := by
  unfold getToken
  have : tl.find? (fun e => decide (e.1 = u)) = none := by
    rw [List.find?_eq_none]; intro x hx; simpa using h x hx
  rw [this]

/-! ### retries -/

/-- **C19 (retry bound).** For EVERY sequence of timeouts / HTTP errors / API error codes the
    request is attempted at most `retries` times; timeouts, HTTP errors and API errors surface as
    cloud errors. -/
theorem post_retry_bound {α} (answers : Nat → Attempt α) (retries used : Nat) :
    (postRequest answers retries used).2 ≤ used + retries ∧
    (∀ e, (postRequest answers retries used).1 = .error e → e = .cloud) := by
  induction retries generalizing used with
  | zero => simp [postRequest]
  | succ n ih =>
    unfold postRequest
    cases answers used with
    | ok r => simp
    | apiError c => simp
    | httpError => simp
    | timeout =>
      simp only
      split
      · have := ih (used + 1)
        exact ⟨by omega, this.2⟩
      · simp

/-- all attempts time out: exactly `retries` attempts, then a cloud error -/
theorem post_all_timeouts {α} (retries : Nat) (h : 0 < retries) (used : Nat) :
    postRequest (fun _ => (Attempt.timeout : Attempt α)) retries used = (.error .cloud, used + retries) := by
  induction retries generalizing used with
  | zero => cases h
  | succ n ih =>
    unfold postRequest
    simp only
    split
    · rename_i hn
      rw [ih (by omega) (used + 1)]
      congr 1; omega
    · rename_i hn
      have : n = 0 := by omega
      subst this; rfl

/-! ### the two byte orders -/

/-- **C19 (either byte order).** With a service that answers every udpid query with matching
    credentials (what the real service does), the device ends up authenticated with the credentials
    registered for whichever of udpid(LE id), udpid(BE id) it accepts — little-endian tried first. -/
theorem two_endian_auth (id : Nat) (cloud : String → R (String × String)) (acc : String → String → Bool)
    (tl kl tb kb : String)
    (hl : cloud (hexOf (udpid (Py.toLE 6 id))) = .ok (tl, kl))
    (hb : cloud (hexOf (udpid (Py.toBE 6 id))) = .ok (tb, kb)) :
    authenticateDevice id cloud acc =
      if acc tl kl then .ok (some (tl, kl)) else if acc tb kb then .ok (some (tb, kb)) else .ok none := by
  unfold authenticateDevice
  rw [hl]; simp only
  split
  · rfl
  · rw [hb]

/-- recorded limitation: a cloud error on the first query aborts without trying the other order -/
theorem first_query_error_aborts (id : Nat) (cloud : String → R (String × String)) (acc : String → String → Bool)
    (e : Err) (hl : cloud (hexOf (udpid (Py.toLE 6 id))) = .error e) :
    authenticateDevice id cloud acc = .error e := by
  unfold authenticateDevice; rw [hl]

/-! non-vacuity -/
example : getToken [("a", "t1", "k1"), ("b", "t2", "k2"), ("b", "t3", "k3")] "b" = .ok ("t2", "k2") := by
  rw [token_exact_match]; exact ⟨("b", "t2", "k2"), by decide, rfl, rfl⟩

end Msmart.Props.C19
