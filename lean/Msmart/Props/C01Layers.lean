/-
  C01 — end-to-end fidelity.  The layer theorems (C02, C04, C05, C10, C11, C12) composed:
  what the user applies is what the device decodes; what the device reports is what a fresh client
  exposes — through command encoding, V2 framing, V3 encryption, any TCP segmentation, reassembly
  and response decoding, and with duplicated / unsolicited frames interleaved.
-/
import Msmart.Props.C02
import Msmart.Props.C03
import Msmart.Props.C04
import Msmart.Props.C05
import Msmart.Props.C10
import Msmart.Props.C11
import Msmart.Props.C12

set_option linter.unusedSimpArgs false
set_option maxRecDepth 2000

namespace Msmart.Props.C01
open Msmart Msmart.Model Msmart.Lemmas Msmart.Crypto

/-! ### apply: user state → wire → device -/

/-- **C01 (apply, V2).** For every settable state, device id, timestamp and counter value: the
    bytes `apply()` hands to the V2 transport are decoded by the independent implementation to the
    same device id and a well-formed 0xAC control frame whose body the device reads (vendor layout)
    as exactly the requested state. -/
theorem e2e_apply_v2 (s : Spec.DevState) (hv : s.Valid) (id : Nat) (hid : id < 2 ^ 64) (ts : Bytes)
    (hts : ts.length = 8) (counter : Nat) :
    ∃ frame wire body,
      ((Cmd.setState (setStateOfDev (C10.devOf s))).toBytes counter).1 = .ok frame ∧
      packetEncode id ts frame = .ok wire ∧
      Spec.V2.decode wire = some (id, frame) ∧
      Spec.parseFrame frame = some ⟨0xAC, Spec.ftControl, body, ((counter + 1) % 256).toUInt8⟩ ∧
      Spec.decodeSetState body = some s := by
  obtain ⟨body, hb, hdec⟩ := C10.setstate_roundtrip s hv
  have hbl : body.length = 24 := by
    rw [C10.setStateBody_ok _ (by simp only [setStateOfDev, C10.devOf]; have := hv.2.2.2.1; omega)] at hb
    cases hb; rfl
  obtain ⟨frame, hframe⟩ := C12.command_emitted (.setState (setStateOfDev (C10.devOf s))) counter body hb (by omega)
  obtain ⟨body', hb', _, hparse⟩ := C12.command_wellformed _ counter frame hframe
  have : body' = body := by
    have : (Cmd.setState (setStateOfDev (C10.devOf s))).body = .ok body := hb
    rw [this] at hb'; cases hb'; rfl
  subst this
  have hfl : frame.length = 37 := by
    have hp := hparse
    unfold Cmd.toBytes at hframe
    simp only [show (Cmd.setState (setStateOfDev (C10.devOf s))).body = .ok body' from hb] at hframe
    unfold commandToBytes frameToBytes at hframe
    simp only [Generated.frameHeaderLength, List.length_append, List.length_cons, List.length_nil, hbl] at hframe
    split at hframe
    · cases hframe
    · cases hframe; simp [hbl]
  have hfit : 56 + (encryptAes frame).length < 65536 := C02.small_frames_fit frame (by omega)
  obtain ⟨wire, hw, hd⟩ := C02.v2_spec_decodes_encode frame ts id hts hid hfit
  exact ⟨frame, wire, body', hframe, hw, hd, hparse, hdec⟩

/-- **C01 (apply, V3).** … and on a V3 connection the same V2 packet, encrypted under ANY session
    key with ANY 2-byte counter and pad bytes, is recovered by the independent V3 decoder. -/
theorem e2e_apply_v3 (wire key padBytes : Bytes) (pid : Nat) (hp : pid < 65536)
    (hpl : padBytes.length = v3Pad wire.length) (hsz : wire.length + v3Pad wire.length + 32 < 65536) :
    ∃ pkt, encodeEncryptedRequest (some key) pid wire padBytes = .ok pkt ∧
      Spec.V3.decodeEncrypted key pkt = some ⟨6, pid, wire⟩ :=
  C05.v3_spec_decodes_request key wire padBytes pid hp hpl hsz

/-! ### refresh: device state → wire → client attributes -/

theorem st_b1 : ∀ p : Bool, bit (Spec.fl p 0x01) 0x01 = p := by decide
theorem st_temp : ∀ t : Nat, t < 88 → 26 ≤ t → ∀ m : Nat, m < 8 → ∀ f : Bool,
    stateTemp (((m % 8) * 32).toUInt8 ||| (if 34 ≤ t ∧ t ≤ 61 then (t / 2 - 16).toUInt8 else 0) ||| Spec.fl (t % 2 = 1) 0x10)
      ((if 34 ≤ t ∧ t ≤ 61 then 0 else (t / 2 - 12).toUInt8) ||| Spec.fl f 0x20) = Int.ofNat t * 50 ∧
    ((((m % 8) * 32).toUInt8 ||| (if 34 ≤ t ∧ t ≤ 61 then (t / 2 - 16).toUInt8 else 0) ||| Spec.fl (t % 2 = 1) 0x10) >>> 5).toNat % 8 = m ∧
    bit ((if 34 ≤ t ∧ t ≤ 61 then 0 else (t / 2 - 12).toUInt8) ||| Spec.fl f 0x20) 0x20 = f := by
  decide +kernel
theorem st_fan : ∀ f, f < 256 → (f.toUInt8).toNat = f := by decide +kernel
theorem st_swing : ∀ s, s < 16 → (((0x30 : UInt8) ||| (s % 16).toUInt8) &&& 0xF).toNat = s := by decide
theorem st_b8 : ∀ (fo : Bool) (a : Nat), a < 3 →
    bit (Spec.fl fo 0x80 ||| Spec.fl (a = 2) 0x40) 0x20 = false ∧
    bit (Spec.fl fo 0x80 ||| Spec.fl (a = 2) 0x40) 0x40 = decide (a = 2) ∧
    bit (Spec.fl fo 0x80 ||| Spec.fl (a = 2) 0x40) 0x80 = fo := by decide
theorem st_b9 : ∀ (e p : Bool) (a : Nat), a < 3 →
    bit (Spec.fl e 0x10 ||| Spec.fl p 0x20 ||| Spec.fl (a = 1) 0x08) 0x10 = e ∧
    bit (Spec.fl e 0x10 ||| Spec.fl p 0x20 ||| Spec.fl (a = 1) 0x08) 0x20 = p ∧
    bit (Spec.fl e 0x10 ||| Spec.fl p 0x20 ||| Spec.fl (a = 1) 0x08) 0x08 = decide (a = 1) := by decide
theorem st_b10 : ∀ sl tu fa : Bool,
    bit (Spec.fl sl 0x01 ||| Spec.fl tu 0x02 ||| Spec.fl fa 0x04) 0x01 = sl ∧
    bit (Spec.fl sl 0x01 ||| Spec.fl tu 0x02 ||| Spec.fl fa 0x04) 0x02 = tu ∧
    bit (Spec.fl sl 0x01 ||| Spec.fl tu 0x02 ||| Spec.fl fa 0x04) 0x04 = fa := by decide
theorem st_disp : ∀ d : Bool, decide ((if d then (0x00 : UInt8) else 0x70) ≠ 0x70) = d := by decide
theorem st_hum : ∀ h, h < 128 → ((h % 128).toUInt8 &&& 0x7F).toNat = h := by decide
theorem st_freeze : ∀ f : Bool, bit (Spec.fl f 0x80) 0x80 = f := by decide
theorem st_aux : ∀ a, a < 3 → (if decide (a = 2) = true then 2 else if decide (a = 1) = true then 1 else 0) = a := by decide

/-- what a FRESH client exposes after decoding the status payload of a device in state `s` -/
theorem status_roundtrip (s : Spec.DevState) (hv : s.Valid) (disp filt : Bool) (ir orr dg mid : UInt8) :
    ∃ st, parseState (Spec.statusPayload s disp filt ir orr dg mid) = .ok st ∧
      (({} : Dev).updateFromState st).power = s.power ∧
      (({} : Dev).updateFromState st).tempCenti = (s.tempHalf : Int) * 50 ∧
      st.mode = s.mode ∧
      (({} : Dev).updateFromState st).fan = (s.fan : Int) ∧
      st.swing = s.swing ∧
      (({} : Dev).updateFromState st).eco = s.eco ∧
      (({} : Dev).updateFromState st).turbo = s.turbo ∧
      (({} : Dev).updateFromState st).sleep = s.sleep ∧
      (({} : Dev).updateFromState st).fahrenheit = s.fahrenheit ∧
      (({} : Dev).updateFromState st).freeze = some s.freeze ∧
      (({} : Dev).updateFromState st).followMe = s.followMe ∧
      (({} : Dev).updateFromState st).purifier = s.purifier ∧
      (({} : Dev).updateFromState st).humidity = some s.humidity ∧
      (({} : Dev).updateFromState st).auxMode = s.aux ∧
      (({} : Dev).updateFromState st).displayOn = disp ∧
      (({} : Dev).updateFromState st).filterAlert = filt := by
  obtain ⟨power, beep, mode, t, fan, swing, eco, turbo, sleep, fahr, freeze, follow, pur, hum, aux⟩ := s
  obtain ⟨hm, ht1, ht2, hf, hs, hh, ha⟩ := hv
  simp only at hm ht1 ht2 hf hs hh ha
  have e1 := st_b1 power
  have e2 := st_temp t (by omega) ht1 mode hm filt
  have e3 := st_fan fan hf
  have e7 := st_swing swing hs
  have e8 := st_b8 follow aux ha
  have e9 := st_b9 eco pur aux ha
  have e10 := st_b10 sleep turbo fahr
  have e14 := st_disp disp
  have e19 := st_hum hum hh
  have e21 := st_freeze freeze
  have eaux := st_aux aux ha
  refine ⟨_, rfl, ?_⟩
  simp only [Int.ofNat_eq_natCast] at e2
  simp only [Spec.statusPayload, Dev.updateFromState, ↓reduceIte, e1, e2.1, e2.2.1, e2.2.2, e3, e7, e8.1, e8.2.1,
    e8.2.2, e9.1, e9.2.1, e9.2.2, e10.1, e10.2.1, e10.2.2, e14, e21, Bool.false_or, List.length_cons, List.length_nil,
    List.getElem?_cons_succ, List.getElem?_cons_zero, Option.map_some, e19, eaux, true_and, and_self, and_true]
  first | done | decide | trivial

/-- a spec-encoded V3 packet is a well-formed packet for the reassembly loop -/
theorem v3_packet_wf (key data padBytes : Bytes) (ptype ctr : Nat) (hpl : padBytes.length = Spec.V3.padOf data.length)
    (hsz : data.length + Spec.V3.padOf data.length + 32 < 65536) :
    C04.WfPacket (Spec.V3.encodeEncrypted key ptype ctr data padBytes) := by
  have hlen : (Spec.V3.encodeEncrypted key ptype ctr data padBytes).length =
      8 + (data.length + Spec.V3.padOf data.length + 32) := by
    have hb : (Spec.V3.be16 ctr).length = 2 := by simp [Spec.V3.be16]
    simp only [Spec.V3.encodeEncrypted, List.length_append, C05.header_len, AES.cbcEncrypt_length,
      C05.sha_len, hpl, hb]; omega
  refine ⟨by simp [Spec.V3.encodeEncrypted, Spec.V3.header], by omega, ?_⟩
  have hsf : sizeField (Spec.V3.encodeEncrypted key ptype ctr data padBytes) =
      data.length + Spec.V3.padOf data.length + 32 := by
    unfold sizeField
    simp only [Spec.V3.encodeEncrypted, Spec.V3.header, Spec.V3.be16, List.cons_append, List.nil_append,
      List.getD_cons_succ, List.getD_cons_zero]
    rw [C05.u8nat _ (by omega), C05.u8nat _ (by omega)]; omega
  rw [hlen, hsf]; omega

/-- **C01 (refresh).** For every device state, check style, frame/protocol bytes, device id,
    timestamp, header filler, session key, counter, pad bytes AND for every way TCP cuts the reply
    into segments (any number of cuts): the V3 client's reassembly queues exactly the one packet,
    which decrypts to the V2 packet, which decodes to the frame, which is decoded as a state
    response whose values a fresh client exposes as exactly the device's state. -/
theorem e2e_refresh_v3 (s : Spec.DevState) (hv : s.Valid) (disp filt : Bool) (ir orr dg mid ft proto : UInt8)
    (style : Spec.CheckStyle) (id : Nat) (ts filler key padBytes : Bytes) (ctr : Nat)
    (hts : ts.length = 8) (hfl : filler.length = 12)
    (hpl : padBytes.length = Spec.V3.padOf
      (Spec.V2.encode id ts filler (Spec.respFrame ft proto style (Spec.statusPayload s disp filt ir orr dg mid))).length)
    (segs : List Bytes)
    (hsegs : segs.flatten = Spec.V3.encodeEncrypted key 3 ctr
      (Spec.V2.encode id ts filler (Spec.respFrame ft proto style (Spec.statusPayload s disp filt ir orr dg mid))) padBytes) :
    ∃ pkt v2 frame st,
      feedAll [] segs = ([pkt], []) ∧
      processPacket (some key) pkt = .ok v2 ∧
      packetDecode v2 = .ok frame ∧
      construct frame = .ok (.state st) ∧
      (({} : Dev).updateFromState st).power = s.power ∧
      (({} : Dev).updateFromState st).tempCenti = (s.tempHalf : Int) * 50 ∧
      (({} : Dev).updateFromState st).fan = (s.fan : Int) ∧
      (({} : Dev).updateFromState st).auxMode = s.aux ∧
      (({} : Dev).updateFromState st).displayOn = disp := by
  generalize hP : Spec.statusPayload s disp filt ir orr dg mid = payload at *
  have hplen : payload.length = 24 := by rw [← hP]; rfl
  generalize hF : Spec.respFrame ft proto style payload = frame at *
  have hflen : frame.length = 36 := by rw [← hF]; simp [Spec.respFrame, hplen]
  generalize hW : Spec.V2.encode id ts filler frame = v2 at *
  have hfit : 56 + (encryptAes frame).length < 65536 := C02.small_frames_fit frame (by omega)
  have hv2len : v2.length = 56 + (encryptAes frame).length := by
    rw [← hW]; exact C03.authentic_length id ts filler frame hts hfl hfit
  have hel : (encryptAes frame).length = 48 := by rw [encryptAes_length, hflen]
  have hsz : v2.length + Spec.V3.padOf v2.length + 32 < 65536 := by
    rw [hv2len, hel]; decide
  generalize hK : Spec.V3.encodeEncrypted key 3 ctr v2 padBytes = pkt at *
  have hwf : C04.WfPacket pkt := by rw [← hK]; exact v3_packet_wf key v2 padBytes 3 ctr hpl hsz
  obtain ⟨st, hst, h1, h2, _, h4, _, _, _, _, _, _, _, _, _, h14, h15, _⟩ := status_roundtrip s hv disp filt ir orr dg mid
  rw [hP] at hst
  refine ⟨pkt, v2, frame, st, ?_, ?_, ?_, ?_, h1, h2, h4, h14, h15⟩
  · rw [C04.segmentation_independent segs [] C04.stable_nil, List.nil_append, hsegs]
    have := C04.parse_complete_stream [pkt] (by intro p hp; simp at hp; subst hp; exact hwf) (by simp) [] rfl
    simpa using this
  · rw [← hK]; exact C05.v3_decode_spec_response key v2 padBytes ctr hpl hsz
  · rw [← hW]; exact C02.v2_decode_spec_encode frame ts filler id hts hfl hfit
  · rw [← hF]
    obtain ⟨t, rfl⟩ : ∃ t, payload = 0xC0 :: t := by rw [← hP]; exact ⟨_, rfl⟩
    rw [C11.construct_state_frame ft proto style t (by simp at hplen; omega), hst]; rfl

/-- **C01 (refresh, V2).** The same without the V3 layer (one whole packet; see known finding D10
    for segmented V2 replies). -/
theorem e2e_refresh_v2 (s : Spec.DevState) (hv : s.Valid) (disp filt : Bool) (ir orr dg mid ft proto : UInt8)
    (style : Spec.CheckStyle) (id : Nat) (ts filler : Bytes) (hts : ts.length = 8) (hfl : filler.length = 12) :
    ∃ frame st,
      packetDecode (Spec.V2.encode id ts filler (Spec.respFrame ft proto style (Spec.statusPayload s disp filt ir orr dg mid)))
        = .ok frame ∧
      construct frame = .ok (.state st) ∧
      (({} : Dev).updateFromState st).power = s.power ∧
      (({} : Dev).updateFromState st).tempCenti = (s.tempHalf : Int) * 50 ∧
      (({} : Dev).updateFromState st).fan = (s.fan : Int) ∧
      (({} : Dev).updateFromState st).auxMode = s.aux := by
  generalize hP : Spec.statusPayload s disp filt ir orr dg mid = payload at *
  have hplen : payload.length = 24 := by rw [← hP]; rfl
  generalize hF : Spec.respFrame ft proto style payload = frame at *
  have hflen : frame.length = 36 := by rw [← hF]; simp [Spec.respFrame, hplen]
  have hfit : 56 + (encryptAes frame).length < 65536 := C02.small_frames_fit frame (by omega)
  obtain ⟨st, hst, h1, h2, _, h4, _, _, _, _, _, _, _, _, _, h14, _, _⟩ := status_roundtrip s hv disp filt ir orr dg mid
  rw [hP] at hst
  refine ⟨frame, st, C02.v2_decode_spec_encode frame ts filler id hts hfl hfit, ?_, h1, h2, h4, h14⟩
  rw [← hF]
  obtain ⟨t, rfl⟩ : ∃ t, payload = 0xC0 :: t := by rw [← hP]; exact ⟨_, rfl⟩
  rw [C11.construct_state_frame ft proto style t (by simp at hplen; omega), hst]; rfl

/-! ### duplicated and unsolicited frames -/

theorem updateFromState_idem (d : Dev) (st : StateResp) :
    (d.updateFromState st).updateFromState st = d.updateFromState st := by
  simp only [Dev.updateFromState]; rfl

/-- a response list made of copies of one state response and of frames the device object ignores
    (unknown ids, unsolicited capability frames with another frame type — decoded as plain responses) -/
inductive Benign (st : StateResp) : Resp → Prop
  | state : Benign st (.state st)
  | base (i p) : Benign st (.base i p)
  | caps (c) : Benign st (.caps c)

/-- **C01 (interleaving).** Whatever duplicates of the state response and whatever ignorable frames
    are interleaved in whatever order, the client ends in the same state as from the one response. -/
theorem interleaving_harmless (st : StateResp) (rs : List Resp) (hall : ∀ r ∈ rs, Benign st r)
    (hone : Resp.state st ∈ rs) (d : Dev) :
    applyResponses d rs = d.updateFromState st := by
  have key : ∀ (rs : List Resp) (d : Dev), (∀ r ∈ rs, Benign st r) →
      applyResponses d rs = d ∨ applyResponses d rs = d.updateFromState st := by
    intro rs
    induction rs with
    | nil => intro d _; left; rfl
    | cons r t ih =>
      intro d hall
      have hr := hall r (by simp)
      have ht := ih
      simp only [applyResponses, List.foldl_cons] at ih ⊢
      cases hr with
      | state =>
        right
        rcases ih (d.updateState (.state st)) (fun x hx => hall x (by simp [hx])) with h | h
        · rw [h]; rfl
        · rw [h]; simp only [Dev.updateState]; exact updateFromState_idem d st
      | base i p => exact ih (d.updateState (.base i p)) (fun x hx => hall x (by simp [hx]))
      | caps c => exact ih (d.updateState (.caps c)) (fun x hx => hall x (by simp [hx]))
  induction rs generalizing d with
  | nil => cases hone
  | cons r t ih =>
    simp only [applyResponses, List.foldl_cons] at ih ⊢
    have hr := hall r (by simp)
    simp only [List.mem_cons] at hone
    cases hr with
    | state =>
      rcases key t (d.updateState (.state st)) (fun x hx => hall x (by simp [hx])) with h | h
      · simp only [applyResponses] at h; rw [h]; rfl
      · simp only [applyResponses] at h; rw [h]; simp only [Dev.updateState]; exact updateFromState_idem d st
    | base i p =>
      rcases hone with h | h
      · cases h
      · exact ih (fun x hx => hall x (by simp [hx])) h (d.updateState (.base i p))
    | caps c =>
      rcases hone with h | h
      · cases h
      · exact ih (fun x hx => hall x (by simp [hx])) h (d.updateState (.caps c))

/-! non-vacuity -/
example : (⟨true, false, 2, 41, 102, 12, true, false, false, false, false, false, false, 40, 0⟩ : Spec.DevState).Valid := by
  decide

end Msmart.Props.C01
