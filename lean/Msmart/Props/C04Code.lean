/-
  C04 about the TRANSLATED loop body of `_LanProtocolV3.data_received` (`Generated.Codec.reasmStep`, rewritten from the
  source text of /repo on every run): the `while` loop iterated over it computes the model's `parseLoop`, so the theorems
  of Props/C04 hold of it.  The loop skeleton itself (`self._buffer += data; while len(self._buffer) > 0: <body>`) is
  checked syntactically by the translator and written out here by hand.
-/
import Msmart.Props.C04Stream
import Msmart.Lemmas.CodecEqLan

namespace Msmart.Props.C04
open Msmart Msmart.Model Msmart.Generated

/-- `while len(self._buffer) > 0: <translated body>` — `fuel` bounds the number of iterations -/
def loopCode : Nat → Bytes → R (List Bytes × Bytes)
  | 0, b => .ok ([], b)
  | fuel + 1, b =>
    if b.length > 0 then
      match Codec.reasmStep b with
      | .error e => .error e
      | .ok none => .ok ([], b)
      | .ok (some (p, r)) =>
        match loopCode fuel r with
        | .ok (ps, r') => .ok (p :: ps, r')
        | .error e => .error e
    else .ok ([], b)

/-- `data_received(seg)`: `self._buffer += seg`, then the loop (it cannot run more often than the buffer has bytes) -/
def feedCode (buf seg : Bytes) : R (List Bytes × Bytes) := loopCode ((buf ++ seg).length + 1) (buf ++ seg)

/-- successive `data_received` calls -/
def feedAllCode : Bytes → List Bytes → R (List Bytes × Bytes)
  | buf, [] => .ok ([], buf)
  | buf, s :: t =>
    match feedCode buf s with
    | .error e => .error e
    | .ok (q, b') =>
      match feedAllCode b' t with
      | .ok (q', b'') => .ok (q ++ q', b'')
      | .error e => .error e

theorem loopCode_eq (fuel : Nat) (b : Bytes) (h : b.length < fuel) : loopCode fuel b = .ok (parseLoop b) := by
  induction fuel generalizing b with
  | zero => omega
  | succ n ih =>
    unfold loopCode
    rw [CodecEq.reasmStep_eq]
    by_cases hb : b.length > 0
    · rw [if_pos hb]
      cases hs : reasmStep b with
      | none =>
        simp only []
        rw [parseLoop_stable hs]
      | some pr =>
        obtain ⟨p, r⟩ := pr
        simp only []
        rw [ih r (by have := reasmStep_shrinks hs; omega)]
        simp only []
        rw [parseLoop.eq_def b]
        split
        · rename_i hc; rw [hs] at hc; cases hc
        · rename_i p' r' hc
          rw [hs] at hc
          simp only [Option.some.injEq, Prod.mk.injEq] at hc
          obtain ⟨rfl, rfl⟩ := hc
          rfl
    · rw [if_neg hb]
      have : b = [] := List.eq_nil_of_length_eq_zero (by omega)
      subst this
      rw [parseLoop_stable stable_nil]

theorem feedCode_eq (buf seg : Bytes) : feedCode buf seg = .ok (feed buf seg) := by
  unfold feedCode feed; exact loopCode_eq _ _ (by omega)

theorem feedAllCode_eq (buf : Bytes) (segs : List Bytes) : feedAllCode buf segs = .ok (feedAll buf segs) := by
  induction segs generalizing buf with
  | nil => rfl
  | cons s t ih =>
    unfold feedAllCode
    rw [feedCode_eq]
    simp only [ih, feedAll]

/-- **C04 about the translated code (segmentation independence).** However the stream is cut into segments, the
    successive `data_received` calls — the translated loop body, iterated — never raise, queue the packets and leave the
    buffer of one call with the whole stream. -/
theorem segmentation_independent_code (segs : List Bytes) :
    feedAllCode [] segs = .ok (parseLoop segs.flatten) := by
  rw [feedAllCode_eq, segmentation_independent _ _ stable_nil]; rfl

/-- **C04 about the translated code (exactly once, complete, in order; garbage skipped).** -/
theorem parse_stream_code (segs ps : List Bytes) (hps : ∀ p ∈ ps, WfPacket p) (g q : Bytes) (hg : MarkerFree g)
    (hq : WfPacket q) (j : Nat) (hj : j < q.length) (hs : segs.flatten = g ++ ps.flatten ++ q.take j) :
    feedAllCode [] segs = .ok (ps, (if ps = [] then g else []) ++ q.take j) := by
  rw [segmentation_independent_code, hs, parse_stream ps hps g q hg hq j hj]

/-! non-vacuity: a packet cut in the middle of its header, garbage in front, 83 70 inside the body -/
example : feedAllCode [] [[0x12, 0x83, 0x70, 0x00], [0x02, 0x20, 0x00, 0x83, 0x70, 0xAA], [0xBB, 0x83]]
    = .ok ([[0x83, 0x70, 0x00, 0x02, 0x20, 0x00, 0x83, 0x70, 0xAA, 0xBB]], [0x83]) := by decide +kernel

end Msmart.Props.C04
