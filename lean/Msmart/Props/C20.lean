/-
  C20 — `msmart-ng control` applies the documented meaning of each setting=value pair; invalid
  settings are rejected before anything is sent.
-/
import Msmart.Model.Cli

set_option linter.unusedSimpArgs false

namespace Msmart.Props.C20
open Msmart Msmart.Model.Cli

/-- the enumerated settings of the documentation and the enumeration behind each (checked against
    the table regenerated from the AirConditioner class on every run) -/
def enumSettings : List (String × String) :=
  [("operational_mode", "OperationalMode"), ("fan_speed", "FanSpeed"), ("swing_mode", "SwingMode"),
   ("horizontal_swing_angle", "SwingAngle"), ("vertical_swing_angle", "SwingAngle"),
   ("rate_select", "RateSelect"), ("aux_mode", "AuxHeatMode")]

theorem enumSettings_in_table : ∀ p ∈ enumSettings, settingInfo p.1 = some (true, .enum p.2) := by
  decide +kernel

theorem convert_enum_setting (name e raw : String) (lit litCap : Lit) (h : (name, e) ∈ enumSettings) :
    convert name raw lit litCap = convertEnum e raw lit := by
  have hi := enumSettings_in_table (name, e) h
  simp only at hi
  unfold convert
  rw [hi]
  simp

/-- member names of every enumeration are distinct, so a name determines the member -/
theorem enum_names_distinct : ∀ p ∈ enumSettings, ((enumTable p.2).map Prod.fst).Nodup := by decide +kernel

theorem lookup_member (t : List (String × Nat)) (hn : (t.map Prod.fst).Nodup) (n : String) (v : Nat)
    (hm : (n, v) ∈ t) : lookupName t n = some v := by
  unfold lookupName
  induction t with
  | nil => cases hm
  | cons x xs ih =>
    simp only [List.map_cons, List.nodup_cons] at hn
    simp only [List.mem_cons] at hm
    simp only [List.find?_cons]
    rcases hm with rfl | hm
    · simp
    · have hne : x.1 ≠ n := fun e => hn.1 (List.mem_map.mpr ⟨(n, v), hm, e.symm⟩)
      simp only [hne, decide_false]
      exact ih hn.2 hm

/-- **C20 (enumerations by name).** For every enumerated setting and every member, ANY text whose
    upper-casing is the member's name — i.e. the name in any letter case — selects that member
    (bare names are not Python literals: `literal_eval` raises ValueError and the text is the name). -/
theorem enum_by_name (name e raw : String) (member : String) (v : Nat) (h : (name, e) ∈ enumSettings)
    (hm : (member, v) ∈ enumTable e) (hcase : raw.toUpper = member) (litCap : Lit) :
    convert name raw (.err "ValueError") litCap = .accept (.enumV v) := by
  rw [convert_enum_setting name e raw _ _ h]
  simp only [convertEnum, enumOfName, hcase]
  rw [lookup_member _ (enum_names_distinct (name, e) h) member v hm]

/-- **C20 (enumerations by value).** … and the member's integer value selects it too. -/
theorem enum_by_value (name e raw : String) (member : String) (v : Nat) (h : (name, e) ∈ enumSettings)
    (hm : (member, v) ∈ enumTable e) (litCap : Lit) :
    convert name raw (.int v) litCap = .accept (.enumV v) := by
  rw [convert_enum_setting name e raw _ _ h]
  simp only [convertEnum, enumOfNumber]
  have hv : hasValue (enumTable e) ((v : Int) * 100 / 100) = true := by
    have : (v : Int) * 100 / 100 = v := by omega
    rw [this]
    unfold hasValue
    rw [List.any_eq_true]
    exact ⟨(member, v), hm, by simp⟩
  have h0 : (v : Int) * 100 % 100 = 0 := by omega
  rw [if_pos ⟨h0, hv⟩]
  congr 2; omega

/-- **C20 (raw fan speed).** An integer that is no member of FanSpeed is kept as a raw fan speed;
    for every other enumeration an unknown number is rejected. -/
theorem fan_raw_int (raw : String) (n : Int) (litCap : Lit) (hn : hasValue Generated.fanSpeed n = false) :
    convert "fan_speed" raw (.int n) litCap = .accept (.enumV n) := by
  rw [convert_enum_setting "fan_speed" "FanSpeed" raw _ _ (by decide)]
  simp only [convertEnum, enumOfNumber]
  have : n * 100 / 100 = n := by omega
  have hf : enumTable "FanSpeed" = Generated.fanSpeed := by decide
  rw [if_neg (by rw [this, hf, hn]; simp)]
  simp only [↓reduceIte]
  congr 2
  rw [Int.tdiv_eq_ediv_of_dvd (by omega)]; omega

theorem other_enum_unknown_number_rejected (name e raw : String) (n : Int) (litCap : Lit)
    (h : (name, e) ∈ enumSettings) (he : e ≠ "FanSpeed") (hn : hasValue (enumTable e) n = false) :
    convert name raw (.int n) litCap = .reject := by
  rw [convert_enum_setting name e raw _ _ h]
  simp only [convertEnum, enumOfNumber]
  have : n * 100 / 100 = n := by omega
  rw [if_neg (by rw [this, hn]; simp), if_neg he]
  simp

/-- **C20 (booleans).** True / False / 1 / 0 (the text is capitalised before evaluation, so any
    letter case of true/false) give the obvious truth values, for every boolean setting. -/
theorem bool_spellings (name raw : String) (lit : Lit) (w : Bool) (h : settingInfo name = some (w, .bool))
    (hw : name = "display_on" ∨ w = true) :
    convert name raw lit (.bool true) = .accept (.boolV true) ∧
    convert name raw lit (.bool false) = .accept (.boolV false) ∧
    convert name raw lit (.int 1) = .accept (.boolV true) ∧
    convert name raw lit (.int 0) = .accept (.boolV false) := by
  have hc : ¬ (name ≠ "display_on" ∧ ¬ w = true) := by
    rcases hw with h1 | h1
    · simp [h1]
    · simp [h1]
  unfold convert
  rw [h]
  simp only [hc, ↓reduceIte]
  refine ⟨?_, ?_, ?_, ?_⟩ <;> (simp [convertPlain]; try decide)

/-- **C20 (numbers).** Integer and floating point texts are both accepted for number settings. -/
theorem number_forms (raw : String) (litCap : Lit) (n c : Int) :
    convert "target_temperature" raw (.float c) litCap = .accept (.floatV c) ∧
    convert "target_temperature" raw (.int n) litCap = .accept (.floatV (n * 100)) ∧
    convert "target_humidity" raw (.int n) litCap = .accept (.intV n) := by
  have h1 : settingInfo "target_temperature" = some (true, .float) := by decide +kernel
  have h2 : settingInfo "target_humidity" = some (true, .int) := by decide +kernel
  refine ⟨?_, ?_, ?_⟩
  · unfold convert; rw [h1]; simp [convertPlain]
  · unfold convert; rw [h1]; simp [convertPlain]
  · unfold convert; rw [h2]; simp [convertPlain]

/-- **C20 (unknown / read-only).** A name that is not a property of the device, and a property
    without a setter (except `display_on`), are rejected whatever the value. -/
theorem unknown_rejected (name raw : String) (lit litCap : Lit) (h : settingInfo name = none) :
    convert name raw lit litCap = .reject := by
  unfold convert; rw [h]

theorem readonly_rejected (name raw : String) (kind : Model.CliKind) (lit litCap : Lit) (h : settingInfo name = some (false, kind))
    (hn : name ≠ "display_on") : convert name raw lit litCap = .reject := by
  unfold convert; rw [h]; simp [hn]

/-- **C20 (rejected before contact).** If any setting fails to convert — unknown, read-only,
    ill-typed, or even raising — the command ends with that failure and performs NO action at all:
    no connect, no refresh, nothing sent. -/
theorem reject_before_contact (pairs : List Pair) (disp : Bool)
    (hbad : ∃ p ∈ pairs, ∀ v, convert p.name p.raw p.lit p.litCap ≠ .accept v) :
    ∃ c, Msmart.Model.Cli.control pairs disp = .error c := by
  have key : ∀ (ps : List Pair) (acc : List (String × Value)),
      (∃ p ∈ ps, ∀ v, convert p.name p.raw p.lit p.litCap ≠ .accept v) → ∃ c, parseAll ps acc = .error c := by
    intro ps
    induction ps with
    | nil => intro acc ⟨p, hp, _⟩; cases hp
    | cons q t ih =>
      intro acc ⟨p, hp, hv⟩
      unfold parseAll
      cases hc : convert q.name q.raw q.lit q.litCap with
      | accept v =>
        simp only
        simp only [List.mem_cons] at hp
        rcases hp with rfl | hp
        · exact absurd hc (hv v)
        · exact ih _ ⟨p, hp, hv⟩
      | reject => exact ⟨_, rfl⟩
      | raise c => exact ⟨_, rfl⟩
      | unmodelled => exact ⟨_, rfl⟩
  obtain ⟨c, hc⟩ := key pairs [] hbad
  exact ⟨c, by unfold Msmart.Model.Cli.control; rw [hc]⟩

/-- **C20 (order; unspecified settings).** When every setting converts, the command connects and
    refreshes FIRST, toggles the display only when the requested state differs from the reported
    one, then sets exactly the named attributes and applies — attributes not named are whatever the
    refresh reported (with C10/C11: the device keeps them). -/
theorem control_sequence (pairs : List Pair) (disp : Bool) (props : List (String × Value))
    (h : parseAll pairs [] = .ok props) :
    ∃ tail, Msmart.Model.Cli.control pairs disp = .ok (.connect :: .refresh :: tail) ∧
      (Action.toggleDisplay ∈ tail ↔ ∃ b, displayRequest props = some b ∧ b ≠ disp) ∧
      (∀ n v, Action.set n v ∈ tail → (n, v) ∈ props ∧ n ≠ "display_on") := by
  refine ⟨(match displayRequest props with
          | some b => if b ≠ disp then [Action.toggleDisplay] else []
          | none => [])
      ++ (if (props.filter (fun x => x.1 ≠ "display_on")).isEmpty then []
          else (props.filter (fun x => x.1 ≠ "display_on")).map (fun x => Action.set x.1 x.2) ++ [Action.apply]),
    by unfold Msmart.Model.Cli.control; rw [h]; rfl, ?_, ?_⟩
  · constructor
    · intro hm
      rw [List.mem_append] at hm
      rcases hm with hm | hm
      · cases hd : displayRequest props with
        | none => rw [hd] at hm; cases hm
        | some b =>
          rw [hd] at hm
          by_cases hb : b ≠ disp
          · exact ⟨b, rfl, hb⟩
          · simp only [hb, ↓reduceIte] at hm; cases hm
      · split at hm
        · cases hm
        · rw [List.mem_append, List.mem_map, List.mem_singleton] at hm
          rcases hm with ⟨x, _, hx⟩ | hx <;> cases hx
    · rintro ⟨b, hd, hb⟩
      rw [List.mem_append]; left
      rw [hd]; simp only [hb, ne_eq, not_false_eq_true, ↓reduceIte, List.mem_singleton]
  · intro n v hm
    rw [List.mem_append] at hm
    rcases hm with hm | hm
    · cases hd : displayRequest props with
      | none => rw [hd] at hm; cases hm
      | some b =>
        rw [hd] at hm
        by_cases hb : b ≠ disp
        · simp only [hb, ne_eq, not_false_eq_true, ↓reduceIte, List.mem_singleton] at hm; cases hm
        · simp only [hb, ↓reduceIte] at hm; cases hm
    · split at hm
      · cases hm
      · rw [List.mem_append, List.mem_map, List.mem_singleton] at hm
        rcases hm with ⟨x, hx, he⟩ | he
        · cases he
          rw [List.mem_filter] at hx
          exact ⟨hx.1, by simpa using hx.2⟩
        · cases he

/-! non-vacuity -/
example (raw : String) (h : raw.toUpper = "COOL") :
    convert "operational_mode" raw (.err "ValueError") (.err "ValueError") = .accept (.enumV 2) :=
  enum_by_name _ "OperationalMode" _ "COOL" 2 (by decide) (by decide) h _
example : ("COOL", 2) ∈ enumTable "OperationalMode" := by decide
example : convert "online" "True" (.bool true) (.bool true) = .reject := by decide

end Msmart.Props.C20
