/-
  C11 — state responses decode to exactly the reported state; temperature facts.
-/
import Msmart.Lemmas.RespFrame
import Msmart.Lemmas.CodecEq

set_option linter.unusedSimpArgs false
set_option linter.unusedVariables false

namespace Msmart.Props.C11
open Msmart Msmart.Model Msmart.Lemmas

/-! ### temperatures (finite domain: a byte, a nibble, a unit flag — decided exhaustively in the kernel) -/

/-- **C11.** Indoor / outdoor temperature is unknown exactly for the 0xFF sentinel. -/
theorem temp_unknown_iff : ∀ b, b < 256 → ∀ d, d < 16 → ∀ f : Bool,
    (parseTemp b d f = none ↔ b = 0xFF) := by decide +kernel

/-- **C11.** Otherwise, for every tenths digit 0..9 and both units, the reading lies strictly within
    one degree of the coarse half-degree reading `(b − 50) / 2` (values in tenths of a degree). -/
theorem temp_within_one : ∀ b, b < 255 → ∀ d, d < 10 → ∀ f : Bool,
    ∃ r, parseTemp b d f = some r ∧ 5 * ((b : Int) - 50) - 10 < r ∧ r < 5 * ((b : Int) - 50) + 10 := by
  decide +kernel

/-- **C11.** In Celsius a non-zero reported tenths digit is reflected exactly: the reading is the
    truncated coarse reading plus (minus, for negative readings) `d / 10`. -/
theorem temp_tenths_exact : ∀ b, b < 255 → ∀ d, d < 10 → 0 < d →
    parseTemp b d false =
      some (10 * Int.tdiv ((b : Int) - 50) 2 + (if 50 ≤ b then (d : Int) else -(d : Int))) := by
  decide +kernel

/-! ### the body -/

theorem shr5_mod8 : ∀ n : Nat, n < 256 →
    (Nat.toUInt8 n >>> (5 : UInt8)).toNat % 8 = (Nat.toUInt8 n >>> (5 : UInt8)).toNat := by
  decide +kernel

theorem shr5_mod8' (b : UInt8) : (b >>> 5).toNat % 8 = (b >>> 5).toNat := by
  have := shr5_mod8 b.toNat (UInt8.toNat_lt b)
  rwa [u8_of_toNat] at this

theorem stateTemp_eq (b2 b13 : UInt8) : stateTemp b2 b13 = (Spec.setpointHalf b2 b13 : Int) * 50 := by
  unfold stateTemp Spec.setpointHalf bit Spec.tb
  split <;> split <;> push_cast <;> omega

theorem getElem?_getD {l : Bytes} {i : Nat} (h : i < l.length) : l[i]? = some (l.getD i 0) := by
  simp [List.getD, List.getElem?_eq_getElem h]

/-- the aux-heat mode the device object derives from the two aux bits -/
def auxOf (s : StateResp) : Nat := if s.indepAuxHeat then 2 else if s.auxHeat then 1 else 0

/-- **C11 (decode).** For every status payload of at least the 16-byte minimum, `StateResponse`
    succeeds and every field equals the vendor-layout meaning of the payload; the optional trailing
    fields are `none` exactly when the payload is too short to carry them (never invented). -/
theorem state_decode (p : Bytes) (h16 : 16 ≤ p.length) :
    ∃ s, parseState p = .ok s ∧
      s.power = (Spec.reportedOf p).power ∧
      s.tempCenti = ((Spec.reportedOf p).tempHalf : Int) * 50 ∧
      s.mode = (Spec.reportedOf p).mode ∧
      s.fan = (Spec.reportedOf p).fan ∧
      s.swing = (Spec.reportedOf p).swing ∧
      s.turbo = (Spec.reportedOf p).turbo ∧
      s.eco = (Spec.reportedOf p).eco ∧
      s.sleep = (Spec.reportedOf p).sleep ∧
      s.fahrenheit = (Spec.reportedOf p).fahrenheit ∧
      s.filterAlert = (Spec.reportedOf p).filterAlert ∧
      s.displayOn = (Spec.reportedOf p).displayOn ∧
      s.followMe = (Spec.reportedOf p).followMe ∧
      s.purifier = (Spec.reportedOf p).purifier ∧
      auxOf s = (Spec.reportedOf p).aux ∧
      s.humidity = (Spec.reportedOf p).humidity ∧
      s.freeze = (Spec.reportedOf p).freeze ∧
      s.indoor = parseTemp (Spec.reportedOf p).indoorRaw (Spec.reportedOf p).indoorDigit (Spec.reportedOf p).fahrenheit ∧
      s.outdoor = parseTemp (Spec.reportedOf p).outdoorRaw (Spec.reportedOf p).outdoorDigit (Spec.reportedOf p).fahrenheit := by
  obtain ⟨b0, b1, b2, b3, b4, b5, b6, b7, b8, b9, b10, b11, b12, b13, b14, b15, t, rfl⟩ :
      ∃ b0 b1 b2 b3 b4 b5 b6 b7 b8 b9 b10 b11 b12 b13 b14 b15 t,
        p = b0 :: b1 :: b2 :: b3 :: b4 :: b5 :: b6 :: b7 :: b8 :: b9 :: b10 :: b11 :: b12 :: b13 :: b14 :: b15 :: t := by
    match p, h16 with
    | b0 :: b1 :: b2 :: b3 :: b4 :: b5 :: b6 :: b7 :: b8 :: b9 :: b10 :: b11 :: b12 :: b13 :: b14 :: b15 :: t, _ =>
      exact ⟨b0, b1, b2, b3, b4, b5, b6, b7, b8, b9, b10, b11, b12, b13, b14, b15, t, rfl⟩
  refine ⟨_, rfl, ?_⟩
  simp only [Spec.reportedOf, Spec.byteAt, List.getD_cons_zero, List.getD_cons_succ, bit, Spec.tb,
    shr5_mod8', stateTemp_eq, auxOf, List.length_cons, true_and]
  refine ⟨rfl, ?_, ?_, trivial⟩
  · by_cases hl : t.length + 16 < 20
    · simp only [hl, ↓reduceIte]
    · have : (b0 :: b1 :: b2 :: b3 :: b4 :: b5 :: b6 :: b7 :: b8 :: b9 :: b10 :: b11 :: b12 :: b13 :: b14 :: b15 :: t)[19]?
          = some (t.getD 3 0) := by
        simp only [List.getElem?_cons_succ]; exact getElem?_getD (by omega)
      simp only [hl, ↓reduceIte, this, Option.map_some]
  · by_cases hl : t.length + 16 < 22
    · simp only [hl, ↓reduceIte]
    · have : (b0 :: b1 :: b2 :: b3 :: b4 :: b5 :: b6 :: b7 :: b8 :: b9 :: b10 :: b11 :: b12 :: b13 :: b14 :: b15 :: t)[21]?
          = some (t.getD 5 0) := by
        simp only [List.getElem?_cons_succ]; exact getElem?_getD (by omega)
      simp only [hl, ↓reduceIte, this, Option.map_some]

/-- **C11 (too short).** Below the 16-byte minimum the response is not decoded at all (after the
    repair e1e5d79 the frame is reported as an invalid response instead of raising IndexError). -/
theorem state_too_short (p : Bytes) (h : p.length < 16) : parseState p = .error indexError := by
  have h15 : p[15]? = none := List.getElem?_eq_none (by omega)
  have hidx : Py.idx p 15 = .error indexError := by simp [Py.idx, h15]
  unfold parseState
  cases h1 : Py.idx p 1 <;> simp only [bind, Except.bind] <;> try (rw [idx_onlyIdx p 1 _ h1])
  cases h2 : Py.idx p 2 <;> simp only [] <;> try (rw [idx_onlyIdx p 2 _ h2])
  cases h3 : Py.idx p 3 <;> simp only [] <;> try (rw [idx_onlyIdx p 3 _ h3])
  cases h7 : Py.idx p 7 <;> simp only [] <;> try (rw [idx_onlyIdx p 7 _ h7])
  cases h8 : Py.idx p 8 <;> simp only [] <;> try (rw [idx_onlyIdx p 8 _ h8])
  cases h9 : Py.idx p 9 <;> simp only [] <;> try (rw [idx_onlyIdx p 9 _ h9])
  cases h10 : Py.idx p 10 <;> simp only [] <;> try (rw [idx_onlyIdx p 10 _ h10])
  cases h11 : Py.idx p 11 <;> simp only [] <;> try (rw [idx_onlyIdx p 11 _ h11])
  rw [hidx]

/-- **C11 (exposed attributes).** After `_update_state`, a device object (any, in particular a
    fresh one) exposes exactly the decoded values; mode and swing go through the enumerations (an
    unlisted raw value falls back to the enumeration's default), custom fan speeds are kept raw. -/
theorem update_exposes (d : Dev) (s : StateResp) (hc : d.supCustomFan = true) :
    let d' := d.updateFromState s
    d'.power = s.power ∧ d'.tempCenti = s.tempCenti ∧ d'.fan = (s.fan : Int) ∧
    d'.eco = s.eco ∧ d'.turbo = s.turbo ∧ d'.sleep = s.sleep ∧ d'.fahrenheit = s.fahrenheit ∧
    d'.freeze = s.freeze ∧ d'.humidity = s.humidity ∧ d'.indoor = s.indoor ∧ d'.outdoor = s.outdoor ∧
    d'.displayOn = s.displayOn ∧ d'.filterAlert = s.filterAlert ∧ d'.followMe = s.followMe ∧
    d'.purifier = s.purifier ∧ d'.auxMode = auxOf s ∧
    ((enumValues Generated.operationalMode).contains s.mode → d'.mode = s.mode) ∧
    ((enumValues Generated.swingMode).contains s.swing → d'.swing = s.swing) := by
  simp only [Dev.updateFromState, hc, ↓reduceIte, auxOf, enumGet, true_and]
  constructor
  · intro h; rw [if_pos h]
  · intro h; rw [if_pos h]

/-- **C11 (frame level).** A device-built frame (either check style, any frame type and protocol
    byte) around a status payload of 16..242 bytes is decoded as that status. -/
theorem construct_state_frame (ft proto : UInt8) (style : Spec.CheckStyle) (t : Bytes)
    (h15 : 15 ≤ t.length) :
    construct (Spec.respFrame ft proto style (0xC0 :: t)) = (parseState (0xC0 :: t)).map .state := by
  unfold construct
  rw [constructInner_respFrame _ _ _ _ (by simp; omega)]
  obtain ⟨s, hs, _⟩ := state_decode (0xC0 :: t) (by simp; omega)
  simp [classOfPayload, Py.idx, bind, Except.bind, pure, Except.pure, buildResp, hs, Except.map]

/-! ### the same statements about the code as translated from the source text (tie by translation) -/

/-- **C11 about the translated `StateResponse._parse_temperature`** (arguments as the translated `_parse` passes them:
    the raw byte and the nibble/10 in hundredths): unknown exactly for the 0xFF sentinel. -/
theorem temp_unknown_iff_code (b : Nat) (hb : b < 256) (d : Nat) (hd : d < 16) (f : Bool) :
    (Generated.Codec.parseTemperature (b : Int) (10 * (d : Int)) f = none ↔ b = 0xFF) := by
  rw [CodecEq.parseTemperature_eq_nat b hb d hd f, Option.map_eq_none_iff]
  exact temp_unknown_iff b hb d hd f

/-- **C11 about the translated code**: within one degree of the coarse reading (values in hundredths). -/
theorem temp_within_one_code (b : Nat) (hb : b < 255) (d : Nat) (hd : d < 10) (f : Bool) :
    ∃ r, Generated.Codec.parseTemperature (b : Int) (10 * (d : Int)) f = some r ∧
      50 * ((b : Int) - 50) - 100 < r ∧ r < 50 * ((b : Int) - 50) + 100 := by
  obtain ⟨r, hr, h1, h2⟩ := temp_within_one b hb d hd f
  refine ⟨r * 10, ?_, by omega, by omega⟩
  rw [CodecEq.parseTemperature_eq_nat b (by omega) d (by omega) f, hr]; rfl

/-- **C11 about the translated code**: in Celsius a non-zero tenths digit is reflected exactly (hundredths). -/
theorem temp_tenths_exact_code (b : Nat) (hb : b < 255) (d : Nat) (hd : d < 10) (hpos : 0 < d) :
    Generated.Codec.parseTemperature (b : Int) (10 * (d : Int)) false =
      some (100 * Int.tdiv ((b : Int) - 50) 2 + (if 50 ≤ b then 10 * (d : Int) else -(10 * (d : Int)))) := by
  rw [CodecEq.parseTemperature_eq_nat b (by omega) d (by omega) false, temp_tenths_exact b hb d hd hpos]
  simp only [Option.map_some]
  congr 1
  split <;> omega

/-- **C11 about the translated `StateResponse._parse`**: for every payload of at least 16 bytes it succeeds with the
    attributes of the decoded status (the record the model theorem `state_decode` characterises field by field
    against the vendor layout), and below 16 bytes it fails like the model. -/
theorem state_decode_code (p : Bytes) :
    Generated.Codec.parseState p = (parseState p >>= fun m => pure (Generated.Codec.StateAttrs.ofModel m)) :=
  CodecEq.parseState_eq p

theorem state_decode_code_ok (p : Bytes) (h16 : 16 ≤ p.length) :
    ∃ s, parseState p = .ok s ∧ Generated.Codec.parseState p = .ok (Generated.Codec.StateAttrs.ofModel s) := by
  obtain ⟨s, hs, _⟩ := state_decode p h16
  exact ⟨s, hs, by rw [CodecEq.parseState_eq, hs]; rfl⟩

/-! non-vacuity: a captured frame from the repo's tests -/
example : (parseState [0xc0,1,0x45,0x66,0,0,0,0x30,0,0x10,4,0x5c,0xff,0x20,0x70,0,0,0,0,0,0,0,0]).toBool = true := by
  decide +kernel

/-- **C11 about the translated `StateResponse._parse` AND `AirConditioner._update_state`**: for every payload the parser
    accepts, the attributes the translated `_update_state` assigns from the translated parser's result are those of the model's
    `updateFromState` on the decoded status (whose fields `state_decode` characterises against the vendor layout) - enum members as
    their int values, temperatures in hundredths, for both values of `supports_custom_fan_speed`. -/
theorem refresh_assigns_code (p : Bytes) (st : StateResp) (hp : parseState p = .ok st) (sup : Bool) :
    ∃ a, Generated.Codec.parseState p = .ok a ∧
      CodecEq.updateOfAttrs sup a = Generated.Codec.UpdAttrs.ofDev (({ supCustomFan := sup } : Dev).updateFromState st) := by
  refine ⟨Generated.Codec.StateAttrs.ofModel st, ?_, ?_⟩
  · rw [CodecEq.parseState_eq, hp]; rfl
  · rw [CodecEq.updateOfAttrs_ofModel]; rfl

end Msmart.Props.C11
