/-
  C01 / C08 capstone over the whole stack: from ANY state of the `LAN` object whose connection is dead
  (where a timeout, protocol error, peer close / reset, refused or hanging connect, or cancellation
  leaves it), against the independent V3 device specification answering promptly, a fresh client's
  `refresh()` — command encoding, V2 framing, reconnect, handshake, V3 encryption, reassembly,
  decryption, frame validation, state decoding, attribute update — returns normally, reports the
  device online and exposes exactly the device's state.
-/
import Msmart.Props.C08
import Msmart.Props.C09

namespace Msmart.Props.C01
open Msmart Msmart.Model Msmart.Model.Session Msmart.Model.Stack Msmart.Lemmas.Sess

theorem lanRetries_eq : Generated.lanRetries = 2 + 1 := by decide

theorem refresh_after_failure_reports_device_state {p : Params} {rx : Reactions} {s : S} (counter : Nat)
    (cs : List ConnOutcome) (tok key nonce : Bytes)
    (hver : s.l.version = 3) (hal : connAlive s = false) (hquiet : s.w.pending = []) (hnc : s.w.cancelAt = none)
    (hconn : s.w.connects = .ok :: cs) (hexp : FreshExpiryOk s)
    (htok : s.l.token = some tok) (hkey : s.l.key = some key)
    (htok' : tok.isEmpty = false ∧ tok.length < 65536) (hk32 : key.length = 32) (hn32 : nonce.length = 32)
    (d0 ctr0 : Nat) (hd0 : d0 ≤ p.readTimeout)
    (hrx0 : rx (s.w.nConn + 1) 0 = [(d0, .data (Spec.V3.handshakeReply key nonce ctr0))])
    (st : Spec.DevState) (hv : st.Valid) (disp filt : Bool) (ir orr dg mid ft proto : UInt8) (style : Spec.CheckStyle)
    (d1 ctr1 id : Nat) (ts filler padBytes : Bytes) (hd1 : d1 ≤ p.readTimeout)
    (hts : ts.length = 8) (hfl : filler.length = 12)
    (hpl : padBytes.length = Spec.V3.padOf (Spec.V2.encode id ts filler
        (Spec.respFrame ft proto style (Spec.statusPayload st disp filt ir orr dg mid))).length)
    (hrx1 : rx (s.w.nConn + 1) 1 = [(d1, .data (Spec.V3.encodeEncrypted (Spec.V3.sessionKey key nonce) 3 ctr1
        (Spec.V2.encode id ts filler (Spec.respFrame ft proto style (Spec.statusPayload st disp filt ir orr dg mid)))
        padBytes))]) :
    ∃ r', (refreshLan p rx { dev := {}, counter := counter, replies := [] } s).1 = .ok r' ∧
      r'.dev.online = true ∧ r'.dev.power = st.power ∧ r'.dev.tempCenti = (st.tempHalf : Int) * 50 ∧
      r'.dev.fan = (st.fan : Int) ∧ r'.dev.auxMode = st.aux ∧ r'.dev.displayOn = disp := by
  -- the single command of a fresh client's refresh
  obtain ⟨frame, hframe⟩ := C12.command_emitted Cmd.getState counter _ rfl (by decide)
  -- the device's response frame and what it decodes to
  generalize hP : Spec.statusPayload st disp filt ir orr dg mid = payload at *
  have hplen : payload.length = 24 := by rw [← hP]; rfl
  generalize hF : Spec.respFrame ft proto style payload = resp at *
  have hrlen : resp.length = 36 := by rw [← hF]; simp [Spec.respFrame, hplen]
  obtain ⟨sr, hsr, h1, h2, _, h4, _, _, _, _, _, _, _, _, _, h14, h15, _⟩ := status_roundtrip st hv disp filt ir orr dg mid
  rw [hP] at hsr
  have hcons : construct resp = .ok (.state sr) := by
    rw [← hF]
    obtain ⟨t, rfl⟩ : ∃ t, payload = 0xC0 :: t := by rw [← hP]; exact ⟨_, rfl⟩
    rw [C11.construct_state_frame ft proto style t (by simp at hplen; omega), hsr]; rfl
  -- the exchange: reconnect, handshake, one transmission, the device's frame (C08)
  obtain ⟨s', hsend, _⟩ := C08.recovery_v3_honest_device (p := p) (rx := rx) (s := s) frame 2 cs tok key nonce hver hal hquiet hnc
    hconn hexp htok hkey htok' hk32 hn32 d0 ctr0 hd0 hrx0 d1 ctr1 id ts filler padBytes resp hd1 hts hfl (by omega) hpl hrx1
  have hdev : deviceSend p rx s frame = (.ok [resp], s') := by
    unfold deviceSend
    rw [lanRetries_eq, hsend]
  let r1 : Run := { dev := { ({} : Dev) with supported := true }, counter := (Cmd.getState.toBytes counter).2,
                    replies := [], sent := [Cmd.getState] }
  have hres : (refreshLan p rx { dev := {}, counter := counter, replies := [] } s).1 =
      .ok { r1 with dev := applyResponses { r1.dev with online := true } [.state sr] } := by
    unfold refreshLan
    have hcmds : refreshCommands ({} : Dev) = [Cmd.getState] := by decide
    simp only [hcmds, sendAllLan, sendGetLan, hframe, hdev, sendGet, List.headD_cons,
      C14.constructAll_decodable, List.filterMap_cons, hcons, Except.toOption, List.filterMap_nil,
      List.append_nil]
    rfl
  refine ⟨_, hres, rfl, ?_, ?_, ?_, ?_, ?_⟩
  · exact h1
  · exact h2
  · exact h4
  · exact h14
  · exact h15

end Msmart.Props.C01
