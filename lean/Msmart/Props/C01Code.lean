/-
  C01 about the code AS TRANSLATED from the source text (tie by translation, DESIGN §3.1b): from the attributes of the
  device object to the bytes handed to the V2 transport, every step is the translated function —
  `AirConditioner.apply` (attribute mapping), `SetStateCommand.tobytes`, `Command.tobytes`, `crc8.calculate`,
  `Frame.tobytes`, `Frame.checksum`, `_Packet.encode` — and the result is what the independent device decodes to the
  requested state.  (The message id is the value `Command._next_message_id` returns, modelled; the timestamp is an input.)
-/
import Msmart.Props.C01Layers
import Msmart.Lemmas.CodecEqLan
import Msmart.Props.C07Code

namespace Msmart.Props.C01
open Msmart Msmart.Model Msmart.Lemmas Msmart.Crypto

/-- `apply()` → `SetStateCommand.tobytes` → `Command.tobytes` → `Frame.tobytes` → `_Packet.encode`, all as translated -/
def applyWireCode (d : Dev) (counter : Nat) (id : Nat) (ts : Bytes) : R Bytes := do
  let body ← CodecEq.applyThenTobytes d
  let payload ← Generated.Codec.commandPayload body ((((nextMessageId counter).2).toNat : Nat) : Int)
  let frame ← Generated.Codec.frameTobytes ((devTypeAC).toNat : Int) 0 ((ftControl).toNat : Int) payload
  Generated.Codec.packetEncode (id : Int) frame ts

theorem applyWireCode_eq (d : Dev) (counter : Nat) (id : Nat) (ts : Bytes) :
    applyWireCode d counter id ts =
      (((Cmd.setState (setStateOfDev d)).toBytes counter).1 >>= fun frame => packetEncode id ts frame) := by
  unfold applyWireCode Cmd.toBytes
  rw [CodecEq.applyThenTobytes_eq]
  show (setStateBody (setStateOfDev d) >>= _) = _
  cases hb : setStateBody (setStateOfDev d) with
  | error e => simp [Cmd.body, hb, bind, Except.bind]
  | ok body =>
    simp only [Cmd.body, hb, CodecEq.ok_bind]
    have h := CodecEq.commandToBytes_eq ftControl (nextMessageId counter).2 body
    rw [CodecEq.commandPayload_eq] at h ⊢
    simp only [CodecEq.ok_bind] at h ⊢
    rw [h]
    simp only [Cmd.frameType]
    generalize commandToBytes ftControl (nextMessageId counter).2 body = r
    cases r with
    | error e => rfl
    | ok frame =>
      simp only [CodecEq.ok_bind]
      rw [CodecEq.packetEncode_eq, C02.packetEncodeI_nat]

/-- **C01 (apply, V2) about the translated code.** For every settable state, device id, timestamp and counter value the
    bytes the TRANSLATED pipeline hands to the transport are decoded by the independent implementation to the same id and
    a well-formed control frame whose body the device reads as exactly the requested state. -/
theorem e2e_apply_v2_code (s : Spec.DevState) (hv : s.Valid) (id : Nat) (hid : id < 2 ^ 64) (ts : Bytes)
    (hts : ts.length = 8) (counter : Nat) :
    ∃ frame wire body,
      applyWireCode (C10.devOf s) counter id ts = .ok wire ∧
      Spec.V2.decode wire = some (id, frame) ∧
      Spec.parseFrame frame = some ⟨0xAC, Spec.ftControl, body, ((counter + 1) % 256).toUInt8⟩ ∧
      Spec.decodeSetState body = some s := by
  obtain ⟨frame, wire, body, hf, hw, hd, hp, hs⟩ := e2e_apply_v2 s hv id hid ts hts counter
  refine ⟨frame, wire, body, ?_, hd, hp, hs⟩
  rw [applyWireCode_eq, hf]; exact hw

/-- **C01 (refresh, V2) about the translated code.** For every device state, reply frame style, id and timestamp: the
    translated `_Packet.decode` recovers the frame the device sent, the translated `Frame.validate` accepts it, and the
    translated `StateResponse._parse` yields the attributes the model decodes - which a fresh client exposes as exactly
    the device's state (`status_roundtrip`). -/
theorem e2e_refresh_v2_code (s : Spec.DevState) (hv : s.Valid) (disp filt : Bool) (ir orr dg mid ft proto : UInt8)
    (style : Spec.CheckStyle) (id : Nat) (ts filler : Bytes) (hts : ts.length = 8) (hfl : filler.length = 12) :
    ∃ frame st,
      Generated.Codec.packetDecode (Spec.V2.encode id ts filler (Spec.respFrame ft proto style (Spec.statusPayload s disp filt ir orr dg mid)))
        = .ok frame ∧
      construct frame = .ok (.state st) ∧
      Generated.Codec.parseState (Spec.statusPayload s disp filt ir orr dg mid) = .ok (Generated.Codec.StateAttrs.ofModel st) ∧
      (({} : Dev).updateFromState st).power = s.power ∧
      (({} : Dev).updateFromState st).tempCenti = (s.tempHalf : Int) * 50 ∧
      (({} : Dev).updateFromState st).fan = (s.fan : Int) ∧
      (({} : Dev).updateFromState st).auxMode = s.aux := by
  generalize hP : Spec.statusPayload s disp filt ir orr dg mid = payload
  have hplen : payload.length = 24 := by rw [← hP]; rfl
  generalize hF : Spec.respFrame ft proto style payload = frame at *
  have hflen : frame.length = 36 := by rw [← hF]; simp [Spec.respFrame, hplen]
  have hfit : 56 + (encryptAes frame).length < 65536 := C02.small_frames_fit frame (by omega)
  obtain ⟨st, hst, h1, h2, _, h4, _, _, _, _, _, _, _, _, _, h14, _, _⟩ := status_roundtrip s hv disp filt ir orr dg mid
  rw [hP] at hst
  refine ⟨frame, st, ?_, ?_, ?_, h1, h2, h4, h14⟩
  · rw [CodecEq.packetDecode_eq]; exact C02.v2_decode_spec_encode frame ts filler id hts hfl hfit
  · rw [← hF]
    obtain ⟨t, rfl⟩ : ∃ t, payload = 0xC0 :: t := by rw [← hP]; exact ⟨_, rfl⟩
    rw [C11.construct_state_frame ft proto style t (by simp at hplen; omega), hst]; rfl
  · rw [CodecEq.parseState_eq, hst]; rfl


/-- the translated dispatch on a device-built frame: the class of the payload, and exactly the payload -/
theorem constructDispatch_respFrame (ft proto : UInt8) (style : Spec.CheckStyle) (p : Bytes) (hp : 4 ≤ p.length) :
    Generated.Codec.constructDispatch (Spec.respFrame ft proto style p) =
      (classOfPayload ft p >>= fun cls => pure (cls.tag, p)) := by
  rw [CodecEq.constructDispatch_eq]
  unfold constructDispatch
  rw [respFrame_valid, respClass_respFrame _ _ _ _ hp]
  simp only [bind, Except.bind]
  cases hc : classOfPayload ft p with
  | error e => rfl
  | ok cls =>
    simp only
    have hv : validateUnlessProps cls (Spec.respFrame ft proto style p) = .ok () := by
      unfold validateUnlessProps
      split
      · rw [respFrame_checked]; exact respValidate_bodyCheck style p
      · rfl
    rw [hv, respFrame_payload]

/-- **C01 (refresh, V3) about the translated code.** For every device state, check style, id, timestamp, session key,
    counter, pad bytes and EVERY segmentation of the reply: the translated loop body of `data_received`, iterated, queues
    exactly the one packet; the translated `_process_packet` decrypts it to the V2 packet; the translated `_Packet.decode`
    recovers the frame; the translated `Response._construct` accepts it and hands the status payload to the state class;
    the translated `StateResponse._parse` yields the attributes the model decodes - which a fresh client exposes as exactly
    the device's state. -/
theorem e2e_refresh_v3_code (s : Spec.DevState) (hv : s.Valid) (disp filt : Bool) (ir orr dg mid ft proto : UInt8)
    (style : Spec.CheckStyle) (id : Nat) (ts filler key padBytes : Bytes) (ctr : Nat)
    (hts : ts.length = 8) (hfl : filler.length = 12)
    (hpl : padBytes.length = Spec.V3.padOf
      (Spec.V2.encode id ts filler (Spec.respFrame ft proto style (Spec.statusPayload s disp filt ir orr dg mid))).length)
    (segs : List Bytes)
    (hsegs : segs.flatten = Spec.V3.encodeEncrypted key 3 ctr
      (Spec.V2.encode id ts filler (Spec.respFrame ft proto style (Spec.statusPayload s disp filt ir orr dg mid))) padBytes) :
    ∃ pkt v2 frame st,
      C04.feedAllCode [] segs = .ok ([pkt], []) ∧
      Generated.Codec.processPacket (some key) pkt = .ok v2 ∧
      Generated.Codec.packetDecode v2 = .ok frame ∧
      Generated.Codec.constructDispatch frame = .ok (1, Spec.statusPayload s disp filt ir orr dg mid) ∧
      Generated.Codec.parseState (Spec.statusPayload s disp filt ir orr dg mid) = .ok (Generated.Codec.StateAttrs.ofModel st) ∧
      (({} : Dev).updateFromState st).power = s.power ∧
      (({} : Dev).updateFromState st).tempCenti = (s.tempHalf : Int) * 50 ∧
      (({} : Dev).updateFromState st).fan = (s.fan : Int) ∧
      (({} : Dev).updateFromState st).auxMode = s.aux ∧
      (({} : Dev).updateFromState st).displayOn = disp := by
  generalize hP : Spec.statusPayload s disp filt ir orr dg mid = payload at *
  have hplen : payload.length = 24 := by rw [← hP]; rfl
  generalize hF : Spec.respFrame ft proto style payload = frame at *
  have hflen : frame.length = 36 := by rw [← hF]; simp [Spec.respFrame, hplen]
  generalize hW : Spec.V2.encode id ts filler frame = v2 at *
  have hfit : 56 + (encryptAes frame).length < 65536 := C02.small_frames_fit frame (by omega)
  have hv2len : v2.length = 56 + (encryptAes frame).length := by
    rw [← hW]; exact C03.authentic_length id ts filler frame hts hfl hfit
  have hel : (encryptAes frame).length = 48 := by rw [encryptAes_length, hflen]
  have hsz : v2.length + Spec.V3.padOf v2.length + 32 < 65536 := by
    rw [hv2len, hel]; decide
  generalize hK : Spec.V3.encodeEncrypted key 3 ctr v2 padBytes = pkt at *
  have hwf : C04.WfPacket pkt := by rw [← hK]; exact v3_packet_wf key v2 padBytes 3 ctr hpl hsz
  obtain ⟨st, hst, h1, h2, _, h4, _, _, _, _, _, _, _, _, _, h14, h15, _⟩ := status_roundtrip s hv disp filt ir orr dg mid
  rw [hP] at hst
  refine ⟨pkt, v2, frame, st, ?_, ?_, ?_, ?_, ?_, h1, h2, h4, h14, h15⟩
  · rw [C04.feedAllCode_eq, C04.segmentation_independent segs [] C04.stable_nil, List.nil_append, hsegs]
    have := C04.parse_complete_stream [pkt] (by intro p hp; simp at hp; subst hp; exact hwf) (by simp) [] rfl
    simpa using this
  · rw [CodecEq.processPacket_eq, ← hK]; exact C05.v3_decode_spec_response key v2 padBytes ctr hpl hsz
  · rw [CodecEq.packetDecode_eq, ← hW]; exact C02.v2_decode_spec_encode frame ts filler id hts hfl hfit
  · rw [← hF]
    obtain ⟨t, rfl⟩ : ∃ t, payload = 0xC0 :: t := by rw [← hP]; exact ⟨_, rfl⟩
    rw [constructDispatch_respFrame ft proto style (0xC0 :: t) (by simp at hplen ⊢; omega)]
    simp [classOfPayload, Py.idx, bind, Except.bind, pure, Except.pure, RespClass.tag]
  · rw [CodecEq.parseState_eq, hst]; rfl


/-- **C01 (apply, V3) about the translated code.** … and on a V3 connection the translated `_LanProtocolV3.write` turns that
    V2 packet, under ANY session key, 12-bit counter and pad bytes, into a packet the independent V3 decoder recovers it from
    (with that counter), and leaves the counter incremented modulo 4096. -/
theorem e2e_apply_v3_code (wire key padBytes : Bytes) (pid : Nat) (hp : pid < 4096)
    (hpl : padBytes.length = v3Pad wire.length) (hsz : wire.length + v3Pad wire.length + 32 < 65536) :
    ∃ pkt, Generated.Codec.writeV3 (some key) (pid : Int) wire 6 padBytes = .ok (pkt, (((pid + 1) % 4096 : Nat) : Int)) ∧
      Spec.V3.decodeEncrypted key pkt = some ⟨6, pid, wire⟩ :=
  C07.write_data_code key wire padBytes pid hp hpl hsz

/-- **C01 (refresh) about the translated code, last step.** The attributes `e2e_refresh_v3_code` / `e2e_refresh_v2_code` obtain from
    the translated `_parse` (`StateAttrs.ofModel st`), handed to the translated `StateResponse` arm of `_update_state` on a FRESH
    client (constructor defaults: custom fan speeds supported), are the attributes of `({} : Dev).updateFromState st` - the record
    whose fields those theorems equate with the device's state. -/
theorem refresh_update_fresh_code (st : StateResp) :
    CodecEq.updateOfAttrs true (Generated.Codec.StateAttrs.ofModel st) =
      Generated.Codec.UpdAttrs.ofDev (({} : Dev).updateFromState st) := by
  rw [CodecEq.updateOfAttrs_ofModel]; rfl

end Msmart.Props.C01
