/-
  C16 — property-protocol settings: sent by the next apply after they change, exactly once, under
  the advertised id, in the vendor encoding, and read back equal; at most one breeze mode.
-/
import Msmart.Model.Device
import Msmart.Spec.PropertyStore
import Msmart.Lemmas.Dict
import Msmart.Props.C14

set_option linter.unusedSimpArgs false

namespace Msmart.Props.C16
open Msmart Msmart.Model Msmart.Lemmas

/-! ### bookkeeping: what touches `_updated_properties` -/

theorem updateState_updated (d : Dev) (r : Resp) : (d.updateState r).updatedProps = d.updatedProps := by
  cases r <;> simp [Dev.updateState, Dev.updateFromState, Dev.updateFromProps, Dev.updateFromEnergy]
  split <;> (try split) <;> rfl

theorem applyResponses_updated (rs : List Resp) (d : Dev) :
    (applyResponses d rs).updatedProps = d.updatedProps := by
  induction rs generalizing d with
  | nil => rfl
  | cons r t ih => simp only [applyResponses, List.foldl_cons] at ih ⊢; rw [ih, updateState_updated]

theorem sendGet_updated (r : Run) (c : Cmd) (out : Run × List Resp) (h : sendGet r c = .ok out) :
    out.1.dev.updatedProps = r.dev.updatedProps ∧ out.1.sent = r.sent ++ [c] := by
  unfold sendGet at h
  split at h
  · cases h
  · rw [C14.constructAll_decodable] at h
    cases h
    exact ⟨rfl, rfl⟩

theorem sendAll_updated (cs : List Cmd) (r : Run) (out : Run × List Resp) (h : sendAll r cs = .ok out) :
    out.1.dev.updatedProps = r.dev.updatedProps ∧ out.1.sent = r.sent ++ cs := by
  induction cs generalizing r out with
  | nil => simp [sendAll] at h; cases h; simp
  | cons c t ih =>
    unfold sendAll at h
    cases h1 : sendGet r c with
    | error e => simp [h1, bind, Except.bind] at h
    | ok o1 =>
      obtain ⟨u1, s1⟩ := sendGet_updated r c o1 h1
      simp only [h1, bind, Except.bind] at h
      cases h2 : sendAll o1.1 t with
      | error e => simp [h2] at h
      | ok o2 =>
        obtain ⟨u2, s2⟩ := ih o1.1 o2 h2
        simp only [h2, pure, Except.pure] at h
        cases h
        exact ⟨by rw [u2, u1], by rw [s2, s1]; simp⟩

/-- a refresh — whatever the device replies — neither forgets nor invents a pending change and
    sends no property write -/
theorem refresh_keeps_updated (r r' : Run) (h : refresh r = .ok r') :
    r'.dev.updatedProps = r.dev.updatedProps ∧ r'.sent = r.sent ++ refreshCommands r.dev := by
  unfold refresh at h
  cases hs : sendAll r (refreshCommands r.dev) with
  | error e => simp [hs, bind, Except.bind] at h
  | ok o =>
    obtain ⟨u, s⟩ := sendAll_updated _ r o hs
    simp only [hs, bind, Except.bind, pure, Except.pure] at h
    cases h
    obtain ⟨o1, o2⟩ := o
    simp only at u s
    refine ⟨?_, s⟩
    simp only [applyResponses_updated]
    exact u

/-- the property write an `apply` emits -/
def changedWrite (d : Dev) : List (Nat × Nat) :=
  dictSet ((d.updatedProps.filter (fun k => Generated.propertyMapKeys.contains k)).map
    (fun k => (k, propMapValue d k))) pidBuzzer (b2n d.beep)

/-- **C16 (sent once).** An `apply` (whatever the device replies) emits the state command and then,
    iff some property changed since the previous apply, ONE property write carrying exactly the
    changed ids (those with a setting behind them) plus the buzzer, with the values current at that
    moment; afterwards nothing is pending, so the next apply without a change sends no write. -/
theorem apply_sends_changed (r r' : Run) (h : apply r = .ok r') :
    r'.dev.updatedProps = [] ∧
    (r.dev.updatedProps = [] → r'.sent = r.sent ++ [.setState (setStateOfDev r.dev)]) ∧
    (r.dev.updatedProps ≠ [] → ∃ d2 : Dev, d2.updatedProps = r.dev.updatedProps ∧ d2.beep = r.dev.beep ∧
        r'.sent = r.sent ++ [.setState (setStateOfDev r.dev), .setProperties (changedWrite d2)]) := by
  unfold apply at h
  cases h1 : sendGet r (.setState (setStateOfDev r.dev)) with
  | error e => simp [h1, bind, Except.bind] at h
  | ok o1 =>
    obtain ⟨u1, s1⟩ := sendGet_updated _ _ o1 h1
    obtain ⟨r1, rs⟩ := o1
    simp only [h1, bind, Except.bind] at h
    simp only at u1 s1
    have hu : (applyResponses r1.dev rs).updatedProps = r.dev.updatedProps := by
      rw [applyResponses_updated, u1]
    by_cases he : r.dev.updatedProps = []
    · have : (applyResponses r1.dev rs).updatedProps.isEmpty = true := by rw [hu, he]; rfl
      simp only [this, ↓reduceIte, pure, Except.pure] at h
      cases h
      exact ⟨by simp only [hu, he], fun _ => s1, fun hne => absurd he hne⟩
    · have : ¬ (applyResponses r1.dev rs).updatedProps.isEmpty = true := by
        rw [hu]; simpa [List.isEmpty_iff] using he
      simp only [this, ↓reduceIte] at h
      unfold applyProperties at h
      cases h2 : sendGet { r1 with dev := applyResponses r1.dev rs }
          (.setProperties (dictSet ((List.filter (fun k => Generated.propertyMapKeys.contains k)
            (applyResponses r1.dev rs).updatedProps).map (fun k => (k, propMapValue (applyResponses r1.dev rs) k)))
            pidBuzzer (b2n (applyResponses r1.dev rs).beep))) with
      | error e => rw [h2] at h; simp only [bind, Except.bind] at h; cases h
      | ok o2 =>
        obtain ⟨u2, s2⟩ := sendGet_updated _ _ o2 h2
        rw [h2] at h
        simp only [bind, Except.bind, pure, Except.pure] at h
        cases h
        refine ⟨rfl, fun hh => absurd hh he, fun _ => ⟨applyResponses r1.dev rs, hu, ?_, ?_⟩⟩
        · have hb : ∀ (rs : List Resp) (d : Dev), (applyResponses d rs).beep = d.beep := by
            intro rs
            induction rs with
            | nil => intro d; rfl
            | cons x t ih =>
              intro d
              simp only [applyResponses, List.foldl_cons] at ih ⊢
              rw [ih]
              cases x <;> simp [Dev.updateState, Dev.updateFromState, Dev.updateFromProps, Dev.updateFromEnergy]
              split <;> (try split) <;> rfl
          rw [hb]
          unfold sendGet at h1
          split at h1
          · cases h1
          · rw [C14.constructAll_decodable] at h1; cases h1; rfl
        · simp only at s2 ⊢
          rw [s2, s1]
          simp [changedWrite]

/-- the id a breeze setter records: BREEZE_CONTROL if the device advertised it, else the legacy id -/
theorem setter_ids (d : Dev) (b : Bool) (a v : Nat) :
    (d.setBreezeAway b).updatedProps = setAdd d.updatedProps
      (if d.supportedProps.contains pidBreezeControl then pidBreezeControl else pidBreezeAway) ∧
    (d.setBreezeless b).updatedProps = setAdd d.updatedProps
      (if d.supportedProps.contains pidBreezeControl then pidBreezeControl else pidBreezeless) ∧
    (d.setBreezeMild b).updatedProps = setAdd d.updatedProps pidBreezeControl ∧
    (d.setHAngle a).updatedProps = setAdd d.updatedProps pidSwingLR ∧
    (d.setVAngle a).updatedProps = setAdd d.updatedProps pidSwingUD ∧
    (d.setIeco b).updatedProps = setAdd d.updatedProps pidIeco ∧
    (d.setRateSelect v).updatedProps = setAdd d.updatedProps pidRateSelect :=
  ⟨rfl, rfl, rfl, rfl, rfl, rfl, rfl⟩

/-- **C16 (one breeze mode).** The three breeze flags are views of one field, so at most one is
    reported active in every state whatsoever. -/
theorem one_breeze_mode (d : Dev) :
    ¬ (d.breezeMode = breezeAway ∧ d.breezeMode = breezeMild) ∧
    ¬ (d.breezeMode = breezeAway ∧ d.breezeMode = breezeLess) ∧
    ¬ (d.breezeMode = breezeMild ∧ d.breezeMode = breezeLess) := by
  refine ⟨?_, ?_, ?_⟩ <;> (rintro ⟨h1, h2⟩; rw [h1] at h2; exact absurd h2 (by decide))

/-! ### value round trip through the vendor encoding (device = Spec.PropertyStore) -/

/-- write `pid := v` (plus buzzer) to a device with the given profile, then read `reads` back:
    the properties the library decodes from the read response -/
def writeThenRead (profile : List Nat) (pid v : Nat) (reads : List Nat) : Option PropDict :=
  match setPropsBody [(pid, v), (pidBuzzer, 0)] with
  | .error _ => none
  | .ok wb =>
    let s1 := (Spec.storeStep (Spec.newStore profile) ([0xB0, 2] ++ wb)).1
    match (Spec.storeStep s1 ([0xB1, reads.length.toUInt8] ++ (reads.map le16).flatten)).2 with
    | none => none
    | some payload => (parseProps (payload ++ [0x00])).toOption

def angleValues : List Nat := [0, 1, 25, 50, 75, 100]
def rateValues : List Nat := [100, 50, 75, 1, 20, 40, 60, 80]

/-- **C16 (read back equal).** For every value of every setting, the value written in the vendor
    encoding, stored by the device and read back decodes to the same setting on the device object. -/
theorem angle_roundtrip : ∀ v ∈ angleValues,
    ((writeThenRead [pidSwingLR, pidSwingUD] pidSwingLR v [pidSwingLR, pidSwingUD]).map
        (fun p => (({} : Dev).updateFromProps p).hAngle) = some v) ∧
    ((writeThenRead [pidSwingLR, pidSwingUD] pidSwingUD v [pidSwingLR, pidSwingUD]).map
        (fun p => (({} : Dev).updateFromProps p).vAngle) = some v) := by decide +kernel

theorem rate_roundtrip : ∀ v ∈ rateValues,
    (writeThenRead [pidRateSelect] pidRateSelect v [pidRateSelect]).map
      (fun p => (({} : Dev).updateFromProps p).rateSelect) = some v := by decide +kernel

theorem ieco_roundtrip : ∀ b : Bool,
    (writeThenRead [pidIeco] pidIeco (b2n b) [pidIeco]).map
      (fun p => (({} : Dev).updateFromProps p).ieco) = some b := by decide +kernel

theorem breeze_control_roundtrip : ∀ m ∈ [1, 2, 3, 4],
    (writeThenRead [pidBreezeControl] pidBreezeControl m [pidBreezeControl, pidBreezeAway, pidBreezeless]).map
      (fun p => (({} : Dev).updateFromProps p).breezeMode) = some m := by decide +kernel

/-- legacy ids, every profile that has them — including the one advertising BOTH (the case the
    `fix:` commit ec50352 repaired: it used to read back OFF) -/
theorem breeze_legacy_roundtrip :
    (∀ profile ∈ [[pidBreezeAway], [pidBreezeAway, pidBreezeless], [pidBreezeless, pidBreezeAway]], ∀ b : Bool,
      (writeThenRead profile pidBreezeAway (b2n b) [pidBreezeAway, pidBreezeless]).map
        (fun p => decide ((({} : Dev).updateFromProps p).breezeMode = breezeAway)) = some b) ∧
    (∀ profile ∈ [[pidBreezeless], [pidBreezeAway, pidBreezeless], [pidBreezeless, pidBreezeAway]], ∀ b : Bool,
      (writeThenRead profile pidBreezeless (b2n b) [pidBreezeAway, pidBreezeless]).map
        (fun p => decide ((({} : Dev).updateFromProps p).breezeMode = breezeLess)) = some b) := by
  decide +kernel

/-! non-vacuity -/
example : (({} : Dev).setBreezeAway true).updatedProps = [pidBreezeAway] := rfl
example : changedWrite (({} : Dev).setRateSelect 50) = [(pidRateSelect, 50), (pidBuzzer, 0)] := by decide

end Msmart.Props.C16
