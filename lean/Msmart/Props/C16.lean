/-
  C16 — property-protocol settings: sent by the next apply after they change, exactly once, under
  the advertised id, in the vendor encoding, and read back equal; at most one breeze mode.
-/
import Msmart.Model.Device
import Msmart.Spec.PropertyStore
import Msmart.Lemmas.Dict
import Msmart.Props.C14

set_option linter.unusedSimpArgs false

namespace Msmart.Props.C16
open Msmart Msmart.Model Msmart.Lemmas

/-! ### bookkeeping: what touches `_updated_properties` -/

theorem updateState_updated (d : Dev) (r : Resp) : (d.updateState r).updatedProps = d.updatedProps := by
  cases r <;> simp [Dev.updateState, Dev.updateFromState, Dev.updateFromProps, Dev.updateFromEnergy]
  split <;> (try split) <;> rfl

theorem applyResponses_updated (rs : List Resp) (d : Dev) :
    (applyResponses d rs).updatedProps = d.updatedProps := by
  induction rs generalizing d with
  | nil => rfl
  | cons r t ih => simp only [applyResponses, List.foldl_cons] at ih ⊢; rw [ih, updateState_updated]

theorem sendGet_updated (r : Run) (c : Cmd) (out : Run × List Resp) (h : sendGet r c = .ok out) :
    out.1.dev.updatedProps = r.dev.updatedProps ∧ out.1.sent = r.sent ++ [c] := by
  unfold sendGet at h
  split at h
  · cases h
  · rw [C14.constructAll_decodable] at h
    cases h
    exact ⟨rfl, rfl⟩

theorem sendAll_updated (cs : List Cmd) (r : Run) (out : Run × List Resp) (h : sendAll r cs = .ok out) :
    out.1.dev.updatedProps = r.dev.updatedProps ∧ out.1.sent = r.sent ++ cs := by
  induction cs generalizing r out with
  | nil => simp [sendAll] at h; cases h; simp
  | cons c t ih =>
    unfold sendAll at h
    cases h1 : sendGet r c with
    | error e => simp [h1, bind, Except.bind] at h
    | ok o1 =>
      obtain ⟨u1, s1⟩ := sendGet_updated r c o1 h1
      simp only [h1, bind, Except.bind] at h
      cases h2 : sendAll o1.1 t with
      | error e => simp [h2] at h
      | ok o2 =>
        obtain ⟨u2, s2⟩ := ih o1.1 o2 h2
        simp only [h2, pure, Except.pure] at h
        cases h
        exact ⟨by rw [u2, u1], by rw [s2, s1]; simp⟩

/-- a refresh — whatever the device replies — neither forgets nor invents a pending change and
    sends no property write -/
theorem refresh_keeps_updated (r r' : Run) (h : refresh r = .ok r') :
    r'.dev.updatedProps = r.dev.updatedProps ∧ r'.sent = r.sent ++ refreshCommands r.dev := by
  unfold refresh at h
  cases hs : sendAll r (refreshCommands r.dev) with
  | error e => simp [hs, bind, Except.bind] at h
  | ok o =>
    obtain ⟨u, s⟩ := sendAll_updated _ r o hs
    simp only [hs, bind, Except.bind, pure, Except.pure] at h
    cases h
    obtain ⟨o1, o2⟩ := o
    simp only at u s
    refine ⟨?_, s⟩
    simp only [applyResponses_updated]
    exact u

/-- the property write an `apply` emits -/
def changedWrite (d : Dev) : List (Nat × Nat) :=
  dictSet ((d.updatedProps.filter (fun k => Generated.propertyMapKeys.contains k)).map
    (fun k => (k, propMapValue d k))) pidBuzzer (b2n d.beep)

/-- **C16 (sent once).** An `apply` (whatever the device replies) emits the state command and then,
    iff some property changed since the previous apply, ONE property write carrying exactly the
    changed ids (those with a setting behind them) plus the buzzer, with the values current at that
    moment; afterwards nothing is pending, so the next apply without a change sends no write. -/
theorem apply_sends_changed (r r' : Run) (h : apply r = .ok r') :
    r'.dev.updatedProps = [] ∧
    (r.dev.updatedProps = [] → r'.sent = r.sent ++ [.setState (setStateOfDev r.dev)]) ∧
    (r.dev.updatedProps ≠ [] → ∃ d2 : Dev, d2.updatedProps = r.dev.updatedProps ∧ d2.beep = r.dev.beep ∧
        r'.sent = r.sent ++ [.setState (setStateOfDev r.dev), .setProperties (changedWrite d2)]) := by
  unfold apply at h
  cases h1 : sendGet r (.setState (setStateOfDev r.dev)) with
  | error e => simp [h1, bind, Except.bind] at h
  | ok o1 =>
    obtain ⟨u1, s1⟩ := sendGet_updated _ _ o1 h1
    obtain ⟨r1, rs⟩ := o1
    simp only [h1, bind, Except.bind] at h
    simp only at u1 s1
    have hu : (applyResponses r1.dev rs).updatedProps = r.dev.updatedProps := by
      rw [applyResponses_updated, u1]
    by_cases he : r.dev.updatedProps = []
    · have : (applyResponses r1.dev rs).updatedProps.isEmpty = true := by rw [hu, he]; rfl
      simp only [this, ↓reduceIte, pure, Except.pure] at h
      cases h
      exact ⟨by simp only [hu, he], fun _ => s1, fun hne => absurd he hne⟩
    · have : ¬ (applyResponses r1.dev rs).updatedProps.isEmpty = true := by
        rw [hu]; simpa [List.isEmpty_iff] using he
      simp only [this, ↓reduceIte] at h
      unfold applyProperties at h
      cases h2 : sendGet { r1 with dev := applyResponses r1.dev rs }
          (.setProperties (dictSet ((List.filter (fun k => Generated.propertyMapKeys.contains k)
            (applyResponses r1.dev rs).updatedProps).map (fun k => (k, propMapValue (applyResponses r1.dev rs) k)))
            pidBuzzer (b2n (applyResponses r1.dev rs).beep))) with
      | error e => rw [h2] at h; simp only [bind, Except.bind] at h; cases h
      | ok o2 =>
        obtain ⟨u2, s2⟩ := sendGet_updated _ _ o2 h2
        rw [h2] at h
        simp only [bind, Except.bind, pure, Except.pure] at h
        cases h
        refine ⟨rfl, fun hh => absurd hh he, fun _ => ⟨applyResponses r1.dev rs, hu, ?_, ?_⟩⟩
        · have hb : ∀ (rs : List Resp) (d : Dev), (applyResponses d rs).beep = d.beep := by
            intro rs
            induction rs with
            | nil => intro d; rfl
            | cons x t ih =>
              intro d
              simp only [applyResponses, List.foldl_cons] at ih ⊢
              rw [ih]
              cases x <;> simp [Dev.updateState, Dev.updateFromState, Dev.updateFromProps, Dev.updateFromEnergy]
              split <;> (try split) <;> rfl
          rw [hb]
          unfold sendGet at h1
          split at h1
          · cases h1
          · rw [C14.constructAll_decodable] at h1; cases h1; rfl
        · simp only at s2 ⊢
          rw [s2, s1]
          simp [changedWrite]

/-- the id a breeze setter records: BREEZE_CONTROL if the device advertised it, else the legacy id -/
theorem setter_ids (d : Dev) (b : Bool) (a v : Nat) :
    (d.setBreezeAway b).updatedProps = setAdd d.updatedProps
      (if d.supportedProps.contains pidBreezeControl then pidBreezeControl else pidBreezeAway) ∧
    (d.setBreezeless b).updatedProps = setAdd d.updatedProps
      (if d.supportedProps.contains pidBreezeControl then pidBreezeControl else pidBreezeless) ∧
    (d.setBreezeMild b).updatedProps = setAdd d.updatedProps pidBreezeControl ∧
    (d.setHAngle a).updatedProps = setAdd d.updatedProps pidSwingLR ∧
    (d.setVAngle a).updatedProps = setAdd d.updatedProps pidSwingUD ∧
    (d.setIeco b).updatedProps = setAdd d.updatedProps pidIeco ∧
    (d.setRateSelect v).updatedProps = setAdd d.updatedProps pidRateSelect :=
  ⟨rfl, rfl, rfl, rfl, rfl, rfl, rfl⟩

/-- **C16 (one breeze mode).** The three breeze flags are views of one field, so at most one is
    reported active in every state whatsoever. -/
theorem one_breeze_mode (d : Dev) :
    ¬ (d.breezeMode = breezeAway ∧ d.breezeMode = breezeMild) ∧
    ¬ (d.breezeMode = breezeAway ∧ d.breezeMode = breezeLess) ∧
    ¬ (d.breezeMode = breezeMild ∧ d.breezeMode = breezeLess) := by
  refine ⟨?_, ?_, ?_⟩ <;> (rintro ⟨h1, h2⟩; rw [h1] at h2; exact absurd h2 (by decide))

/-! ### value round trip through the vendor encoding (device = Spec.PropertyStore) -/

/-- write `pid := v` (plus buzzer) to a device with the given profile, then read `reads` back:
    the properties the library decodes from the read response -/
def writeThenRead (profile : List Nat) (pid v : Nat) (reads : List Nat) : Option PropDict :=
  match setPropsBody [(pid, v), (pidBuzzer, 0)] with
  | .error _ => none
  | .ok wb =>
    let s1 := (Spec.storeStep (Spec.newStore profile) ([0xB0, 2] ++ wb)).1
    match (Spec.storeStep s1 ([0xB1, reads.length.toUInt8] ++ (reads.map le16).flatten)).2 with
    | none => none
    | some payload => (parseProps (payload ++ [0x00])).toOption

def angleValues : List Nat := [0, 1, 25, 50, 75, 100]
def rateValues : List Nat := [100, 50, 75, 1, 20, 40, 60, 80]

/-- **C16 (read back equal).** For every value of every setting, the value written in the vendor
    encoding, stored by the device and read back decodes to the same setting on the device object. -/
theorem angle_roundtrip : ∀ v ∈ angleValues,
    ((writeThenRead [pidSwingLR, pidSwingUD] pidSwingLR v [pidSwingLR, pidSwingUD]).map
        (fun p => (({} : Dev).updateFromProps p).hAngle) = some v) ∧
    ((writeThenRead [pidSwingLR, pidSwingUD] pidSwingUD v [pidSwingLR, pidSwingUD]).map
        (fun p => (({} : Dev).updateFromProps p).vAngle) = some v) := by decide +kernel

theorem rate_roundtrip : ∀ v ∈ rateValues,
    (writeThenRead [pidRateSelect] pidRateSelect v [pidRateSelect]).map
      (fun p => (({} : Dev).updateFromProps p).rateSelect) = some v := by decide +kernel

theorem ieco_roundtrip : ∀ b : Bool,
    (writeThenRead [pidIeco] pidIeco (b2n b) [pidIeco]).map
      (fun p => (({} : Dev).updateFromProps p).ieco) = some b := by decide +kernel

theorem breeze_control_roundtrip : ∀ m ∈ [1, 2, 3, 4],
    (writeThenRead [pidBreezeControl] pidBreezeControl m [pidBreezeControl, pidBreezeAway, pidBreezeless]).map
      (fun p => (({} : Dev).updateFromProps p).breezeMode) = some m := by decide +kernel

/-- legacy ids, every profile that has them — including the one advertising BOTH (the case the
    `fix:` commit ec50352 repaired: it used to read back OFF) -/
theorem breeze_legacy_roundtrip :
    (∀ profile ∈ [[pidBreezeAway], [pidBreezeAway, pidBreezeless], [pidBreezeless, pidBreezeAway]], ∀ b : Bool,
      (writeThenRead profile pidBreezeAway (b2n b) [pidBreezeAway, pidBreezeless]).map
        (fun p => decide ((({} : Dev).updateFromProps p).breezeMode = breezeAway)) = some b) ∧
    (∀ profile ∈ [[pidBreezeless], [pidBreezeAway, pidBreezeless], [pidBreezeless, pidBreezeAway]], ∀ b : Bool,
      (writeThenRead profile pidBreezeless (b2n b) [pidBreezeAway, pidBreezeless]).map
        (fun p => decide ((({} : Dev).updateFromProps p).breezeMode = breezeLess)) = some b) := by
  decide +kernel


/-! ### histories of {setter, refresh, get_capabilities, apply}

The bookkeeping the property quantifies over, as a ghost that runs beside the model: `pending` is the
set of ids recorded by the setters since the last `apply`; an `apply` with something pending appends
ONE entry to `writes` (the pending ids) and empties `pending`; nothing else touches either.  The
theorem below says the model's `_updated_properties` and the property writes in its transmit log are
this ghost — for every history, whatever the device replies. -/

inductive Op where
  | breezeAway (b : Bool) | breezeMild (b : Bool) | breezeless (b : Bool)
  | hAngle (a : Nat) | vAngle (a : Nat) | ieco (b : Bool) | rate (v : Nat)
  | refresh | getCaps | apply

/-- the id a setter records on a device in state `d` (advertised id for the breeze modes) -/
def Op.id (d : Dev) : Op → Option Nat
  | .breezeAway _ => some (if d.supportedProps.contains pidBreezeControl then pidBreezeControl else pidBreezeAway)
  | .breezeless _ => some (if d.supportedProps.contains pidBreezeControl then pidBreezeControl else pidBreezeless)
  | .breezeMild _ => some pidBreezeControl
  | .hAngle _ => some pidSwingLR
  | .vAngle _ => some pidSwingUD
  | .ieco _ => some pidIeco
  | .rate _ => some pidRateSelect
  | _ => none

def stepOp (r : Run) : Op → R Run
  | .breezeAway b => pure { r with dev := r.dev.setBreezeAway b }
  | .breezeMild b => pure { r with dev := r.dev.setBreezeMild b }
  | .breezeless b => pure { r with dev := r.dev.setBreezeless b }
  | .hAngle a => pure { r with dev := r.dev.setHAngle a }
  | .vAngle a => pure { r with dev := r.dev.setVAngle a }
  | .ieco b => pure { r with dev := r.dev.setIeco b }
  | .rate v => pure { r with dev := r.dev.setRateSelect v }
  | .refresh => refresh r
  | .getCaps => getCapabilities r
  | .apply => apply r

structure Ghost where
  pending : List Nat := []
  writes : List (List Nat) := []

def Ghost.step (g : Ghost) (d : Dev) (op : Op) : Ghost :=
  match op with
  | .apply => { pending := [], writes := if g.pending = [] then g.writes else g.writes ++ [g.pending] }
  | .refresh | .getCaps => g
  | op => match op.id d with
    | some i => { g with pending := setAdd g.pending i }
    | none => g

def runOps : Run → Ghost → List Op → R (Run × Ghost)
  | r, g, [] => pure (r, g)
  | r, g, op :: t => do
    let r1 ← stepOp r op
    runOps r1 (g.step r.dev op) t

/-- the ids (other than the buzzer, which rides along on every write) of the property writes in a
    transmit log, one entry per write, in order -/
def writeIds : Cmd → List (List Nat)
  | .setProperties ps => [(Lemmas.keys ps).filter (· ≠ pidBuzzer)]
  | _ => []
def propWrites (cs : List Cmd) : List (List Nat) := (cs.map writeIds).flatten

theorem propWrites_append (a b : List Cmd) : propWrites (a ++ b) = propWrites a ++ propWrites b := by
  simp [propWrites]

def setterIds : List Nat :=
  [pidBreezeControl, pidBreezeAway, pidBreezeless, pidSwingLR, pidSwingUD, pidIeco, pidRateSelect]

/-- every id a setter records has a setting behind it in the property map regenerated from the source
    this run, and is not the buzzer -/
theorem setterIds_mapped : ∀ i ∈ setterIds, Generated.propertyMapKeys.contains i = true ∧ i ≠ pidBuzzer := by
  decide

theorem id_mem (d : Dev) (op : Op) (i : Nat) (h : op.id d = some i) : i ∈ setterIds := by
  cases op <;> simp only [Op.id, Option.some.injEq, reduceCtorEq] at h <;> subst h <;> (try split) <;> simp [setterIds]

theorem mem_setAdd (s : List Nat) (x y : Nat) : y ∈ setAdd s x ↔ y ∈ s ∨ y = x := by
  unfold setAdd
  split
  · rename_i h
    constructor
    · exact Or.inl
    · rintro (h1 | rfl)
      · exact h1
      · simpa using h
  · simp

theorem getCapabilities_updated (r r' : Run) (h : getCapabilities r = .ok r') :
    r'.dev.updatedProps = r.dev.updatedProps ∧ propWrites r'.sent = propWrites r.sent := by
  unfold getCapabilities sendGetCaps at h
  cases h1 : sendGet r (.getCapabilities false) with
  | error e => simp [h1, bind, Except.bind] at h
  | ok o1 =>
    obtain ⟨u1, s1⟩ := sendGet_updated _ _ o1 h1
    obtain ⟨r1, rs1⟩ := o1
    simp only [h1, bind, Except.bind, pure, Except.pure] at h
    simp only at u1 s1
    have p1 : propWrites r1.sent = propWrites r.sent := by rw [s1, propWrites_append]; simp [propWrites, writeIds]
    cases hf : firstCaps rs1 with
    | none => simp only [hf] at h; cases h; exact ⟨u1, p1⟩
    | some c =>
      simp only [hf] at h
      by_cases ha : c.additional = true
      · simp only [ha, ↓reduceIte] at h
        cases h2 : sendGet r1 (.getCapabilities true) with
        | error e => simp [h2] at h
        | ok o2 =>
          obtain ⟨u2, s2⟩ := sendGet_updated _ _ o2 h2
          obtain ⟨r2, rs2⟩ := o2
          simp only [h2] at h
          simp only at u2 s2
          have p2 : propWrites r2.sent = propWrites r.sent := by
            rw [s2, propWrites_append, p1]; simp [propWrites, writeIds]
          cases hs : firstCaps rs2 with
          | none => simp only [hs] at h; cases h; exact ⟨by simp [Dev.updateCapabilities, u2, u1], p2⟩
          | some c2 => simp only [hs] at h; cases h; exact ⟨by simp [Dev.updateCapabilities, u2, u1], p2⟩
      · simp only [ha, Bool.false_eq_true, ↓reduceIte] at h
        cases h
        exact ⟨by simp [Dev.updateCapabilities, u1], p1⟩

theorem propWrites_refreshCommands (d : Dev) : propWrites (refreshCommands d) = [] := by
  unfold refreshCommands
  simp only [propWrites_append]
  split <;> split <;> split <;> simp [propWrites, writeIds]

theorem keys_map_pair (l : List Nat) (f : Nat → Nat) : Lemmas.keys (l.map (fun k => (k, f k))) = l := by
  induction l with
  | nil => rfl
  | cons a t ih => simp only [Lemmas.keys, List.map_cons, List.map_map] at ih ⊢; rw [ih]

/-- the ids of the write an `apply` emits are exactly the pending ones (when every pending id is a
    setter id) -/
theorem writeIds_changedWrite (d : Dev) (hp : ∀ i ∈ d.updatedProps, i ∈ setterIds) :
    writeIds (.setProperties (changedWrite d)) = [d.updatedProps] := by
  have hf : d.updatedProps.filter (fun k => Generated.propertyMapKeys.contains k) = d.updatedProps :=
    List.filter_eq_self.mpr (fun i hi => (setterIds_mapped i (hp i hi)).1)
  have hb : (d.updatedProps.filter (· ≠ pidBuzzer)) = d.updatedProps :=
    List.filter_eq_self.mpr (fun i hi => by simpa using (setterIds_mapped i (hp i hi)).2)
  simp only [writeIds, changedWrite, hf, Lemmas.keys_dictSet, keys_map_pair]
  split
  · rw [hb]
  · rw [List.filter_append, hb]; simp

/-- what a state must satisfy for the ghost to describe it -/
structure Tracks (r : Run) (g : Ghost) : Prop where
  pending : g.pending = r.dev.updatedProps
  writes : propWrites r.sent = g.writes
  ids : ∀ i ∈ r.dev.updatedProps, i ∈ setterIds

theorem tracks_step (r r' : Run) (g : Ghost) (op : Op) (ht : Tracks r g) (h : stepOp r op = .ok r') :
    Tracks r' (g.step r.dev op) := by
  have setter : ∀ (i : Nat) (d' : Dev), op.id r.dev = some i → d'.updatedProps = setAdd r.dev.updatedProps i →
      r' = { r with dev := d' } → (match op with | .apply | .refresh | .getCaps => False | _ => True) →
      Tracks r' (g.step r.dev op) := by
    intro i d' hid hu hr hk
    have hg : g.step r.dev op = { g with pending := setAdd g.pending i } := by
      cases op <;> simp only [Ghost.step, hid] <;> cases hk
    rw [hg, hr]
    refine ⟨by simp only [hu, ht.pending], ht.writes, ?_⟩
    intro j hj
    simp only [hu] at hj
    rcases (mem_setAdd _ _ _).mp hj with h1 | rfl
    · exact ht.ids j h1
    · exact id_mem _ _ _ hid
  cases op with
  | breezeAway b => exact setter _ _ rfl rfl (by simp [stepOp, pure, Except.pure] at h; exact h.symm) trivial
  | breezeMild b => exact setter _ _ rfl rfl (by simp [stepOp, pure, Except.pure] at h; exact h.symm) trivial
  | breezeless b => exact setter _ _ rfl rfl (by simp [stepOp, pure, Except.pure] at h; exact h.symm) trivial
  | hAngle a => exact setter _ _ rfl rfl (by simp [stepOp, pure, Except.pure] at h; exact h.symm) trivial
  | vAngle a => exact setter _ _ rfl rfl (by simp [stepOp, pure, Except.pure] at h; exact h.symm) trivial
  | ieco b => exact setter _ _ rfl rfl (by simp [stepOp, pure, Except.pure] at h; exact h.symm) trivial
  | rate v => exact setter _ _ rfl rfl (by simp [stepOp, pure, Except.pure] at h; exact h.symm) trivial
  | refresh =>
    obtain ⟨u, s⟩ := refresh_keeps_updated r r' h
    refine ⟨by simp only [Ghost.step, u, ht.pending], ?_, by rw [u]; exact ht.ids⟩
    simp only [Ghost.step]
    rw [s, propWrites_append, propWrites_refreshCommands, List.append_nil, ht.writes]
  | getCaps =>
    obtain ⟨u, s⟩ := getCapabilities_updated r r' h
    exact ⟨by simp only [Ghost.step, u, ht.pending], by simp only [Ghost.step, s, ht.writes], by rw [u]; exact ht.ids⟩
  | apply =>
    obtain ⟨e, h0, h1⟩ := apply_sends_changed r r' h
    refine ⟨by simp only [Ghost.step, e], ?_, by rw [e]; intro i hi; cases hi⟩
    simp only [Ghost.step, ht.pending]
    by_cases hp : r.dev.updatedProps = []
    · rw [h0 hp, propWrites_append, ht.writes]; simp [hp, propWrites, writeIds]
    · obtain ⟨d2, hd, _, hs⟩ := h1 hp
      have hw := writeIds_changedWrite d2 (by rw [hd]; exact ht.ids)
      rw [hs, propWrites_append, ht.writes]
      simp only [hp, ↓reduceIte, propWrites, List.map_cons, List.map_nil, List.flatten_cons, List.flatten_nil, hw, hd]
      simp [writeIds]

/-- **C16 (histories).** For EVERY history of setters, refreshes, capability queries and applies —
    whatever the device replies to each — the pending set of the device object and the property
    writes on the wire are the ghost's: a setting is recorded under its advertised id when it changes,
    survives any number of refreshes and capability queries, is sent by the NEXT apply in one write that
    carries exactly the ids changed since the previous apply, and is sent by no later apply unless it
    changes again. -/
theorem history_tracks (ops : List Op) (r r' : Run) (g g' : Ghost) (ht : Tracks r g)
    (h : runOps r g ops = .ok (r', g')) : Tracks r' g' := by
  induction ops generalizing r g with
  | nil => simp only [runOps, pure, Except.pure, Except.ok.injEq, Prod.mk.injEq] at h; obtain ⟨rfl, rfl⟩ := h; exact ht
  | cons op t ih =>
    unfold runOps at h
    cases h1 : stepOp r op with
    | error e => simp [h1, bind, Except.bind] at h
    | ok r1 =>
      simp only [h1, bind, Except.bind] at h
      exact ih r1 _ (tracks_step r r1 g op ht h1) h

/-- a fresh device object: nothing pending, nothing written -/
theorem tracks_init (r : Run) (hu : r.dev.updatedProps = []) (hs : r.sent = []) : Tracks r {} :=
  ⟨hu.symm, by rw [hs]; rfl, by rw [hu]; intro i hi; cases hi⟩

/-- corollary in the property's words: a change is sent exactly once — after `set; apply; apply` the
    two applies emit one property write between them, carrying the changed id -/
theorem changed_sent_once (r r' : Run) (g' : Ghost) (a : Nat) (hu : r.dev.updatedProps = []) (hs : r.sent = [])
    (h : runOps r {} [.hAngle a, .refresh, .apply, .getCaps, .apply] = .ok (r', g')) :
    propWrites r'.sent = [[pidSwingLR]] ∧ r'.dev.updatedProps = [] := by
  have ht := history_tracks _ r r' {} g' (tracks_init r hu hs) h
  have hg : g' = { pending := [], writes := [[pidSwingLR]] } := by
    simp only [runOps, bind, Except.bind, pure, Except.pure] at h
    repeat (split at h; · cases h)
    simp only [Except.ok.injEq, Prod.mk.injEq] at h
    rw [← h.2]
    simp [Ghost.step, Op.id, setAdd]
  rw [ht.writes, ← ht.pending, hg]
  exact ⟨rfl, rfl⟩

/-! non-vacuity -/
example : (({} : Dev).setBreezeAway true).updatedProps = [pidBreezeAway] := rfl
example : changedWrite (({} : Dev).setRateSelect 50) = [(pidRateSelect, 50), (pidBuzzer, 0)] := by decide

end Msmart.Props.C16
