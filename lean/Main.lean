/-
  msmart_driver: line protocol over Model.* and Spec.*  (one request line -> one reply line).
  Request: `<op> key=value key=value ...`; byte strings in hex (`-` = empty).
-/
import Msmart.Driver.AC
import Msmart.Driver.Dev
import Msmart.Driver.Lan
import Msmart.Driver.Cloud
import Msmart.Driver.Cli
import Msmart.Driver.Session
import Msmart.Driver.Stack

open Msmart Msmart.Driver

def handle (line : String) : String :=
  let toks := (line.trimAscii.toString.splitOn " ").filter (· ≠ "")
  match toks with
  | [] => "bad-op"
  | op :: t =>
    match acOp op t with
    | some r => r
    | none =>
    match devOp op t with
    | some r => r
    | none =>
    match storeOp op t with
    | some r => r
    | none =>
    match lanOp op t with
    | some r => r
    | none =>
    match cloudOp op t with
    | some r => r
    | none =>
    match cliOp op t with
    | some r => r
    | none =>
    match sessionOp op t with
    | some r => r
    | none =>
    match stackOp op t with
    | some r => r
    | none => "bad-op"

partial def loop (h : IO.FS.Stream) (out : IO.FS.Stream) : IO Unit := do
  let line ← h.getLine
  if line.isEmpty then return ()
  out.putStrLn (handle line)
  out.flush
  loop h out

def main : IO Unit := do
  let stdin ← IO.getStdin
  let stdout ← IO.getStdout
  loop stdin stdout
