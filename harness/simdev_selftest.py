"""Self-test of vloop.py + simdev.py against the real msmart code, entirely in virtual time.
Run: /venv/bin/python /verif/harness/simdev_selftest.py
"""
import logging
import os
import sys
import time

sys.path.insert(0, os.path.dirname(os.path.abspath(__file__)))

import respgen  # noqa: E402
import simdev  # noqa: E402
import vloop  # noqa: E402
from simdev import SimDevice  # noqa: E402

from msmart.device import AirConditioner as AC  # noqa: E402
from msmart.discover import Discover  # noqa: E402

logging.disable(logging.CRITICAL)

IP, PORT, ID = "1.2.3.4", 6444, 123
TOKEN = bytes(range(64))
KEY = bytes(range(100, 132))
T0 = time.time()


def near(a, b, eps=1e-6):
    return abs(a - b) < eps


def times(entries):
    return [round(e["t"], 6) for e in entries]


def new_ac():
    return AC(ip=IP, port=PORT, device_id=ID)


def passed(n, what):
    print(f"PASS ({n}) {what}")


# ------------------------------------------------------------------------------------------------
def test0_codec_cross_check():
    """the device's codec and msmart's agree (both directions) and reproduce the captured discovery replies"""
    from msmart.lan import _Packet
    frame = respgen.seeds()[0]
    assert _Packet.decode(simdev.v2_encode(ID, frame)) == frame
    clock = vloop.VLoop()
    with vloop.patch_time(clock):
        pkt = _Packet.encode(ID, frame)
    clock.close()
    assert simdev.v2_decode(pkt) == (ID, frame)
    assert simdev.v2_timestamp(pkt) == (2023, 11, 14, 22, 13, 20, 0)
    for bad, why in ((pkt[:-1], "length"), (pkt[:50] + bytes([pkt[50] ^ 1]) + pkt[51:], "MD5"), (b"\x00" + pkt[1:], "start")):
        try:
            simdev.v2_decode(bad)
            raise AssertionError("accepted bad packet")
        except ValueError as e:
            assert why in str(e), (why, str(e))
    enc = simdev.v3_enc_encode(KEY, 7, pkt, ptype=6)
    assert simdev.v3_enc_decode(KEY, enc) == (6, 7, pkt)
    assert simdev.v3_parse_header(enc) == (len(enc) - 8, (16 - (len(pkt) + 2) % 16) % 16, 6)
    v2cap = bytes.fromhex(
        "5a5a011178007a8000000000000000000000000060ca0000000e0000000000000000000001000000c08651cb1b88a167bdcf7d37534ef81312d39429bf9b2673f200b635fae369a560fa9655eab8344be22b1e3b024ef5dfd392dc3db64dbffb6a66fb9cd5ec87a78000cd9043833b9f76991e8af29f3496")
    mine = simdev.discovery_reply(2, 15393162840672, "10.100.1.140", 6444, "000000P0000000Q1F0C9D153F7B40000", "net_ac_F7B4")
    # identical except header bytes 36..40 (unknown field, 01000000 in the capture) and hence the signature
    assert mine[:36] == v2cap[:36] and mine[40:-16] == v2cap[40:-16] and len(mine) == len(v2cap)
    passed(0, "codec cross-check: v2/v3 encode-decode agree with msmart; captured discovery reply reproduced")


# ------------------------------------------------------------------------------------------------
def test1_v2_refresh():
    async def go(loop, net):
        dev = net.add_tcp(IP, PORT, SimDevice(2, device_id=ID))
        ac = new_ac()
        await ac.refresh()
        return ac, dev
    ac, dev = vloop.run(go)
    assert ac.online and ac.supported
    assert len(dev.log) == 1, dev.log
    e = dev.log[0]
    assert e["kind"] == "v2" and e["decoded"] and e["cid"] == 1 and e["frame"][0] == 0xAA and e["frame"][10] == 0x41
    assert e["device_id"] == ID
    passed(1, f"V2 refresh online; device saw one v2 request, frame {e['frame'][:11].hex()}..")


def test2_v3_auth_refresh():
    async def go(loop, net):
        dev = net.add_tcp(IP, PORT, SimDevice(3, device_id=ID, token=TOKEN, key=KEY))
        ac = new_ac()
        await ac.authenticate(TOKEN, KEY)
        await ac.refresh()
        return ac, dev, loop.now()
    ac, dev, elapsed = vloop.run(go)
    assert ac.online
    kinds = [(e["kind"], e["counter"], e["cid"]) for e in dev.log]
    assert kinds == [("hs", 0, 1), ("data", 1, 1)], kinds
    assert dev.log[0]["token_ok"] and dev.log[1]["tag_ok"] and dev.log[1]["decoded"]
    assert dev.log[1]["frame"][10] == 0x41
    assert times(dev.log) == [0.0, 1.1] and near(elapsed, 1.2), (times(dev.log), elapsed)
    passed(2, f"V3 authenticate + refresh: hs(token_ok, ctr 0) at t=0, data(tag_ok, ctr 1) at t=1.1, done at t={elapsed:.1f}")


def test3_v3_bytewise():
    async def go(loop, net):
        dev = net.add_tcp(IP, PORT, SimDevice(3, device_id=ID, token=TOKEN, key=KEY))
        dev.script = [("segments", "bytewise"), ("segments", "bytewise", 0.1, 0.001), ("segments", [3, 6, 7, 50])]
        ac = new_ac()
        await ac.authenticate(TOKEN, KEY)
        await ac.refresh()
        first = ac.online
        ac._online = False
        await ac.refresh()
        return first, ac.online, dev
    first, second, dev = vloop.run(go)
    assert first and second
    assert [e["action"] for e in dev.log] == ["segments"] * 3
    passed(3, "V3 replies delivered byte-by-byte (same instant, 1 ms apart) and at odd cuts are reassembled")


def test4_silent_then_recover():
    for version in (2, 3):
        async def go(loop, net):
            dev = net.add_tcp(IP, PORT, SimDevice(version, device_id=ID, token=TOKEN, key=KEY))
            ac = new_ac()
            if version == 3:
                await ac.authenticate(TOKEN, KEY)
            dev.script = ["silent"] * 3
            t0 = loop.now()
            await ac.refresh()
            off, t1 = ac.online, loop.now()
            await ac.refresh()
            return dev, off, ac.online, t0, t1, net
        dev, off, on, t0, t1, net = vloop.run(go)
        assert off is False and on is True
        kind = "v2" if version == 2 else "data"
        tx = [e for e in dev.entries(kind, cid=1)]
        assert len(tx) == 3 and times(tx) == [round(t0 + 2 * i, 6) for i in range(3)], times(tx)
        assert near(t1, t0 + 6), (t0, t1)
        assert len({e["raw"][40:] if version == 2 else e["frame"] for e in tx}) == 1    # same request resent
        c1 = net.connection(1)
        assert c1.closed_by == "client" and near(c1.t_close, t0 + 6) and len(net.connections) == 2
        after = dev.entries(cid=2)
        if version == 2:
            assert [e["kind"] for e in after] == ["v2"]
        else:
            assert [(e["kind"], e["counter"]) for e in after] == [("hs", 0), ("data", 1)], after
            assert [e["counter"] for e in tx] == [1, 2, 3]
            assert dev.conns[1]["session_key"] != dev.conns[2]["session_key"]
        passed(4, f"V{version} silent device: 3 transmissions at t0+0/2/4, offline at t0+6, disconnect; "
                  f"next refresh succeeds on cid 2" + (" after a new handshake" if version == 3 else ""))


def test5_connect_failures():
    async def go(loop, net):
        dev = net.add_tcp(IP, PORT, SimDevice(2, device_id=ID), connect="refuse")
        ac = new_ac()
        res = []
        await ac.refresh()
        res.append(("refuse", ac.online, loop.now()))
        net.set_connect(IP, PORT, "hang")
        await ac.refresh()
        res.append(("hang", ac.online, loop.now()))
        net.set_connect(IP, PORT, "ok")
        await ac.refresh()
        res.append(("ok", ac.online, loop.now()))
        # per-attempt script, and an address nobody listens on
        ac2 = new_ac()
        net.connect_script[(IP, PORT)] = ["refuse", ("refuse", 0.5), "hang"]
        for _ in range(4):
            await ac2.refresh()
            res.append(("script", ac2.online, loop.now()))
        ac3 = AC(ip="9.9.9.9", port=PORT, device_id=1)
        await ac3.refresh()
        res.append(("unknown", ac3.online, loop.now()))
        return res, net, dev
    res, net, dev = vloop.run(go)
    assert [(k, on) for k, on, _t in res] == [
        ("refuse", False), ("hang", False), ("ok", True),
        ("script", False), ("script", False), ("script", False), ("script", True), ("unknown", False)], res
    assert near(res[0][2], 0.0) and near(res[1][2], 5.0) and near(res[2][2], 5.1), res
    assert [o for _t, _h, _p, o in net.connect_attempts] == ["refuse", "hang", "ok", "refuse", "refuse", "hang", "ok", "refuse"]
    assert len(net.connections) == 2 and len(dev.log) == 2
    passed(5, "connect refused (at once) and hanging (5 s timeout) give online False; recovery afterwards; connect_script honoured")


def test6_auth_expiry():
    async def go(loop, net):
        dev = net.add_tcp(IP, PORT, SimDevice(3, device_id=ID, token=TOKEN, key=KEY))
        ac = new_ac()
        await ac.authenticate(TOKEN, KEY)
        await ac.refresh()
        loop.advance(12 * 3600 - 10)
        await ac.refresh()
        before = len(dev.log)
        loop.advance(11)
        ac._online = False
        await ac.refresh()
        return ac, dev, before, net
    ac, dev, before, net = vloop.run(go)
    assert ac.online and before == 3
    seq = [(e["kind"], e["counter"], e["cid"]) for e in dev.log]
    assert seq == [("hs", 0, 1), ("data", 1, 1), ("data", 2, 1), ("hs", 3, 1), ("data", 4, 1)], seq
    assert len(net.connections) == 1 and all(e.get("valid") for e in dev.log)
    passed(6, "12 h + 1 s after authentication the next exchange starts with a handshake on the same connection")


def test7_discover():
    sn = "000000P0000000Q1F0C9D153F7B40000"
    cases = [(2, 0x0E000000CA60, "10.0.0.5", 6444, sn, "net_ac_F7B4", 6445),
             (3, 0x860000AA3D14, "10.0.0.6", 6444, sn[::-1], "net_ac_63BA", 6445)]

    def responder(net, data, addr, reply):
        from msmart.const import DISCOVERY_MSG
        if data == DISCOVERY_MSG and addr == ("255.255.255.255", 6445):
            for i, (ver, did, ip, port, s, name, src_port) in enumerate(cases):
                reply(0.1 + 0.1 * i, simdev.discovery_reply(ver, did, ip, port, s, name), (ip, src_port))

    async def go(loop, net):
        net.add_udp_responder(responder)
        devs = await Discover.discover(auto_connect=False, timeout=1)
        return devs, net, loop.now()
    devs, net, elapsed = vloop.run(go)
    assert near(elapsed, 1.0)
    assert len(net.datagrams_sent) == 6 and {a[1] for _t, _d, a in net.datagrams_sent} == {6445, 20086}
    assert net.udp_endpoints[0].closing and net.udp_endpoints[0].sock.options
    assert len(devs) == 2, devs
    for d, (ver, did, ip, port, s, name, _sp) in zip(sorted(devs, key=lambda d: d.ip), cases):
        assert isinstance(d, AC) and int(d.type) == 0xAC
        assert (d.version, d.id, d.ip, d.port, d.sn, d.name) == (ver, did, ip, port, s, name), d.to_dict()
    passed(7, "Discover.discover finds the V2 and the V3 device (3 responses each, deduplicated) with right id/ip/port/sn/name/type/version")


# ------------------------------------------------------------------------------------------------
class StatefulAC:
    """tiny AC model: remembers power/mode/temperature/fan from 0x40 set commands, reports them in 0xC0"""

    def __init__(self):
        self.state = {"power": 1, "mode": 2, "temp": 21.0, "fan": 102}
        self.seen = []

    def c0(self):
        s = self.state
        b = bytearray(23)
        whole = int(s["temp"])
        b[0], b[1] = 0xC0, s["power"]
        b[2] = ((whole - 16) & 0xF) | (0x10 if s["temp"] != whole else 0) | (s["mode"] << 5)
        b[3] = s["fan"]
        b[11], b[12] = 0x5C, 0xFF
        return respgen.make_frame(bytes(b))

    def __call__(self, frame):
        body = frame[10:-2]
        self.seen.append(body[0])
        if body[0] == 0x40:
            self.state.update(power=body[1] & 1, mode=body[2] >> 5, fan=body[3] & 0x7F,
                              temp=(body[2] & 0xF) + 16 + (0.5 if body[2] & 0x10 else 0))
            return [self.c0()]
        if body[0] == 0x41:
            return [self.c0()]
        return []


def test8_cli():
    import msmart.cli as cli
    model = StatefulAC()
    dev = SimDevice(2, device_id=ID, responder=model)
    policy = vloop.install_policy(lambda loop, net: net.add_tcp(IP, PORT, dev))
    argv, sys.argv = sys.argv, ["msmart-ng", "control", IP, "--id", str(ID), "target_temperature=22.5", "fan_speed=60"]
    try:
        try:
            cli.main()
            code = "no exit"
        except SystemExit as e:
            code = e.code
    finally:
        sys.argv = argv
        vloop.uninstall_policy()
        logging.root.handlers.clear()
    loop, net = policy.last
    assert code == 0, code
    assert model.seen == [0x41, 0x40], model.seen
    assert model.state == {"power": 1, "mode": 2, "temp": 22.5, "fan": 60}, model.state
    sets = [f for f in dev.frames() if f[10] == 0x40]
    assert len(sets) == 1 and all(e["device_id"] == ID for e in dev.log)
    assert len(net.connections) == 1 and loop.is_closed()
    import asyncio
    assert not isinstance(asyncio.get_event_loop_policy(), vloop.VPolicy)
    passed(8, f"msmart.cli.main() control exits 0 in {loop.now():.1f} virtual s; device got 0x41 then 0x40, state now {model.state}")


def test9_extras():
    """unsolicited pushes, multi-frame replies, error / close / prefix / bad_hs actions"""
    import asyncio
    from msmart.lan import AuthenticationError
    state, caps = respgen.seeds()[1], [f for f in respgen.seeds() if f[10] == 0xB5][0]

    async def go(loop, net):
        dev = net.add_tcp(IP, PORT, SimDevice(3, device_id=ID, token=TOKEN, key=KEY))
        ac = new_ac()
        out = {}
        dev.script = ["bad_hs"]
        try:
            await ac.authenticate(TOKEN, KEY)
            out["bad_hs"] = "accepted"
        except AuthenticationError:
            out["bad_hs"] = "rejected"
        try:
            await ac.authenticate(bytes(64)[:63] + b"\x01", KEY)
            out["bad_token"] = "accepted"
        except AuthenticationError:
            out["bad_token"] = "rejected"
        await ac.authenticate(TOKEN, KEY)
        dev.script = [("frames", [state, caps]), ("prefix", b"\x01\x02\x83"), "error"]
        out["frames"] = await ac._lan.send(bytes(respgen.seeds()[0]))       # any frame will do as a request
        await ac.refresh()
        out["prefix"] = ac.online
        await ac.refresh()
        out["error"] = ac.online
        await ac.authenticate(TOKEN, KEY)
        cid = len(net.connections)
        dev.unsolicited(cid, [caps], delay=0.0)
        dev.script = ["close"]
        t = loop.now()
        await ac.refresh()                     # answered at once by the pushed frame; peer closes 0.1 s later
        online, dt = ac.online, loop.now() - t
        await asyncio.sleep(0.2)
        out["close"] = (online, dt, net.connection(cid).closed_by)
        await ac.refresh()
        out["after"] = (ac.online, len(net.connections) - cid, [e["kind"] for e in dev.entries(cid=cid + 1)])
        return out, dev
    out, dev = vloop.run(go)
    assert out["bad_hs"] == "rejected" and out["bad_token"] == "rejected"
    assert out["frames"] == [state, caps]
    assert out["prefix"] is True and out["error"] is False
    assert out["close"] == (True, 0.0, "peer"), out["close"]
    assert out["after"] == (True, 1, ["hs", "data"]), out["after"]
    assert [e["token_ok"] for e in dev.entries("hs")][:3] == [True, False, True]
    passed(9, "extras: bad_hs / wrong token rejected, multi-frame reply, garbage prefix skipped, error packet -> offline, unsolicited push, peer close + recovery")


if __name__ == "__main__":
    for fn in (test0_codec_cross_check, test1_v2_refresh, test2_v3_auth_refresh, test3_v3_bytewise,
               test4_silent_then_recover, test5_connect_failures, test6_auth_expiry, test7_discover, test8_cli,
               test9_extras):
        fn()
    wall = time.time() - T0
    assert wall < 10, wall
    print(f"ALL PASS in {wall:.2f} s wall time")
