"""Run an operation sequence on a real AirConditioner over a scripted frame oracle (the list of
frames each `Device._send_command` call returns), and on the Lean Device model; canonical forms."""
import asyncio

from msmart.base_device import Device
from msmart.device.AC import command as C
from msmart.device.AC.device import AirConditioner as AC

from acgen import b01, fixed, tenths
from common import hx

OPS = {"refresh": "refresh", "apply": "apply", "getcaps": "get_capabilities", "toggle": "toggle_display",
       "selfclean": "start_self_clean"}


def _opt(v, f=str):
    return "None" if v is None else f(v)


def _ints(l):
    return ",".join(str(x) for x in sorted(int(v) for v in l))


def _scaled(v, scale):
    return "None" if v is None else fixed(v, scale)


def canon_dev(d):
    """mirror of Driver/Dev.lean showDev"""
    temp = d._target_temperature
    return (
        f"beep={b01(d._beep_on)} power={b01(d._power_state)} temp={fixed(temp, 100)} mode={int(d._operational_mode)} "
        f"fan={int(d._fan_speed)} swing={int(d._swing_mode)} "
        f"eco={b01(d._eco)} turbo={b01(d._turbo)} freeze={_opt(d._freeze_protection, b01)} sleep={b01(d._sleep)} "
        f"f={b01(d._fahrenheit_unit)} "
        f"display={b01(d._display_on)} filter={b01(d._filter_alert)} follow={b01(d._follow_me)} pur={b01(d._purifier)} "
        f"hum={_opt(d._target_humidity)} indoor={tenths(d._indoor_temperature)} outdoor={tenths(d._outdoor_temperature)} "
        f"ihum={_opt(d._indoor_humidity)} "
        f"opmodes={_ints(d._supported_op_modes)} swings={_ints(d._supported_swing_modes)} fans={_ints(d._supported_fan_speeds)} "
        f"cfan={b01(d._supports_custom_fan_speed)} seco={b01(d._supports_eco)} sturbo={b01(d._supports_turbo)} "
        f"sfreeze={b01(d._supports_freeze_protection)} "
        f"sdisplay={b01(d._supports_display_control)} sfilter={b01(d._supports_filter_reminder)} "
        f"spur={b01(d._supports_purifier)} shum={b01(d._supports_humidity)} "
        f"sthum={b01(d._supports_target_humidity)} tmin={fixed(d._min_target_temperature, 2)} "
        f"tmax={fixed(d._max_target_temperature, 2)} reqe={b01(d._request_energy_usage)} "
        f"bin={b01(d._use_binary_energy)} te={_scaled(d._total_energy_usage, 100)} ce={_scaled(d._current_energy_usage, 100)} "
        f"rp={_scaled(d._real_time_power_usage, 10)} sprops={_ints(d._supported_properties)} "
        f"uprops={_ints(d._updated_properties)} "
        f"hangle={int(d._horizontal_swing_angle)} vangle={int(d._vertical_swing_angle)} clean={b01(d._self_clean_active)} "
        f"rate={int(d._rate_select)} "
        f"rates={_ints(d._supported_rate_selects)} breeze={int(d._breeze_mode)} ieco={b01(d._ieco)} auxmode={int(d._aux_mode)} "
        f"auxmodes={_ints(d._supported_aux_modes)} online={b01(d._online)} supported={b01(d._supported)}")


CFG_ATTR = {
    "beep": ("_beep_on", bool), "power": ("_power_state", bool), "mode": ("_operational_mode", int),
    "fan": ("_fan_speed", int), "swing": ("_swing_mode", int), "eco": ("_eco", bool), "turbo": ("_turbo", bool),
    "sleep": ("_sleep", bool), "f": ("_fahrenheit_unit", bool), "follow": ("_follow_me", bool),
    "pur": ("_purifier", bool), "auxmode": ("_aux_mode", int), "cfan": ("_supports_custom_fan_speed", bool),
    "reqe": ("_request_energy_usage", bool), "shum": ("_supports_humidity", bool), "bin": ("_use_binary_energy", bool),
}
SETTERS = {"breeze_away": bool, "breeze_mild": bool, "breezeless": bool, "ieco": bool}


def _pyset(dev, name, value, via_setter):
    """value is the token string used on the driver line"""
    if name == "temp":
        dev._target_temperature = int(value) / 100
    elif name == "freeze":
        dev._freeze_protection = None if value == "None" else value == "1"
    elif name == "hum":
        dev._target_humidity = None if value == "None" else int(value)
    elif name == "sprops":
        dev._supported_properties = set(C.PropertyId(int(x)) for x in value.split("+") if x)
    elif name in SETTERS:
        setattr(dev, name, value == "1")
    elif name == "hangle":
        dev.horizontal_swing_angle = int(value)
    elif name == "vangle":
        dev.vertical_swing_angle = int(value)
    elif name == "rate":
        dev.rate_select = int(value)
    elif name in CFG_ATTR:
        attr, typ = CFG_ATTR[name]
        setattr(dev, attr, (value == "1") if typ is bool else int(value))
    else:
        raise KeyError(name)


def run_impl(cfg, counter, ops, responder=None, resolved=None):
    """cfg: list of (name, token); ops: list of ('op', name, [[frames],...]) or ('set', name, token).
    An op whose reply script is None is answered by `responder(frame) -> [frames]`; the replies
    actually given are recorded in `resolved` (a list receiving the ops with scripts filled in).
    Returns (status, failed_op, state, sent, dev) with sent = list of frame bytes."""
    sent = []
    script = []
    current = {"replies": None}

    async def fake_send(self, command):
        data = command.tobytes()
        sent.append(data)
        if current["replies"] is not None:
            r = list(responder(data))
            current["replies"].append(r)
            return r
        return list(script.pop(0)) if script else []

    orig = Device._send_command
    Device._send_command = fake_send
    C.Command._message_id = counter
    dev = AC(ip="1.2.3.4", port=6444, device_id=1)
    for name, tok in cfg:
        _pyset(dev, name, tok, False)
    dev._updated_properties = set()
    status, failed = "ok", None
    try:
        for i, op in enumerate(ops):
            try:
                if op[0] == "set":
                    _pyset(dev, op[1], op[2], True)
                    if resolved is not None:
                        resolved.append(op)
                else:
                    if op[2] is None:
                        current["replies"] = []
                        if resolved is not None:
                            resolved.append(("op", op[1], current["replies"]))
                    else:
                        current["replies"] = None
                        script[:] = [list(r) for r in op[2]]
                        if resolved is not None:
                            resolved.append(op)
                    asyncio.run(getattr(dev, OPS[op[1]])())
            except Exception as e:  # noqa
                status, failed = "err:py:" + type(e).__name__, i
                break
    finally:
        Device._send_command = orig
    return status, failed, canon_dev(dev), sent, dev


def line_for(cfg, counter, ops):
    cfgs = ",".join(f"{k}:{v}" for k, v in cfg)
    parts = []
    for op in ops:
        if op[0] == "set":
            parts.append(f"set:{op[1]}:{op[2]}")
        else:
            parts.append(op[1] + "@" + "/".join(",".join(hx(f) for f in r) for r in op[2]))
    return f"devrun counter={counter} cfg={cfgs} ops={'|'.join(parts)}"


def parse_model(reply):
    """-> (status, failed_op, state, sent hex list)"""
    head, sent = reply.rsplit(" sent=", 1)
    sent = [s for s in sent.split(",") if s]
    if head.startswith("ok "):
        return "ok", None, head[3:], sent
    st, rest = head.split(" ", 1)
    fo, state = rest.split(" ", 1)
    return st, int(fo.split("=")[1]), state, sent


def canon_cmd_frame(frame):
    """order-insensitive canonical form of an emitted command frame (property lists are sets)"""
    frame = bytes(frame)
    body = frame[10:-3]
    head = (frame[9], frame[-3])
    if body[:1] == b"\xb1":
        ids = sorted(int.from_bytes(body[2 + 2 * i:4 + 2 * i], "little") for i in range(body[1]))
        return (head, "getprops", body[1], tuple(ids))
    if body[:1] == b"\xb0":
        recs = []
        p = body[2:]
        while len(p) >= 3:
            n = p[2]
            recs.append((int.from_bytes(p[0:2], "little"), bytes(p[3:3 + n]).hex()))
            p = p[3 + n:]
        return (head, "setprops", body[1], tuple(sorted(recs)))
    return (head, body.hex())


def compare(ctx, stream, cfg, counter, ops, responder=None):
    """run both sides; returns impl result tuple. records disagreements."""
    resolved = []
    st, failed, state, sent, dev = run_impl(cfg, counter, ops, responder=responder, resolved=resolved)
    if responder is not None:
        # ops the implementation never reached keep an empty script
        ops = resolved + [o if o[0] == "set" or o[2] is not None else ("op", o[1], []) for o in ops[len(resolved):]]
    line = line_for(cfg, counter, ops)
    if ctx.driver:
        mst, mfailed, mstate, msent = parse_model(ctx.driver.ask(line))
        isent = [canon_cmd_frame(f) for f in sent]
        msent_c = [canon_cmd_frame(bytes.fromhex(h)) if not h.startswith("err") else h for h in msent]
        if st == "ok":
            same = (mst == "ok" and mstate == state and isent == msent_c)
        else:
            same = (mst == st and mfailed == failed)
        if not same:
            ctx.disagree(stream, {"line": line}, {"status": st, "failed": failed, "state": state,
                                                 "sent": [hx(f) for f in sent]},
                         {"status": mst, "failed": mfailed, "state": mstate, "sent": msent})
    return st, failed, state, sent, dev
