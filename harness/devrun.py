"""Run an operation sequence on a real AirConditioner over a scripted frame oracle (the list of
frames each `Device._send_command` call returns), and on the Lean Device model; canonical forms."""
import asyncio

from msmart.base_device import Device
from msmart.device.AC import command as C
from msmart.device.AC.device import AirConditioner as AC

from acgen import b01, fixed, tenths
from common import hx

OPS = {"refresh": "refresh", "apply": "apply", "getcaps": "get_capabilities", "toggle": "toggle_display",
       "selfclean": "start_self_clean"}


def _opt(v, f=str):
    return "None" if v is None else f(v)


def _ints(l):
    return ",".join(str(x) for x in sorted(int(v) for v in l))


def _scaled(v, scale):
    return "None" if v is None else fixed(v, scale)


class _Unknown:
    pass


UNKNOWN = _Unknown()


def _attr(d, private, public=None):
    """a state attribute of the device object: by its usual private name, else through the public property; UNKNOWN if
    neither exists (the field is then left out of the comparison - a renamed private attribute is not an alarm)"""
    if hasattr(d, private):
        return getattr(d, private)
    if public is not None and hasattr(type(d), public):
        try:
            return getattr(d, public)
        except Exception:  # noqa
            return UNKNOWN
    return UNKNOWN


def _f(v, f):
    return "?" if v is UNKNOWN else f(v)


def _breeze(d):
    v = _attr(d, "_breeze_mode")
    if v is not UNKNOWN:
        return int(v)
    try:
        return 2 if d.breeze_away else 3 if d.breeze_mild else 4 if d.breezeless else 1
    except Exception:  # noqa
        return UNKNOWN


def canon_dev(d):
    """mirror of Driver/Dev.lean showDev"""
    A = lambda priv, pub=None: _attr(d, priv, pub)   # noqa: E731
    return (
        f"beep={_f(A('_beep_on', 'beep'), b01)} power={_f(A('_power_state', 'power_state'), b01)} "
        f"temp={_f(A('_target_temperature', 'target_temperature'), lambda v: fixed(v, 100))} "
        f"mode={_f(A('_operational_mode', 'operational_mode'), int)} "
        f"fan={_f(A('_fan_speed', 'fan_speed'), int)} swing={_f(A('_swing_mode', 'swing_mode'), int)} "
        f"eco={_f(A('_eco', 'eco'), b01)} turbo={_f(A('_turbo', 'turbo'), b01)} "
        f"freeze={_f(A('_freeze_protection', 'freeze_protection'), lambda v: _opt(v, b01))} sleep={_f(A('_sleep', 'sleep'), b01)} "
        f"f={_f(A('_fahrenheit_unit', 'fahrenheit'), b01)} "
        f"display={_f(A('_display_on', 'display_on'), b01)} filter={_f(A('_filter_alert', 'filter_alert'), b01)} "
        f"follow={_f(A('_follow_me', 'follow_me'), b01)} pur={_f(A('_purifier', 'purifier'), b01)} "
        f"hum={_f(A('_target_humidity', 'target_humidity'), _opt)} indoor={_f(A('_indoor_temperature', 'indoor_temperature'), tenths)} "
        f"outdoor={_f(A('_outdoor_temperature', 'outdoor_temperature'), tenths)} "
        f"ihum={_f(A('_indoor_humidity', 'indoor_humidity'), _opt)} "
        f"opmodes={_f(A('_supported_op_modes', 'supported_operation_modes'), _ints)} "
        f"swings={_f(A('_supported_swing_modes', 'supported_swing_modes'), _ints)} "
        f"fans={_f(A('_supported_fan_speeds', 'supported_fan_speeds'), _ints)} "
        f"cfan={_f(A('_supports_custom_fan_speed', 'supports_custom_fan_speed'), b01)} seco={_f(A('_supports_eco', 'supports_eco'), b01)} "
        f"sturbo={_f(A('_supports_turbo', 'supports_turbo'), b01)} "
        f"sfreeze={_f(A('_supports_freeze_protection', 'supports_freeze_protection'), b01)} "
        f"sdisplay={_f(A('_supports_display_control', 'supports_display_control'), b01)} "
        f"sfilter={_f(A('_supports_filter_reminder', 'supports_filter_reminder'), b01)} "
        f"spur={_f(A('_supports_purifier', 'supports_purifier'), b01)} shum={_f(A('_supports_humidity', 'supports_humidity'), b01)} "
        f"sthum={_f(A('_supports_target_humidity', 'supports_target_humidity'), b01)} "
        f"tmin={_f(A('_min_target_temperature', 'min_target_temperature'), lambda v: fixed(v, 2))} "
        f"tmax={_f(A('_max_target_temperature', 'max_target_temperature'), lambda v: fixed(v, 2))} "
        f"reqe={_f(A('_request_energy_usage', 'enable_energy_usage_requests'), b01)} "
        f"bin={_f(A('_use_binary_energy', 'use_alternate_energy_format'), b01)} "
        f"te={_f(A('_total_energy_usage', 'total_energy_usage'), lambda v: _scaled(v, 100))} "
        f"ce={_f(A('_current_energy_usage', 'current_energy_usage'), lambda v: _scaled(v, 100))} "
        f"rp={_f(A('_real_time_power_usage', 'real_time_power_usage'), lambda v: _scaled(v, 10))} "
        f"sprops={_f(A('_supported_properties'), _ints)} "
        f"uprops={_f(A('_updated_properties'), _ints)} "
        f"hangle={_f(A('_horizontal_swing_angle', 'horizontal_swing_angle'), int)} "
        f"vangle={_f(A('_vertical_swing_angle', 'vertical_swing_angle'), int)} clean={_f(A('_self_clean_active', 'self_clean_active'), b01)} "
        f"rate={_f(A('_rate_select', 'rate_select'), int)} "
        f"rates={_f(A('_supported_rate_selects', 'supported_rate_selects'), _ints)} breeze={_f(_breeze(d), int)} "
        f"ieco={_f(A('_ieco', 'ieco'), b01)} auxmode={_f(A('_aux_mode', 'aux_mode'), int)} "
        f"auxmodes={_f(A('_supported_aux_modes', 'supported_aux_modes'), _ints)} online={_f(A('_online', 'online'), b01)} "
        f"supported={_f(A('_supported', 'supported'), b01)}")


def mask_unknown(impl, model):
    """fields the implementation side could not observe ('?') are removed from both canonical records"""
    if "?" not in impl:
        return impl, model
    ki = [kv.split("=", 1) for kv in impl.split(" ")]
    unknown = {k for k, v in ki if v == "?"}
    strip = lambda s: " ".join(kv for kv in s.split(" ") if kv.split("=", 1)[0] not in unknown)   # noqa: E731
    return strip(impl), strip(model)


CFG_ATTR = {
    "beep": ("_beep_on", bool), "power": ("_power_state", bool), "mode": ("_operational_mode", int),
    "fan": ("_fan_speed", int), "swing": ("_swing_mode", int), "eco": ("_eco", bool), "turbo": ("_turbo", bool),
    "sleep": ("_sleep", bool), "f": ("_fahrenheit_unit", bool), "follow": ("_follow_me", bool),
    "pur": ("_purifier", bool), "auxmode": ("_aux_mode", int), "cfan": ("_supports_custom_fan_speed", bool),
    "reqe": ("_request_energy_usage", bool), "shum": ("_supports_humidity", bool), "bin": ("_use_binary_energy", bool),
}
SETTERS = {"breeze_away": bool, "breeze_mild": bool, "breezeless": bool, "ieco": bool}


PUBLIC_SETTER = {"beep": "beep", "power": "power_state", "mode": "operational_mode", "fan": "fan_speed", "swing": "swing_mode",
                 "eco": "eco", "turbo": "turbo", "sleep": "sleep", "f": "fahrenheit", "follow": "follow_me", "pur": "purifier",
                 "auxmode": "aux_mode", "reqe": "enable_energy_usage_requests", "bin": "use_alternate_energy_format",
                 "temp": "target_temperature", "freeze": "freeze_protection", "hum": "target_humidity"}


def _set_state(dev, name, private, val):
    """set a state attribute by its usual private name; if that name is gone (renamed), through the public setter"""
    if hasattr(dev, private):
        setattr(dev, private, val)
        return
    pub = PUBLIC_SETTER.get(name)
    if pub is not None and hasattr(type(dev), pub):
        try:
            if name in ("mode", "swing", "auxmode") and val is not None:
                enum_t = type(getattr(dev, pub))
                val = enum_t(val)
            setattr(dev, pub, val)
        except Exception:  # noqa
            pass


def _pyset(dev, name, value, via_setter):
    """value is the token string used on the driver line"""
    if name == "temp":
        _set_state(dev, name, "_target_temperature", int(value) / 100)
    elif name == "freeze":
        _set_state(dev, name, "_freeze_protection", None if value == "None" else value == "1")
    elif name == "hum":
        _set_state(dev, name, "_target_humidity", None if value == "None" else int(value))
    elif name == "sprops":
        dev._supported_properties = set(C.PropertyId(int(x)) for x in value.split("+") if x)
    elif name in SETTERS:
        setattr(dev, name, value == "1")
    elif name == "hangle":
        dev.horizontal_swing_angle = int(value)
    elif name == "vangle":
        dev.vertical_swing_angle = int(value)
    elif name == "rate":
        dev.rate_select = int(value)
    elif name in CFG_ATTR:
        attr, typ = CFG_ATTR[name]
        _set_state(dev, name, attr, (value == "1") if typ is bool else int(value))
    else:
        raise KeyError(name)


def run_impl(cfg, counter, ops, responder=None, resolved=None):
    """cfg: list of (name, token); ops: list of ('op', name, [[frames],...]) or ('set', name, token).
    An op whose reply script is None is answered by `responder(frame) -> [frames]`; the replies
    actually given are recorded in `resolved` (a list receiving the ops with scripts filled in).
    Returns (status, failed_op, state, sent, dev) with sent = list of frame bytes."""
    sent = []
    script = []
    current = {"replies": None}

    async def fake_send(self, command):
        data = command.tobytes()
        sent.append(data)
        if current["replies"] is not None:
            r = list(responder(data))
            current["replies"].append(r)
            return r
        return list(script.pop(0)) if script else []

    orig = Device._send_command
    Device._send_command = fake_send
    C.Command._message_id = counter
    dev = AC(ip="1.2.3.4", port=6444, device_id=1)
    for name, tok in cfg:
        _pyset(dev, name, tok, False)
    dev._updated_properties = set()
    status, failed = "ok", None
    try:
        for i, op in enumerate(ops):
            try:
                if op[0] == "set":
                    _pyset(dev, op[1], op[2], True)
                    if resolved is not None:
                        resolved.append(op)
                else:
                    if op[2] is None:
                        current["replies"] = []
                        if resolved is not None:
                            resolved.append(("op", op[1], current["replies"]))
                    else:
                        current["replies"] = None
                        script[:] = [list(r) for r in op[2]]
                        if resolved is not None:
                            resolved.append(op)
                    asyncio.run(getattr(dev, OPS[op[1]])())
            except Exception as e:  # noqa
                status, failed = "err:py:" + type(e).__name__, i
                break
    finally:
        Device._send_command = orig
    return status, failed, canon_dev(dev), sent, dev


def run_twins(rng, runs):
    """runs: list of (cfg, ops, responder): one REAL device object per entry, the operations of all of them executed in
    ONE process in a random interleaving (each object's own order kept).  Returns [(status, state)] per object.
    What one object does or learns must not show in another (class-level state, shared mutable defaults, caches)."""
    devs, queues = [], []
    by_obj = {}

    async def fake_send(self, command):
        data = command.tobytes()
        return list(by_obj[id(self)](data))
    orig = Device._send_command
    Device._send_command = fake_send
    try:
        for cfg, ops, responder in runs:
            dev = AC(ip="1.2.3.4", port=6444, device_id=len(devs) + 1)
            for name, tok in cfg:
                _pyset(dev, name, tok, False)
            by_obj[id(dev)] = responder          # (no private attribute is reset here: objects as the constructor leaves them)
            devs.append(dev)
            queues.append(list(ops))
        status = ["ok"] * len(devs)
        while any(queues):
            j = rng.choice([j for j, q in enumerate(queues) if q])
            op = queues[j].pop(0)
            if status[j] != "ok":
                continue
            try:
                if op[0] == "set":
                    _pyset(devs[j], op[1], op[2], True)
                else:
                    asyncio.run(getattr(devs[j], OPS[op[1]])())
            except Exception as e:  # noqa
                status[j] = "err:py:" + type(e).__name__
    finally:
        Device._send_command = orig
    return [(status[j], canon_dev(devs[j])) for j in range(len(devs))]


def line_for(cfg, counter, ops):
    cfgs = ",".join(f"{k}:{v}" for k, v in cfg)
    parts = []
    for op in ops:
        if op[0] == "set":
            parts.append(f"set:{op[1]}:{op[2]}")
        else:
            parts.append(op[1] + "@" + "/".join(",".join(hx(f) for f in r) for r in op[2]))
    return f"devrun counter={counter} cfg={cfgs} ops={'|'.join(parts)}"


def parse_model(reply):
    """-> (status, failed_op, state, sent hex list)"""
    head, sent = reply.rsplit(" sent=", 1)
    sent = [s for s in sent.split(",") if s]
    if head.startswith("ok "):
        return "ok", None, head[3:], sent
    st, rest = head.split(" ", 1)
    fo, state = rest.split(" ", 1)
    return st, int(fo.split("=")[1]), state, sent


def canon_cmd_frame(frame):
    """order-insensitive canonical form of an emitted command frame (property lists are sets)"""
    frame = bytes(frame)
    body = frame[10:-3]
    head = (frame[9], frame[-3])
    if body[:1] == b"\xb1":
        ids = sorted(int.from_bytes(body[2 + 2 * i:4 + 2 * i], "little") for i in range(body[1]))
        return (head, "getprops", body[1], tuple(ids))
    if body[:1] == b"\xb0":
        recs = []
        p = body[2:]
        while len(p) >= 3:
            n = p[2]
            recs.append((int.from_bytes(p[0:2], "little"), bytes(p[3:3 + n]).hex()))
            p = p[3 + n:]
        return (head, "setprops", body[1], tuple(sorted(recs)))
    return (head, body.hex())


def compare(ctx, stream, cfg, counter, ops, responder=None):
    """run both sides; returns impl result tuple. records disagreements."""
    resolved = []
    st, failed, state, sent, dev = run_impl(cfg, counter, ops, responder=responder, resolved=resolved)
    if responder is not None:
        # ops the implementation never reached keep an empty script
        ops = resolved + [o if o[0] == "set" or o[2] is not None else ("op", o[1], []) for o in ops[len(resolved):]]
    line = line_for(cfg, counter, ops)
    if ctx.driver:
        mst, mfailed, mstate, msent = parse_model(ctx.driver.ask(line))
        isent = [canon_cmd_frame(f) for f in sent]
        msent_c = [canon_cmd_frame(bytes.fromhex(h)) if not h.startswith("err") else h for h in msent]
        state_c, mstate_c = mask_unknown(state, mstate)
        if state_c != state:
            ctx.count("device-attributes-not-observable")
        if st == "ok":
            same = (mst == "ok" and mstate_c == state_c and isent == msent_c)
        else:
            same = (mst == st and mfailed == failed)
        if not same:
            ctx.disagree(stream, {"line": line}, {"status": st, "failed": failed, "state": state,
                                                 "sent": [hx(f) for f in sent]},
                         {"status": mst, "failed": mfailed, "state": mstate, "sent": msent})
    return st, failed, state, sent, dev
