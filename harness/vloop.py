"""Virtual-time asyncio loop and simulated network for driving the real msmart code in-process.

* `VLoop`      - SelectorEventLoop whose clock only moves when nothing is runnable (jumps straight to
                 the next timer); `create_connection` / `create_datagram_endpoint` never open sockets
                 but call the pluggable `loop.conn_factory` / `loop.dgram_factory`.
* `FakeDT`     - `datetime` subclass whose `now()` reads the current VLoop; `patch_time(loop)` installs
                 it as `msmart.lan.datetime` and `msmart.cloud.datetime`.
* `FakeTransport`, `FakeDatagramTransport` - the client's side of a simulated TCP / UDP socket.
* `Net`        - the simulated network: TCP endpoints (peer objects) with scriptable connect
                 behaviour, UDP responders, and a record of everything that happened.
* `run`, `run_timed`, `install_policy` / `uninstall_policy` - ways to run code on a fresh VLoop.

Clock convention: `loop.time()` == `loop.now()` == virtual seconds since the loop was created (starts
at 0.0, so timings in logs are exact small numbers); wall-clock datetimes seen by msmart are
`EPOCH + loop.now()` (`loop.wall()`).

A TCP *peer* object may implement (all optional except on_write):
    on_connect(transport), on_write(transport, data: bytes), on_client_close(transport)
"""
import asyncio
import contextlib
import datetime as _dt
import heapq

EPOCH = 1_700_000_000.0      # 2023-11-14T22:13:20Z


class VLoopDeadlock(RuntimeError):
    """Nothing is runnable and no timer is scheduled: real time would block forever."""


class _SeqTimerHandle(asyncio.TimerHandle):
    """TimerHandle with a FIFO tie-break, so timers due at the same instant fire in creation order."""
    __slots__ = ("_seq",)

    def __lt__(self, other):
        if self._when == other._when and isinstance(other, _SeqTimerHandle):
            return self._seq < other._seq
        return self._when < other._when


class VLoop(asyncio.SelectorEventLoop):
    def __init__(self, epoch=EPOCH):
        self._vt = 0.0
        self._seq = 0
        self.epoch = epoch
        self.conn_factory = None     # async (protocol_factory, host, port, **kw) -> (transport, protocol)
        self.dgram_factory = None    # async (protocol_factory, **kw) -> (transport, protocol)
        self.strict = True           # raise VLoopDeadlock instead of blocking forever in select()
        super().__init__()
        # base loop fires timers with when < time() + resolution; keep that above float spacing
        self._clock_resolution = 1e-6

    # -- clock -----------------------------------------------------------------------------------
    def time(self):
        return self._vt

    def now(self):
        """virtual seconds since loop creation"""
        return self._vt

    def wall(self):
        """virtual wall-clock time (POSIX timestamp)"""
        return self.epoch + self._vt

    def advance(self, seconds):
        """Jump the clock forward. Timers that became due fire (in deadline order) as soon as the loop
        runs again; nothing is executed by this call itself."""
        if seconds < 0:
            raise ValueError("cannot go back in time")
        self._vt += seconds

    def call_at(self, when, callback, *args, context=None):
        if when is None:
            raise TypeError("when cannot be None")
        self._check_closed()
        timer = _SeqTimerHandle(when, callback, args, self, context)
        self._seq += 1
        timer._seq = self._seq
        heapq.heappush(self._scheduled, timer)
        timer._scheduled = True
        return timer

    def _run_once(self):
        sched = self._scheduled
        while sched and sched[0]._cancelled:
            handle = heapq.heappop(sched)
            handle._scheduled = False
            self._timer_cancelled_count -= 1
        if not self._ready and not self._stopping:
            if sched:
                if sched[0]._when > self._vt:
                    self._vt = sched[0]._when
            elif self.strict:
                raise VLoopDeadlock("no runnable callback and no timer at t=%.3f" % self._vt)
        super()._run_once()

    # -- no real sockets -------------------------------------------------------------------------
    async def create_connection(self, protocol_factory, host=None, port=None, **kw):
        if self.conn_factory is None:
            raise ConnectionRefusedError("VLoop: no conn_factory installed")
        return await self.conn_factory(protocol_factory, host, port, **kw)

    async def create_datagram_endpoint(self, protocol_factory, **kw):
        if self.dgram_factory is None:
            raise OSError("VLoop: no dgram_factory installed")
        return await self.dgram_factory(protocol_factory, **kw)


# ------------------------------------------------------------------------------------------------
# time patching

class FakeDT(_dt.datetime):
    """datetime whose now() follows the VLoop in `FakeDT.loop`"""
    loop = None

    @classmethod
    def now(cls, tz=None):
        return _dt.datetime.fromtimestamp(cls.loop.wall(), tz)

    @classmethod
    def utcnow(cls):
        return _dt.datetime.fromtimestamp(cls.loop.wall(), _dt.timezone.utc).replace(tzinfo=None)


def _time_modules():
    import msmart.cloud
    import msmart.lan
    return [msmart.lan, msmart.cloud]


@contextlib.contextmanager
def patch_time(loop):
    """`with patch_time(loop):` msmart.lan / msmart.cloud read the loop's virtual wall clock."""
    mods = _time_modules()
    saved = [m.datetime for m in mods], FakeDT.loop
    FakeDT.loop = loop
    for m in mods:
        m.datetime = FakeDT
    try:
        yield FakeDT
    finally:
        for m, d in zip(mods, saved[0]):
            m.datetime = d
        FakeDT.loop = saved[1]


# ------------------------------------------------------------------------------------------------
# TCP

class FakeTransport(asyncio.Transport):
    """Client side of a simulated TCP connection to `peer`."""

    def __init__(self, loop, protocol, peer, peername, cid, sockname=("10.0.0.1", 50000)):
        super().__init__()
        self.loop = loop
        self.protocol = protocol
        self.peer = peer
        self.peername = peername
        self.sockname = sockname
        self.cid = cid
        self.closing = False         # set at once by close()/peer close
        self.closed_by = None        # "client" | "peer"
        self.lost = False            # connection_lost delivered
        self.t_open = loop.now()
        self.t_close = None
        self.written = []            # (t, bytes) of every client write
        self.dropped_writes = 0      # writes attempted after close

    # -- client API ------------------------------------------------------------------------------
    def get_extra_info(self, name, default=None):
        if name == "peername":
            return self.peername
        if name == "sockname":
            return self.sockname
        return default

    def is_closing(self):
        return self.closing

    def get_protocol(self):
        return self.protocol

    def set_protocol(self, protocol):
        self.protocol = protocol

    def write(self, data):
        data = bytes(data)
        if self.closing:
            self.dropped_writes += 1
            return
        self.written.append((self.loop.now(), data))
        self.peer.on_write(self, data)

    def can_write_eof(self):
        return False

    def close(self):
        if self.closing:
            return
        self._set_closing("client")
        self.loop.call_soon(self._lost, None)
        cb = getattr(self.peer, "on_client_close", None)
        if cb:
            cb(self)

    def abort(self):
        self.close()

    # -- peer API --------------------------------------------------------------------------------
    def deliver(self, delay, data):
        """protocol.data_received(data) after `delay` virtual seconds unless closed by then"""
        data = bytes(data)

        def fire():
            if not self.closing:
                self.protocol.data_received(data)
        return self.loop.call_later(delay, fire)

    def deliver_segments(self, delay, segments, gap=0.0):
        """Each segment is its own data_received call, in order, `gap` seconds apart. With gap 0 all
        fire at the same instant (same loop iteration, before any task woken by the first one runs);
        use a small gap such as 1e-3 to let the reader run between segments."""
        return [self.deliver(delay + i * gap, seg) for i, seg in enumerate(segments)]

    def peer_close(self, delay=0.0, exc=None):
        """the peer closes (exc=None, clean EOF) or resets (exc=ConnectionResetError()) after delay"""
        def fire():
            if not self.closing:
                self._set_closing("peer")
                self._lost(exc)
        return self.loop.call_later(delay, fire)

    # -- internals -------------------------------------------------------------------------------
    def _set_closing(self, who):
        self.closing = True
        self.closed_by = who
        self.t_close = self.loop.now()

    def _lost(self, exc):
        if not self.lost:
            self.lost = True
            self.protocol.connection_lost(exc)

    def __repr__(self):
        return f"<FakeTransport cid={self.cid} {self.peername} closing={self.closing}>"


# ------------------------------------------------------------------------------------------------
# UDP

class FakeSocket:
    """what get_extra_info('socket') returns for a fake datagram transport"""

    def __init__(self, transport):
        self._transport = transport
        self.options = []

    def setsockopt(self, *args):
        self.options.append(args)

    def sendto(self, data, addr):
        self._transport.sendto(data, addr)

    def getsockname(self):
        return self._transport.local_addr

    def close(self):
        self._transport.close()


class FakeDatagramTransport(asyncio.DatagramTransport):
    def __init__(self, loop, protocol, net, local_addr):
        super().__init__()
        self.loop = loop
        self.protocol = protocol
        self.net = net
        self.local_addr = local_addr or ("0.0.0.0", 0)
        self.closing = False
        self.sock = FakeSocket(self)
        self.sent = []               # (t, data, addr)

    def get_extra_info(self, name, default=None):
        if name == "socket":
            return self.sock
        if name == "sockname":
            return self.local_addr
        return default

    def is_closing(self):
        return self.closing

    def sendto(self, data, addr=None):
        if self.closing:
            return
        data = bytes(data)
        rec = (self.loop.now(), data, addr)
        self.sent.append(rec)
        self.net.datagrams_sent.append(rec)
        for fn in list(self.net.udp_responders):
            fn(self.net, data, addr, self.reply)

    def reply(self, delay, data, src):
        """protocol.datagram_received(data, src) after `delay` unless the endpoint is closed by then"""
        data = bytes(data)

        def fire():
            if not self.closing:
                self.protocol.datagram_received(data, src)
        return self.loop.call_later(delay, fire)

    def close(self):
        if not self.closing:
            self.closing = True
            self.loop.call_soon(self.protocol.connection_lost, None)

    def abort(self):
        self.close()


# ------------------------------------------------------------------------------------------------
# network

class Net:
    """Simulated network bound to one VLoop (installs itself as the loop's factories)."""

    MODES = ("ok", "refuse", "hang")

    def __init__(self, loop):
        self.loop = loop
        self.tcp = {}                # (host, port) -> {"peer", "connect", "connect_delay"}
        self.connect_script = {}     # (host, port) -> [mode | (mode, delay), ...] consumed per attempt
        self.connections = []        # every FakeTransport ever created
        self.connect_attempts = []   # (t, host, port, outcome)
        self.udp_responders = []
        self.udp_endpoints = []      # every FakeDatagramTransport ever created
        self.datagrams_sent = []     # (t, data, addr)
        loop.conn_factory = self._connect
        loop.dgram_factory = self._datagram_endpoint
        loop.net = self

    # -- configuration ---------------------------------------------------------------------------
    def add_tcp(self, host, port, peer, connect="ok", connect_delay=0.0):
        assert connect in self.MODES
        self.tcp[(host, port)] = {"peer": peer, "connect": connect, "connect_delay": connect_delay}
        return peer

    def set_connect(self, host, port, connect, connect_delay=None):
        assert connect in self.MODES
        ep = self.tcp[(host, port)]
        ep["connect"] = connect
        if connect_delay is not None:
            ep["connect_delay"] = connect_delay

    def add_udp_responder(self, fn):
        """fn(net, data, addr, reply) is called for every datagram sent; reply(delay, data, (ip, port))"""
        self.udp_responders.append(fn)
        return fn

    # -- factories -------------------------------------------------------------------------------
    async def _connect(self, protocol_factory, host, port, **kw):
        loop = self.loop
        ep = self.tcp.get((host, port))
        mode, delay = ("refuse", 0.0) if ep is None else (ep["connect"], ep["connect_delay"])
        script = self.connect_script.get((host, port))
        if script:
            step = script.pop(0)
            mode, delay = step if isinstance(step, tuple) else (step, delay)
        if ep is None:
            mode = "refuse"
        self.connect_attempts.append((loop.now(), host, port, mode))
        if mode == "hang":
            await loop.create_future()          # only a cancellation (wait_for timeout) ends this
        if delay:
            await asyncio.sleep(delay)
        if mode == "refuse":
            raise ConnectionRefusedError(111, f"Connect call failed ({host!r}, {port})")
        protocol = protocol_factory()
        transport = FakeTransport(loop, protocol, ep["peer"], (host, port), len(self.connections) + 1)
        self.connections.append(transport)
        cb = getattr(ep["peer"], "on_connect", None)
        if cb:
            cb(transport)
        protocol.connection_made(transport)
        return transport, protocol

    async def _datagram_endpoint(self, protocol_factory, local_addr=None, **kw):
        protocol = protocol_factory()
        transport = FakeDatagramTransport(self.loop, protocol, self, local_addr)
        self.udp_endpoints.append(transport)
        protocol.connection_made(transport)
        return transport, protocol

    # -- convenience -----------------------------------------------------------------------------
    def connection(self, cid):
        return self.connections[cid - 1]


# ------------------------------------------------------------------------------------------------
# runners

def _reset_msmart_globals():
    from msmart.discover import Discover
    Discover._lock = None            # class-level asyncio.Lock is bound to the loop that created it


def _finish(loop):
    """cancel what is left (like asyncio.run) and close"""
    try:
        tasks = [t for t in asyncio.all_tasks(loop) if not t.done()]
        for t in tasks:
            t.cancel()
        if tasks:
            loop.run_until_complete(asyncio.gather(*tasks, return_exceptions=True))
    finally:
        asyncio.set_event_loop(None)
        loop.close()


def _run(coro_fn, setup):
    loop = VLoop()
    net = Net(loop)
    asyncio.set_event_loop(loop)
    _reset_msmart_globals()
    with patch_time(loop):
        try:
            if setup:
                setup(loop, net)
            return loop.run_until_complete(coro_fn(loop, net)), loop
        except BaseException as e:
            e._vloop_elapsed = loop.now()
            raise
        finally:
            _finish(loop)
            _reset_msmart_globals()


def run(coro_fn, setup=None):
    """Run `await coro_fn(loop, net)` on a fresh VLoop/Net with msmart's clock patched. Returns the
    result; exceptions propagate."""
    return _run(coro_fn, setup)[0]


def run_timed(coro_fn, setup=None):
    """Like run() but returns (result_or_exception, virtual seconds elapsed); never raises except for
    KeyboardInterrupt."""
    try:
        res, loop = _run(coro_fn, setup)
        return res, loop.now()
    except KeyboardInterrupt:
        raise
    except BaseException as e:       # includes SystemExit, CancelledError, VLoopDeadlock
        return e, getattr(e, "_vloop_elapsed", None)


class VPolicy(asyncio.DefaultEventLoopPolicy):
    """Every new_event_loop() (hence every asyncio.run()) gets a VLoop with a configured Net."""

    def __init__(self, setup_fn=None):
        super().__init__()
        self.setup_fn = setup_fn
        self.loops = []              # [(loop, net)] in creation order

    def new_event_loop(self):
        loop = VLoop()
        net = Net(loop)
        FakeDT.loop = loop
        _reset_msmart_globals()
        if self.setup_fn:
            self.setup_fn(loop, net)
        self.loops.append((loop, net))
        return loop

    @property
    def last(self):
        return self.loops[-1] if self.loops else None


_policy_state = None


def install_policy(setup_fn=None):
    """Make asyncio.run()/new_event_loop() produce VLoops; setup_fn(loop, net) configures each. Also
    patches msmart's clock until uninstall_policy(). Returns the policy (see .loops / .last)."""
    global _policy_state
    if _policy_state is not None:
        uninstall_policy()
    mods = _time_modules()
    _policy_state = (asyncio.get_event_loop_policy(), [m.datetime for m in mods], FakeDT.loop)
    for m in mods:
        m.datetime = FakeDT
    policy = VPolicy(setup_fn)
    asyncio.set_event_loop_policy(policy)
    return policy


def uninstall_policy():
    global _policy_state
    if _policy_state is None:
        return
    old_policy, old_dts, old_loop = _policy_state
    _policy_state = None
    asyncio.set_event_loop_policy(old_policy)
    for m, d in zip(_time_modules(), old_dts):
        m.datetime = d
    FakeDT.loop = old_loop
    _reset_msmart_globals()
