#!/venv/bin/python
"""Differential test of the Lean crypto primitives (exe `cryptotest`) against
hashlib / pycryptodome.  Run: /venv/bin/python difftest.py [path-to-exe] [seed]"""
import hashlib, os, random, subprocess, sys, time
from Crypto.Cipher import AES
from Crypto.Util.Padding import pad, unpad

EXE = sys.argv[1] if len(sys.argv) > 1 else os.path.join(os.path.dirname(os.path.abspath(__file__)), ".lake/build/bin/cryptotest")
rng = random.Random(int(sys.argv[2]) if len(sys.argv) > 2 else 20260929)

def hx(b): return b.hex() if b else "-"
def rb(n): return bytes(rng.randrange(256) for _ in range(n))

cases = []  # (line, expected)
def add(op, expected, *args): cases.append((op + " " + " ".join(hx(a) for a in args), expected))

# hashes: every length 0..300, twice (random content + structured content)
for n in range(301):
    for m in (rb(n), bytes([n & 0xff]) * n):
        add("sha256", hx(hashlib.sha256(m).digest()), m)
        add("md5", hx(hashlib.md5(m).digest()), m)

# ciphers: 16- and 32-byte keys, data lengths 0,16,..,320
ZIV = bytes(16)
for klen in (16, 32):
    for nblk in range(0, 21):
        for _ in range(3):
            k, d = rb(klen), rb(16 * nblk)
            add("ecbenc", hx(AES.new(k, AES.MODE_ECB).encrypt(d)), k, d)
            add("ecbdec", hx(AES.new(k, AES.MODE_ECB).decrypt(d)), k, d)
            add("cbcenc", hx(AES.new(k, AES.MODE_CBC, ZIV).encrypt(d)), k, d)
            add("cbcdec", hx(AES.new(k, AES.MODE_CBC, ZIV).decrypt(d)), k, d)

# padding
def py_unpad(d):
    try: return hx(unpad(d, 16))
    except ValueError: return "none"
for n in range(0, 100):
    d = rb(n)
    add("pad", hx(pad(d, 16)), d)
    add("unpad", py_unpad(pad(d, 16)), pad(d, 16))        # good padding
    add("unpad", py_unpad(d), d)                          # random, mostly unaligned
unp = [b"", bytes(16), bytes([16]) * 16, bytes([17]) * 16, bytes([16]) * 32, bytes([1]), bytes([1]) * 15,
       bytes([0xff]) * 16, bytes(15) + b"\x01", bytes(15) + b"\x00", bytes(14) + b"\x02\x02", bytes(14) + b"\x01\x02",
       bytes([32]) * 32, bytes([17]) * 32, bytes([16]) * 15 + b"\x10", b"\x0f" + bytes([16]) * 15]
for p in range(0, 20):                                    # every pad byte value 0..19 on aligned data
    for n in (16, 32, 48):
        unp.append(bytes([p]) * n)                        # all equal to p
        unp.append(rb(n - 1) + bytes([p]))                # only last byte p
        if 1 <= p <= n:
            good = rb(n - p) + bytes([p]) * p
            unp.append(good)
            if p >= 2:
                i = n - 1 - rng.randrange(1, p)           # corrupt one padding byte (not the last)
                unp.append(good[:i] + bytes([good[i] ^ (1 << rng.randrange(8))]) + good[i + 1:])
for _ in range(200):                                      # random aligned data with small last byte
    n = 16 * rng.randrange(1, 5)
    unp.append(rb(n - 2) + bytes([rng.randrange(0, 4), rng.randrange(0, 4)]))
for d in unp: add("unpad", py_unpad(d), d)

inp = "\n".join(c[0] for c in cases) + "\n"
t0 = time.time()
res = subprocess.run([EXE], input=inp, capture_output=True, text=True)
dt = time.time() - t0
got = res.stdout.split("\n")
if got and got[-1] == "": got.pop()
if res.returncode != 0 or len(got) != len(cases):
    print("exe failed: rc=%d, %d output lines for %d cases\n%s" % (res.returncode, len(got), len(cases), res.stderr[:2000]))
    sys.exit(2)
bad = 0; per = {}
for (line, exp), g in zip(cases, got):
    op = line.split()[0]; per.setdefault(op, [0, 0]); per[op][0] += 1
    if exp != g:
        bad += 1; per[op][1] += 1
        if bad <= 10: print("MISMATCH %s\n  expected %s\n  got      %s" % (line[:200], exp[:200], g[:200]))
nnone = sum(1 for c in cases if c[1] == "none")
print("cases: %d, mismatches: %d, exe time: %.2fs (unpad cases expecting none: %d)" % (len(cases), bad, dt, nnone))
print("per op (total, bad):", {k: tuple(v) for k, v in sorted(per.items())})
sys.exit(1 if bad else 0)
