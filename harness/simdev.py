"""A simulated Midea LAN device: an independent second implementation of the V2 / V3 wire formats
(pycryptodome + hashlib only, nothing from msmart.lan) plus a scriptable `SimDevice` peer for
`vloop.Net`.

Wire formats
  V2 packet   5A5A 0111 <len LE16> 2000 <msgid 4> <timestamp 8> <device id LE 8> <12 zero>
              + AES-128-ECB(ENC_KEY, PKCS7(frame)) + MD5(all of the above + SIGN_KEY)
  V3 packet   8370 <size BE16> 20 <pad<<4 | type> + body
              types: 0 handshake request, 1 handshake response, 3 encrypted response,
                     6 encrypted request, 0xF error
              handshake request : size = len(token);  body = counter BE16 + token (clear)
              handshake response: size = 64;          body = counter BE16 + AES-256-CBC(key, iv 0)(nonce) + SHA256(nonce)
              encrypted         : plaintext = counter BE16 + data + pad bytes, pad = (16 - (len(data)+2) % 16) % 16,
                                  size = len(data) + pad + 32, body = AES-256-CBC(session key, iv 0)(plaintext)
                                  + SHA256(header + plaintext);  session key = nonce XOR key
"""
import os
from hashlib import md5, sha256

from Crypto.Cipher import AES

SIGN_KEY = b"xhdiwjnchekd4d512chdjx5d8e4c394D2D7S"
ENC_KEY = md5(SIGN_KEY).digest()
ERROR_PACKET = bytes.fromhex("8370 0000 20 0f 0000")

HANDSHAKE_REQUEST, HANDSHAKE_RESPONSE, ENCRYPTED_RESPONSE, ENCRYPTED_REQUEST, ERROR = 0, 1, 3, 6, 0xF


# ------------------------------------------------------------------------------------------------
# primitives

def _xor(a, b):
    return bytes(x ^ y for x, y in zip(a, b))


def _pad(data):
    n = 16 - len(data) % 16
    return bytes(data) + bytes([n]) * n


def _unpad(data):
    if len(data) == 0 or len(data) % 16:
        raise ValueError("padded plaintext length %d is not a positive multiple of 16" % len(data))
    n = data[-1]
    if not 1 <= n <= 16 or data[-n:] != bytes([n]) * n:
        raise ValueError("bad PKCS7 padding")
    return data[:-n]


def _ecb(key):
    return AES.new(key, AES.MODE_ECB)


def _cbc(key):
    return AES.new(key, AES.MODE_CBC, iv=bytes(16))


# ------------------------------------------------------------------------------------------------
# V2

def v2_encode(device_id, frame, ts=bytes(8)):
    ct = _ecb(ENC_KEY).encrypt(_pad(frame))
    if len(ts) != 8:
        raise ValueError("timestamp must be 8 bytes")
    head = (b"\x5a\x5a\x01\x11" + (40 + len(ct) + 16).to_bytes(2, "little") + b"\x20\x00" + bytes(4)
            + bytes(ts) + device_id.to_bytes(8, "little") + bytes(12))
    return head + ct + md5(head + ct + SIGN_KEY).digest()


def v2_decode(packet):
    """-> (device_id, frame); ValueError(reason) on any inconsistency"""
    packet = bytes(packet)
    if len(packet) < 40 + 16 + 16:
        raise ValueError("packet too short (%d)" % len(packet))
    if packet[:2] != b"\x5a\x5a":
        raise ValueError("bad start of packet " + packet[:2].hex())
    length = int.from_bytes(packet[4:6], "little")
    if length != len(packet):
        raise ValueError("length field %d != packet length %d" % (length, len(packet)))
    if (len(packet) - 56) % 16:
        raise ValueError("ciphertext length %d not a multiple of 16" % (len(packet) - 56))
    if md5(packet[:-16] + SIGN_KEY).digest() != packet[-16:]:
        raise ValueError("bad MD5 signature")
    frame = _unpad(_ecb(ENC_KEY).decrypt(packet[40:-16]))
    return int.from_bytes(packet[20:28], "little"), frame


def v2_timestamp(packet):
    """the 8 timestamp bytes decoded as (year, month, day, hour, minute, second, centisecond)"""
    cs, s, mi, h, d, mo, y, c = packet[12:20]
    return (c * 100 + y, mo, d, h, mi, s, cs)


# ------------------------------------------------------------------------------------------------
# V3

def v3_header(size, pad, ptype):
    return b"\x83\x70" + size.to_bytes(2, "big") + b"\x20" + bytes([(pad << 4) | ptype])


def v3_parse_header(packet):
    """-> (size, pad, ptype); total packet length is size + 8"""
    if len(packet) < 6:
        raise ValueError("header too short")
    if bytes(packet[:2]) != b"\x83\x70":
        raise ValueError("bad start of packet " + bytes(packet[:2]).hex())
    if packet[4] != 0x20:
        raise ValueError("bad magic byte 0x%02x" % packet[4])
    return int.from_bytes(packet[2:4], "big"), packet[5] >> 4, packet[5] & 0xF


def v3_enc_encode(key, counter, data, ptype=ENCRYPTED_RESPONSE, pad_bytes=None):
    pad = (16 - (len(data) + 2) % 16) % 16
    if pad_bytes is None:
        pad_bytes = os.urandom(pad)
    if len(pad_bytes) != pad:
        raise ValueError("need exactly %d pad bytes" % pad)
    header = v3_header(len(data) + pad + 32, pad, ptype)
    plain = counter.to_bytes(2, "big") + bytes(data) + bytes(pad_bytes)
    return header + _cbc(key).encrypt(plain) + sha256(header + plain).digest()


def v3_enc_decode(key, packet):
    """-> (ptype, counter, data); ValueError(reason) on any inconsistency"""
    packet = bytes(packet)
    size, pad, ptype = v3_parse_header(packet)
    if len(packet) != size + 8:
        raise ValueError("size field %d inconsistent with packet length %d" % (size, len(packet)))
    if ptype not in (ENCRYPTED_RESPONSE, ENCRYPTED_REQUEST):
        raise ValueError("not an encrypted packet type: %d" % ptype)
    body = packet[6:-32]
    if len(body) < 16 or len(body) % 16:
        raise ValueError("ciphertext length %d not a positive multiple of 16" % len(body))
    plain = _cbc(key).decrypt(body)
    if sha256(packet[:6] + plain).digest() != packet[-32:]:
        raise ValueError("bad SHA256 tag")
    if pad > len(plain) - 2:
        raise ValueError("pad nibble %d exceeds payload" % pad)
    return ptype, int.from_bytes(plain[:2], "big"), plain[2:len(plain) - pad]


def v3_handshake_request(token, counter=0):
    return v3_header(len(token), 0, HANDSHAKE_REQUEST) + counter.to_bytes(2, "big") + bytes(token)


def v3_handshake_parse(packet):
    """-> (counter, token) of a handshake request"""
    size, pad, ptype = v3_parse_header(packet)
    if ptype != HANDSHAKE_REQUEST or pad != 0:
        raise ValueError("not a handshake request")
    if len(packet) != size + 8:
        raise ValueError("size field %d inconsistent with packet length %d" % (size, len(packet)))
    return int.from_bytes(packet[6:8], "big"), bytes(packet[8:])


def v3_handshake_reply(key, nonce, counter=0):
    if len(key) != 32 or len(nonce) != 32:
        raise ValueError("key and nonce must be 32 bytes")
    payload = _cbc(key).encrypt(nonce) + sha256(nonce).digest()
    return v3_header(len(payload), 0, HANDSHAKE_RESPONSE) + counter.to_bytes(2, "big") + payload


def v3_session_key(key, nonce):
    return _xor(nonce, key)


# ------------------------------------------------------------------------------------------------
# discovery

def discovery_reply(version, device_id, ip, port, sn, name):
    """UDP discovery reply as parsed by msmart.discover.Discover._get_device_info.
    body = ip (4 bytes, reversed) + port (LE32) + sn (32 ascii) + len(name) + name; the V2 reply is
    a V2-style packet (magic 7a80, id at bytes 20..28); the V3 reply wraps it in `8370 <len+16> 20 0f
    0000` and 16 trailing bytes."""
    sn = sn.encode() if isinstance(sn, str) else bytes(sn)
    name = name.encode() if isinstance(name, str) else bytes(name)
    if len(sn) != 32:
        raise ValueError("sn must be 32 bytes")
    body = (bytes(reversed([int(x) for x in ip.split(".")])) + port.to_bytes(4, "little") + sn
            + bytes([len(name)]) + name)
    ct = _ecb(ENC_KEY).encrypt(_pad(body))
    head = (b"\x5a\x5a\x01\x11" + (40 + len(ct) + 16).to_bytes(2, "little") + b"\x7a\x80" + bytes(12)
            + device_id.to_bytes(8, "little") + bytes(12))
    pkt = head + ct + md5(head + ct + SIGN_KEY).digest()
    if version == 2:
        return pkt
    if version == 3:
        return b"\x83\x70" + (len(pkt) + 16).to_bytes(2, "big") + b"\x20\x0f\x00\x00" + pkt + bytes(16)
    raise ValueError("version must be 2 or 3")


# ------------------------------------------------------------------------------------------------
# default responder

_CANNED = {}


def default_responder(frame):
    """One canned valid captured frame per request kind: 0x41/0x40 -> state (0xC0), 0xB5 -> capabilities,
    0xB1 -> properties, 0xB0 -> properties ack; anything else -> no answer."""
    if not _CANNED:
        import respgen
        for f in respgen.seeds():
            _CANNED.setdefault(f[10], f)
    if len(frame) < 11:
        return []
    want = {0x41: 0xC0, 0x40: 0xC0, 0xB5: 0xB5, 0xB1: 0xB1, 0xB0: 0xB0}.get(frame[10])
    return [_CANNED[want]] if want in _CANNED else []


# ------------------------------------------------------------------------------------------------
# the device

class SimDevice:
    """TCP peer for vloop.Net. Decodes everything it receives with its own keys into `log`, and answers
    each request according to `script` (one action per request, "ok" when exhausted).

    Actions: "ok" | ("ok", delay) | "silent" | "error" | ("error", delay) | "close" | ("close", delay)
      | ("raw", bytes[, delay]) | ("segments", cuts_or_segments[, delay[, gap]]) | ("frames", [frames][, delay])
      | ("prefix", garbage[, delay]) | "bad_hs" | ("custom", fn(device, transport, request_info))
    `cuts` = list of int offsets into the proper reply, or "bytewise"; a list of bytes objects is
    delivered literally as the segments. request_info is the log entry of the request.

    "ok" means "behave like a proper device": a handshake with a wrong token, or data that does not
    authenticate under the connection's session key, is answered with ERROR_PACKET (V3); an
    undecodable V2 packet is not answered.
    """

    def __init__(self, version=2, device_id=0x0E000000CA60, token=None, key=None, responder=None, delay=0.1):
        if version not in (2, 3):
            raise ValueError("version must be 2 or 3")
        if version == 3 and (key is None or len(key) != 32):
            raise ValueError("a V3 device needs a 32-byte key")
        self.version = version
        self.device_id = device_id
        self.token = token
        self.key = key
        self.responder = responder or default_responder
        self.delay = delay
        self.script = []
        self.log = []
        self.conns = {}              # cid -> {"transport", "session_key", "nonce", "rx_buffer", "requests", ...}
        self.nonce_source = lambda: os.urandom(32)
        self.reply_ts = bytes(8)     # timestamp bytes in the V2 packets the device sends
        self.sent = []               # (t, cid, bytes) everything scheduled for delivery to the client

    # -- peer interface --------------------------------------------------------------------------
    def on_connect(self, transport):
        self._conn(transport)

    def on_client_close(self, transport):
        self._conn(transport)["client_closed_at"] = transport.loop.now()

    def on_write(self, transport, data):
        conn = self._conn(transport)
        conn["rx_buffer"] += data
        while True:
            kind, packet = self._next_packet(conn["rx_buffer"])
            if kind is None:
                return
            if kind == "garbage":
                self._log(transport, kind="garbage", frame=None, raw=packet)
                continue
            self._handle(transport, conn, packet)

    # -- queries ---------------------------------------------------------------------------------
    def entries(self, kind=None, cid=None):
        return [e for e in self.log if (kind is None or e["kind"] == kind) and (cid is None or e["cid"] == cid)]

    def frames(self, cid=None):
        """AC frames of all successfully decoded requests"""
        return [e["frame"] for e in self.log if e.get("frame") is not None and (cid is None or e["cid"] == cid)]

    # -- pushing ---------------------------------------------------------------------------------
    def unsolicited(self, transport_or_cid, frames, delay=0.0, counter=0):
        """push frames (wrapped like a reply) without a request"""
        cid = transport_or_cid if isinstance(transport_or_cid, int) else transport_or_cid.cid
        conn = self.conns[cid]
        self._send(conn, delay, self.wrap(conn, counter, frames))

    def wrap(self, conn, counter, frames, session_key=None):
        """all frames as V2 packets (V3: each inside its own type-3 packet), coalesced"""
        out = b""
        for f in frames:
            pkt = v2_encode(self.device_id, f, self.reply_ts)
            if self.version == 3:
                sk = session_key or conn.get("session_key")
                if sk is None:
                    raise RuntimeError("connection %d has no session key" % conn["cid"])
                pkt = v3_enc_encode(sk, counter, pkt, ENCRYPTED_RESPONSE)
            out += pkt
        return out

    # -- internals -------------------------------------------------------------------------------
    def _conn(self, transport):
        c = self.conns.get(transport.cid)
        if c is None:
            c = self.conns[transport.cid] = {"cid": transport.cid, "transport": transport, "session_key": None,
                                             "nonce": None, "rx_buffer": bytearray(), "requests": 0,
                                             "handshakes": 0, "opened_at": transport.loop.now()}
        return c

    def _log(self, transport, **entry):
        e = {"t": transport.loop.now(), "cid": transport.cid}
        e.update(entry)
        self.log.append(e)
        return e

    def _next_packet(self, buf):
        """own stream reassembly: -> ("packet", bytes) | ("garbage", bytes) | (None, None); consumes buf"""
        if not buf:
            return None, None
        if self.version == 3:
            marker, min_total = b"\x83\x70", 8
        else:
            marker, min_total = b"\x5a\x5a", 56
        start = buf.find(marker)
        if start != 0:
            # keep a trailing first marker byte: the second one may still be on its way
            cut = start if start > 0 else (len(buf) - 1 if buf[-1] == marker[0] else len(buf))
            if cut == 0:
                return None, None
            junk = bytes(buf[:cut])
            del buf[:cut]
            return "garbage", junk
        if len(buf) < 6:
            return None, None
        total = int.from_bytes(buf[2:4], "big") + 8 if self.version == 3 else int.from_bytes(buf[4:6], "little")
        if total < min_total:
            junk = bytes(buf[:2])        # implausible length: skip this marker and resynchronise
            del buf[:2]
            return "garbage", junk
        if len(buf) < total:
            return None, None
        packet = bytes(buf[:total])
        del buf[:total]
        return "packet", packet

    def _handle(self, transport, conn, packet):
        conn["requests"] += 1
        if self.version == 2:
            try:
                dev_id, frame = v2_decode(packet)
                req = self._log(transport, kind="v2", decoded=True, frame=frame, device_id=dev_id, raw=packet)
            except ValueError as e:
                req = self._log(transport, kind="v2", decoded=False, frame=None, error=str(e), raw=packet)
            req["valid"] = req["decoded"]
            req["counter"] = 0
        else:
            req = self._handle_v3(transport, conn, packet)
            if req is None:
                return
        self._act(transport, conn, req)

    def _handle_v3(self, transport, conn, packet):
        try:
            _size, _pad, ptype = v3_parse_header(packet)
        except ValueError as e:
            self._log(transport, kind="garbage", frame=None, error=str(e), raw=packet)
            return None
        if ptype == HANDSHAKE_REQUEST:
            try:
                counter, token = v3_handshake_parse(packet)
            except ValueError as e:
                self._log(transport, kind="garbage", frame=None, error=str(e), raw=packet)
                return None
            ok = self.token is None or token == self.token
            conn["handshakes"] += 1
            conn.setdefault("hs_times", []).append(transport.loop.now())
            req = self._log(transport, kind="hs", counter=counter, token_ok=ok, token=token, frame=None, raw=packet)
            req["valid"] = ok
            return req
        if ptype == ENCRYPTED_REQUEST:
            req = self._log(transport, kind="data", counter=None, tag_ok=False, decoded=False, frame=None, raw=packet)
            req["valid"] = False
            if conn["session_key"] is None:
                req["error"] = "no session key on this connection"
                return req
            try:
                _t, counter, inner = v3_enc_decode(conn["session_key"], packet)
                req.update(counter=counter, tag_ok=True, inner=inner)
                dev_id, frame = v2_decode(inner)
                req.update(decoded=True, frame=frame, device_id=dev_id, valid=True)
            except ValueError as e:
                req["error"] = str(e)
                self.stale_key_explanation(conn, req, packet)
            return req
        self._log(transport, kind="garbage", frame=None, error="unexpected packet type %d" % ptype, raw=packet)
        return None

    def stale_key_explanation(self, conn, req, packet):
        """a data packet that does not verify under the connection's latest session key: does it verify under the key of an
        EARLIER handshake of this connection, and did that handshake's reply reach the client only after ANOTHER handshake
        request had been written (so no flush before that request could have removed it)?  Computed from the device's own
        record of keys, replies and delivery times."""
        hist = conn.get("key_history", [])
        for j, h in enumerate(hist[:-1]):
            try:
                _t, counter, inner = v3_enc_decode(h["key"], packet)
            except ValueError:
                continue
            # what the packet says under the key it WAS encrypted with (for the structural log only; the unit rejected it)
            req["alt"] = {"key": h["key"], "counter": counter}
            try:
                req["alt"]["frame"] = v2_decode(inner)[1]
            except ValueError:
                req["alt"]["frame"] = None
            arrival = next((t for (t, cid, data) in self.sent if cid == conn["cid"] and data == h["reply"]), None)
            req["verifies_under_handshake"] = j
            # in flight: some handshake request (valid token or not) reached the unit after this reply's own request and
            # before the reply reached the client
            req["stale_reply_in_flight"] = bool(arrival is not None and h["t_req"] is not None and any(
                h["t_req"] < t < arrival for t in conn.get("hs_times", [])))
            return

    def _send(self, conn, delay, data, segments=None, gap=0.0):
        tr = conn["transport"]
        self.sent.append((tr.loop.now() + delay, conn["cid"], bytes(data)))
        if segments is None:
            tr.deliver(delay, data)
        else:
            tr.deliver_segments(delay, segments, gap)

    def _proper_reply(self, conn, req, frames=None, wrong_key=False):
        """the bytes a well-behaved device would answer with (None: nothing)"""
        if req["kind"] == "hs":
            if not req["valid"]:
                # a handshake with a token the unit does not know: most units answer with an error packet, some stay silent
                return None if getattr(self, "silent_on_wrong_token", False) else ERROR_PACKET
            nonce = self.nonce_source()
            conn["nonce"] = nonce
            conn["session_key"] = v3_session_key(self.key, nonce)
            key = sha256(b"wrong" + self.key).digest() if wrong_key else self.key
            reply = v3_handshake_reply(key, nonce, req["counter"])
            # every session key this connection ever had, with the handshake request that produced it and the reply that
            # carries it (used only to EXPLAIN a data packet that fails under the latest key, see `stale_key_explanation`)
            conn.setdefault("key_history", []).append({"t_req": req.get("t"), "key": conn["session_key"], "reply": reply,
                                                       "genuine": not wrong_key})
            return reply
        if not req["valid"]:
            return ERROR_PACKET if self.version == 3 else None
        if frames is None:
            frames = self.responder(req["frame"])
        if not frames:
            return None
        sk = sha256(b"wrong" + conn["session_key"]).digest() if wrong_key and self.version == 3 else None
        return self.wrap(conn, req["counter"], frames, session_key=sk)

    def _act(self, transport, conn, req):
        action = self.script.pop(0) if self.script else "ok"
        name, args = (action, ()) if isinstance(action, str) else (action[0], tuple(action[1:]))
        req["action"] = name

        def arg(i, default):
            return args[i] if len(args) > i and args[i] is not None else default

        if name == "custom":
            return args[0](self, transport, req)
        if name == "silent":
            return None
        if name == "close":
            transport.peer_close(arg(0, 0.1))
            return None
        if name == "error":
            return self._send(conn, arg(0, self.delay), ERROR_PACKET)
        if name == "raw":
            return self._send(conn, arg(1, self.delay), args[0])
        if name == "ok":
            reply, delay = self._proper_reply(conn, req), arg(0, self.delay)
        elif name == "bad_hs":
            reply, delay = self._proper_reply(conn, req, wrong_key=True), arg(0, self.delay)
        elif name == "frames":
            reply, delay = self._proper_reply(conn, req, frames=list(args[0])), arg(1, self.delay)
        elif name == "prefix":
            reply, delay = self._proper_reply(conn, req), arg(1, self.delay)
            reply = bytes(args[0]) + (reply or b"")
        elif name == "segments":
            reply, delay = self._proper_reply(conn, req), arg(1, self.delay)
            if reply:
                return self._send(conn, delay, reply, self._split(reply, args[0]), arg(2, 0.0))
        else:
            raise ValueError("unknown script action %r" % (action,))
        if reply:
            self._send(conn, delay, reply)
        return None

    @staticmethod
    def _split(reply, cuts):
        if isinstance(cuts, str):
            if cuts != "bytewise":
                raise ValueError("cuts must be a list or 'bytewise'")
            cuts = range(1, len(reply))
        cuts = list(cuts)
        if cuts and all(isinstance(c, (bytes, bytearray)) for c in cuts):
            return [bytes(c) for c in cuts]
        pos = [0] + sorted({c for c in cuts if 0 < c < len(reply)}) + [len(reply)]
        return [reply[a:b] for a, b in zip(pos, pos[1:])]
