"""Histories of the real `LAN` object on the virtual-time loop against the independent simulated
device, recorded as (a) outcomes per operation, (b) the structural write log seen by the device,
(c) the peer's reactions per client write — and replayed on the Lean Session model."""
import asyncio

import simdev
import vloop
from common import hx
from msmart.lan import LAN, AuthenticationError, ProtocolError

IP, PORT = "1.2.3.4", 6444
STATE = bytes.fromhex("aa22ac00000000000303c0014566000000300010045cff2070000000000000008bed19")
PUSHED = bytes.fromhex("aa22ac00000000000305c001456600000030001004ffff2070000000000000008bed19")
FRAME = bytes.fromhex("aa21ac00000000000003418100ff03ff000200000000000000000000000003016971")[:0] or None


def ms(t):
    return int(round(t * 1000))


_PARAMS = None


def measure_params():
    """(read timeout, connect timeout, post-authentication sleep) in ms, MEASURED on the implementation on the virtual-time
    loop (a silent peer, a hanging connect, an answered handshake) - the model and the oracles are parametric in them, so a
    change of these tuning constants alone is not an alarm"""
    global _PARAMS
    if _PARAMS is not None:
        return _PARAMS
    out = {}
    token, key = bytes(range(64)), bytes(range(32))

    async def scenario(loop, net):
        # read timeout: spacing of the retransmissions to a silent V2 device
        dev2 = simdev.SimDevice(version=2, device_id=1)
        dev2.script = [("custom", lambda d, tr, req: None)] * 50
        net.add_tcp("9.9.9.2", 6444, dev2)
        lan = LAN("9.9.9.2", 6444, 1)
        try:
            await lan.send(b"\xaa\x00", retries=2)
        except Exception:  # noqa
            pass
        ts = [ms(e["t"]) for e in dev2.log]
        out["rt"] = ts[1] - ts[0] if len(ts) >= 2 else 2000
        # connect timeout: a hanging connect
        net.add_tcp("9.9.9.3", 6444, simdev.SimDevice(version=2, device_id=1))
        net.connect_script[("9.9.9.3", 6444)] = ["hang"]
        lan3 = LAN("9.9.9.3", 6444, 1)
        t0 = loop.now()
        try:
            await lan3.send(b"\xaa\x00", retries=1)
        except Exception:  # noqa
            pass
        out["ct"] = ms(loop.now() - t0)
        # post-authentication sleep: answered handshake (reply after 0.1 s)
        dev4 = simdev.SimDevice(version=3, device_id=1, token=token, key=key)
        net.add_tcp("9.9.9.4", 6444, dev4)
        lan4 = LAN("9.9.9.4", 6444, 1)
        t0 = loop.now()
        try:
            await lan4.authenticate(token, key)
        except Exception:  # noqa
            pass
        out["as"] = ms(loop.now() - t0) - 100
    try:
        vloop.run(scenario)
    except Exception:  # noqa
        pass
    rt, ct, as_ = out.get("rt", 2000), out.get("ct", 5000), out.get("as", 1000)
    if rt <= 200 or ct <= 0 or as_ < 0:
        rt, ct, as_ = 2000, 5000, 1000
    _PARAMS = (rt, ct, as_)
    return _PARAMS


class Recorder:
    """records every reaction of the peer, keyed by (cid, index of the client write that triggered it)"""

    def __init__(self):
        self.rx = []          # (cid, idx, delay_ms, 'close' | bytes)
        self.abs = []         # (cid, absolute arrival time in ms) of every peer event, to detect ties
        self._orig = None

    def install(self):
        rec = self
        FT = vloop.FakeTransport
        self._orig = (FT.deliver, FT.peer_close, FT.deliver_segments)
        o_deliver, o_close, o_segs = self._orig

        def deliver(tr, delay, data):
            rec.rx.append((tr.cid, len(tr.written) - 1, ms(delay), bytes(data)))
            rec.abs.append((tr.cid, ms(tr.loop.now()) + ms(delay)))
            return o_deliver(tr, delay, data)

        def peer_close(tr, delay=0.0, exc=None):
            rec.rx.append((tr.cid, len(tr.written) - 1, ms(delay), "close"))
            rec.abs.append((tr.cid, ms(tr.loop.now()) + ms(delay)))
            return o_close(tr, delay, exc)

        def deliver_segments(tr, delay, segments, gap=0.0):
            for i, sg in enumerate(segments):
                rec.rx.append((tr.cid, len(tr.written) - 1, ms(delay + i * gap), bytes(sg)))
                rec.abs.append((tr.cid, ms(tr.loop.now()) + ms(delay + i * gap)))
            return o_segs(tr, delay, segments, gap)
        FT.deliver, FT.peer_close, FT.deliver_segments = deliver, peer_close, deliver_segments

    def uninstall(self):
        FT = vloop.FakeTransport
        FT.deliver, FT.peer_close, FT.deliver_segments = self._orig


def canon_exc(e):
    if isinstance(e, AuthenticationError):
        return "fail:auth"
    if isinstance(e, ProtocolError):
        return "fail:protocol"
    if isinstance(e, (TimeoutError, asyncio.TimeoutError)):
        return "fail:timeout"
    if isinstance(e, asyncio.CancelledError):
        return "fail:cancelled"
    return "fail:py:" + type(e).__name__


class Director:
    """decides how the simulated device answers each request, by request kind, per operation"""

    def __init__(self, version):
        self.version = version
        self.hs_mode = "ok"
        self.data_mode = "ok"
        self.count = 0

    def set(self, hs_mode, data_mode):
        self.hs_mode, self.data_mode, self.count = hs_mode, data_mode, 0

    def __call__(self, d, tr, req):
        conn = d.conns[tr.cid]
        mode = self.hs_mode if req["kind"] == "hs" else self.data_mode
        self.count += 1
        if mode.startswith("silent") and mode != "silent":
            # silentN: the first N requests of this operation are not answered
            n = int(mode[6:])
            mode = "silent" if self.count <= n else "ok"
        if mode == "silent":
            return
        if mode == "ok" or mode == "late":
            reply = d._proper_reply(conn, req)
            if reply:
                d._send(conn, 0.1 if mode == "ok" else (measure_params()[0] + 137) / 1000, reply)
        elif mode == "okpush":
            # answered properly, and a different (unsolicited) frame is pushed later, while the connection is idle:
            # it is found in the receive queue by the NEXT exchange, which must return it before its own response
            reply = d._proper_reply(conn, req)
            if reply:
                d._send(conn, 0.1, reply)
                if req["kind"] != "hs":
                    d._send(conn, 0.637, d.wrap(conn, req.get("counter") or 0, [PUSHED]))
        elif mode == "bad":
            reply = d._proper_reply(conn, req, wrong_key=True)
            if reply:
                d._send(conn, 0.1, reply)
        elif mode == "error":
            d._send(conn, 0.1, simdev.ERROR_PACKET if d.version == 3 else b"\x5a\x5a" + bytes(60))
        elif mode == "garbage":
            if d.version == 3:
                d._send(conn, 0.1, b"\x83\x70\x00\x28\x20\x03" + bytes(range(42)))
            else:
                d._send(conn, 0.1, b"\x5a\x5a\x01\x11\x48\x00" + bytes(range(66)))
        elif mode == "close":
            tr.peer_close(0.1)
        elif mode == "reset":
            # the peer resets the connection: asyncio reports it with an exception (connection_lost(exc))
            tr.peer_close(0.1, ConnectionResetError(104, "Connection reset by peer"))
        elif mode == "verylate":
            # answered properly, but only after all retransmissions have timed out
            reply = d._proper_reply(conn, req)
            if reply:
                d._send(conn, (3 * measure_params()[0] + 1037) / 1000, reply)
        elif mode == "partial":
            # the beginning of a packet that announces 65,520 more bytes and never completes
            d._send(conn, 0.1, b"\x83\x70\xff\xf0\x20\x01" + bytes(range(10)))
        else:
            raise ValueError(mode)


def run_history(version, ops, behaviours, connects, token, key, device_id=77, responder=None):
    """ops: list of ('send', frame) | ('auth', token, key) | ('adv', ms) | ('life', ms|None)
    behaviours: script of SimDevice actions consumed one per request; connects: list of 'o'/'r'/'h'
    Returns dict(outcomes, log, rx, dev, net, times)."""
    dev = simdev.SimDevice(version=version if version == 3 else 2, device_id=device_id,
                           token=token if version == 3 else None, key=key if version == 3 else None,
                           responder=responder or (lambda f: [STATE]))
    director = Director(version)
    if behaviours == "director":
        dev.script = [("custom", director)] * 100000
    else:
        dev.script = list(behaviours)
    rec = Recorder()
    res = {"outcomes": [], "times": []}

    async def scenario(loop, net):
        net.add_tcp(IP, PORT, dev)
        net.connect_script[(IP, PORT)] = [{"o": "ok", "r": "refuse", "h": "hang"}[c] for c in connects]
        lan = LAN(IP, PORT, device_id)
        for op in ops:
            if behaviours == "director" and op[0] in ("send", "auth", "sendc", "authc"):
                director.set(*op[-2:])
            try:
                if op[0] in ("sendc", "authc"):
                    # the operation runs as a task that the caller cancels `ms` later (or collects, if done)
                    ms_ = op[2] if op[0] == "sendc" else op[3]
                    coro = lan.send(op[1]) if op[0] == "sendc" else lan.authenticate(op[1], op[2])
                    task = asyncio.ensure_future(coro)
                    await asyncio.sleep(ms_ / 1000)
                    res.setdefault("cancel_at", []).append(ms(loop.now()))
                    task.cancel()
                    try:
                        r = await task
                        res["outcomes"].append(("frames:" + ",".join(hx(f) for f in r)) if op[0] == "sendc" else "done")
                    except BaseException as e:  # noqa  (CancelledError is a BaseException)
                        res["outcomes"].append(canon_exc(e))
                    res["times"].append(ms(loop.now()))
                    continue
                if op[0] == "send":
                    r = await lan.send(op[1])
                    res["outcomes"].append("frames:" + ",".join(hx(f) for f in r))
                elif op[0] == "auth":
                    await lan.authenticate(op[1], op[2])
                    res["outcomes"].append("done")
                elif op[0] == "adv":
                    await asyncio.sleep(op[1] / 1000)
                    res["outcomes"].append("done")
                elif op[0] == "life":
                    lan.max_connection_lifetime = None if op[1] is None else op[1] // 1000
                    res["outcomes"].append("done")
            except Exception as e:  # noqa
                res["outcomes"].append(canon_exc(e))
            res["times"].append(ms(loop.now()))
        res["net"] = net
        res["lan"] = lan
    rec.install()
    try:
        vloop.run(scenario)
    except Exception as e:  # noqa
        res["outer_exc"] = type(e).__name__ + ": " + str(e)[:80]
    finally:
        rec.uninstall()
    res["rx"] = rec.rx
    # two peer events reaching one connection in the same millisecond: their order is asyncio's tie-break, which
    # the model does not (and need not) reproduce - such a history is not compared with the model
    res["tie"] = len(set(rec.abs)) != len(rec.abs)
    # ... nor one in which a peer event arrives in the very millisecond in which a read deadline (write + 2 s) falls
    deadlines = {(e["cid"], ms(e["t"]) + measure_params()[0]) for e in dev.log}
    if any(ct in deadlines for ct in rec.abs):
        res["tie"] = True
    # ... nor one in which the caller's cancellation falls in the very millisecond in which a peer event arrives
    if any(t in set(res.get("cancel_at", [])) for _cid, t in rec.abs):
        res["tie"] = True
    res["dev"] = dev
    res["log"] = device_log(res.get("net"), dev)
    return res


def run_stack(ops, connects, token, key, device_id=77, responder=None):
    """device-level histories on the real AirConditioner (V3): ('auth', token, key, hs, data) | ('refresh', hs, data)
    | ('adv', ms); returns outcomes, canonical device record, structural log, recorded reactions, message-id counter"""
    import devrun
    from msmart.device.AC.command import Command
    from msmart.device.AC.device import AirConditioner as AC
    dev = simdev.SimDevice(version=3, device_id=device_id, token=token, key=key, responder=responder or (lambda f: [STATE]))
    director = Director(3)
    dev.script = [("custom", director)] * 100000
    rec = Recorder()
    res = {"outcomes": [], "times": [], "counter": Command._message_id}

    async def scenario(loop, net):
        net.add_tcp(IP, PORT, dev)
        net.connect_script[(IP, PORT)] = [{"o": "ok", "r": "refuse", "h": "hang"}[c] for c in connects]
        ac = AC(ip=IP, port=PORT, device_id=device_id)
        for op in ops:
            if op[0] in ("auth", "refresh"):
                director.set(*op[-2:])
            try:
                if op[0] == "auth":
                    await ac.authenticate(op[1], op[2])
                    res["outcomes"].append("done")
                elif op[0] == "refresh":
                    await ac.refresh()
                    res["outcomes"].append("ok")
                elif op[0] == "adv":
                    await asyncio.sleep(op[1] / 1000)
                    res["outcomes"].append("done")
            except Exception as e:  # noqa
                res["outcomes"].append(canon_exc(e))
            res["times"].append(ms(loop.now()))
        res["net"] = net
        res["canon"] = devrun.canon_dev(ac)
    rec.install()
    try:
        vloop.run(scenario)
    except Exception as e:  # noqa
        res["outer_exc"] = type(e).__name__ + ": " + str(e)[:80]
    finally:
        rec.uninstall()
    res["rx"] = rec.rx
    res["tie"] = len(set(rec.abs)) != len(rec.abs)
    deadlines = {(e["cid"], ms(e["t"]) + measure_params()[0]) for e in dev.log}
    if any(ct in deadlines for ct in rec.abs):
        res["tie"] = True
    res["dev"] = dev
    res["log"] = device_log(res.get("net"), dev)
    return res


def stack_line(ops, rx, connects, counter, params=None):
    params = params or measure_params()
    def opstr(op):
        if op[0] == "auth":
            return "auth." + hx(op[1]) + "." + hx(op[2])
        if op[0] == "adv":
            return f"adv.{op[1]}"
        return "refresh"
    rxs = ";".join(f"{c}.{i}.{d}.{'close' if v == 'close' else hx(v)}" for c, i, d, v in rx)
    return (f"stackrun rt={params[0]} ct={params[1]} as={params[2]} connects={','.join(connects)} rx={rxs} "
            f"counter={counter} ops={'|'.join(opstr(o) for o in ops)}")


def hidden_events(res):
    """which events of the model's log cannot be observed from outside: acceptance / forgetting of a key, and a client-side
    close of a transport the peer has ALREADY closed (the arrival time of the peer's close is the time of the write it reacts
    to plus its delay; a client-side close before that is observable)"""
    per_cid = {}
    for e in res["dev"].log:
        per_cid.setdefault(e["cid"], []).append(ms(e["t"]))
    peer_close_at = {}
    for c, i, d, v in res["rx"]:
        if v == "close" and i < len(per_cid.get(c, [])):
            t = per_cid[c][i] + d
            peer_close_at[c] = min(t, peer_close_at.get(c, t))
        elif v == "close":
            peer_close_at.setdefault(c, 0)

    def hidden(ev):
        t, name = ev.split(":", 1)
        if name.startswith(("a", "f")):
            return True
        if name.startswith("x") and name[1:].isdigit() and int(name[1:]) in peer_close_at:
            return int(t) >= peer_close_at[int(name[1:])]
        return False
    return hidden


def compare_stack(ctx, stream, ops, connects, token, key, note=None):
    import simdev as sd
    orig_init = sd.SimDevice.__init__

    def init(self, *a, **kw):
        orig_init(self, *a, **kw)
        patch_session_keys(self)
    sd.SimDevice.__init__ = init
    try:
        res = run_stack(ops, connects, token, key)
    finally:
        sd.SimDevice.__init__ = orig_init
    inp = {"ops": [o[0] + (":" + "/".join(o[-2:]) if o[0] != "adv" else str(o[1])) for o in ops], "connects": connects, "note": note}
    if res.get("tie"):
        ctx.count("tie-not-compared:" + stream)
    if ctx.driver and not res.get("tie") and "canon" in res:
        line = stack_line(ops, res["rx"], connects, res["counter"])
        reply = ctx.driver.ask(line)
        out, rest = reply.split(" dev=", 1)
        mdev, rest = rest.split(" log=", 1)
        log, now = rest.rsplit(" now=", 1)
        mouts = out[4:].split(";") if out[4:] else []
        mevs = [e for e in log.split(";") if e]
        ilog = sort_log(res["log"])
        hidden = hidden_events(res)
        mlog = [e for e in mevs if not hidden(e)]
        mdev = mdev.replace("|", " ")
        import devrun as _dr
        canon_c, mdev = _dr.mask_unknown(res["canon"], mdev)
        res["canon"] = canon_c
        if mouts != res["outcomes"] or mlog != ilog or mdev != res["canon"]:
            first = next((i for i, (a, b) in enumerate(zip(mlog, ilog)) if a != b), min(len(mlog), len(ilog)))
            dd = [(a, b) for a, b in zip(mdev.split(" "), res["canon"].split(" ")) if a != b]
            ctx.disagree(stream, {**inp, "line": line[:3000]},
                         {"outcomes": res["outcomes"], "log_at": ilog[first:first + 3], "dev_diff": [b for a, b in dd][:6]},
                         {"outcomes": mouts, "log_at": mlog[first:first + 3], "dev_diff": [a for a, b in dd][:6]})
    return res, inp


def device_log(net, dev):
    """the structural log as the model prints it: connects, writes (decoded by the DEVICE with its own
    keys), client closes — merged by time (stable)"""
    evs = []
    if net is None:
        return evs
    for tr in net.connections:
        v3 = dev.version == 3
        evs.append((ms(tr.t_open), 0, f"c{tr.cid}v{3 if type(tr.protocol).__name__.endswith('V3') else 2}"))
        if tr.closed_by == "client":
            evs.append((ms(tr.t_close), 2, f"x{tr.cid}"))
    for e in dev.log:
        t = ms(e["t"])
        if e["kind"] == "hs":
            evs.append((t, 1, f"hs{e['cid']}.{e['counter']}.{hx(e['token'][:6])}"))
        elif e["kind"] == "data":
            key = e.get("_session_key_at_receipt")
            ctr, frame = e["counter"], e.get("frame")
            if e.get("alt") and not e.get("tag_ok"):
                # rejected by the unit, but it verifies under an EARLIER key of the connection: the log shows what the
                # client wrote (counter, key, frame), as the model's log does
                key, ctr, frame = e["alt"]["key"], e["alt"]["counter"], e["alt"]["frame"]
            evs.append((t, 1, f"d{e['cid']}.{ctr}.{hx((key or b'')[:6])}.{hx(frame) if frame else '?'}"))
        elif e["kind"] == "v2":
            evs.append((t, 1, f"v{e['cid']}.{hx(e['frame']) if e.get('frame') else '?'}"))
        else:
            evs.append((t, 1, f"garbage{e['cid']}"))
    # order: by time; at equal time a close of the old connection precedes the new connect, writes follow their connect
    return evs


def sort_log(evs):
    def keyf(x):
        t, kind, s = x
        return (t,)
    # stable merge preserving causality: model order at equal times is x (close) < c (connect) < writes
    order = {2: 0, 0: 1, 1: 2}
    return [f"{t}:{s}" for t, kind, s in sorted(evs, key=lambda x: (x[0], order[x[1]]))]


def model_line(ops, rx, connects, params=None):
    params = params or measure_params()
    def opstr(op):
        if op[0] == "send":
            return "send." + hx(op[1])
        if op[0] == "auth":
            return "auth." + hx(op[1]) + "." + hx(op[2])
        if op[0] == "sendc":
            return "sendc." + hx(op[1]) + "." + str(op[2])
        if op[0] == "authc":
            return "authc." + hx(op[1]) + "." + hx(op[2]) + "." + str(op[3])
        if op[0] == "adv":
            return f"adv.{op[1]}"
        return "life." + ("none" if op[1] is None else str(op[1]))
    rxs = ";".join(f"{c}.{i}.{d}.{'close' if v == 'close' else hx(v)}" for c, i, d, v in rx)
    return (f"session rt={params[0]} ct={params[1]} as={params[2]} connects={','.join(connects)} rx={rxs} "
            f"ops={'|'.join(opstr(o) for o in ops)}")


def parse_model(reply):
    out, rest = reply.split(" log=", 1)
    log, now = rest.rsplit(" now=", 1)
    outs = out[4:].split(";") if out[4:] else []
    evs = [e for e in log.split(";") if e]
    return outs, evs, int(now)


def patch_session_keys(dev):
    """remember, for every data entry, the device's session key of that connection at receipt time"""
    orig = dev._handle_v3

    def wrapped(transport, conn, packet):
        req = orig(transport, conn, packet)
        if req is not None and req.get("kind") == "data":
            req["_session_key_at_receipt"] = conn.get("session_key")
        return req
    dev._handle_v3 = wrapped


def compare(ctx, stream, version, ops, behaviours, connects, token, key, note=None):
    """run implementation and model; record disagreements; return the implementation's result"""
    # run with key capture
    import simdev as sd
    orig_init = sd.SimDevice.__init__

    def init(self, *a, **kw):
        orig_init(self, *a, **kw)
        patch_session_keys(self)
    sd.SimDevice.__init__ = init
    try:
        res = run_history(version, ops, behaviours, connects, token, key)
    finally:
        sd.SimDevice.__init__ = orig_init
    inp = {"version": version,
           "ops": [(o[0] + ":" + "/".join(str(x) for x in o[-2:]) + (f"@{o[2] if o[0] == 'sendc' else o[3]}" if o[0] in ("sendc", "authc") else ""))
                   if o[0] in ("send", "auth", "sendc", "authc") and behaviours == "director"
                   else (o[0] if o[0] != "adv" else f"adv{o[1]}") for o in ops],
           "connects": connects, "note": note}
    if res.get("tie"):
        ctx.count("tie-not-compared:" + stream)
    note_ = "measured timing parameters (read timeout, connect timeout, post-auth sleep) ms: %s" % (measure_params(),)
    if note_ not in ctx.notes:
        ctx.notes.append(note_)
    if ctx.driver and not res.get("tie"):
        line = model_line(ops, res["rx"], connects)
        mouts, mevs, mnow = parse_model(ctx.driver.ask(line))
        ilog = sort_log(res["log"])
        # acceptance events are not observable from outside: drop them from the model's log
        # (a client-side close of a transport the peer already closed is not observable either - but a client-side close
        #  that happens BEFORE the peer's close arrives is: the arrival time of the peer's close is the time of the write it
        #  reacts to plus its delay)
        # (nor is the forgetting of the old key at the start of a handshake)
        hidden = hidden_events(res)
        mlog = [e for e in mevs if not hidden(e)]
        if mouts != res["outcomes"] or mlog != ilog:
            first = next((i for i, (a, b) in enumerate(zip(mlog, ilog)) if a != b), min(len(mlog), len(ilog)))
            ctx.disagree(stream, {**inp, "line": line[:3000]},
                         {"outcomes": [o[:40] for o in res["outcomes"]], "log_at": ilog[first:first + 3], "n": len(ilog)},
                         {"outcomes": [o[:40] for o in mouts], "log_at": mlog[first:first + 3], "n": len(mlog)})
    return res, inp
