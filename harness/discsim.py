"""Running the real Discover.discover() on the simulated network; building device replies from
the Lean Spec through the driver."""
import ipaddress

import vloop
from common import hx
from msmart.device.AC.device import AirConditioner as AC
from msmart.discover import Discover


def rb(rng, n):
    return bytes(rng.randrange(256) for _ in range(n))


def ascii_bytes(rng, n, alphabet=b"ABCDEFGHIJKLMNOPQRSTUVWXYZabcdefghijklmnopqrstuvwxyz0123456789-"):
    return bytes(rng.choice(alphabet) for _ in range(n))


def spec_reply(ctx, rng, version, device_id, reported_ip, port, sn, name, extra=b"", zero_fill=False):
    """zero_fill: every byte a device is free to choose (message id, timestamp, filler, V3 envelope) is zero, as units with
    an unset clock send them - two different units then differ ONLY in what identifies them"""
    iprev = bytes(reversed(ipaddress.IPv4Address(reported_ip).packed))
    if zero_fill:
        line = (f"spec_discover_reply version={version} iprev={hx(iprev)} port={port} sn={hx(sn)} name={hx(name)} "
                f"extra={hx(extra)} pre={hx(b'\x5a\x5a\x01\x11' + bytes(16))} id={device_id} mid={hx(bytes(14))} tail={hx(bytes(16))} "
                f"prefix={hx(b'\x83\x70' + bytes(6))} suffix={hx(bytes(16))}")
        return bytes.fromhex(ctx.driver.ask(line))
    pre = b"\x5a\x5a\x01\x11" + rb(rng, 16)
    line = (f"spec_discover_reply version={version} iprev={hx(iprev)} port={port} sn={hx(sn)} name={hx(name)} "
            f"extra={hx(extra)} pre={hx(pre)} id={device_id} mid={hx(rb(rng, 14))} tail={hx(rb(rng, 16))} "
            f"prefix={hx(b'\x83\x70' + rb(rng, 6))} suffix={hx(rb(rng, 16))}")
    return bytes.fromhex(ctx.driver.ask(line))


def run_discover(datagrams, target="255.255.255.255", single=False, timeout=1.0, auto_connect=False, **kw):
    """datagrams: list of (delay, src_ip, src_port, bytes) sent in answer to the probe on port 6445.
    Returns (result | exception, sent datagrams list)"""
    out = {}

    async def scenario(loop, net):
        answered = []

        def responder(net_, data, addr, reply):
            # a real V2/V3 device answers the probe it knows on port 6445 only, once per run here
            if addr[1] == 6445 and not answered:
                answered.append(True)
                out["probe"] = bytes(data)
                for delay, ip, sport, payload in datagrams:
                    reply(delay, payload, (ip, sport))
        net.add_udp_responder(responder)
        try:
            if single:
                r = await Discover.discover_single(target, timeout=timeout, auto_connect=auto_connect, **kw)
                out["result"] = [] if r is None else [r]
            else:
                out["result"] = await Discover.discover(target=target, timeout=timeout, auto_connect=auto_connect, **kw)
        except Exception as e:  # noqa
            out["exc"] = e
        out["sent"] = list(net.datagrams_sent)
    vloop.run(scenario)
    return out


def canon_device(d):
    return (f"port={d.port} id={d.id} sn={hx((d.sn or '').encode())} name={hx((d.name or '').encode())} "
            f"type={int(d.type)} version={d.version}")


def host_num(ip):
    return int(ipaddress.IPv4Address(ip))
