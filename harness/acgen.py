"""Generators and canonicalisers for the AC application layer (shared by several properties)."""
from msmart.device.AC import command as C
from msmart.device.AC.device import AirConditioner as AC

from common import hx

SETSTATE_FIELDS = [
    # (python attr, driver key, kind)
    ("beep_on", "beep", "bool"), ("power_on", "power", "bool"), ("operational_mode", "mode", "nat"),
    ("fan_speed", "fan", "int"), ("eco", "eco", "bool"), ("swing_mode", "swing", "nat"),
    ("turbo", "turbo", "bool"), ("fahrenheit", "fahr", "bool"), ("sleep", "sleep", "bool"),
    ("freeze_protection", "freeze", "bool"), ("follow_me", "follow", "bool"), ("purifier", "pur", "bool"),
    ("target_humidity", "hum", "nat"), ("aux_heat", "aux", "bool"), ("force_aux_heat", "faux", "bool"),
    ("independent_aux_heat", "iaux", "bool"),
]


def centi(t):
    """exact hundredths of a float temperature, or None when not exactly representable"""
    c = round(t * 100)
    if abs(t * 100 - c) < 1e-6:
        return c
    return None


def setstate_line(d):
    """d: dict of python attrs (+ target_temperature float) -> driver tokens"""
    toks = []
    for attr, key, kind in SETSTATE_FIELDS:
        v = d[attr]
        toks.append(f"{key}={int(v)}")
    toks.append(f"temp={centi(d['target_temperature'])}")
    return " ".join(toks)


def make_setstate(d):
    cmd = C.SetStateCommand()
    for k, v in d.items():
        setattr(cmd, k, v)
    return cmd


def random_setstate(rng, wild=False):
    half = rng.choice([x / 2 for x in range(26, 88)])
    if wild:
        temp = rng.choice([half, rng.randrange(-2000, 9000) / 100, 0.0, 16.99, 17.0, 30.99, 31.0, 12.0, 43.5, 44.0, -0.5, 100.25])
    else:
        temp = half
    return {
        "beep_on": rng.random() < 0.5, "power_on": rng.random() < 0.5,
        "target_temperature": temp,
        "operational_mode": rng.randrange(0, 16 if wild else 8),
        "fan_speed": rng.randrange(-3, 300) if (wild and rng.random() < 0.2) else rng.randrange(0, 256),
        "eco": rng.random() < 0.5, "swing_mode": rng.choice([0, 0xC, 0x3, 0xF, rng.randrange(0, 128 if wild else 16)]),
        "turbo": rng.random() < 0.5, "fahrenheit": rng.random() < 0.5, "sleep": rng.random() < 0.5,
        "freeze_protection": rng.random() < 0.5, "follow_me": rng.random() < 0.5,
        "purifier": rng.random() < 0.5, "target_humidity": rng.randrange(0, 300 if wild else 128),
        "aux_heat": rng.random() < 0.5, "force_aux_heat": rng.random() < 0.3,
        "independent_aux_heat": rng.random() < 0.5,
    }


def impl_tobytes(cmd):
    """real tobytes(): returns ('ok', hex) or ('err', 'py:Class')"""
    try:
        return "ok", hx(cmd.tobytes())
    except Exception as e:  # noqa
        return "err", "py:" + type(e).__name__


def model_cmd_reply(reply):
    """driver `cmd` reply -> (('ok', hex) | ('err', cls), counter)"""
    body, ctr = reply.rsplit(" counter=", 1)
    if body.startswith("err:"):
        return ("err", body[4:]), int(ctr)
    return ("ok", body), int(ctr)


# ------------------------------------------------------------------------------------------------
# canonical form of a real Response object, mirroring Driver/AC.lean `showResp`

def b01(b):
    return "1" if b else "0"


def tenths(x):
    if x is None:
        return "None"
    v = round(x * 10)
    if abs(x * 10 - v) < 1e-6:
        return str(v)
    return "inexact:" + repr(x)


def fixed(x, scale):
    v = round(x * scale)
    if abs(x * scale - v) < 1e-4:
        return str(v)
    return "inexact:" + repr(x)


def canon_response(r):
    if isinstance(r, C.StateResponse):
        return ("state power=%s temp=%s mode=%d fan=%d swing=%d turbo=%s eco=%s sleep=%s f=%s indoor=%s outdoor=%s "
                "filter=%s display=%s freeze=%s follow=%s pur=%s hum=%s aux=%s iaux=%s") % (
            b01(r.power_on), fixed(r.target_temperature, 100), r.operational_mode, r.fan_speed, r.swing_mode,
            b01(r.turbo), b01(r.eco), b01(r.sleep), b01(r.fahrenheit), tenths(r.indoor_temperature),
            tenths(r.outdoor_temperature), b01(r.filter_alert), b01(r.display_on),
            "None" if r.freeze_protection is None else b01(r.freeze_protection), b01(r.follow_me),
            b01(r.purifier), "None" if r.target_humidity is None else str(r.target_humidity),
            b01(r.aux_heat), b01(r.independent_aux_heat))
    if isinstance(r, C.CapabilitiesResponse):
        items = []
        for k, v in r.raw_capabilities.items():
            if isinstance(v, bool):
                items.append(f"{k}=b{b01(v)}")
            else:
                items.append(f"{k}=h{fixed(v, 2)}")
        return "caps add=%s {%s}" % (b01(r.additional_capabilities), ",".join(sorted(items)))
    if isinstance(r, C.PropertiesResponse):
        items = []
        for k, v in sorted(r._properties.items(), key=lambda kv: int(kv[0])):
            if isinstance(v, bool):
                items.append(f"{int(k)}=b{b01(v)}")
            else:
                items.append(f"{int(k)}=n{int(v)}")
        return "props id=%d {%s}" % (r.id, ",".join(items))
    if isinstance(r, C.EnergyUsageResponse):
        valid = r.total_energy is not None
        if valid:
            return "energy valid=1 tb=%s cb=%s pb=%s tn=%s cn=%s pn=%s" % (
                fixed(r.total_energy, 100), fixed(r.current_energy, 100), fixed(r.real_time_power, 10),
                fixed(r.total_energy_binary, 10), fixed(r.current_energy_binary, 10), fixed(r.real_time_power_binary, 10))
        return "energy valid=0"
    if isinstance(r, C.HumidityResponse):
        return "humidity h=%s" % ("None" if r.humidity is None else str(r.humidity))
    return "base id=%d payload=%s" % (r.id, hx(r.payload))


def canon_model_response(s):
    """normalise the model's reply for comparison (energy with valid=0 carries no numbers)"""
    if s.startswith("energy valid=0"):
        return "energy valid=0"
    return s


def impl_construct(frame):
    from msmart.frame import InvalidFrameException
    try:
        r = C.Response.construct(frame)
    except InvalidFrameException:
        return "err:invalid_frame", None
    except C.InvalidResponseException:
        return "err:invalid_response", None
    except Exception as e:  # noqa
        return "err:py:" + type(e).__name__, None
    return canon_response(r), r
