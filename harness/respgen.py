"""Device-side generation of AC response frames: captured seeds from the repo's tests, builders
with either check style, and grammar-aware mutation (truncate with checksums recomputed, set
count/size bytes, change ids)."""
import os
import re

import msmart.crc8 as crc8
from msmart.frame import Frame

REPO = os.environ.get("MSMART_REPO", "/repo")


def outer(frame_wo_checksum):
    return bytes(frame_wo_checksum) + bytes([(~sum(frame_wo_checksum[1:]) + 1) & 0xFF])


def spec_crc8(data):
    """bitwise CRC-8/MAXIM, independent of msmart.crc8"""
    c = 0
    for m in data:
        c ^= m
        for _ in range(8):
            c = (c >> 1) ^ 0x8C if c & 1 else c >> 1
    return c


def inner(body, style="crc"):
    if style == "crc":
        return spec_crc8(body)
    return (~sum(body) + 1) & 0xFF


def make_frame(body, frame_type=3, style="crc", proto=3, hdr=None):
    """body = payload from response id up to and including the trailing message-id byte"""
    body = bytes(body)
    n = len(body) + 1 + 10
    header = bytearray([0xAA, n & 0xFF, 0xAC, 0, 0, 0, 0, 0, proto, frame_type])
    if hdr:
        header[3:8] = hdr
    f = bytes(header) + body + bytes([inner(body, style)])
    return outer(f)


def refix(frame, style=None):
    """recompute length byte, inner check (same style as original when detectable) and checksum
    of a mutated frame whose last two bytes are check and checksum"""
    frame = bytearray(frame)
    if len(frame) < 12:
        return outer(frame[:-1]) if len(frame) >= 2 else bytes(frame)
    body = bytes(frame[10:-2])
    frame[1] = (len(frame) - 1) & 0xFF
    frame[-2] = inner(body, style or "crc")
    return outer(frame[:-1])


def seeds():
    """valid captured frames from the repo's tests (hex literals starting with aa..ac)"""
    out = []
    for rel in ("msmart/device/AC/test_command.py", "msmart/device/AC/test_device.py"):
        try:
            txt = open(os.path.join(REPO, rel)).read()
        except OSError:
            continue
        for m in re.finditer(r'"([0-9a-fA-F]{30,})"', txt):
            b = bytes.fromhex(m.group(1))
            if b[0] == 0xAA and len(b) == b[1] + 1 and b[2] == 0xAC:
                try:
                    with memoryview(b) as mv:
                        Frame.validate(mv)
                except Exception:
                    continue
                if b not in out:
                    out.append(b)
    return out


def style_of(frame):
    body = frame[10:-2]
    if spec_crc8(body) == frame[-2]:
        return "crc"
    if (~sum(body) + 1) & 0xFF == frame[-2]:
        return "sum"
    return "none"


def kind_of(frame):
    rid = frame[10]
    return {0xC0: "state", 0xB5: "caps", 0xB1: "props", 0xB0: "props_ack", 0xC1: "group"}.get(rid, "other")


def state_body(rng, length=None, **kw):
    """a 0xC0 body (without trailing check) of a given payload length >= 16 (incl. msg id byte)"""
    n = length if length is not None else rng.choice([16, 17, 19, 20, 21, 22, 23, 24, 25, 30])
    b = bytearray(rng.randrange(256) for _ in range(n))
    b[0] = 0xC0
    for k, v in kw.items():
        b[int(k[1:])] = v
    return bytes(b)


def caps_body(records, trailer=b"\x00\x00", count=None):
    """records: list of (id, bytes data) ; size byte = len(data)"""
    body = bytearray([0xB5, len(records) if count is None else count])
    for cid, data in records:
        body += bytes([cid & 0xFF, cid >> 8, len(data)]) + bytes(data)
    return bytes(body) + bytes(trailer)


def props_body(records, rid=0xB1, count=None, trailer=b"\x00"):
    """records: list of (id, result byte, bytes data)"""
    body = bytearray([rid, len(records) if count is None else count])
    for pid, res, data in records:
        body += bytes([pid & 0xFF, pid >> 8, res, len(data)]) + bytes(data)
    return bytes(body) + bytes(trailer)


def group_body(rng, group, length=None):
    n = length if length is not None else rng.choice([5, 8, 16, 19, 20, 21, 24])
    b = bytearray(rng.randrange(256) for _ in range(max(n, 4)))
    b[0] = 0xC1
    b[3] = (rng.randrange(16) << 4) | group
    return bytes(b[:max(n, 4)])
